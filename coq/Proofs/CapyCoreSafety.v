(* Type safety of CapyCore: a well-typed program never gets stuck; the only
   abnormal outcomes are the defined fault (index out of bounds), a machine trap
   (division by zero / MIN / -1) and fuel exhaustion.  Covers every construct the
   checker [well_typed] accepts, i.e. the whole syntax of CapyCore except generic
   code (comptime parameters), which the checker rejects. *)
From Capy Require Import Common.CapyCore.
From Coq Require Import List ZArith Lia Bool Arith.
Import ListNotations.

(* ------------------------------------------------------- equality tests *)
Lemma iwidth_eqb_eq a b : iwidth_eqb a b = true -> a = b.
Proof. destruct a, b; cbn; congruence. Qed.

Lemma ity_eqb_eq a b : ity_eqb a b = true -> a = b.
Proof.
  destruct a as [s w], b as [s' w']; unfold ity_eqb; cbn. intros H.
  apply andb_prop in H as [H1 H2]. apply eqb_prop in H1. apply iwidth_eqb_eq in H2. congruence.
Qed.

Fixpoint ty_eqb_eq (a b : ty) {struct a} : ty_eqb a b = true -> a = b.
Proof.
  destruct a, b; cbn [ty_eqb]; intros H; try discriminate.
  - apply ity_eqb_eq in H. congruence.
  - reflexivity.
  - reflexivity.
  - apply andb_prop in H as [H1 H2]. apply Nat.eqb_eq in H1. apply ty_eqb_eq in H2. congruence.
  - apply andb_prop in H as [H1 H2]. apply Nat.eqb_eq in H1. subst. f_equal.
    revert fs0 H2. induction fs as [|x r IH]; destruct fs0; cbn [list_eqb]; intros H2; try discriminate; auto.
    apply andb_prop in H2 as [Ha Hb]. f_equal.
    + apply ty_eqb_eq; exact Ha.
    + apply IH; exact Hb.
  - apply Nat.eqb_eq in H. congruence.
  - apply andb_prop in H as [H1 H2]. apply Nat.eqb_eq in H1. subst. f_equal.
    revert vs0 H2. induction vs as [|x r IH]; destruct vs0; cbn [list_eqb]; intros H2; try discriminate; auto.
    apply andb_prop in H2 as [Ha Hb]. f_equal.
    + apply ty_eqb_eq; exact Ha.
    + apply IH; exact Hb.
  - apply ty_eqb_eq in H. congruence.
  - apply andb_prop in H as [H1 H2]. apply ty_eqb_eq in H1. apply ty_eqb_eq in H2. congruence.
Qed.

Lemma oty_is_eq o t : oty_is o t = true -> o = Some t.
Proof. destruct o; cbn; intros H; [apply ty_eqb_eq in H; congruence | discriminate]. Qed.

(* ------------------------------------------------------------ value typing *)
Inductive has_ty : value -> ty -> Prop :=
| HT_int i z : has_ty (VInt i z) (TInt i)
| HT_bool b : has_ty (VBool b) TBool
| HT_unit : has_ty VUnit TVoid
| HT_arr vs n t : length vs = n -> Forall (fun v => has_ty v t) vs -> has_ty (VArr vs) (TArr n t)
| HT_struct id vs ts : Forall2 has_ty vs ts -> has_ty (VStruct vs) (TStruct id ts)
| HT_sum t ts k pt v : variants t = Some ts -> nth_error ts k = Some pt -> has_ty v pt -> has_ty (VSum k v) t.

Ltac inv_ty H :=
  inversion H; subst;
  try match goal with X : variants _ = Some _ |- _ => cbn in X; discriminate X end.

Definition bind_ok (g : nat * ty * bool) (b : binding) : Prop :=
  fst (fst g) = fst (fst b) /\ snd g = snd (fst b) /\ has_ty (snd b) (snd (fst g)).

Definition env_ok (G : vctx) (en : env) : Prop := Forall2 bind_ok G en.

Lemma lookup_ok G en x t m :
  env_ok G en -> vlookup G x = Some (t, m) -> exists v, lookup en x = Some (m, v) /\ has_ty v t.
Proof.
  induction 1 as [|g b G' en' Hb _ IH]; cbn; intros H; [discriminate|].
  destruct g as [[y t'] m'], b as [[y' m''] v]. destruct Hb as (E1 & E2 & E3); cbn in *. subst.
  destruct (Nat.eqb x y'); [inversion H; subst; eauto | auto].
Qed.

(* paths *)
Fixpoint path_ty (t : ty) (p : list sel) : option ty :=
  match p with
  | [] => Some t
  | SelF k :: r => match t with
                   | TStruct _ fs => match nth_error fs k with Some u => path_ty u r | None => None end
                   | _ => None end
  | SelI n :: r => match t with
                   | TArr len u => if Nat.ltb n len then path_ty u r else None
                   | _ => None end
  end.

Lemma path_ty_app t p q :
  path_ty t (p ++ q) = match path_ty t p with Some u => path_ty u q | None => None end.
Proof.
  revert t; induction p as [|s r IH]; intros t; simpl; auto.
  destruct s; destruct t; auto.
  - destruct (nth_error fs k); auto.
  - match goal with |- context [Nat.ltb ?a ?b] => destruct (Nat.ltb a b); auto end.
Qed.

Lemma Forall2_nth {A B} (P : A -> B -> Prop) l l' k b :
  Forall2 P l l' -> nth_error l' k = Some b -> exists a, nth_error l k = Some a /\ P a b.
Proof.
  intros H; revert k; induction H; intros [|k]; cbn; intros E; try discriminate.
  - inversion E; subst; eauto.
  - eauto.
Qed.

Lemma Forall_nth {A} (P : A -> Prop) l k :
  Forall P l -> (k < length l)%nat -> exists a, nth_error l k = Some a /\ P a.
Proof.
  intros H; revert k; induction H; intros [|k]; cbn; intros E; try lia; eauto.
  apply IHForall. lia.
Qed.

Lemma get_path_ty p : forall v t u,
  has_ty v t -> path_ty t p = Some u -> exists w, get_path v p = Some w /\ has_ty w u.
Proof.
  induction p as [|s r IH]; intros v t u Hv Hp; cbn [path_ty get_path] in *.
  - inversion Hp; subst; eauto.
  - destruct s.
    + destruct t; try discriminate. inv_ty Hv.
      destruct (nth_error fs k) eqn:E; try discriminate.
      destruct (Forall2_nth _ _ _ _ _ H1 E) as (a & Ea & Ha). rewrite Ea. eauto.
    + destruct t; try discriminate. inv_ty Hv.
      destruct (Nat.ltb n (length vs)) eqn:E; try discriminate. apply Nat.ltb_lt in E.
      destruct (Forall_nth _ _ _ H3 E) as (a & Ea & Ha). rewrite Ea. eauto.
Qed.

Lemma set_nth_Forall {A} (P : A -> Prop) f l k :
  Forall P l -> (k < length l)%nat -> (forall a, P a -> exists a', f a = Some a' /\ P a') ->
  exists l', set_nth l k f = Some l' /\ Forall P l' /\ length l' = length l.
Proof.
  intros H; revert k; induction H as [|a l Ha Hl IH]; intros [|k] Hk Hf; cbn in *; try lia.
  - destruct (Hf a Ha) as (a' & E & Pa'). rewrite E. eexists; repeat split; eauto.
  - destruct (IH k ltac:(lia) Hf) as (l' & E & Pl & Len). rewrite E. eexists; repeat split; eauto. cbn; lia.
Qed.

Lemma set_nth_Forall2 {A B} (P : A -> B -> Prop) f l l' k b :
  Forall2 P l l' -> nth_error l' k = Some b -> (forall a, P a b -> exists a', f a = Some a' /\ P a' b) ->
  exists l2, set_nth l k f = Some l2 /\ Forall2 P l2 l'.
Proof.
  intros H; revert k; induction H as [|a b' l l' Hab Hl IH]; intros [|k] Hk Hf; cbn in *; try discriminate.
  - inversion Hk; subst. destruct (Hf a Hab) as (a' & E & Pa'). rewrite E. eauto.
  - destruct (IH k Hk Hf) as (l2 & E & Pl). rewrite E. eauto.
Qed.

Lemma set_path_ty p : forall v t u nv,
  has_ty v t -> path_ty t p = Some u -> has_ty nv u ->
  exists v', set_path v p nv = Some v' /\ has_ty v' t.
Proof.
  induction p as [|s r IH]; intros v t u nv Hv Hp Hn; cbn [path_ty set_path] in *.
  - inversion Hp; subst; eauto.
  - destruct s.
    + destruct t; try discriminate. inv_ty Hv.
      destruct (nth_error fs k) eqn:E; try discriminate.
      destruct (set_nth_Forall2 has_ty (fun u0 => set_path u0 r nv) _ _ _ _ H1 E) as (l2 & E2 & F2).
      { intros a Ha. eapply IH; eauto. }
      rewrite E2. eexists; split; eauto. constructor; auto.
    + destruct t; try discriminate. inv_ty Hv.
      destruct (Nat.ltb n (length vs)) eqn:E; try discriminate. apply Nat.ltb_lt in E.
      destruct (set_nth_Forall (fun v => has_ty v t) (fun u0 => set_path u0 r nv) _ _ H3 E) as (l2 & E2 & F2 & Len).
      { intros a Ha. eapply IH; eauto. }
      rewrite E2. eexists; split; eauto. constructor; auto.
Qed.

Lemma update_ok G en x tx p u nv :
  env_ok G en -> vlookup G x = Some (tx, true) -> path_ty tx p = Some u -> has_ty nv u ->
  exists en', update en x p nv = Some en' /\ env_ok G en'.
Proof.
  induction 1 as [|g b G' en' Hb HF IH]; cbn; intros H Hp Hn; [discriminate|].
  destruct g as [[y t'] m'], b as [[y' m''] v]. destruct Hb as (E1 & E2 & E3); cbn in *. subst.
  destruct (Nat.eqb x y').
  - inversion H; subst.
    destruct (set_path_ty p v tx u nv E3 Hp Hn) as (v' & Ev & Hv'). rewrite Ev.
    eexists; split; eauto. constructor; auto. repeat split; auto.
  - destruct (IH H Hp Hn) as (en2 & E & Ok). rewrite E. eexists; split; eauto.
    constructor; auto. repeat split; auto.
Qed.

Lemma bind_params_ok ps : forall vs,
  Forall2 has_ty vs (map snd ps) ->
  exists en, bind_params ps vs = Some en /\ env_ok (map (fun p => (fst p, snd p, false)) ps) en.
Proof.
  induction ps as [|[x t] r IH]; intros vs H; inversion H; subst; cbn.
  - eexists; split; eauto. constructor.
  - destruct (IH _ H4) as (en & E & Ok). rewrite E. eexists; split; eauto.
    constructor; auto. repeat split; auto.
Qed.

Lemma Forall2_repeat vs t n :
  Forall2 has_ty vs (repeat t n) -> length vs = n /\ Forall (fun v => has_ty v t) vs.
Proof.
  revert vs; induction n; intros vs H; inversion H; subst; cbn; auto.
  destruct (IHn _ H4). split; [lia | auto].
Qed.

(* -------------------------------------------------------- result invariant *)
Definition ctl_ok (L : lctx) (ret t : ty) (c : ctl) : Prop :=
  match c with
  | CVal v => has_ty v t
  | CBrk l v => exists k u, llookup L l = Some (k, u) /\ has_ty v u
  | CCont l => exists u, llookup L l = Some (true, u)
  | CRet v => has_ty v ret
  end.

Definition res_ok (G : vctx) (L : lctx) (ret t : ty) (r : res) : Prop :=
  match r with
  | Res en _ c => env_ok G en /\ ctl_ok L ret t c
  | RStuck => False
  | _ => True
  end.

Definition is_val (r : res) : bool := match r with Res _ _ (CVal _) => true | _ => false end.

Lemma res_ok_abort G L ret t t' r : res_ok G L ret t r -> is_val r = false -> res_ok G L ret t' r.
Proof. destruct r as [en out [v|l v|l|v]| | | |]; cbn; auto; discriminate. Qed.

Definition is_let (e : expr) : bool := match e with ELet _ _ _ _ => true | EDefer _ => true | _ => false end.

Lemma check_stmts_nolet chk G s r k : is_let s = false ->
  check_stmts chk G (s :: r) k = match chk G s with Some _ => check_stmts chk G r k | None => None end.
Proof. destruct s; try discriminate; reflexivity. Qed.

Lemma eval_stmts_nolet ev en out s r tail : is_let s = false ->
  eval_stmts ev en out (s :: r) tail =
  match ev en out s with Res en1 out1 (CVal _) => eval_stmts ev en1 out1 r tail | x => x end.
Proof. destruct s; try discriminate; reflexivity. Qed.

Definition sound (fs : list fundef) (rec : evaluator) : Prop :=
  forall s L ret G e t en out,
    check fs L ret G e = Some t -> env_ok G en -> res_ok G L ret t (rec s en out e).

Section Lists.
  Variable fs : list fundef.
  Variable L : lctx.
  Variable ret : ty.
  Variable ev : env -> list event -> expr -> res.
  Hypothesis Hev : forall G e t en out,
      check fs L ret G e = Some t -> env_ok G en -> res_ok G L ret t (ev en out e).

  Lemma eval_list_sound G es : forall ts en out,
    check_args (check fs L ret) G es ts = true -> env_ok G en ->
    match eval_list ev en out es with
    | LOk en' _ vs => env_ok G en' /\ Forall2 has_ty vs ts
    | LAbort r => is_val r = false /\ forall t, res_ok G L ret t r
    end.
  Proof.
    induction es as [|e r IH]; intros ts en out Hc Hen; destruct ts as [|t ts]; cbn in *; try discriminate.
    - split; auto.
    - apply andb_prop in Hc as [H1 H2]. apply oty_is_eq in H1.
      pose proof (Hev G e t en out H1 Hen) as R.
      destruct (ev en out e) as [en1 out1 [v|l v|l|v]| | | |]; cbn in R;
        try (split; [reflexivity | intros t0; cbn; tauto]).
      destruct R as [Hen1 Hv].
      specialize (IH ts en1 out1 H2 Hen1).
      destruct (eval_list ev en1 out1 r) as [en2 out2 vs|r2]; [|exact IH].
      destruct IH; split; auto.
  Qed.

  Lemma eval_stmts_sound tail ss : forall G t en out,
    check_stmts (check fs L ret) G ss (fun G' => check fs L ret G' tail) = Some t -> env_ok G en ->
    res_ok G L ret t (eval_stmts ev en out ss tail).
  Proof.
    induction ss as [|s r IH]; intros G t en out Hc Hen.
    - cbn [check_stmts eval_stmts] in *. eapply Hev; eauto.
    - destruct (is_let s) eqn:Il.
      2:{ rewrite (check_stmts_nolet _ _ _ _ _ Il) in Hc. rewrite (eval_stmts_nolet _ _ _ _ _ _ Il).
          destruct (check fs L ret G s) as [ts|] eqn:Es; [|discriminate].
          pose proof (Hev G _ ts en out Es Hen) as R.
          destruct (ev en out s) as [en1 out1 [v|? v|?|v]| | | |]; cbn [res_ok ctl_ok] in R |- *;
            try tauto. destruct R as [Hen1 _]. eapply IH; eauto. }
      destruct s; try discriminate; cbn [check_stmts eval_stmts] in *.
      2:{ (* EDefer *)
          destruct (check fs L ret G s) as [td|] eqn:Ed; [|discriminate].
          specialize (IH _ _ en out Hc Hen).
          destruct (eval_stmts ev en out r tail) as [en1 out1 c| | | |]; cbn [res_ok] in IH |- *; auto.
          destruct IH as [Hen1 Hc1].
          pose proof (Hev G s td en1 out1 Ed Hen1) as R.
          destruct (ev en1 out1 s) as [en2 out2 [v|? v|?|v]| | | |]; cbn [res_ok ctl_ok] in R |- *; tauto. }
      (* ELet *)
      destruct (closed t0 && oty_is (check fs L ret G s) t0) eqn:Ec; [|discriminate].
      apply andb_prop in Ec as [_ Ec]. apply oty_is_eq in Ec.
      pose proof (Hev G s t0 en out Ec Hen) as R.
      destruct (ev en out s) as [en1 out1 [v|l v|l|v]| | | |]; cbn in R |- *; try tauto.
      destruct R as [Hen1 Hv].
      assert (Hen' : env_ok ((x, t0, m) :: G) ((x, m, v) :: en1)).
      { constructor; auto. repeat split; auto. }
      specialize (IH _ _ _ out1 Hc Hen').
      destruct (eval_stmts ev ((x, m, v) :: en1) out1 r tail) as [en2 out2 c| | | |]; cbn in IH |- *; auto.
      destruct IH as [Hen2 Hc2]. inversion Hen2; subst. cbn. split; auto.
  Qed.

  Lemma eval_place_sound lhs : forall G x t en out,
    place_root lhs = Some x -> check fs L ret G lhs = Some t -> env_ok G en ->
    match eval_place ev en out lhs with
    | POk en1 _ x' p => x' = x /\ env_ok G en1 /\
                        exists tx m, vlookup G x = Some (tx, m) /\ path_ty tx p = Some t
    | PAbort r => is_val r = false /\ forall t', res_ok G L ret t' r
    end.
  Proof.
    induction lhs; intros G x0 t0 en out Hr Hc Hen; cbn [place_root] in Hr; try discriminate;
      cbn [check eval_place] in *.
    - (* EVar *)
      inversion Hr; subst. destruct (vlookup G x0) as [[tx m]|] eqn:E; [|discriminate].
      inversion Hc; subst. repeat split; auto. exists t0, m. split; auto.
    - (* EIndex *)
      destruct (check fs L ret G lhs1) as [ta|] eqn:Ea; [|discriminate].
      destruct ta; try discriminate.
      destruct (check fs L ret G lhs2) as [ti|] eqn:Ei; [|discriminate].
      destruct ti; try discriminate.
      destruct (ity_eqb i usize) eqn:Eu; [|discriminate]. inversion Hc; subst.
      specialize (IHlhs1 G x0 _ en out Hr Ea Hen).
      destruct (eval_place ev en out lhs1) as [en1 out1 x' p|r]; [|exact IHlhs1].
      destruct IHlhs1 as (-> & Hen1 & tx & m & Hl & Hp).
      pose proof (Hev G lhs2 _ en1 out1 Ei Hen1) as R.
      destruct (ev en1 out1 lhs2) as [en2 out2 [v|l v|l|v]| | | |]; cbn in R;
        try (split; [reflexivity | intros t'; cbn; tauto]).
      destruct R as [Hen2 Hv]. inv_ty Hv.
      destruct (lookup_ok _ _ _ _ _ Hen2 Hl) as (v0 & El & Hv0). rewrite El.
      destruct (get_path_ty p v0 tx _ Hv0 Hp) as (w & Eg & Hw). rewrite Eg.
      inv_ty Hw.
      destruct ((0 <=? z) && (z <? Z.of_nat (length vs))) eqn:Eb.
      + repeat split; auto. exists tx, m. split; auto.
        rewrite path_ty_app, Hp. cbn [path_ty].
        apply andb_prop in Eb as [B1 B2]. apply Z.leb_le in B1. apply Z.ltb_lt in B2.
        replace (Nat.ltb (Z.to_nat z) (length vs)) with true; auto.
        symmetry. apply Nat.ltb_lt. lia.
      + split; [reflexivity | intros t'; exact I].
    - (* EField *)
      destruct (check fs L ret G lhs) as [ta|] eqn:Ea; [|discriminate].
      destruct ta; try discriminate.
      specialize (IHlhs G x0 _ en out Hr Ea Hen).
      destruct (eval_place ev en out lhs) as [en1 out1 x' p|r]; [|exact IHlhs].
      destruct IHlhs as (-> & Hen1 & tx & m & Hl & Hp).
      repeat split; auto. exists tx, m. split; auto.
      rewrite path_ty_app, Hp. cbn [path_ty]. rewrite Hc. reflexivity.
  Qed.
End Lists.

Lemma sum_inv v t ts : has_ty v t -> variants t = Some ts ->
  exists k pt w, v = VSum k w /\ nth_error ts k = Some pt /\ has_ty w pt.
Proof.
  intros H Ev. destruct H; cbn in Ev; try discriminate.
  rewrite H in Ev. inversion Ev; subst. eauto 6.
Qed.

Lemma check_arms_nth chk G x t arms : forall ts k a pt,
  check_arms chk G x arms ts t = true -> nth_error arms k = Some a -> nth_error ts k = Some pt ->
  oty_is (chk ((x, pt, false) :: G) a) t = true.
Proof.
  induction arms as [|a0 arms IH]; intros ts k a pt Hc Ha Ht; destruct k; cbn in Ha; try discriminate.
  - inversion Ha; subst. destruct ts; cbn in *; try discriminate. inversion Ht; subst.
    apply andb_prop in Hc as [H _]. exact H.
  - destruct ts; cbn in *; try discriminate. apply andb_prop in Hc as [_ H]. eapply IH; eauto.
Qed.

Definition funs_ok (fs : list fundef) : Prop := forallb (check_fun fs) fs = true.

Ltac sub_ev Hrec a en out Hc Hen :=
  let R := fresh "R" in
  let en1 := fresh "en" in
  let out1 := fresh "out" in
  let Hen1 := fresh "Hen" in
  let Hv := fresh "Hv" in
  match goal with |- context [?rc ?s en out a] =>
    pose proof (Hrec s _ _ _ a _ en out Hc Hen) as R;
    destruct (rc s en out a) as [en1 out1 [?v|?l ?v|?l|?v]| | | |] end;
  cbn [res_ok ctl_ok] in R |- *; try tauto; try exact I;
  destruct R as [Hen1 Hv].

Lemma step_sound fs rec : funs_ok fs -> sound fs rec -> sound fs (step fs rec).
Proof.
  intros Hfs Hrec s L ret G e t en out Hc Hen.
  destruct e; cbn [check] in Hc; cbn [step].
  - (* EInt *)
    destruct t0; try discriminate. destruct (norm i z =? z); [|discriminate]. inversion Hc; subst.
    cbn. split; auto. constructor.
  - inversion Hc; subst. cbn. split; auto. constructor.
  - inversion Hc; subst. cbn. split; auto. constructor.
  - discriminate.
  - (* EVar *)
    destruct (vlookup G x) as [[tx m]|] eqn:E; [|discriminate]. inversion Hc; subst.
    destruct (lookup_ok _ _ _ _ _ Hen E) as (v & El & Hv). rewrite El. cbn. auto.
  - (* EBin *)
    destruct (check fs L ret G e1) as [[i| | | | | | | |]|] eqn:E1; try discriminate.
    destruct (check fs L ret G e2) as [[j| | | | | | | |]|] eqn:E2; try discriminate.
    destruct (ity_eqb i j) eqn:Eij; [|discriminate]. inversion Hc; subst.
    apply ity_eqb_eq in Eij; subst j.
    sub_ev Hrec e1 en out E1 Hen. inv_ty Hv.
    sub_ev Hrec e2 en0 out0 E2 Hen0. inv_ty Hv0.
    assert (Er : ity_eqb i i = true) by (destruct i as [[] []]; reflexivity). rewrite Er.
    destruct (binop_sem op i z z0); cbn; auto. split; auto. constructor.
  - (* ECmp *)
    destruct (check fs L ret G e1) as [[i| | | | | | | |]|] eqn:E1; try discriminate.
    destruct (check fs L ret G e2) as [[j| | | | | | | |]|] eqn:E2; try discriminate.
    destruct (ity_eqb i j) eqn:Eij; [|discriminate]. inversion Hc; subst.
    apply ity_eqb_eq in Eij; subst j.
    sub_ev Hrec e1 en out E1 Hen. inv_ty Hv.
    sub_ev Hrec e2 en0 out0 E2 Hen0. inv_ty Hv0.
    assert (Er : ity_eqb i i = true) by (destruct i as [[] []]; reflexivity). rewrite Er.
    cbn; split; auto. constructor.
  - (* EUn *)
    destruct (check fs L ret G e) as [ta|] eqn:E1; [|destruct op; discriminate].
    sub_ev Hrec e en out E1 Hen.
    destruct op, ta; try discriminate; try (destruct (isg i); [|discriminate]); inversion Hc; subst; inv_ty Hv; cbn; split; auto; constructor.
  - (* EAnd *)
    destruct (check fs L ret G e1) as [[]|] eqn:E1; try discriminate.
    destruct (check fs L ret G e2) as [[]|] eqn:E2; try discriminate. inversion Hc; subst.
    sub_ev Hrec e1 en out E1 Hen. inv_ty Hv. destruct b.
    + sub_ev Hrec e2 en0 out0 E2 Hen0. inv_ty Hv0. cbn. split; auto.
    + cbn. split; auto.
  - (* EOr *)
    destruct (check fs L ret G e1) as [[]|] eqn:E1; try discriminate.
    destruct (check fs L ret G e2) as [[]|] eqn:E2; try discriminate. inversion Hc; subst.
    sub_ev Hrec e1 en out E1 Hen. inv_ty Hv. destruct b.
    + cbn. split; auto.
    + sub_ev Hrec e2 en0 out0 E2 Hen0. inv_ty Hv0. cbn. split; auto.
  - (* ECast *)
    destruct t0; try discriminate.
    destruct (check fs L ret G e) as [[]|] eqn:E1; try discriminate. inversion Hc; subst.
    cbn [tsubst].
    sub_ev Hrec e en out E1 Hen. inv_ty Hv. cbn. split; auto. constructor.
  - (* EIf *)
    destruct (check fs L ret G e1) as [[]|] eqn:E1; try discriminate.
    destruct (check fs L ret G e2) as [ta|] eqn:E2; try discriminate.
    destruct (check fs L ret G e3) as [tb|] eqn:E3; try discriminate.
    destruct (ty_eqb ta tb) eqn:Eab; [|discriminate]. inversion Hc; subst.
    apply ty_eqb_eq in Eab; subst tb.
    sub_ev Hrec e1 en out E1 Hen. inv_ty Hv. destruct b.
    + eapply Hrec; eauto.
    + eapply Hrec; eauto.
  - (* EWhile *)
    destruct (check fs L ret G e1) as [[]|] eqn:E1; try discriminate.
    destruct (check fs ((l, (true, TVoid)) :: L) ret G e2) as [tb|] eqn:E2; try discriminate.
    inversion Hc; subst.
    assert (Hw : check fs L ret G (EWhile l e1 e2) = Some TVoid) by (cbn [check]; rewrite E1, E2; reflexivity).
    sub_ev Hrec e1 en out E1 Hen. inv_ty Hv. destruct b; [|cbn; split; auto; constructor].
    pose proof (Hrec s _ _ _ e2 _ en0 out0 E2 Hen0) as R.
    destruct (rec s en0 out0 e2) as [en1 out1 [v|l' v|l'|v]| | | |]; cbn [res_ok ctl_ok] in R |- *; try tauto.
    + destruct R. eapply Hrec; eauto.
    + destruct R as [He (k & u & Hl & Hu)]. cbn in Hl.
      destruct (Nat.eqb l' l); cbn; [split; auto; constructor | split; eauto].
    + destruct R as [He (u & Hl)]. cbn in Hl.
      destruct (Nat.eqb l' l); [eapply Hrec; eauto | cbn; split; eauto].
  - (* ELoop *)
    destruct (check fs ((l, (true, TVoid)) :: L) ret G e) as [tb|] eqn:E2; try discriminate.
    inversion Hc; subst.
    assert (Hw : check fs L ret G (ELoop l e) = Some TVoid) by (cbn [check]; rewrite E2; reflexivity).
    pose proof (Hrec s _ _ _ e _ en out E2 Hen) as R.
    destruct (rec s en out e) as [en1 out1 [v|l' v|l'|v]| | | |]; cbn [res_ok ctl_ok] in R |- *; try tauto.
    + destruct R. eapply Hrec; eauto.
    + destruct R as [He (k & u & Hl & Hu)]. cbn in Hl.
      destruct (Nat.eqb l' l); cbn; [split; auto; constructor | split; eauto].
    + destruct R as [He (u & Hl)]. cbn in Hl.
      destruct (Nat.eqb l' l); [eapply Hrec; eauto | cbn; split; eauto].
  - (* EBlock *)
    match type of Hc with (if ?c then _ else _) = _ => destruct c eqn:Ec; [|discriminate] end.
    inversion Hc; subst. apply andb_prop in Ec as [_ Ec]. apply oty_is_eq in Ec.
    set (L' := match l with Some l0 => (l0, (false, t)) :: L | None => L end) in *.
    pose proof (eval_stmts_sound fs L' ret (rec s) (fun G e t en out => Hrec s L' ret G e t en out)
                  e ss G t en out Ec Hen) as R.
    destruct (eval_stmts (rec s) en out ss e) as [en1 out1 [v|l' v|l'|v]| | | |]; cbn [res_ok ctl_ok] in R |- *; try tauto.
    + destruct R as [He (k & u & Hl & Hu)]. subst L'. destruct l as [l0|]; cbn in *.
      * destruct (Nat.eqb l' l0); cbn; [inversion Hl; subst; split; auto | split; eauto].
      * split; eauto.
    + destruct R as [He (u & Hl)]. subst L'. destruct l as [l0|]; cbn in *.
      * destruct (Nat.eqb l' l0); [discriminate | split; eauto].
      * split; eauto.
  - (* EBreak *)
    destruct (llookup L l) as [[k tl]|] eqn:El; try discriminate.
    destruct (check fs L ret G e) as [u|] eqn:E1; try discriminate.
    destruct (ty_eqb u tl) eqn:Eu; [|discriminate]. inversion Hc; subst. apply ty_eqb_eq in Eu; subst.
    sub_ev Hrec e en out E1 Hen. cbn. split; eauto.
  - (* EContinue *)
    destruct (llookup L l) as [[[] tl]|] eqn:El; try discriminate. inversion Hc; subst.
    cbn. split; eauto.
  - (* EReturn *)
    destruct (oty_is (check fs L ret G e) ret) eqn:E1; [|discriminate]. inversion Hc; subst.
    apply oty_is_eq in E1.
    sub_ev Hrec e en out E1 Hen; cbn; split; auto.
  - (* ECall *)
    destruct (nth_error fs f) as [fd|] eqn:Ef; [|discriminate].
    destruct targs; [|discriminate]. destruct cargs; [|discriminate].
    match type of Hc with (if ?c then _ else _) = _ => destruct c eqn:Ec; [|discriminate] end.
    inversion Hc; subst.
    apply andb_prop in Ec as [Ec Ea]. clear Ec.
    pose proof (eval_list_sound fs L ret (rec s) (fun G e t en out => Hrec s L ret G e t en out)
                  G args _ en out Ea Hen) as R.
    destruct (eval_list (rec s) en out args) as [en1 out1 vs|r].
    2:{ destruct R as [_ R]. apply R. }
    destruct R as [Hen1 Hvs].
    destruct (bind_params_ok _ _ Hvs) as (cenv & Eb & Hce). rewrite Eb. cbn [map opt_all].
    assert (Hfd : check_fun fs fd = true).
    { unfold funs_ok in Hfs. rewrite forallb_forall in Hfs. apply Hfs. eapply nth_error_In; eauto. }
    unfold check_fun in Hfd. apply andb_prop in Hfd as [_ Hb]. apply oty_is_eq in Hb.
    pose proof (Hrec (@nil ty, @nil value) _ _ _ _ _ cenv out1 Hb Hce) as R.
    destruct (rec ([], []) cenv out1 (f_body fd)) as [en2 out2 [v|l' v|l'|v]| out2 k [fn|] | | |];
      cbn [res_ok ctl_ok] in R |- *; try tauto.
    + destruct R as [_ (k & u & Hl & _)]. discriminate.
    + destruct R as [_ (u & Hl)]. discriminate.
  - (* EArr *)
    match type of Hc with (if ?c then _ else _) = _ => destruct c eqn:Ec; [|discriminate] end.
    inversion Hc; subst. apply andb_prop in Ec as [_ Ea].
    pose proof (eval_list_sound fs L ret (rec s) (fun G e t en out => Hrec s L ret G e t en out)
                  G es _ en out Ea Hen) as R.
    destruct (eval_list (rec s) en out es) as [en1 out1 vs|r].
    2:{ destruct R as [_ R]. apply R. }
    destruct R as [Hen1 Hvs]. apply Forall2_repeat in Hvs as [Hl Hf].
    cbn. split; auto. constructor; auto.
  - (* EIndex *)
    destruct (check fs L ret G e1) as [[| | |n ta| | | | |]|] eqn:E1; try discriminate.
    destruct (check fs L ret G e2) as [[j| | | | | | | |]|] eqn:E2; try discriminate.
    destruct (ity_eqb j usize); [|discriminate]. inversion Hc; subst.
    sub_ev Hrec e1 en out E1 Hen. inv_ty Hv.
    sub_ev Hrec e2 en0 out0 E2 Hen0. inv_ty Hv0.
    destruct ((0 <=? z) && (z <? Z.of_nat (length vs))) eqn:Eb; [|exact I].
    apply andb_prop in Eb as [B1 B2]. apply Z.leb_le in B1. apply Z.ltb_lt in B2.
    destruct (Forall_nth _ _ (Z.to_nat z) H3 ltac:(lia)) as (a & Ea & Ha). rewrite Ea.
    cbn. split; auto.
  - (* EStruct *)
    destruct t0; try discriminate.
    match type of Hc with (if ?c then _ else _) = _ => destruct c eqn:Ec; [|discriminate] end.
    inversion Hc; subst. apply andb_prop in Ec as [_ Ea].
    pose proof (eval_list_sound fs L ret (rec s) (fun G e t en out => Hrec s L ret G e t en out)
                  G es _ en out Ea Hen) as R.
    destruct (eval_list (rec s) en out es) as [en1 out1 vs|r].
    2:{ destruct R as [_ R]. apply R. }
    destruct R as [Hen1 Hvs]. cbn. split; auto. constructor; auto.
  - (* EField *)
    destruct (check fs L ret G e) as [[| | | |id ts| | | |]|] eqn:E1; try discriminate.
    sub_ev Hrec e en out E1 Hen. inv_ty Hv.
    destruct (Forall2_nth _ _ _ _ _ H1 Hc) as (a & Ea & Ha). rewrite Ea. cbn. split; auto.
  - discriminate.
  - (* EAssign *)
    destruct (place_root e1) as [x|] eqn:Er; [|discriminate].
    destruct (vlookup G x) as [[tx [|]]|] eqn:Ex; try discriminate.
    destruct (check fs L ret G e1) as [tl|] eqn:E1; try discriminate.
    destruct (check fs L ret G e2) as [tr|] eqn:E2; try discriminate.
    destruct (ty_eqb tr tl) eqn:Et; [|discriminate]. inversion Hc; subst.
    apply ty_eqb_eq in Et; subst tr.
    pose proof (eval_place_sound fs L ret (rec s) (fun G e t en out => Hrec s L ret G e t en out)
                  e1 G x tl en out Er E1 Hen) as R.
    destruct (eval_place (rec s) en out e1) as [en1 out1 x' p|r].
    2:{ destruct R as [_ R]. apply R. }
    destruct R as (-> & Hen1 & tx' & m & Hl & Hp). rewrite Ex in Hl. inversion Hl; subst.
    sub_ev Hrec e2 en1 out1 E2 Hen1.
    destruct (update_ok _ _ _ _ _ _ _ Hen0 Ex Hp Hv) as (en3 & Eu & Hen3). rewrite Eu.
    cbn. split; auto. constructor.
  - (* EPrint *)
    destruct (check fs L ret G e) as [[]|] eqn:E1; try discriminate; inversion Hc; subst;
      sub_ev Hrec e en out E1 Hen; inv_ty Hv; cbn; split; auto; constructor.
  - discriminate.
  - (* EInject *)
    destruct (variants t0) as [ts|] eqn:Ev; [|discriminate].
    destruct (nth_error ts k) as [pt|] eqn:Ek; [|discriminate].
    match type of Hc with (if ?c then _ else _) = _ => destruct c eqn:Ec; [|discriminate] end.
    inversion Hc; subst. apply andb_prop in Ec as [_ Ec]. apply oty_is_eq in Ec.
    sub_ev Hrec e en out Ec Hen; cbn [res_ok ctl_ok]; split; auto; econstructor; eauto.
  - (* ESwitch *)
    destruct (check fs L ret G e) as [ta|] eqn:E1; [|discriminate].
    destruct (variants ta) as [ts|] eqn:Ev; [|discriminate].
    match type of Hc with (if ?c then _ else _) = _ => destruct c eqn:Ec; [|discriminate] end.
    inversion Hc; subst. apply andb_prop in Ec as [Ec Ed]. apply andb_prop in Ec as [_ Ea].
    sub_ev Hrec e en out E1 Hen.
    destruct (sum_inv _ _ _ Hv Ev) as (k & pt & w & -> & Ek & Hw).
    destruct (nth_error arms k) as [arm|] eqn:Earm.
    + pose proof (check_arms_nth _ _ _ _ _ _ _ _ _ Ea Earm Ek) as Ha. apply oty_is_eq in Ha.
      assert (Hen' : env_ok ((x, pt, false) :: G) ((x, false, w) :: en0)).
      { constructor; auto. repeat split; auto. }
      pose proof (Hrec s _ _ _ arm _ _ out0 Ha Hen') as R.
      destruct (rec s ((x, false, w) :: en0) out0 arm) as [en2 out2 c| | | |]; cbn [res_ok] in R |- *; auto.
      destruct R as [Hen2 Hc2]. inversion Hen2; subst. cbn [res_ok]. split; auto.
    + destruct dflt as [d|].
      * apply oty_is_eq in Ed. eapply Hrec; eauto.
      * exfalso. apply Nat.leb_le in Ed. apply nth_error_None in Earm.
        assert (k < length ts)%nat by (apply nth_error_Some; congruence). lia.
  - (* EIsVariant *)
    destruct (check fs L ret G e) as [ta|] eqn:E1; [|discriminate].
    destruct (variants ta) as [ts|] eqn:Ev; [|discriminate].
    destruct (Nat.ltb k (length ts)); [|discriminate]. inversion Hc; subst.
    sub_ev Hrec e en out E1 Hen.
    destruct (sum_inv _ _ _ Hv Ev) as (k' & pt & w & -> & _ & _). cbn. split; auto. constructor.
  - (* EUnwrap *)
    destruct (check fs L ret G e) as [ta|] eqn:E1; [|discriminate].
    destruct (variants ta) as [ts|] eqn:Ev; [|discriminate].
    sub_ev Hrec e en out E1 Hen.
    destruct (sum_inv _ _ _ Hv Ev) as (k' & pt & w & -> & Ek & Hw).
    destruct (Nat.eqb k' k) eqn:Ekk; [|exact I].
    apply Nat.eqb_eq in Ekk; subst. rewrite Hc in Ek. inversion Ek; subst. cbn. split; auto.
  - (* ETry *)
    destruct (check fs L ret G e) as [ta|] eqn:E1; [|discriminate].
    destruct ta; try discriminate; destruct ret; try discriminate.
    + inversion Hc; subst. sub_ev Hrec e en out E1 Hen.
      destruct (sum_inv _ _ _ Hv eq_refl) as (k & pt & w & -> & Ek & Hw).
      destruct k as [|[|k]]; cbn in Ek.
      * inversion Ek; subst. cbn. split; auto. econstructor; [reflexivity | reflexivity | exact Hw].
      * inversion Ek; subst. cbn. split; auto.
      * destruct k; discriminate.
    + match type of Hc with (if ?c then _ else _) = _ => destruct c eqn:Ee; [|discriminate] end.
      apply ty_eqb_eq in Ee; subst. inversion Hc; subst. sub_ev Hrec e en out E1 Hen.
      destruct (sum_inv _ _ _ Hv eq_refl) as (k & pt & w & -> & Ek & Hw).
      destruct k as [|[|k]]; cbn in Ek.
      * inversion Ek; subst. cbn. split; auto. econstructor; [reflexivity | reflexivity | exact Hw].
      * inversion Ek; subst. cbn. split; auto.
      * destruct k; discriminate.
Qed.

Theorem eval_sound fs : funs_ok fs -> forall n, sound fs (eval fs n).
Proof.
  intros Hfs n; induction n; cbn [eval].
  - intros s L ret G e t en out _ _. exact I.
  - apply step_sound; auto.
Qed.

(* The main theorem.  "partial": it covers exactly the programs accepted by
   [well_typed]: every construct of CapyCore (integers of every width, bool,
   void, locals, assignment to places, if/else, while/loop with labelled
   break/continue, labelled blocks with values, calls incl. recursion, return,
   arrays with bounds-checked indexing, structs, printing) except generic
   functions / comptime parameters, which [well_typed] rejects. *)
Theorem type_safety_partial : forall p, well_typed p = true -> forall fuel, eval_prog fuel p <> Stuck.
Proof.
  intros p Hw fuel. unfold well_typed in Hw. apply andb_prop in Hw as [Hfs Hm].
  unfold main_ok in Hm. unfold eval_prog.
  destruct (nth_error (funs p) (main p)) as [fd|] eqn:Ef; [|discriminate].
  apply andb_prop in Hm as [Hp Hr]. apply Nat.eqb_eq in Hp.
  assert (Hfd : check_fun (funs p) fd = true).
  { rewrite forallb_forall in Hfs. apply Hfs. eapply nth_error_In; eauto. }
  unfold check_fun in Hfd. apply andb_prop in Hfd as [_ Hb]. apply oty_is_eq in Hb.
  destruct (f_params fd); [|discriminate]. cbn [map] in Hb.
  pose proof (eval_sound (funs p) Hfs fuel ([], []) [] (f_ret fd) [] (f_body fd) (f_ret fd) [] [] Hb
                ltac:(constructor)) as R.
  destruct (eval (funs p) fuel ([], []) [] [] (f_body fd)) as [en out [v|l v|l|v]| | | |];
    cbn [res_ok ctl_ok] in R; try discriminate; try tauto.
  - destruct R as [_ Hv]. destruct (f_ret fd); try discriminate; inv_ty Hv; discriminate.
  - destruct R as [_ (k & u & Hl & _)]. discriminate.
  - destruct R as [_ (u & Hl)]. discriminate.
  - destruct R as [_ Hv]. destruct (f_ret fd); try discriminate; inv_ty Hv; discriminate.
Qed.
