(* Proofs about Model/Topo.v that need no abstract state. *)
From Capy Require Import Common.Util Model.Topo.

Lemma in_cycle_iff_no_leaves : forall t,
  in_cycle t = negb (is_empty t) && is_nil (leaves t).
Proof.
  intros t. unfold in_cycle, leaves. f_equal.
  induction t as [|e r IH]; cbn [forallb filter map is_nil]; [reflexivity|].
  destruct (is_leaf e); cbn [negb andb map is_nil]; [reflexivity|exact IH].
Qed.

(* `finish`: peek_all_cyclic().unwrap() and assert!(!leaves.is_empty()) never fire
   while the worklist is non-empty (the loop condition), whatever its contents. *)
Theorem client_offer_no_crash : forall t, is_empty t = false ->
  exists l, client_offer t = Ok l /\ l <> [].
Proof.
  intros t Hne. unfold client_offer, peek_all, peek_all_cyclic.
  rewrite in_cycle_iff_no_leaves. rewrite Hne. cbn [negb andb].
  destruct (leaves t) as [|x l] eqn:E; cbn [is_nil bind].
  - destruct t as [|e r]; [discriminate|]. cbn [keys map is_nil]. eexists; split; [reflexivity|discriminate].
  - eexists; split; [reflexivity|discriminate].
Qed.
