(* C10 — proofs about Model/IndexCheck.v *)
From Capy Require Import Common.Util Model.IndexCheck Spec.IndexCheckSpec.
Open Scope Z_scope.

(* ------------------------------------------------------------------ small facts *)
Lemma two64_pos : 0 < two64.
Proof. unfold two64. apply Z.pow_pos_nonneg; lia. Qed.

Lemma cast_small : forall it v, 0 <= v < two64 -> cast_to_usize it v = v.
Proof.
  intros it v H. unfold cast_to_usize.
  destruct (ibits it =? 64); [reflexivity|].
  rewrite andb_false_r.
  destruct (ibits it <? 64); [reflexivity|].
  apply Z.mod_small; exact H.
Qed.

Lemma pow_le_two64 : forall b, b <= 64 -> 2 ^ b <= two64.
Proof.
  intros b H. unfold two64.
  destruct (Z_lt_le_dec b 0) as [Hn|Hn].
  - rewrite Z.pow_neg_r by lia. pose proof two64_pos. unfold two64 in *. lia.
  - apply Z.pow_le_mono_r; lia.
Qed.

Lemma ival_unsigned : forall it v, isigned it = false -> ival it v = v.
Proof. intros it v H. unfold ival. rewrite H. reflexivity. Qed.

Lemma ival_nonneg_eq : forall it v, 0 <= v < 2 ^ ibits it -> 0 <= ival it v -> ival it v = v.
Proof.
  intros it v Hv H. unfold ival in *.
  destruct (isigned it && (2 ^ (ibits it - 1) <=? v)); [lia|reflexivity].
Qed.

Lemma arr_view_elem_of : forall rd st v0 td th len base m et,
  arr_view rd st v0 = Some (td, th, len, base, m, et) -> elem_of st = Some et.
Proof.
  intros rd st v0 td th len base m et H. unfold arr_view, elem_of in *.
  destruct (strip_ptrs st) as [k a]. cbn [snd].
  destruct (deref_loads rd (pred k) v0) as [t v].
  destruct a; try discriminate; inversion H; reflexivity.
Qed.

(* what the code reads to find length and base: nothing (fixed arrays: the length is a
   constant) or the two words of the slice descriptor *)
Lemma arr_view_shape : forall rd st v0 td th len base m et,
  arr_view rd st v0 = Some (td, th, len, base, m, et) ->
  (th = [] /\ m = MArrayOob /\ exists n, len = wrap64 n /\ snd (strip_ptrs st) = TArr n et) \/
  (exists hdr, th = [Load hdr 8; Load (hdr + 8) 8] /\ len = rd hdr /\ base = rd (hdr + 8) /\
               m = MSliceOob /\ snd (strip_ptrs st) = TSlice et).
Proof.
  intros rd st v0 td th len base m et H. unfold arr_view in H.
  destruct (strip_ptrs st) as [k a]. cbn [snd].
  destruct (deref_loads rd (pred k) v0) as [t v].
  destruct a; try discriminate; inversion H; subst.
  - left. repeat split; eauto.
  - right. exists v. repeat split; reflexivity.
Qed.

(* ------------------------------------------------------------------ one index step *)
Lemma comp_index_eq : forall rd s it mk iv nl st t1 v0 td th len base m et,
  type_of s = Some st ->
  comp rd s false = Ok (t1, Val (Some v0)) ->
  arr_view rd st v0 = Some (td, th, len, base, m, et) ->
  is_zero_sized et = false ->
  comp rd (EIndex s it mk iv) nl =
    (let naive := cast_to_usize it iv in
     let pre := t1 ++ td ++ marker mk ++ th in
     if naive <? len then
       (if nl || is_aggregate et
        then Ok (pre, Val (Some (elem_addr base naive et)))
        else Ok (pre ++ [Load (elem_addr base naive et) (stride et)],
                 Val (Some (rd (elem_addr base naive et)))))
     else Ok (pre ++ fail_block m, Aborted)).
Proof.
  intros rd s it mk iv nl st t1 v0 td th len base m et Hs Hc Hv Hz.
  pose proof (arr_view_elem_of _ _ _ _ _ _ _ _ _ Hv) as He.
  cbn [comp type_of]. rewrite Hs, He, Hz, Hc. cbn [bind]. rewrite Hv. reflexivity.
Qed.

Theorem oob_no_access : forall rd s it mk iv nl st t1 v0 td th len base m et,
  type_of s = Some st ->
  comp rd s false = Ok (t1, Val (Some v0)) ->
  arr_view rd st v0 = Some (td, th, len, base, m, et) ->
  is_zero_sized et = false ->
  isigned it = false -> ibits it <= 64 -> 0 <= iv < 2 ^ ibits it ->
  len <= ival it iv ->
  comp rd (EIndex s it mk iv) nl = Ok (t1 ++ td ++ marker mk ++ th ++ fail_block m, Aborted).
Proof.
  intros rd s it mk iv nl st t1 v0 td th len base m et Hs Hc Hv Hz Hu Hb Hiv Hoob.
  rewrite (comp_index_eq _ _ _ _ _ _ _ _ _ _ _ _ _ _ _ Hs Hc Hv Hz). cbv zeta.
  rewrite ival_unsigned in Hoob by exact Hu.
  pose proof (pow_le_two64 _ Hb).
  rewrite cast_small by lia.
  assert (iv <? len = false) as -> by (apply Z.ltb_ge; lia).
  rewrite <- !app_assoc. reflexivity.
Qed.

Lemma elem_addr_exact : forall base i len et,
  0 <= i < len -> 0 <= base -> 0 < stride et -> base + len * stride et <= two64 ->
  elem_addr base i et = base + i * stride et /\
  base <= base + i * stride et /\ base + i * stride et + stride et <= base + len * stride et.
Proof.
  intros base i len et Hi Hb Hs Hfit.
  assert (0 <= i * stride et) by nia.
  assert (i * stride et + stride et <= len * stride et) by nia.
  pose proof two64_pos.
  unfold elem_addr, wrap64.
  rewrite (Z.mod_small (i * stride et)) by lia.
  rewrite Z.mod_small by lia. lia.
Qed.

Theorem inbounds_exact_elem : forall rd s it mk iv nl st t1 v0 td th len base m et,
  type_of s = Some st ->
  comp rd s false = Ok (t1, Val (Some v0)) ->
  arr_view rd st v0 = Some (td, th, len, base, m, et) ->
  is_zero_sized et = false ->
  0 <= iv < 2 ^ ibits it ->
  0 <= ival it iv < len ->
  0 <= base -> 0 < stride et -> base + len * stride et <= two64 ->
  let addr := base + ival it iv * stride et in
  base <= addr /\ addr + stride et <= base + len * stride et /\
  comp rd (EIndex s it mk iv) nl =
    (if nl || is_aggregate et
     then Ok (t1 ++ td ++ marker mk ++ th, Val (Some addr))
     else Ok (t1 ++ td ++ marker mk ++ th ++ [Load addr (stride et)], Val (Some (rd addr)))).
Proof.
  intros rd s it mk iv nl st t1 v0 td th len base m et Hs Hc Hv Hz Hiv Hin Hb Hst Hfit addr.
  assert (ival it iv = iv) as Hi by (apply ival_nonneg_eq; lia).
  subst addr. rewrite Hi in *.
  destruct (elem_addr_exact base iv len et Hin Hb Hst Hfit) as [Ha [Hlo Hhi]].
  split; [exact Hlo|]. split; [exact Hhi|].
  rewrite (comp_index_eq _ _ _ _ _ _ _ _ _ _ _ _ _ _ _ Hs Hc Hv Hz). cbv zeta.
  assert (len <= two64) by nia.
  rewrite cast_small by lia.
  assert (iv <? len = true) as -> by (apply Z.ltb_lt; lia).
  rewrite Ha. rewrite <- !app_assoc. reflexivity.
Qed.

(* ------------------------------------------------------------------ writes *)
Theorem write_oob_no_store : forall rd rd8 s it mk iv vm st t1 v0 td th len base m et,
  type_of s = Some st ->
  comp rd s false = Ok (t1, Val (Some v0)) ->
  arr_view rd st v0 = Some (td, th, len, base, m, et) ->
  is_zero_sized et = false ->
  isigned it = false -> ibits it <= 64 -> 0 <= iv < 2 ^ ibits it ->
  len <= ival it iv ->
  stmt_run rd rd8 (SWrite (EIndex s it mk iv) vm) =
    Ok (t1 ++ td ++ marker mk ++ th ++ fail_block m, true).
Proof.
  intros rd rd8 s it mk iv vm st t1 v0 td th len base m et Hs Hc Hv Hz Hu Hb Hiv Hoob.
  pose proof (arr_view_elem_of _ _ _ _ _ _ _ _ _ Hv) as He.
  cbn [stmt_run].
  rewrite (oob_no_access _ _ _ _ _ true _ _ _ _ _ _ _ _ _ Hs Hc Hv Hz Hu Hb Hiv Hoob).
  cbn [type_of]. rewrite Hs, He. reflexivity.
Qed.

Theorem write_exact_elem : forall rd rd8 s it mk iv vm st t1 v0 td th len base m et,
  type_of s = Some st ->
  comp rd s false = Ok (t1, Val (Some v0)) ->
  arr_view rd st v0 = Some (td, th, len, base, m, et) ->
  is_zero_sized et = false ->
  0 <= iv < 2 ^ ibits it ->
  0 <= ival it iv < len ->
  0 <= base -> 0 < stride et -> base + len * stride et <= two64 ->
  stmt_run rd rd8 (SWrite (EIndex s it mk iv) vm) =
    Ok (t1 ++ td ++ marker mk ++ th ++ marker vm ++
        [Store (base + ival it iv * stride et) (stride et)], false).
Proof.
  intros rd rd8 s it mk iv vm st t1 v0 td th len base m et Hs Hc Hv Hz Hiv Hin Hb Hst Hfit.
  pose proof (arr_view_elem_of _ _ _ _ _ _ _ _ _ Hv) as He.
  destruct (inbounds_exact_elem rd s it mk iv true st t1 v0 td th len base m et
              Hs Hc Hv Hz Hiv Hin Hb Hst Hfit) as [_ [_ Hcomp]].
  cbn [stmt_run]. rewrite Hcomp. cbn [orb type_of]. rewrite Hs, He. cbn [bind].
  rewrite <- !app_assoc. reflexivity.
Qed.

(* ------------------------------------------------------------------ nothing after an abort *)
Theorem exec_abort_stops : forall rd rd8 p1 s p2 t1 t,
  exec rd rd8 p1 = Ok (t1, false) ->
  stmt_run rd rd8 s = Ok (t, true) ->
  exec rd rd8 (p1 ++ s :: p2) = Ok (t1 ++ t, true).
Proof.
  intros rd rd8 p1. induction p1 as [|a p1 IH]; intros s p2 t1 t H1 Hs.
  - cbn [exec] in H1. inversion H1; subst. cbn [app exec]. rewrite Hs. reflexivity.
  - cbn [app exec] in *.
    destruct (stmt_run rd rd8 a) as [[ta ba]| |]; cbn [bind] in *; try discriminate.
    cbn [fst snd] in *. destruct ba; [inversion H1|].
    destruct (exec rd rd8 p1) as [[tb bb]| |] eqn:E; cbn [bind] in *; try discriminate.
    cbn [fst snd] in *. inversion H1; subst.
    rewrite (IH s p2 tb t eq_refl Hs). cbn [bind fst snd]. rewrite app_assoc. reflexivity.
Qed.

(* ------------------------------------------------------------------ #unwrap *)
Theorem unwrap_tagged_wrong_aborts : forall rd8 off pb v have want_,
  rd8 (v + off) = tag8 have ->
  0 <= have < 256 -> 0 <= want_ < 256 -> have <> want_ ->
  unwrap rd8 (KTagged off pb) v (WVariant want_) =
    ([Load (v + off) 1] ++ fail_block MUnwrap, Aborted).
Proof.
  intros rd8 off pb v have want_ Ht Hh Hw Hne. unfold unwrap. rewrite Ht. unfold tag8.
  rewrite !Z.mod_small by lia.
  assert (have =? want_ = false) as -> by (apply Z.eqb_neq; exact Hne). reflexivity.
Qed.

Theorem unwrap_tagged_right_payload : forall rd8 off pb v d,
  rd8 (v + off) = tag8 d ->
  unwrap rd8 (KTagged off pb) v (WVariant d) =
    ([Load (v + off) 1] ++ (if pb =? 0 then [] else [Load v pb]), Val (Some v)).
Proof.
  intros rd8 off pb v d Ht. unfold unwrap. rewrite Ht, Z.eqb_refl.
  destruct (pb =? 0); reflexivity.
Qed.

Theorem unwrap_nullable : forall rd8 v w,
  unwrap rd8 KNullable v w =
    (if match w with WNil => v =? 0 | WVariant _ => negb (v =? 0) end
     then ([], Val (Some v)) else (fail_block MUnwrap, Aborted)).
Proof. intros. reflexivity. Qed.

Theorem unwrap_nullable_wrong_aborts : forall rd8 v,
  (v = 0 -> forall d, unwrap rd8 KNullable v (WVariant d) = (fail_block MUnwrap, Aborted)) /\
  (v <> 0 -> unwrap rd8 KNullable v WNil = (fail_block MUnwrap, Aborted)).
Proof.
  intros rd8 v. split.
  - intros -> d. reflexivity.
  - intros Hv. cbn [unwrap]. apply Z.eqb_neq in Hv. rewrite Hv. reflexivity.
Qed.

(* ------------------------------------------------------------------ literal indexes *)
Fixpoint ptrs (k : nat) (t : ty) : ty :=
  match k with O => t | S k' => TPtr (ptrs k' t) end.

Lemma strip_ptrs_ptrs : forall k t,
  (forall u, t <> TPtr u) -> strip_ptrs (ptrs k t) = (k, t).
Proof.
  intros k t Ht. induction k as [|k IH].
  - cbn [ptrs]. destruct t; try reflexivity. exfalso. eapply Ht; reflexivity.
  - cbn [ptrs strip_ptrs]. rewrite IH. reflexivity.
Qed.

Theorem lit_oob_rejected_iff : forall k n u idx,
  lit_index_rejected (ptrs k (TArr n u)) idx = true <-> n <= idx.
Proof.
  intros k n u idx. unfold lit_index_rejected.
  rewrite strip_ptrs_ptrs by (intros; discriminate). cbn [snd].
  apply Z.leb_le.
Qed.

Theorem lit_slice_never_rejected : forall k u idx,
  lit_index_rejected (ptrs k (TSlice u)) idx = false.
Proof.
  intros k u idx. unfold lit_index_rejected.
  rewrite strip_ptrs_ptrs by (intros; discriminate). reflexivity.
Qed.

(* ------------------------------------------------------------------ refuted full statements *)
(* Full-strength bounds-check statement: every accepted index type, every element type. *)
Definition C10_index_full : Prop :=
  forall rd s it mk iv nl st t1 v0 td th len base m et,
  type_of s = Some st ->
  comp rd s false = Ok (t1, Val (Some v0)) ->
  arr_view rd st v0 = Some (td, th, len, base, m, et) ->
  idx_ty_accepted it = true -> 0 <= iv < 2 ^ ibits it ->
  len <= ival it iv ->
  comp rd (EIndex s it mk iv) nl = Ok (t1 ++ td ++ marker mk ++ th ++ fail_block m, Aborted).

Definition u128 : ity := {| ibits := 128; isigned := false |}.
Definition usize : ity := {| ibits := 64; isigned := false |}.

(* witness 1: a u128 index 2^64+1 into [4]i32 at address 4096 reads element 1 *)
Lemma wide_index_witness :
  comp (fun _ => 0) (EIndex (ERoot (TArr 4 (TInt 4)) 4096) u128 None (two64 + 1)) false
  = Ok ([Load 4100 4], Val (Some 0)).
Proof. vm_compute. reflexivity. Qed.

Theorem C10_index_full_refuted : ~ C10_index_full.
Proof.
  intros H.
  specialize (H (fun _ => 0) (ERoot (TArr 4 (TInt 4)) 4096) u128 None (two64 + 1) false
                (TArr 4 (TInt 4)) [] 4096 [] [] 4 4096 MArrayOob (TInt 4)
                eq_refl eq_refl eq_refl eq_refl).
  rewrite wide_index_witness in H.
  assert (0 <= two64 + 1 < 2 ^ ibits u128) as Hr by (vm_compute; split; congruence).
  assert (4 <= ival u128 (two64 + 1)) as Ho by (vm_compute; congruence).
  specialize (H Hr Ho). discriminate H.
Qed.

(* witness 2: index 7 into a [2]ZST array: nothing is compiled at all, not even the index *)
Lemma zst_witness :
  comp (fun _ => 0) (EIndex (ERoot (TArr 2 TZst) 4096) usize (Some 5%N) 7) false
  = Ok ([], Val None).
Proof. vm_compute. reflexivity. Qed.

Theorem C10_index_full_refuted_zst : ~ C10_index_full.
Proof.
  intros H.
  specialize (H (fun _ => 0) (ERoot (TArr 2 TZst) 4096) usize (Some 5%N) 7 false
                (TArr 2 TZst) [] 4096 [] [] 2 4096 MArrayOob TZst
                eq_refl eq_refl eq_refl eq_refl).
  rewrite zst_witness in H.
  assert (0 <= 7 < 2 ^ ibits usize) as Hr by (vm_compute; split; congruence).
  assert (2 <= ival usize 7) as Ho by (vm_compute; congruence).
  specialize (H Hr Ho). discriminate H.
Qed.

Theorem C10_index_except_known : forall rd s it mk iv nl st t1 v0 td th len base m et,
  type_of s = Some st ->
  comp rd s false = Ok (t1, Val (Some v0)) ->
  arr_view rd st v0 = Some (td, th, len, base, m, et) ->
  idx_ty_accepted it = true -> 0 <= iv < 2 ^ ibits it ->
  known_class it et = None ->
  len <= ival it iv ->
  comp rd (EIndex s it mk iv) nl = Ok (t1 ++ td ++ marker mk ++ th ++ fail_block m, Aborted).
Proof.
  intros rd s it mk iv nl st t1 v0 td th len base m et Hs Hc Hv Ha Hiv Hk Hoob.
  unfold known_class in Hk.
  destruct (is_zero_sized et) eqn:Hz; [discriminate|].
  destruct (64 <? ibits it) eqn:Hw; [discriminate|].
  apply Z.ltb_ge in Hw.
  unfold idx_ty_accepted in Ha. apply negb_true_iff in Ha.
  eapply oob_no_access; eauto.
Qed.

(* #unwrap, full strength: any two different discriminants *)
Definition C10_unwrap_full : Prop :=
  forall rd8 off pb v have want_,
  rd8 (v + off) = tag8 have -> 0 <= have -> 0 <= want_ -> have <> want_ ->
  unwrap rd8 (KTagged off pb) v (WVariant want_) =
    ([Load (v + off) 1] ++ fail_block MUnwrap, Aborted).

(* enum { Z, A | 255, B }: B gets 256, whose 8-bit tag is Z's *)
Theorem C10_unwrap_full_refuted : ~ C10_unwrap_full.
Proof.
  intros H.
  specialize (H (fun _ => 0) 0 0 4096 256 0 eq_refl).
  assert (0 <= 256) as A by lia. assert (0 <= 0) as B by lia.
  assert (256 <> 0) as Cc by lia.
  specialize (H A B Cc). vm_compute in H. discriminate H.
Qed.

(* ------------------------------------------------------------------ enum discriminants *)
Lemma mem_n_In : forall x l, mem_n x l = true <-> In x l.
Proof.
  intros x l. unfold mem_n. rewrite existsb_exists. split.
  - intros [y [Hy He]]. apply N.eqb_eq in He. subst. exact Hy.
  - intros Hx. exists x. split; [exact Hx|apply N.eqb_refl].
Qed.

(* the automatic discriminants of the declaration [enum { Z, A | 255, B }] *)
Example assign_example :
  assign_discrims [None; Some 255%N; None] = Ok [0%N; 255%N; 256%N].
Proof. vm_compute. reflexivity. Qed.

Definition C10_discrims_fit_full : Prop :=
  forall vs ds, Forall (fun m => match m with Some d => (d < 256)%N | None => True end) vs ->
    NoDup (manual_of vs) -> (length vs <= 256)%nat ->
    assign_discrims vs = Ok ds -> Forall (fun d => (d < 256)%N) ds.

Theorem C10_discrims_fit_full_refuted : ~ C10_discrims_fit_full.
Proof.
  intros H.
  specialize (H [None; Some 255%N; None] [0%N; 255%N; 256%N]).
  assert (Forall (fun d => (d < 256)%N) [0%N; 255%N; 256%N]) as F.
  { apply H.
    - repeat constructor.
    - constructor; [intros []|constructor].
    - cbn. lia.
    - exact assign_example. }
  inversion F as [|? ? ? F1]; subst. inversion F1 as [|? ? ? F2]; subst.
  inversion F2 as [|? ? H256 ?]; subst. vm_compute in H256. discriminate.
Qed.

(* ------------------------------------------------------------------ first_unused terminates *)
Lemma filter_ge_shrinks : forall (used : list N) (d : N),
  In d used ->
  (length (filter (fun x => (d + 1 <=? x)%N) used) < length (filter (fun x => (d <=? x)%N) used))%nat.
Proof.
  intros used d. induction used as [|x r IH]; intros Hin; [destruct Hin|].
  cbn [filter].
  assert (forall l, (length (filter (fun x => (d + 1 <=? x)%N) l) <=
                     length (filter (fun x => (d <=? x)%N) l))%nat) as Hle.
  { induction l as [|y l IHl]; cbn [filter]; [lia|].
    destruct (d + 1 <=? y)%N eqn:E1; destruct (d <=? y)%N eqn:E2; cbn [length]; try lia.
    apply N.leb_le in E1. apply N.leb_gt in E2. lia. }
  destruct Hin as [->|Hin].
  - assert ((d + 1 <=? d)%N = false) as -> by (apply N.leb_gt; lia).
    assert ((d <=? d)%N = true) as -> by (apply N.leb_le; lia).
    cbn [length]. specialize (Hle r). lia.
  - specialize (IH Hin).
    destruct (d + 1 <=? x)%N eqn:E1; destruct (d <=? x)%N eqn:E2; cbn [length]; try lia.
    apply N.leb_le in E1. apply N.leb_gt in E2. lia.
Qed.

Lemma first_unused_ok : forall fuel used d,
  (length (filter (fun x => (d <=? x)%N) used) < fuel)%nat ->
  exists d', first_unused fuel used d = Ok d' /\ (d <= d')%N /\ ~ In d' used.
Proof.
  induction fuel as [|f IH]; intros used d Hf; [lia|].
  cbn [first_unused]. destruct (mem_n d used) eqn:E.
  - apply mem_n_In in E. pose proof (filter_ge_shrinks used d E) as Hs.
    destruct (IH used (d + 1)%N) as [d' [H1 [H2 H3]]]; [lia|].
    exists d'. repeat split; [exact H1|lia|exact H3].
  - exists d. repeat split; [lia|].
    intros Hin. apply mem_n_In in Hin. congruence.
Qed.

Lemma filter_length_le_all : forall (f : N -> bool) l, (length (filter f l) <= length l)%nat.
Proof. intros f l. induction l as [|x r IH]; cbn [filter length]; [lia|]. destruct (f x); cbn [length]; lia. Qed.

Lemma assign_go_spec : forall used vs latest,
  incl (manual_of vs) used -> NoDup (manual_of vs) ->
  exists ds, assign_go used vs latest = Ok ds /\ length ds = length vs /\ NoDup ds /\
    (forall d, In d ds -> In d (manual_of vs) \/ ((latest <= d)%N /\ ~ In d used)).
Proof.
  intros used vs. induction vs as [|m r IH]; intros latest Hincl Hnd.
  - exists []. cbn. repeat split; [constructor|intros d []].
  - destruct m as [d|].
    + cbn [manual_of] in *. inversion Hnd as [|? ? Hnotin Hnd']; subst.
      assert (incl (manual_of r) used) as Hincl' by (intros x Hx; apply Hincl; right; exact Hx).
      cbn [assign_go bind].
      set (latest' := if (latest <=? d)%N then (d + 1)%N else latest).
      assert ((d < latest')%N /\ (latest <= latest')%N) as [Hl1 Hl2].
      { subst latest'. destruct (latest <=? d)%N eqn:E; [apply N.leb_le in E|apply N.leb_gt in E]; lia. }
      destruct (IH latest' Hincl' Hnd') as [ds [He [Hlen [Hnd2 Hp]]]].
      exists (d :: ds). rewrite He. cbn [bind length]. repeat split; [lia| |].
      * constructor; [|exact Hnd2]. intros Hin. destruct (Hp d Hin) as [Hm|[Hge _]]; [contradiction|lia].
      * intros x [<-|Hx]; [left; left; reflexivity|].
        destruct (Hp x Hx) as [Hm|[Hge Hnu]]; [left; right; exact Hm|right; split; [lia|exact Hnu]].
    + cbn [manual_of] in *. cbn [assign_go].
      destruct (first_unused_ok (S (length used)) used latest) as [d [Hd [Hge Hnu]]].
      { pose proof (filter_length_le_all (fun x => (latest <=? x)%N) used). lia. }
      rewrite Hd. cbn [bind].
      assert ((latest <=? d)%N = true) as -> by (apply N.leb_le; exact Hge).
      destruct (IH (d + 1)%N Hincl Hnd) as [ds [He [Hlen [Hnd2 Hp]]]].
      exists (d :: ds). rewrite He. cbn [bind length]. repeat split; [lia| |].
      * constructor; [|exact Hnd2]. intros Hin.
        destruct (Hp d Hin) as [Hm|[Hge2 _]]; [apply Hnu, Hincl, Hm|lia].
      * intros x [<-|Hx]; [right; split; assumption|].
        destruct (Hp x Hx) as [Hm|[Hge2 Hnu2]]; [left; exact Hm|right; split; [lia|exact Hnu2]].
Qed.

Theorem assign_discrims_nodup : forall vs,
  NoDup (manual_of vs) -> exists ds, assign_discrims vs = Ok ds /\ NoDup ds /\ length ds = length vs.
Proof.
  intros vs Hnd. unfold assign_discrims.
  destruct (assign_go_spec (manual_of vs) vs 0%N (incl_refl _) Hnd) as [ds [He [Hlen [Hn _]]]].
  exists ds. repeat split; assumption.
Qed.

(* ------------------------------------------------------------------ nested fixed arrays *)
Lemma shape_stride_pos : forall ix t, shape_ok t ix -> is_zero_sized t = false -> 0 < stride t.
Proof.
  induction ix as [|[[it mk] iv] r IH]; intros t Hs Hz.
  - cbn [shape_ok] in Hs. exact Hs.
  - cbn [shape_ok] in Hs. destruct t; try contradiction.
    destruct Hs as [_ [_ [_ [Hn Hr]]]].
    cbn [is_zero_sized] in Hz. apply orb_false_iff in Hz. destruct Hz as [Hn0 Hz].
    apply Z.eqb_neq in Hn0. specialize (IH _ Hr Hz). cbn [stride]. nia.
Qed.

Lemma arr_view_fixed : forall rd n u a, 0 <= n < two64 ->
  arr_view rd (TArr n u) a = Some ([], [], n, a, MArrayOob, u).
Proof.
  intros rd n u a Hn. unfold arr_view. cbn [strip_ptrs pred deref_loads].
  unfold wrap64. rewrite Z.mod_small by exact Hn. reflexivity.
Qed.

Lemma comp_index_aborted : forall rd s it mk iv nl t u tr,
  type_of s = Some t -> elem_of t = Some u -> is_zero_sized u = false ->
  comp rd s false = Ok (tr, Aborted) ->
  comp rd (EIndex s it mk iv) nl = Ok (tr, Aborted).
Proof.
  intros rd s it mk iv nl t u tr Hs He Hz Hc.
  cbn [comp type_of]. rewrite Hs, He, Hz, Hc. reflexivity.
Qed.

Lemma chain_aborted : forall rd r s it mk iv tr t nl,
  type_of s = Some t -> comp rd s false = Ok (tr, Aborted) ->
  is_zero_sized t = false -> shape_ok t ((it, mk, iv) :: r) ->
  comp rd (chain (EIndex s it mk iv) r) nl = Ok (tr, Aborted).
Proof.
  intros rd r. induction r as [|[[it2 mk2] iv2] r IH]; intros s it mk iv tr t nl Hs Hc Hz Hsh;
    cbn [shape_ok] in Hsh; destruct t as [| |n u| |]; try contradiction;
    destruct Hsh as [_ [_ [_ [_ Hr]]]];
    cbn [is_zero_sized] in Hz; apply orb_false_iff in Hz; destruct Hz as [_ Hzu].
  - cbn [chain]. exact (comp_index_aborted rd s it mk iv nl _ u tr Hs eq_refl Hzu Hc).
  - cbn [chain]. eapply (IH (EIndex s it mk iv) it2 mk2 iv2 tr u nl).
    + cbn [type_of]. rewrite Hs. reflexivity.
    + exact (comp_index_aborted rd s it mk iv false _ u tr Hs eq_refl Hzu Hc).
    + exact Hzu.
    + exact Hr.
Qed.

Lemma walk_cons : forall n u a it mk iv r,
  walk (TArr n u) a ((it, mk, iv) :: r) =
    if ival it iv <? n
    then let (tr, o) := walk u (a + ival it iv * stride u) r in (marker mk ++ tr, o)
    else (marker mk ++ fail_block MArrayOob, None).
Proof. reflexivity. Qed.

Definition pre_tr (t1 : trace) (w : trace * outcome) : trace * outcome := (t1 ++ fst w, snd w).

Lemma chain_gen : forall rd r s it mk iv t1 a t nl,
  type_of s = Some t -> comp rd s false = Ok (t1, Val (Some a)) ->
  is_zero_sized t = false -> shape_ok t ((it, mk, iv) :: r) ->
  0 <= a -> a + stride t <= two64 ->
  comp rd (chain (EIndex s it mk iv) r) nl =
    Ok (pre_tr t1 (walk_result rd nl (walk t a ((it, mk, iv) :: r)))).
Proof.
  intros rd r. induction r as [|[[it2 mk2] iv2] r IH]; intros s it mk iv t1 a t nl Hs Hc Hz Hsh Ha Hfit.
  - (* last level *)
    pose proof Hsh as Hsh0.
    cbn [shape_ok] in Hsh. destruct t as [| |n u| |]; try contradiction.
    destruct Hsh as [Hu [Hb [Hiv [Hn Hleaf]]]].
    cbn [is_zero_sized] in Hz. apply orb_false_iff in Hz. destruct Hz as [_ Hzu].
    cbn [shape_ok] in Hleaf. cbn [stride] in Hfit.
    pose proof (arr_view_fixed rd n u a Hn) as Hv.
    cbn [chain walk]. rewrite (ival_unsigned it iv Hu).
    destruct (iv <? n) eqn:E.
    + apply Z.ltb_lt in E.
      assert (0 <= ival it iv < n) as Hin by (rewrite ival_unsigned by exact Hu; lia).
      destruct (inbounds_exact_elem rd s it mk iv nl _ t1 a [] [] n a MArrayOob u
                  Hs Hc Hv Hzu Hiv Hin Ha Hleaf Hfit) as [_ [_ Hcomp]].
      rewrite Hcomp. rewrite (ival_unsigned it iv Hu).
      cbn [walk_result app]. unfold pre_tr.
      destruct (nl || is_aggregate u); cbn [fst snd app]; rewrite ?app_nil_r; try reflexivity.
    + apply Z.ltb_ge in E.
      assert (n <= ival it iv) as Ho by (rewrite ival_unsigned by exact Hu; lia).
      rewrite (oob_no_access rd s it mk iv nl _ t1 a [] [] n a MArrayOob u
                 Hs Hc Hv Hzu Hu Hb Hiv Ho).
      cbn [walk_result app]. unfold pre_tr. cbn [fst snd]. reflexivity.
  - (* an inner level *)
    pose proof Hsh as Hsh0.
    cbn [shape_ok] in Hsh. destruct t as [| |n u| |]; try contradiction.
    destruct Hsh as [Hu [Hb [Hiv [Hn Hrest]]]].
    change (shape_ok u ((it2, mk2, iv2) :: r)) in Hrest.
    cbn [is_zero_sized] in Hz. apply orb_false_iff in Hz. destruct Hz as [_ Hzu].
    pose proof (shape_stride_pos _ _ Hrest Hzu) as Hsu.
    cbn [stride] in Hfit.
    pose proof (arr_view_fixed rd n u a Hn) as Hv.
    assert (type_of (EIndex s it mk iv) = Some u) as Hty.
    { cbn [type_of]. rewrite Hs. reflexivity. }
    assert (is_aggregate u = true) as Hagg.
    { cbn [shape_ok] in Hrest. destruct u; try contradiction; reflexivity. }
    cbn [chain].
    rewrite walk_cons. rewrite (ival_unsigned it iv Hu).
    destruct (iv <? n) eqn:E.
    + apply Z.ltb_lt in E.
      assert (0 <= ival it iv < n) as Hin by (rewrite ival_unsigned by exact Hu; lia).
      destruct (inbounds_exact_elem rd s it mk iv false _ t1 a [] [] n a MArrayOob u
                  Hs Hc Hv Hzu Hiv Hin Ha Hsu Hfit) as [Hlo [Hhi Hcomp]].
      rewrite (ival_unsigned it iv Hu) in *.
      rewrite Hagg in Hcomp. cbn [orb app] in Hcomp. rewrite app_nil_r in Hcomp.
      assert (a + iv * stride u + stride u <= two64) as Hfit' by lia.
      rewrite (IH (EIndex s it mk iv) it2 mk2 iv2 (t1 ++ marker mk) (a + iv * stride u) u nl
                 Hty Hcomp Hzu Hrest ltac:(lia) Hfit').
      destruct (walk u (a + iv * stride u) ((it2, mk2, iv2) :: r)) as [tr o].
      unfold pre_tr. destruct o as [[a' et]|]; cbn [walk_result].
      * destruct (nl || is_aggregate et); cbn [fst snd]; rewrite <- !app_assoc; reflexivity.
      * cbn [fst snd]. rewrite <- !app_assoc. reflexivity.
    + apply Z.ltb_ge in E.
      assert (n <= ival it iv) as Ho by (rewrite ival_unsigned by exact Hu; lia).
      pose proof (oob_no_access rd s it mk iv false _ t1 a [] [] n a MArrayOob u
                    Hs Hc Hv Hzu Hu Hb Hiv Ho) as Hab.
      rewrite (chain_aborted rd r (EIndex s it mk iv) it2 mk2 iv2 _ u nl Hty Hab Hzu Hrest).
      cbn [walk_result app]. unfold pre_tr. cbn [fst snd]. reflexivity.
Qed.

Theorem nested_levels : forall rd ix t a nl,
  ix <> [] -> is_zero_sized t = false -> shape_ok t ix ->
  0 <= a -> a + stride t <= two64 ->
  comp rd (chain (ERoot t a) ix) nl = Ok (walk_result rd nl (walk t a ix)).
Proof.
  intros rd ix t a nl Hne Hz Hsh Ha Hfit.
  destruct ix as [|[[it mk] iv] r]; [congruence|].
  cbn [chain].
  rewrite (chain_gen rd r (ERoot t a) it mk iv [] a t nl eq_refl eq_refl Hz Hsh Ha Hfit).
  unfold pre_tr. cbn [app]. destruct (walk_result rd nl _); reflexivity.
Qed.
