(* C24 proofs, part 4: top-level round trip with the fuel bound of the model,
   correctness of the minimal and the redundant printer, corollaries. *)
From Coq Require Import List Arith Bool Lia.
Import ListNotations.
From Capy Require Import Model.ExprGrammar Spec.Precedence Proofs.PrattBasics Proofs.PrattLoops Proofs.PrattProofs.

Lemma size_le_print : forall e, size e <= length (print e).
Proof.
  induction e using expr_ind2; cbn [size print]; rewrite ?app_length; cbn [length]; rewrite ?app_length;
    cbn [length]; try lia.
  - assert (J : fold_right (fun a n => S (size a) + n) 0 args <= S (length (join (map print args)))).
    { clear IHe. induction H as [|a args Ha Hargs IH]; cbn [fold_right map join length]; [lia|].
      destruct args as [|b args'].
      - cbn [fold_right map]. lia.
      - change (match map print (b :: args') with [] => print a | _ :: _ => print a ++ TComma :: join (map print (b :: args')) end)
          with (print a ++ TComma :: join (map print (b :: args'))).
        rewrite app_length. cbn [length]. lia. }
    lia.
  - destruct v as [w|]; [specialize (H w eq_refl)|]; cbn [length]; lia.
Qed.

Lemma pfollow_nil : forall x, pfollow x [] = true.
Proof. intros. apply pfollow_all. reflexivity. Qed.

Theorem roundtrip : forall e, wf (CB 0) e = true -> parse_expr (print e) = POk e [].
Proof.
  intros e W. unfold parse_expr, expr_fuel.
  rewrite <- (app_nil_r (print e)) at 2.
  apply parse_bp_print; auto.
  - apply pfollow_nil.
  - pose proof (size_le_print e). lia.
Qed.

(* the same with a statement terminator following (source-file entry point) *)
Theorem roundtrip_semi : forall e R, wf (CB 0) e = true ->
  parse_bp (expr_fuel (print e ++ TSemi :: R)) 0 false (print e ++ TSemi :: R) = POk e (TSemi :: R).
Proof.
  intros e R W. apply parse_bp_print; auto.
  - apply pfollow_all. reflexivity.
  - unfold expr_fuel. rewrite app_length. pose proof (size_le_print e). lia.
Qed.

(* ---- the minimal printer ---------------------------------------------------- *)
Lemma chain_chain : forall c, chain (chain c) = chain c.
Proof. destruct c; reflexivity. Qed.
Lemma dd_chain : forall c, dd_of (chain c) = dd_of c.
Proof. destruct c; reflexivity. Qed.
Lemma ddi_chain : forall c, ddi_of (chain c) = ddi_of c.
Proof. destruct c; reflexivity. Qed.

Lemma pfollow_false_ctx : forall x h c1 c2, pfollow x h = false -> wf c1 x = wf c2 x.
Proof. destruct x; simpl; intros; try discriminate; reflexivity. Qed.

Lemma guard_ok : forall h x c, wf (chain c) x = true ->
  wf (chain c) (guard h x) = true /\ pfollow (guard h x) h = true.
Proof.
  intros. unfold guard. destruct (pfollow x h) eqn:E; [auto|].
  split; [|reflexivity]. cbn [wf]. rewrite <- (pfollow_false_ctx x h (chain c) (CB 0) E). assumption.
Qed.

Lemma pmin_wf : forall t, paren_free t = true -> forall c, wf c (pmin c t) = true.
Proof.
  induction t using expr_ind2; intros PFt c; cbn [paren_free] in PFt; try discriminate; cbn [pmin].
  - reflexivity.
  - cbn [wf]. auto.
  - cbn [wf]. auto.
  - apply andb_true_iff in PFt. destruct PFt as [P1 P2].
    assert (B : wf (CB 0) (EBin o (pmin (CB (lbp o)) t1) (pmin (CB (rbp o)) t2)) = true).
    { cbn [wf]. rewrite IHt1, IHt2 by assumption. reflexivity. }
    destruct c as [m | dd ddi]; [|exact B].
    destruct (m <=? lbp o) eqn:E; [|exact B].
    cbn [wf]. rewrite E, IHt1, IHt2 by assumption. reflexivity.
  - apply andb_true_iff in PFt. destruct PFt as [P1 P2].
    destruct (guard_ok [TLParen] (pmin (chain c) t) c (IHt P1 _)) as [G1 G2].
    cbn [wf]. rewrite G1, G2. cbn [andb]. apply forallb_forall. intros a Ha.
    apply in_map_iff in Ha. destruct Ha as (a0 & <- & Ha0).
    rewrite Forall_forall in H. rewrite forallb_forall in P2. apply H; auto.
  - apply andb_true_iff in PFt. destruct PFt as [P1 P2].
    destruct (guard_ok [TLBrack] (pmin (chain c) t1) c (IHt1 P1 _)) as [G1 G2].
    cbn [wf]. rewrite G1, G2, IHt2 by assumption. reflexivity.
  - destruct (guard_ok [TDot; TIdent] (pmin (chain c) t) c (IHt PFt _)) as [G1 G2].
    cbn [wf]. rewrite G1, G2. reflexivity.
  - destruct (guard_ok [TDot; TTry] (pmin (chain c) t) c (IHt PFt _)) as [G1 G2].
    cbn [wf]. rewrite G1, G2. reflexivity.
  - apply andb_true_iff in PFt. destruct PFt as [P1 P2].
    assert (V : match option_map (pmin (CB 0)) v with Some w => wf (CB 0) w | None => true end = true).
    { destruct v as [w|]; cbn [option_map]; auto. }
    destruct (ddi_of c) eqn:D; cbn [negb close sub].
    + destruct (guard_ok [TDot; TLParen] (pmin (CC false false) t) (CC false false) (IHt P1 _)) as [G1 G2].
      cbn [wf chain ddi_of negb andb] in *. rewrite G1, G2, V. reflexivity.
    + destruct (guard_ok [TDot; TLParen] (pmin (chain c) t) c (IHt P1 _)) as [G1 G2].
      cbn [wf]. rewrite D, G1, G2, V. reflexivity.
  - destruct (dd_of c) eqn:D; cbn [negb close sub].
    + destruct (guard_ok [TCaret] (pmin (CC false false) t) (CC false false) (IHt PFt _)) as [G1 G2].
      cbn [wf chain dd_of negb andb] in *. rewrite G1, G2. reflexivity.
    + destruct (guard_ok [TCaret] (pmin (chain c) t) c (IHt PFt _)) as [G1 G2].
      cbn [wf]. rewrite D, G1, G2. reflexivity.
Qed.

Lemma strip_guard : forall h x, strip (guard h x) = strip x.
Proof. intros. unfold guard. destruct (pfollow x h); reflexivity. Qed.
Lemma strip_close : forall ok e, strip (close ok e) = strip e.
Proof. destruct ok; reflexivity. Qed.

Lemma map_id_on : forall (f : expr -> expr) l, Forall (fun a => f a = a) l -> map f l = l.
Proof. induction 1; simpl; congruence. Qed.

Lemma pmin_strip : forall t, paren_free t = true -> forall c, strip (pmin c t) = t.
Proof.
  induction t using expr_ind2; intros PFt c; cbn [paren_free] in PFt; try discriminate; cbn [pmin].
  - reflexivity.
  - cbn [strip]. rewrite IHt; auto.
  - cbn [strip]. rewrite IHt; auto.
  - apply andb_true_iff in PFt. destruct PFt as [P1 P2].
    assert (B : strip (EBin o (pmin (CB (lbp o)) t1) (pmin (CB (rbp o)) t2)) = EBin o t1 t2).
    { cbn [strip]. rewrite IHt1, IHt2; auto. }
    destruct c as [m|dd ddi]; [destruct (m <=? lbp o)|]; cbn [strip] in *; exact B.
  - apply andb_true_iff in PFt. destruct PFt as [P1 P2]. cbn [strip]. rewrite strip_guard, IHt by assumption.
    f_equal. rewrite map_map. apply map_id_on. rewrite forallb_forall in P2. rewrite Forall_forall in *.
    intros a Ha. apply H; auto.
  - apply andb_true_iff in PFt. destruct PFt as [P1 P2]. cbn [strip]. rewrite strip_guard, IHt1, IHt2; auto.
  - cbn [strip]. rewrite strip_guard, IHt; auto.
  - cbn [strip]. rewrite strip_guard, IHt; auto.
  - apply andb_true_iff in PFt. destruct PFt as [P1 P2]. rewrite strip_close. cbn [strip].
    rewrite strip_guard, IHt by assumption. f_equal. destruct v as [w|]; cbn [option_map]; auto.
    rewrite (H w eq_refl); auto.
  - rewrite strip_close. cbn [strip]. rewrite strip_guard, IHt; auto.
Qed.

(* pmin inserts nothing into an already correctly parenthesised tree *)
Lemma pmin_id : forall t c, wf c t = true -> pmin c t = t.
Proof.
  induction t using expr_ind2; intros c W; cbn [wf] in W; try discriminate; cbn [pmin].
  - reflexivity.
  - rewrite IHt; auto.
  - rewrite IHt; auto.
  - rewrite IHt; auto.
  - destruct c as [m|]; [|discriminate]. apply andb_true_iff in W. destruct W as [W W3].
    apply andb_true_iff in W. destruct W as [W1 W2]. rewrite W1, IHt1, IHt2; auto.
  - apply andb_true_iff in W. destruct W as [W W3]. apply andb_true_iff in W. destruct W as [W1 W2].
    rewrite IHt by assumption. unfold guard. rewrite W2. f_equal. apply map_id_on.
    rewrite forallb_forall in W3. rewrite Forall_forall in *. intros a Ha. apply H; auto.
  - apply andb_true_iff in W. destruct W as [W W3]. apply andb_true_iff in W. destruct W as [W1 W2].
    rewrite IHt1 by assumption. unfold guard. rewrite W2, IHt2; auto.
  - apply andb_true_iff in W. destruct W as [W1 W2]. rewrite IHt by assumption. unfold guard. rewrite W2. reflexivity.
  - apply andb_true_iff in W. destruct W as [W1 W2]. rewrite IHt by assumption. unfold guard. rewrite W2. reflexivity.
  - apply andb_true_iff in W. destruct W as [W W4]. apply andb_true_iff in W. destruct W as [W W3].
    apply andb_true_iff in W. destruct W as [W1 W2]. rewrite W1. cbn [close sub].
    rewrite IHt by assumption. unfold guard. rewrite W3. f_equal. destruct v as [w|]; cbn [option_map]; auto.
    rewrite (H w eq_refl); auto.
  - apply andb_true_iff in W. destruct W as [W W3]. apply andb_true_iff in W. destruct W as [W1 W2].
    rewrite W1. cbn [close sub]. rewrite IHt by assumption. unfold guard. rewrite W3. reflexivity.
Qed.

Theorem print_min_roundtrip : forall t, paren_free t = true ->
  exists e, parse_expr (print_min t) = POk e [] /\ strip e = t /\ e = pmin (CB 0) t.
Proof.
  intros t P. exists (pmin (CB 0) t). split; [|split; [apply pmin_strip; assumption | reflexivity]].
  apply roundtrip. apply pmin_wf. assumption.
Qed.

(* ---- the redundant printer ---------------------------------------------------- *)
Lemma pall_wf : forall t, paren_free t = true -> wf (CB 0) (pall t) = true.
Proof.
  induction t using expr_ind2; intros PFt; cbn [paren_free] in PFt; try discriminate; cbn [pall wf chain pfollow andb].
  - reflexivity.
  - auto.
  - auto.
  - apply andb_true_iff in PFt. destruct PFt as [P1 P2]. rewrite IHt1, IHt2 by assumption. reflexivity.
  - apply andb_true_iff in PFt. destruct PFt as [P1 P2]. rewrite IHt by assumption. cbn [andb].
    apply forallb_forall. intros a Ha. apply in_map_iff in Ha. destruct Ha as (a0 & <- & Ha0). cbn [wf].
    rewrite Forall_forall in H. rewrite forallb_forall in P2. apply H; auto.
  - apply andb_true_iff in PFt. destruct PFt as [P1 P2]. rewrite IHt1, IHt2 by assumption. reflexivity.
  - rewrite IHt by assumption. reflexivity.
  - rewrite IHt by assumption. reflexivity.
  - apply andb_true_iff in PFt. destruct PFt as [P1 P2]. cbn [ddi_of negb]. rewrite IHt by assumption. cbn [andb].
    destruct v as [w|]; cbn [option_map wf]; auto.
  - cbn [dd_of negb]. rewrite IHt by assumption. reflexivity.
Qed.

Lemma pall_strip : forall t, paren_free t = true -> strip (pall t) = t.
Proof.
  induction t using expr_ind2; intros PFt; cbn [paren_free] in PFt; try discriminate; cbn [pall strip].
  - reflexivity.
  - rewrite IHt; auto.
  - rewrite IHt; auto.
  - apply andb_true_iff in PFt. destruct PFt as [P1 P2]. rewrite IHt1, IHt2; auto.
  - apply andb_true_iff in PFt. destruct PFt as [P1 P2]. rewrite IHt by assumption. f_equal.
    rewrite map_map. cbn [strip]. apply map_id_on. rewrite forallb_forall in P2. rewrite Forall_forall in *.
    intros a Ha. apply H; auto.
  - apply andb_true_iff in PFt. destruct PFt as [P1 P2]. rewrite IHt1, IHt2; auto.
  - rewrite IHt; auto.
  - rewrite IHt; auto.
  - apply andb_true_iff in PFt. destruct PFt as [P1 P2]. rewrite IHt by assumption. f_equal.
    destruct v as [w|]; cbn [option_map strip]; auto. rewrite (H w eq_refl); auto.
  - rewrite IHt; auto.
Qed.

Theorem print_redundant_roundtrip : forall t, paren_free t = true ->
  exists e, parse_expr (print_redundant t) = POk e [] /\ strip e = t.
Proof.
  intros t P. exists (pall t). split; [|apply pall_strip; assumption].
  apply roundtrip. apply pall_wf. assumption.
Qed.

Theorem print_parse_print : forall e, wf (CB 0) e = true ->
  exists e', parse_expr (print e) = POk e' [] /\ print e' = print e.
Proof. intros. exists e. split; [apply roundtrip; assumption | reflexivity]. Qed.

(* ---- the documented table ------------------------------------------------------ *)
Lemma lbp_level : forall o, lbp o = 2 * level o - 1.
Proof. destruct o; reflexivity. Qed.
Lemma rbp_level : forall o, rbp o = 2 * level o.
Proof. destruct o; reflexivity. Qed.

(* x o1 y o2 z groups to the left when o2 does not bind tighter than o1
   (equal levels: left associativity) *)
Theorem groups_left : forall o1 o2 x y z,
  level o2 <= level o1 ->
  wf (CB (lbp o1)) x = true -> wf (CB (rbp o1)) y = true -> wf (CB (rbp o2)) z = true ->
  parse_expr (print x ++ TOp o1 :: print y ++ TOp o2 :: print z) = POk (EBin o2 (EBin o1 x y) z) [].
Proof.
  intros. replace (print x ++ TOp o1 :: print y ++ TOp o2 :: print z) with (print (EBin o2 (EBin o1 x y) z)).
  - apply roundtrip. cbn [wf]. rewrite H0, H1, H2.
    assert (lbp o2 <=? lbp o1 = true) as ->. { apply Nat.leb_le. rewrite !lbp_level. lia. }
    reflexivity.
  - cbn [print]. rewrite <- app_assoc. reflexivity.
Qed.

(* ... and to the right when o2 binds tighter *)
Theorem groups_right : forall o1 o2 x y z,
  level o1 < level o2 ->
  wf (CB (lbp o1)) x = true -> wf (CB (lbp o2)) y = true -> wf (CB (rbp o2)) z = true ->
  parse_expr (print x ++ TOp o1 :: print y ++ TOp o2 :: print z) = POk (EBin o1 x (EBin o2 y z)) [].
Proof.
  intros. change (print x ++ TOp o1 :: print y ++ TOp o2 :: print z) with (print (EBin o1 x (EBin o2 y z))).
  apply roundtrip. cbn [wf]. rewrite H0, H1, H2.
  assert (rbp o1 <=? lbp o2 = true) as ->. { apply Nat.leb_le. rewrite lbp_level, rbp_level. lia. }
  reflexivity.
Qed.

(* prefix operators bind tighter than every binary operator *)
Theorem prefix_tighter_than_binary : forall u o x y,
  wf (CC true false) x = true -> wf (CB (rbp o)) y = true ->
  parse_expr (unop_tok u :: print x ++ TOp o :: print y) = POk (EBin o (EUnary u x) y) [].
Proof.
  intros. change (unop_tok u :: print x ++ TOp o :: print y) with (print (EBin o (EUnary u x) y)).
  apply roundtrip. cbn [wf]. rewrite H, H0. reflexivity.
Qed.
Theorem ref_tighter_than_binary : forall m o x y,
  wf (CC true true) x = true -> wf (CB (rbp o)) y = true ->
  parse_expr (print (ERef m x) ++ TOp o :: print y) = POk (EBin o (ERef m x) y) [].
Proof.
  intros. change (print (ERef m x) ++ TOp o :: print y) with (print (EBin o (ERef m x) y)).
  apply roundtrip. cbn [wf]. rewrite H, H0. reflexivity.
Qed.

(* postfix operators bind tighter than every binary operator: in x o y.f the
   field access belongs to y (same for every other postfix form) *)
Theorem postfix_tighter_than_binary : forall o x y,
  wf (CB (lbp o)) x = true -> wf (CC false false) y = true -> is_bin y = false ->
  pfollow y [TCaret] = true -> pfollow y [TDot; TIdent] = true ->
  parse_expr (print x ++ TOp o :: print y ++ [TCaret]) = POk (EBin o x (EDeref y)) [] /\
  parse_expr (print x ++ TOp o :: print y ++ [TDot; TIdent]) = POk (EBin o x (EField y)) [].
Proof.
  intros o x y Hx Hy Hb P1 P2. split.
  - change (print x ++ TOp o :: print y ++ [TCaret]) with (print (EBin o x (EDeref y))).
    apply roundtrip. cbn [wf chain dd_of negb andb]. rewrite Hx, Hy, P1. reflexivity.
  - change (print x ++ TOp o :: print y ++ [TDot; TIdent]) with (print (EBin o x (EField y))).
    apply roundtrip. cbn [wf chain andb]. rewrite Hx, Hy, P2. reflexivity.
Qed.

(* the exact relation between prefix and postfix operators, as coded:
   dereference applies to the whole prefix expression, every other postfix
   operator to the operand of the prefix operator; for `^`/`^mut` the cast
   `.( )` also applies to the whole reference expression *)
Lemma pfollow_caret : forall x R, pfollow x (TCaret :: R) = true.
Proof. induction x; simpl; auto. Qed.

Theorem prefix_vs_deref : forall u x, wf (CC true false) x = true ->
  parse_expr (unop_tok u :: print x ++ [TCaret]) = POk (EDeref (EUnary u x)) [].
Proof.
  intros. change (unop_tok u :: print x ++ [TCaret]) with (print (EDeref (EUnary u x))).
  apply roundtrip. cbn [wf chain dd_of negb andb pfollow cfollow]. rewrite H, pfollow_caret. reflexivity.
Qed.
Theorem ref_vs_deref : forall m x, wf (CC true true) x = true ->
  parse_expr (print (ERef m x) ++ [TCaret]) = POk (EDeref (ERef m x)) [].
Proof.
  intros. change (print (ERef m x) ++ [TCaret]) with (print (EDeref (ERef m x))).
  apply roundtrip. cbn [wf chain dd_of negb andb pfollow cfollow]. rewrite H, pfollow_caret. reflexivity.
Qed.
Theorem prefix_vs_field : forall u x, wf (CC true false) x = true -> pfollow x [TDot; TIdent] = true ->
  parse_expr (unop_tok u :: print x ++ [TDot; TIdent]) = POk (EUnary u (EField x)) [].
Proof.
  intros. change (unop_tok u :: print x ++ [TDot; TIdent]) with (print (EUnary u (EField x))).
  apply roundtrip. cbn [wf chain andb]. rewrite H, H0. reflexivity.
Qed.
Theorem prefix_vs_cast : forall u x v, wf (CC true false) x = true -> pfollow x [TDot; TLParen] = true ->
  wf (CB 0) v = true ->
  parse_expr (unop_tok u :: print x ++ TDot :: TLParen :: print v ++ [TRParen]) = POk (EUnary u (ECast x (Some v))) [].
Proof.
  intros. change (unop_tok u :: print x ++ TDot :: TLParen :: print v ++ [TRParen]) with (print (EUnary u (ECast x (Some v)))).
  apply roundtrip. cbn [wf chain ddi_of negb andb]. rewrite H, H0, H1. reflexivity.
Qed.
Theorem ref_vs_cast : forall m x v, wf (CC true true) x = true -> pfollow x [TDot; TLParen] = true ->
  wf (CB 0) v = true ->
  parse_expr (print (ERef m x) ++ TDot :: TLParen :: print v ++ [TRParen]) = POk (ECast (ERef m x) (Some v)) [].
Proof.
  intros. change (print (ERef m x) ++ TDot :: TLParen :: print v ++ [TRParen]) with (print (ECast (ERef m x) (Some v))).
  apply roundtrip. cbn [wf chain ddi_of negb andb pfollow cfollow]. rewrite H, H0, H1. reflexivity.
Qed.
