(* Model of crates/line_index/src/lib.rs (LineIndex::new, line_col) and of the
   position header printed by diagnostics::input_snippet.

   Text is a list of bytes (N); byte 10 is '\n' (it never occurs inside a
   multi-byte UTF-8 sequence, so bytes suffice).  Offsets are nat.
   std's [partition_point] is modelled by its documented specification on
   partitioned slices ([length (takeWhile p l)]); the precondition (the slice is
   partitioned by the predicate) is theorem [line_starts_sorted] in
   Proofs/LineIndexProofs.v.  u32 wrap of TextSize (texts >= 4 GiB) is outside
   the model. *)
From Capy Require Import Common.Util.

Definition byte := N.
Definition NL : N := 10%N.

(* text.match_indices('\n').map(|(idx,_)| idx + 1), with [pos] = bytes consumed *)
Fixpoint line_starts_from (pos : nat) (txt : list byte) : list nat :=
  match txt with
  | [] => []
  | b :: r => if N.eqb b NL then S pos :: line_starts_from (S pos) r
              else line_starts_from (S pos) r
  end.

Definition line_starts (txt : list byte) : list nat := 0 :: line_starts_from 0 txt.

Definition partition_point (p : nat -> bool) (l : list nat) : nat :=
  length (takeWhile p l).

(* Crash sites: 1 = usize underflow of `partition_point(..) - 1`,
   2 = index out of bounds in `self[line]`, 3 = TextSize subtraction overflow. *)
Definition line_col (ls : list nat) (off : nat) : result (nat * nat) :=
  let pp := partition_point (fun it => Nat.leb it off) ls in
  match pp with
  | 0 => Crash 1
  | S line =>
      match nth_error ls line with
      | None => Crash 2
      | Some start => if Nat.ltb off start then Crash 3 else Ok (line, off - start)
      end
  end.

(* diagnostics::input_snippet prints `start_line.0 + 1`, `start_col.0 + 1` *)
Definition header (lc : nat * nat) : nat * nat := (fst lc + 1, snd lc + 1).

Definition position (txt : list byte) (off : nat) : result (nat * nat) :=
  line_col (line_starts txt) off.

Definition rendered_position (txt : list byte) (off : nat) : result (nat * nat) :=
  match position txt off with Ok lc => Ok (header lc) | Crash s => Crash s | OutOfFuel => OutOfFuel end.
