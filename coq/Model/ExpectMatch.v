(* Model of the acceptance decision of InferenceCtx::expect_match
   (/repo/crates/hir_ty/src/globals.rs) together with ExpectedTy::can_take
   (hir_ty/src/lib.rs) and the assertion of replace_weak_tys.  Only the decision
   (accept / Mismatch diagnostic / silent rejection / panic) is modelled, not the
   weak-type rewriting of the expression table.  No proofs here. *)
From Capy Require Import Common.Util Common.Ty.
From Capy Require Import Model.TyRel.

Inductive expected_ty : Type :=
| Concrete (t : ty)
| ExpEnum
| ExpSumType.

Inductive binop : Type := OpAdd | OpEq.

Inductive em_outcome : Type :=
| Accept            (* returns true, no diagnostic *)
| SilentReject      (* returns false without a diagnostic (unknown involved) *)
| Mismatch.         (* TyDiagnosticKind::Mismatch is pushed, returns false *)

Section WithFixes.
Variable fx : fixes.
Notation fit := (fit fx).
Notation weak := (weak fx).
Notation tmax := (tmax fx).

Definition can_take (e : expected_ty) (found : ty) : bool :=
  match e with
  | Concrete t => fit found t
  | ExpEnum => is_enum found
  | ExpSumType => is_sum_ty found
  end.

(* [int_literal]: the checked expression is an `Expr::IntLiteral`.
   Crash 2: assert!(found_ty.can_fit_into(&new_ty)) in replace_weak_tys;
   Crash 3: assert!(!found.is_weak_replaceable_by(&expected_ty)) in expect_match. *)
Definition expect_match (int_literal : bool) (found : ty) (e : expected_ty) : result em_outcome :=
  match int_literal, e with
  | true, Concrete (IInt _ | UInt _) => Ok Accept
  | _, _ =>
    if (match e with Concrete TType => true | _ => false end) && is_zero_sized found then Ok Accept
    else if is_unknown found || (match e with Concrete t => is_unknown t | _ => false end)
    then Ok SilentReject
    else if can_take e found then
      match e with
      | Concrete t =>
          (* replace_weak_tys(expr, expected_ty), with the expression's recorded type = found *)
          if weak found t then (if fit found t then Ok Accept else Crash 2) else Ok Accept
      | _ => Ok Accept
      end
    else
      match e with
      | Concrete t => if weak found t then Crash 3 else Ok Mismatch
      | _ => Ok Mismatch
      end
  end.

(* the type a binary operator's operands are unified to (BinaryOp::get_possible_output_ty
   starts with first.max(second)); an if/else uses body_ty.max(else_ty) *)
Definition common_ty (m : enum_map) (a b : ty) : result (option ty) := tmax m a b.

(* InferenceCtx::expect_block_match: how the tail expression of a block that already has a
   type (e.g. a function body with a declared return type) is checked: the max of the two, or
   else can_fit_into; replace_weak_tys on the tail may hit its assertion (Crash 2). *)
Definition expect_block_match (m : enum_map) (found block_ty : ty) : result em_outcome :=
  if is_unknown found || is_unknown block_ty then Ok SilentReject else
  let replaced (c : ty) : result em_outcome :=
    if weak found c && negb (fit found c) then Crash 2 else Ok Accept in
  match tmax m block_ty found with
  | Ok (Some c) => replaced c
  | Ok None => if fit found block_ty then replaced block_ty else Ok Mismatch
  | Crash s => Crash s
  | OutOfFuel => OutOfFuel
  end.

(* The tail of a function body with declared return type [ret]: expect_block_match gives the
   block its type (the max, or the return type), which is then checked against the return
   type with expect_match. *)
Definition expect_return (m : enum_map) (found ret : ty) : result em_outcome :=
  if is_unknown found || is_unknown ret then Ok SilentReject else
  match tmax m ret found with
  | Ok (Some c) =>
      if weak found c && negb (fit found c) then Crash 2
      else expect_match false c (Concrete ret)
  | Ok None =>
      if fit found ret then (if weak found ret && negb (fit found ret) then Crash 2 else Ok Accept)
      else Ok Mismatch
  | Crash s => Crash s
  | OutOfFuel => OutOfFuel
  end.

(* Binary operators (Expr::Binary) and compound assignment (`x += v`, quick_assign_op):
   BinaryOp::get_possible_output_ty = lhs.max(rhs); None or !can_perform(max) pushes
   BinaryOpMismatch; then replace_weak_tys on both operands (assertion = Crash 2).
   Two representative operators: `+` (arithmetic class) and `==` (equality class). *)

Definition can_perform (op : binop) (t : ty) : bool :=
  match op with
  | OpAdd => match absolute_ty t with IInt _ | UInt _ | TFloat _ => true | _ => false end
  | OpEq => match absolute_ty t with TAny | RawPtr _ | RawSlice | Unknown => false | _ => true end
  end.

Definition binary_outcome (m : enum_map) (op : binop) (a b : ty) : result em_outcome :=
  match tmax m a b with
  | Ok None => Ok Mismatch
  | Ok (Some c) =>
      if (weak a c && negb (fit a c)) || (weak b c && negb (fit b c)) then Crash 2
      else if negb (ty_eqb a Unknown) && negb (ty_eqb b Unknown) && negb (can_perform op c)
           then Ok Mismatch else Ok Accept
  | Crash s => Crash s
  | OutOfFuel => OutOfFuel
  end.

(* plain assignment `dest = value`: `if dest_ty.is_weak_replaceable_by(&value_ty)
   { replace_weak_tys(dest, value_ty) } else { expect_match(value_ty, dest_ty) }` *)
Definition assign_outcome (value dest : ty) : result em_outcome :=
  if weak dest value then (if fit dest value then Ok Accept else Crash 2)
  else expect_match false value (Concrete dest).

End WithFixes.
