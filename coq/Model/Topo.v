(* Model of /repo/crates/topo/src/lib.rs (TopoSort<T> over IndexMap / IndexSet)
   and of the scheduling skeleton of InferenceCtx::finish
   (/repo/crates/hir_ty/src/lib.rs, the round loop).

   IndexMap<T, Dependencies<T>>  ~  association list in insertion order
     entry(k).or_insert / insert  ~  [set]  (value replaced in place, or appended)
     shift_remove                 ~  [del]  (order of the rest is kept)
   IndexSet<T> parents            ~  list without duplicates, insertion order
   num_children : usize           ~  N; `num_children -= 1` on 0 is [Crash 258]
                                     (debug / overflow-checks builds panic there).
   `num_children += 1` cannot overflow: it is bounded by the number of distinct
   children ever stored in memory (documented assumption, < 2^64).

   No proofs here (extraction must survive a broken proof). *)
From Capy Require Import Common.Util.

Notation item := N (only parsing).

Record deps := mkDeps { nc : N; parents : list item }.
Definition new_deps : deps := mkDeps 0 [].

Definition topo := list (item * deps).
Definition empty : topo := [].

Definition memb (x : item) (l : list item) : bool := existsb (N.eqb x) l.

(* ---- IndexMap primitives ------------------------------------------------ *)
Fixpoint get (t : topo) (k : item) : option deps :=
  match t with
  | [] => None
  | e :: r => if N.eqb (fst e) k then Some (snd e) else get r k
  end.

Fixpoint set (t : topo) (k : item) (d : deps) : topo :=
  match t with
  | [] => [(k, d)]
  | e :: r => if N.eqb (fst e) k then (fst e, d) :: r else e :: set r k d
  end.

Definition del (t : topo) (k : item) : topo :=
  filter (fun e => negb (N.eqb (fst e) k)) t.

Definition keys (t : topo) : list item := map fst t.
Definition len (t : topo) : N := N.of_nat (length t).
Definition is_empty (t : topo) : bool := match t with [] => true | _ => false end.
Definition clear (t : topo) : topo := [].

(* ---- insert_dep / insert_deps / insert / extend ---------------------------- *)
Definition insert_dep (t : topo) (parent child : item) : topo :=
  let after_child :=
    match get t child with
    | None => Some (set t child (mkDeps 0 [parent]))             (* Entry::Vacant *)
    | Some d =>
        if memb parent (parents d) then None                      (* already registered: return *)
        else Some (set t child (mkDeps (nc d) (parents d ++ [parent])))
    end in
  match after_child with
  | None => t
  | Some t1 =>
      match get t1 parent with                                    (* entry(parent).or_insert_with(new).num_children += 1 *)
      | None => set t1 parent (mkDeps 1 [])
      | Some d => set t1 parent (mkDeps (nc d + 1) (parents d))
      end
  end.

Definition insert_deps (t : topo) (parent : item) (children : list item) : topo :=
  fold_left (fun t c => insert_dep t parent c) children t.

(* returns true when the item was NOT present (as the code does; its doc comment says the opposite) *)
Definition insert (t : topo) (x : item) : topo * bool :=
  match get t x with
  | None => (set t x new_deps, true)
  | Some _ => (t, false)
  end.

(* IndexMap::extend = insert (replace) every pair in order *)
Definition extend (t : topo) (xs : list item) : topo :=
  fold_left (fun t x => set t x new_deps) xs t.

(* ---- remove ------------------------------------------------------------------ *)
Fixpoint dec_parents (t : topo) (ps : list item) : result topo :=
  match ps with
  | [] => Ok t
  | s :: r =>
      match get t s with
      | None => dec_parents t r
      | Some d =>
          if N.eqb (nc d) 0 then Crash 258
          else dec_parents (set t s (mkDeps (nc d - 1) (parents d))) r
      end
  end.

Definition remove (t : topo) (child : item) : result (topo * bool) :=
  match get t child with
  | None => Ok (t, false)
  | Some d => do t' <- dec_parents (del t child) (parents d); Ok (t', true)
  end.

(* ---- peeks -------------------------------------------------------------------- *)
Definition is_leaf (e : item * deps) : bool := N.eqb (nc (snd e)) 0.
Definition leaves (t : topo) : list item := map fst (filter is_leaf t).
Definition is_nil {A} (l : list A) : bool := match l with [] => true | _ => false end.

Inductive peek_res := PeekOk (l : list item) | PeekCycle.

Definition peek_all (t : topo) : peek_res :=
  let r := leaves t in
  if negb (is_empty t) && is_nil r then PeekCycle else PeekOk r.

Inductive peek1_res := Peek1None | Peek1Ok (x : item) | Peek1Cycle.

Definition peek (t : topo) : peek1_res :=
  match leaves t with
  | x :: _ => Peek1Ok x
  | [] => if is_empty t then Peek1None else Peek1Cycle
  end.

Definition in_cycle (t : topo) : bool :=
  negb (is_empty t) && forallb (fun e => negb (is_leaf e)) t.

Definition peek_all_cyclic (t : topo) : option (list item) :=
  if in_cycle t then Some (keys t) else None.

Definition peek_cyclic (t : topo) : option item :=
  if in_cycle t then match keys t with x :: _ => Some x | [] => None end else None.

(* ---- pops ---------------------------------------------------------------------- *)
Fixpoint remove_all (t : topo) (xs : list item) : result topo :=
  match xs with
  | [] => Ok t
  | x :: r => do p <- remove t x; remove_all (fst p) r
  end.

Definition pop (t : topo) : result (topo * peek1_res) :=
  match peek t with
  | Peek1Ok x => do p <- remove t x; Ok (fst p, Peek1Ok x)
  | r => Ok (t, r)
  end.

Definition pop_all (t : topo) : result (topo * peek_res) :=
  match peek_all t with
  | PeekOk l => do t' <- remove_all t l; Ok (t', PeekOk l)
  | PeekCycle => Ok (t, PeekCycle)
  end.

Definition pop_cyclic (t : topo) : result (topo * option item) :=
  if in_cycle t then
    match keys t with
    | x :: _ => do p <- remove t x; Ok (fst p, Some x)
    | [] => Crash 200                                  (* keys().next().unwrap() *)
    end
  else Ok (t, None).

Definition pop_all_cyclic (t : topo) : topo * option (list item) :=
  if in_cycle t then ([], Some (keys t)) else (t, None).

(* ---- the client: InferenceCtx::finish ------------------------------------------- *)
(* What one item does when it is its turn: `infer` returned Ok (-> remove) or
   Err(deps) (-> insert_deps). *)
Inductive act := Complete | Register (ds : list item).
Definition event := (item * act)%type.
Definition round := list event.

Definition apply_event (t : topo) (e : event) : result topo :=
  match snd e with
  | Complete => do p <- remove t (fst e); Ok (fst p)
  | Register ds => Ok (insert_deps t (fst e) ds)
  end.

Fixpoint run_round (t : topo) (r : round) : result topo :=
  match r with
  | [] => Ok t
  | e :: r' => do t' <- apply_event t e; run_round t' r'
  end.

Fixpoint run (t : topo) (h : list round) : result topo :=
  match h with
  | [] => Ok t
  | r :: h' => do t' <- run_round t r; run t' h'
  end.

(* The items `finish` processes in a round (before its own sort of the cyclic
   list): peek_all, or on CycleErr peek_all_cyclic().unwrap(); then
   assert!(!leaves.is_empty()). *)
Definition client_offer (t : topo) : result (list item) :=
  let l := match peek_all t with
           | PeekOk l => Ok l
           | PeekCycle => match peek_all_cyclic t with
                          | Some l => Ok l
                          | None => Crash 622
                          end
           end in
  do l <- l; if is_nil l then Crash 666 else Ok l.
