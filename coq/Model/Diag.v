(* C06 -- model of the index arithmetic of diagnostics rendering:
   crates/diagnostics/src/lib.rs  `Diagnostic::display` and `input_snippet`.

   Text = list of bytes; offsets, lines, columns = nat.  Every operation of the Rust code that
   can panic is a [Crash <line of lib.rs>]:
     76   `range.end() - TextSize::from(1)`  (u32 subtraction; the check builds capy in the dev
          profile, where overflow panics.  A release build wraps to 2^32-1 instead.)
     288  `line_end - line_start` (usize)
     315  `max_digits - 3`
     333 / 335 / 337 / 345 / 347 / 354 / 356   the `&file_line[a..b]` byte slices: out of range,
          start > end, or not on a char boundary
   `line_index.line_col` is Model/LineIndex.v ([position], proved total in C25).
   `input.lines()` is modelled through the line-start table: line [num] is the run of bytes from
   [line_starts[num]] up to the next '\n', without a '\r' that directly precedes that '\n'; the
   empty run at the very end of the text (text empty or ending in '\n') is not a line.
   Colours are modelled as a flag per segment (true = highlighted with the severity colour);
   `.replace('\t', "    ")` is applied to every segment. *)
From Capy Require Import Common.Util Model.LineIndex.

Definition CR : N := 13%N.
Definition TAB : N := 9%N.
Definition SP : N := 32%N.

Definition not_nl (b : byte) : bool := negb (N.eqb b NL).

(* bytes from offset [s] up to the next newline *)
Definition seg_at (txt : list byte) (s : nat) : list byte := takeWhile not_nl (skipn s txt).

(* str::lines(): a line that was terminated by "\n" loses one trailing "\r" *)
Definition strip_cr (terminated : bool) (seg : list byte) : list byte :=
  if terminated then
    match rev seg with
    | b :: r => if N.eqb b CR then rev r else seg
    | [] => seg
    end
  else seg.

Definition file_line (txt : list byte) (num : nat) : option (list byte) :=
  match nth_error (line_starts txt) num with
  | None => None
  | Some s =>
      if Nat.eqb s (length txt) then None
      else let seg := seg_at txt s in
           Some (strip_cr (Nat.ltb (s + length seg) (length txt)) seg)
  end.

(* str::is_char_boundary *)
Definition is_cont (b : byte) : bool := N.leb 128 b && N.ltb b 192.
Definition boundary (l : list byte) (i : nat) : bool :=
  Nat.eqb i 0 || Nat.eqb i (length l) ||
  match nth_error l i with Some b => negb (is_cont b) | None => false end.

(* &l[a..b] *)
Definition slice (site : N) (l : list byte) (a b : nat) : result (list byte) :=
  if Nat.leb a b && Nat.leb b (length l) && boundary l a && boundary l b
  then Ok (firstn (b - a) (skipn a l)) else Crash site.

Definition untab (l : list byte) : list byte :=
  flat_map (fun b => if N.eqb b TAB then [SP; SP; SP; SP] else [b]) l.

Inductive row :=
| ROmit
| RLine (num : nat) (err_line : bool) (segs : list (bool * list byte))
| RArrow (col : nat).

(* count_digits(n, 10); [fuel] bounds the loop (n < 10^fuel is guaranteed for u32 with fuel 10;
   the Rust loop also stops when power overflows u32) *)
Fixpoint count_digits_from (fuel : nat) (n power count : nat) : nat :=
  match fuel with
  | O => count
  | S f => if Nat.leb power n then count_digits_from f n (power * 10) (S count) else count
  end.
Definition count_digits (n : nat) : nat := count_digits_from 10 n 10 1.

Definition OMIT_POINT : nat := 7.

Definition render_line (line : list byte) (num sl sc el ec : nat) (missing_arrow : bool)
  : result (list row) :=
  let error_line := Nat.leb sl num && Nat.leb num el in
  let arrow := error_line && missing_arrow in
  let tabs := length (filter (N.eqb TAB) line) in
  let arrow_row := if arrow then [RArrow (sc + tabs * 3)] else [] in
  match Nat.eqb num sl, Nat.eqb num el with
  | true, true =>
      if arrow then Ok (RLine num error_line [(false, untab line)] :: arrow_row)
      else
        do pre <- slice 333 line 0 sc ;
        do mid <- slice 335 line sc (ec + 1) ;
        do post <- slice 337 line (ec + 1) (length line) ;
        Ok [RLine num error_line [(false, untab pre); (true, untab mid); (false, untab post)]]
  | true, false =>
      do pre <- slice 345 line 0 sc ;
      do post <- slice 347 line sc (length line) ;
      Ok (RLine num error_line [(false, untab pre); (true, untab post)] :: arrow_row)
  | false, true =>
      do pre <- slice 354 line 0 (ec + 1) ;
      do post <- slice 356 line (ec + 1) (length line) ;
      Ok (RLine num error_line [(true, untab pre); (false, untab post)] :: arrow_row)
  | false, false =>
      Ok (RLine num error_line [(error_line, untab line)] :: arrow_row)
  end.

(* the `for (num, file_line) in file_lines.iter().enumerate().take(line_end).skip(line_start)` loop,
   [k] = number of remaining iterations *)
Fixpoint rows_from (txt : list byte) (k num line_start line_end max_digits sl sc el ec : nat)
         (missing_arrow : bool) : result (list row) :=
  match k with
  | O => Ok []
  | S k' =>
      match file_line txt num with
      | None => Ok []
      | Some line =>
          if Nat.leb OMIT_POINT (num - line_start) && Nat.ltb OMIT_POINT (line_end - num) then
            if Nat.eqb (num - line_start) OMIT_POINT then
              if Nat.ltb max_digits 3 then Crash 315 else
              do rest <- rows_from txt k' (S num) line_start line_end max_digits sl sc el ec missing_arrow ;
              Ok (ROmit :: rest)
            else rows_from txt k' (S num) line_start line_end max_digits sl sc el ec missing_arrow
          else
            do r <- render_line line num sl sc el ec missing_arrow ;
            do rest <- rows_from txt k' (S num) line_start line_end max_digits sl sc el ec missing_arrow ;
            Ok (r ++ rest)
      end
  end.

Definition input_snippet (txt : list byte) (sl sc el ec : nat) (missing_arrow : bool)
  : result (nat * list row) :=
  let max_digits := count_digits (el + 3) in
  let line_end := el + 3 in
  let line_start := sl - 2 in                      (* saturating_sub *)
  if Nat.ltb line_end line_start then Crash 288 else
  let max_digits := if Nat.ltb (OMIT_POINT * 2) (line_end - line_start) then Nat.max max_digits 3 else max_digits in
  do rows <- rows_from txt (line_end - line_start) line_start line_start line_end max_digits sl sc el ec missing_arrow ;
  Ok (max_digits, rows).

(* Diagnostic::display for a diagnostic with range [start, end_) ; [missing] = SyntaxErrorKind::Missing.
   The help part of a type diagnostic repeats the same computation with the help's range. *)
Definition display (txt : list byte) (start end_ : nat) (missing : bool) : result (nat * list row) :=
  do s <- position txt start ;
  if Nat.eqb end_ 0 then Crash 76 else
  do e <- position txt (end_ - 1) ;
  let arrow := missing || Nat.eqb (end_ - start) 0 in
  input_snippet txt (fst s) (snd s) (fst e) (snd e) arrow.
