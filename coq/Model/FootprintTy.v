(* Typed layer over Model/Footprint.v (C02): how the store-emitting operations of
   /repo/crates/codegen/src/compiler/mod.rs and compiler/functions.rs obtain the
   layout numbers they use FROM TYPES, through the model of layout.rs
   (Common/Layout.v: size_of, stride, struct_offsets, discr_offset).

     MemoryLoc::write_all(val, ty)            -> vlay_of / fp_copy
     cast_into_memory, EnumVariant -> Enum     -> variant_to_enum_args / fp_variant_to_enum
     cast_into_memory, (_, Optional)           -> payload_to_optional_args / fp_payload_to_optional
     cast_payload_into_tagged_union (ErrorUnion) -> payload_to_error_union_args / fp_...
     create_nil_value                          -> fp_nil
     MemoryLoc::memset(0, ty)                  -> fp_memset
     store_expr_in_memory / store_struct_fields / store_array_items
                                               -> lit, lit_footprint

   Every footprint is RELATIVE TO THE DESTINATION OBJECT.  The code is mirrored as
   it is (stride-sized aggregate copies included).  `unwrap`/`expect`/`unreachable!`/
   slice indexing that can fire are [Crash site]:
     101 enum_layout().unwrap()/expect(..) on a type without tag
     102 unreachable!("all variants should be `Ty::Variant`")
     103 .expect("variants can only be casted to their own enums")
     104 the destination of a variant->enum cast is not an enum
     110 assert!(struct_ty.is_struct()) / as_struct().unwrap()
     111 struct_layout().unwrap()
     112 field_tys.iter().find(name).unwrap()
     113 struct_mem.offsets()[idx] out of bounds
     114 expected_ty.as_array().expect(..)
     115 `idx as u32 * stride` overflows
   No proofs here. *)
From Capy Require Import Common.Util Common.LTy Common.Layout Model.Footprint.
Open Scope N_scope.

(* ------------------------------------------------------------------ hir::Ty *)
(* Ty::is_aggregate (crates/hir/src/common/ty.rs) *)
Definition is_aggregate (t : lty) : bool :=
  match absolute_ty t with
  | LStruct _ _ | LAnonStruct _ | LEnum _ _ | LErrorUnion _ _
  | LArray _ _ | LAnonArray _ _ | LSlice _ | LRawSlice | LAny => true
  | LOptional sub => negb (is_non_zero sub)
  | _ => false
  end.

(* Ty::is_zero_sized: `match self.absolute_ty()` with a (redundant) Distinct arm;
   only ConcreteArray / ConcreteStruct are looked into, exactly as in the code *)
Fixpoint is_zero_sized (t : lty) {struct t} : bool :=
  match t with
  | LNotYetResolved | LUnknown | LVoid | LNil | LFile _ | LAlwaysJumps => true
  | LArray n sub => (n =? 0) || is_zero_sized sub
  | LStruct _ ms => forallb (fun m => is_zero_sized (snd m)) ms
  | LDistinct _ sub | LVariant _ _ _ _ sub => is_zero_sized sub
  | _ => false
  end.

(* Ty::as_struct / Ty::as_array *)
Definition as_struct (t : lty) : option (list (N * lty)) :=
  match absolute_ty t with
  | LAnonStruct ms | LStruct _ ms => Some ms
  | _ => None
  end.
Definition as_array (t : lty) : option (N * lty) :=
  match absolute_ty t with
  | LAnonArray n sub | LArray n sub => Some (n, sub)
  | _ => None
  end.

(* ------------------------------------------------------ numbers of a value *)
(* what write_all / memset ask the layout of `ty` for: ty.size(), ty.stride(),
   ty.is_aggregate().  A non-aggregate is stored as ONE Cranelift value of
   get_final_ty(), which has exactly size() bytes (ints, floats, bool, char,
   pointers, `type`); a zero-sized non-aggregate has no value at all
   (`let Some(val) = val else { return }`): v_bytes = size = 0, the empty range. *)
Definition vlay_of (pw : N) (t : lty) : result vlay :=
  do sz <- size_of pw t;
  do st <- stride pw t;
  Ok {| v_size := sz; v_stride := st; v_agg := is_aggregate t; v_bytes := sz |}.

(* the `val : Option<Value>` of a payload: None for zero-sized types *)
Definition payload_of (pw : N) (sub : lty) : result (option vlay) :=
  if is_zero_sized sub then Ok None else do v <- vlay_of pw sub; Ok (Some v).

(* enum_layout().unwrap().discriminant_offset() *)
Definition tag_offset (pw : N) (t : lty) : result N :=
  do d <- discr_offset pw t;
  match d with Some d => Ok d | None => Crash 101 end.

(* --------------------------------------------------------- typed operations *)
(* size of the destination, tag offset, payload value *)
Record sum_args : Type := { sa_size : N; sa_discr : N; sa_payload : option vlay }.

(* the sub type of variant number [idx] of (the enum underlying) [enum_ty] *)
Definition enum_variant_payload (enum_ty : lty) (idx : nat) : result lty :=
  match absolute_ty enum_ty with
  | LEnum _ vs =>
      match nth_error vs idx with
      | Some (LVariant _ _ _ _ sub) => Ok sub
      | Some _ => Crash 102
      | None => Crash 103
      end
  | _ => Crash 104
  end.

(* cast_into_memory, EnumVariant -> Enum: write_all(val, sub_ty); tag at discriminant_offset *)
Definition variant_to_enum_args (pw : N) (enum_ty : lty) (idx : nat) : result sum_args :=
  do sub <- enum_variant_payload enum_ty idx;
  do sz <- size_of pw enum_ty;
  do d <- tag_offset pw enum_ty;
  do p <- payload_of pw sub;
  Ok {| sa_size := sz; sa_discr := d; sa_payload := p |}.

(* cast_into_memory, (_, Optional { sub_ty }) with cast_to.is_tagged_union():
   cast_payload_into_tagged_union(val, _, sub_ty, cast_to, 1) *)
Definition payload_to_optional_args (pw : N) (sub : lty) : result sum_args :=
  do sz <- size_of pw (LOptional sub);
  do d <- tag_offset pw (LOptional sub);
  do p <- payload_of pw sub;
  Ok {| sa_size := sz; sa_discr := d; sa_payload := p |}.

(* cast_payload_into_tagged_union into an error union; which = true: the payload
   (discriminant 1), false: the error (discriminant 0) *)
Definition payload_to_error_union_args (pw : N) (e p : lty) (which : bool) : result sum_args :=
  do sz <- size_of pw (LErrorUnion e p);
  do d <- tag_offset pw (LErrorUnion e p);
  do pl <- payload_of pw (if which then p else e);
  Ok {| sa_size := sz; sa_discr := d; sa_payload := pl |}.

(* typed footprints: (size of the destination object, ranges written) *)
Definition fp_copy (pw : N) (t : lty) (on_stack : bool) : result (N * list range) :=
  do v <- vlay_of pw t; Ok (v_size v, write_all v on_stack).

Definition fp_variant_to_enum (tag_width pw : N) (enum_ty : lty) (idx : nat) (on_stack : bool)
  : result (N * list range) :=
  do a <- variant_to_enum_args pw enum_ty idx;
  Ok (sa_size a, variant_to_enum tag_width (sa_payload a) (sa_discr a) on_stack).

(* a nullable-pointer optional has no tag: the payload is cast straight into the
   destination (`cast_into_memory(.., cast_from, *sub_ty, memory)` = write_all(val, sub_ty)) *)
Definition fp_payload_to_optional (pw : N) (sub : lty) (on_stack : bool) : result (N * list range) :=
  if is_non_zero sub then
    do sz <- size_of pw (LOptional sub);
    do v <- vlay_of pw sub;
    Ok (sz, write_all v on_stack)
  else
    do a <- payload_to_optional_args pw sub;
    Ok (sa_size a, payload_to_union (sa_payload a) (sa_discr a) on_stack).

Definition fp_payload_to_error_union (pw : N) (e p : lty) (which on_stack : bool)
  : result (N * list range) :=
  do a <- payload_to_error_union_args pw e p which;
  Ok (sa_size a, payload_to_union (sa_payload a) (sa_discr a) on_stack).

(* create_nil_value(option_ty = ?sub): nullable pointer -> `iconst(real_ty(sub), 0)`
   written at 0 (the value has the bytes of a [sub] value); otherwise the I8 tag *)
Definition fp_nil (pw : N) (sub : lty) : result (N * list range) :=
  do sz <- size_of pw (LOptional sub);
  if is_non_zero sub then
    do v <- vlay_of pw sub;
    Ok (sz, write_val 0 (v_bytes v))
  else
    do d <- tag_offset pw (LOptional sub);
    Ok (sz, write_val d 1).

Definition fp_memset (pw : N) (t : lty) (on_stack : bool) : result (N * list range) :=
  do v <- vlay_of pw t; Ok (v_size v, memset v on_stack).

(* syntax of the typed operations *)
Inductive top : Type :=
| TCopy (t : lty)
| TVariantToEnum (enum_ty : lty) (idx : nat)
| TPayloadToOptional (sub : lty)
| TPayloadToErrorUnion (e p : lty) (which : bool)
| TNil (sub : lty)
| TMemset (t : lty).

(* the type of the destination object *)
Definition top_dest (c : top) : lty :=
  match c with
  | TCopy t | TMemset t => t
  | TVariantToEnum e _ => e
  | TPayloadToOptional sub | TNil sub => LOptional sub
  | TPayloadToErrorUnion e p _ => LErrorUnion e p
  end.

Definition top_fp (tag_width pw : N) (c : top) (on_stack : bool) : result (N * list range) :=
  match c with
  | TCopy t => fp_copy pw t on_stack
  | TVariantToEnum e idx => fp_variant_to_enum tag_width pw e idx on_stack
  | TPayloadToOptional sub => fp_payload_to_optional pw sub on_stack
  | TPayloadToErrorUnion e p w => fp_payload_to_error_union pw e p w on_stack
  | TNil sub => fp_nil pw sub
  | TMemset t => fp_memset pw t on_stack
  end.

(* ------------------------------------------------------ field-wise literals *)
(* store_expr_in_memory(expr, expected_ty, memory) is directed by the EXPECTED type:
     array literal  -> store_array_items(items, expected_ty.as_array().1, memory)
     struct literal -> store_struct_fields(expected_ty, member_values, memory)
     anything else  -> memory.write_all(compile_expr(expr), expected_ty)
   so a literal tree carries no types of its own; struct literals list their member
   values by NAME in source order (store_struct_fields looks every name up). *)
Inductive lit : Type :=
| LitVal                                   (* a computed value, stored by write_all *)
| LitStruct (fields : list (N * lit))      (* (member name, value) *)
| LitArray (items : list lit).

(* field_tys.iter().enumerate().find(|(_, f)| f.name == name) *)
Fixpoint find_member (name : N) (ms : list (N * lty)) (idx : nat) : option (nat * lty) :=
  match ms with
  | [] => None
  | m :: r => if fst m =? name then Some (idx, snd m) else find_member name r (S idx)
  end.

Section Parts.
  Variable F : lit -> lty -> result (list range).     (* store_expr_in_memory, recursively *)

  (* store_struct_fields: every member value at struct_mem.offsets()[index of its name] *)
  Fixpoint struct_parts (ms : list (N * lty)) (offs : list N) (fs : list (N * lit))
    : result (list (N * list range)) :=
    match fs with
    | [] => Ok []
    | f :: r =>
        match find_member (fst f) ms 0 with
        | None => Crash 112
        | Some (idx, ty) =>
            match nth_error offs idx with
            | None => Crash 113
            | Some off =>
                do fp <- F (snd f) ty;
                do rest <- struct_parts ms offs r;
                Ok ((off, fp) :: rest)
            end
        end
    end.

  (* store_array_items: item number idx at `idx as u32 * stride` *)
  Fixpoint array_parts (sub : lty) (st : N) (idx : N) (items : list lit)
    : result (list (N * list range)) :=
    match items with
    | [] => Ok []
    | v :: r =>
        do off <- mul32 115 idx st;
        do fp <- F v sub;
        do rest <- array_parts sub st (idx + 1) r;
        Ok ((off, fp) :: rest)
    end.
End Parts.

Section Lit.
  Variable pw : N.
  Variable on_stack : bool.

  Fixpoint lit_footprint (l : lit) (expected : lty) {struct l} : result (list range) :=
    match l with
    | LitVal => do v <- vlay_of pw expected; Ok (write_all v on_stack)
    | LitStruct fs =>
        match as_struct expected with
        | None => Crash 110
        | Some ms =>
            do o <- struct_offsets pw expected;
            match o with
            | None => Crash 111
            | Some offs =>
                do parts <- struct_parts lit_footprint ms offs fs;
                Ok (store_parts parts)
            end
        end
    | LitArray items =>
        match as_array expected with
        | None => Crash 114
        | Some (_, sub) =>
            do st <- stride pw sub;
            do parts <- array_parts lit_footprint sub st 0 items;
            Ok (store_parts parts)
        end
    end.
End Lit.

(* well-typedness of a literal against its expected type (what the type checker
   guarantees and the code relies on): member names exist, an array literal has
   exactly as many items as the array type *)
Fixpoint lit_wt (l : lit) (expected : lty) {struct l} : bool :=
  match l with
  | LitVal => true
  | LitStruct fs =>
      match as_struct expected with
      | None => false
      | Some ms =>
          forallb (fun f => match find_member (fst f) ms 0 with
                            | Some (_, ty) => lit_wt (snd f) ty
                            | None => false
                            end) fs
      end
  | LitArray items =>
      match as_array expected with
      | None => false
      | Some (n, sub) => (N.of_nat (length items) =? n) && forallb (fun v => lit_wt v sub) items
      end
  end.

(* a computed value of type t is copied narrowly: not an aggregate, or stride = size
   (the complement is known class 2 of C02: aggregate copy with stride > size) *)
Definition narrow_ty (pw : N) (t : lty) : bool :=
  match vlay_of pw t with
  | Ok v => negb (v_agg v) || (v_stride v =? v_size v)
  | _ => false
  end.

(* every leaf (computed value) of the literal is copied narrowly *)
Fixpoint lit_leaves_narrow (pw : N) (l : lit) (expected : lty) {struct l} : bool :=
  match l with
  | LitVal => narrow_ty pw expected
  | LitStruct fs =>
      match as_struct expected with
      | None => false
      | Some ms =>
          forallb (fun f => match find_member (fst f) ms 0 with
                            | Some (_, ty) => lit_leaves_narrow pw (snd f) ty
                            | None => false
                            end) fs
      end
  | LitArray items =>
      match as_array expected with
      | None => false
      | Some (_, sub) => forallb (fun v => lit_leaves_narrow pw v sub) items
      end
  end.
