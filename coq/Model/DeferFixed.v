(* C03 — model of the defer machinery WITH the proposed fix
   (/verif/.cache/prompts/C03-fix.diff) applied:

   * defers are never compiled into exit blocks; they are compiled wherever a
     block is left: at its normal end, and by `run_defers_to_label` at every
     break / continue / return / .try, which now runs the frames from the top of
     the defer stack down to AND INCLUDING the frame of the label;
   * Expr::While pushes a (defer-less) frame carrying the loop's scope id, so the
     unwinding of `break`/`continue` to a loop stops there;
   * Stmt::Continue unwinds like break before jumping to the header.

   Everything else (lowering, target language, execution) is shared with
   Model/Defer.v. *)
From Capy Require Import Common.Util Model.Defer.

(* run_defers_to_label *)
Fixpoint unwind_incl (st : dstack) (label : N) : list tstmt :=
  match st with
  | [] => []
  | f :: r => run_defers (fdefers f) ++ (if opt_is label (fid f) then [] else unwind_incl r label)
  end.

Fixpoint compile_stmt_fx (st : dstack) (h : hstmt) {struct h} : result (list tstmt) :=
  match h with
  | HPrint c => Ok [TEmit c]
  | HDefer c => Crash 1
  | HBreak None => Crash 2
  | HBreak (Some l) => Ok (unwind_incl st l ++ [TJumpExit l])
  | HContinue None => Crash 3
  | HContinue (Some l) => Ok (unwind_incl st l ++ [TJumpHeader l])
  | HTry _ None => Crash 4
  | HTry k (Some l) =>
      (* the three error-path branches of Expr::Propagate; each one goes through
         break_to_label and hence run_defers_to_label *)
      match k with
      | TryZeroSized => Ok [TTry (unwind_incl st l ++ [TJumpExit l])]   (* break_to_label(None, label) *)
      | TryOptional => Ok [TTry (unwind_incl st l ++ [TJumpExit l])]    (* break_to_label(Some(nil_value), label) *)
      | TryError => Ok [TTry (unwind_incl st l ++ [TJumpExit l])]       (* break_to_label(casted, label) *)
      end
  | HBlock sid body =>
      do x <- compile_list (fun s x => compile_stmt_fx s x) sid st [] body;
      let '(code, defers, no_eval) := x in
      Ok [TBlock sid (code ++ (if no_eval then [] else run_defers defers)) []]
  | HLoop sid c body =>
      do x <- compile_list (fun s x => compile_stmt_fx s x) None (mkFrame sid [] :: st) [] body;
      let '(code, defers, no_eval) := x in
      Ok [TLoop sid c [TBlock None (code ++ (if no_eval then [] else run_defers defers)) []]]
  | HIf a b =>
      do x <- compile_list (fun s x => compile_stmt_fx s x) None st [] a;
      let '(ca, da, na) := x in
      do y <- compile_list (fun s x => compile_stmt_fx s x) None st [] b;
      let '(cb, db, nb) := y in
      Ok [TIf [TBlock None (ca ++ (if na then [] else run_defers da)) []]
              [TBlock None (cb ++ (if nb then [] else run_defers db)) []]]
  end.

Definition compile_fn_fx (h : hstmt) : result (list tstmt) := compile_stmt_fx [] h.

Definition model_fn_fx (fuel : nat) (body : list stmt) (o : oracle) : result trace :=
  let '(h, err) := lower_fn body in
  if err then Crash 10
  else do code <- compile_fn_fx h; trun_fn fuel code o.
