(* C11 — model of `switch` in the Capy compiler AS IT IS.

   Three pieces of the anchored Rust code are transcribed:

   (a) [assign_discriminants] — crates/hir_ty/src/globals.rs, const_ty,
       Expr::EnumDecl: the two-pass algorithm with `used_discriminants`,
       `manual_discriminants` and `latest_discrim` (u64 arithmetic; an overflow
       of `+ 1` is a debug-build panic = [Crash]).

   (b) [check_switch] — crates/hir_ty/src/globals.rs, infer_expr, Expr::Switch:
       the scrutinee check (`ExpectedTy::SumType`, which looks *through*
       distinct / variant wrappers with `absolute_ty`), the arm-resolution pass
       (`has_sum_variant`, `ExpectedTy::Enum`, shorthand lookup), the
       `VariantToCheck` table built by `match *scrutinee_ty { .. _ => unreachable!() }`
       (which does NOT look through wrappers), the covering pass
       (`matches_arm`, SwitchAlreadyCoversVariant) and the exhaustiveness pass
       (SwitchDoesNotCoverVariant unless there is a default arm).
       `Ty::has_sum_variant`, `is_sum_ty`, `is_enum`, `is_nil`
       (crates/hir/src/common/ty.rs) are inlined.

   (c) [compile_switch] / [run_table] — crates/codegen/src/compiler/functions.rs,
       Expr::Switch: arm types, the Cranelift `Switch` on the i8 tag
       (`set_entry` per arm with `get_tagged_union_discrim`, `emit` with its
       "index type does not fit" check), the default block or the
       `compile_unreachable` trap, the nullable-pointer branch for `?^T`
       (with its asserts), and the payload binding of `unwrap_sum_ty`
       (crates/codegen/src/compiler/mod.rs).

   Abstraction of types.  The switch code only ever compares types for
   equality (`Intern<Ty>` / structural `==`) and asks `is_nil`, `is_non_zero`
   (= is_pointer), `is_aggregate`, `is_zero_sized` of them.  A non-variant
   type is therefore an atom [AOther id r]: [id] stands for its identity, [r]
   for its representation class; `nil` and distinct wrappers of `nil` are kept
   apart because `has_sum_variant` uses `is_nil()` while `matches_arm` uses `==`.
   Panics are [Crash site] with the Rust source line as the site.

   Not modelled: the types of the arm bodies (SwitchMismatch, weak-type
   replacement), `const_ty` dependency retries, syntactically missing arm
   variants, `lower_switch` diagnostics MultipleDefaultArms /
   RegularArmAfterDefault (the harness observes those separately). *)
From Capy Require Import Common.Util.

(* ------------------------------------------------------------------ types *)
Inductive repr : Type :=
| RZero      (* is_zero_sized *)
| RScalar    (* non-aggregate with a real Cranelift type, not a pointer *)
| RPtr       (* is_pointer (through distinct wrappers) *)
| RAggr.     (* is_aggregate *)

Inductive aty : Type :=
| ANil                           (* Ty::Nil *)
| ADistinctNil (uid : N)         (* distinct wrapper(s) of nil: is_nil() holds but it is not == Ty::Nil *)
| AOther (id : N) (r : repr).    (* every other non-variant type *)

(* Ty::EnumVariant { enum_uid, variant_name, uid, sub_ty, discriminant } *)
Record variant : Type := mkVariant {
  v_euid : N; v_name : N; v_uid : N;
  v_sub : N;              (* identity of the payload type *)
  v_sub_nil : bool;       (* payload type .is_nil() *)
  v_repr : repr;          (* representation class of the payload type *)
  v_discr : N }.

Inductive vty : Type :=          (* a type that can be named by an arm / be a member of a sum type *)
| TA (a : aty)
| TV (v : variant).

Inductive shape : Type :=        (* scrutinee_ty.absolute_ty() *)
| SEnum (uid : N) (vs : list variant)
| SOpt (sub : vty)
| SErr (e p : vty)
| SNotSum.

Inductive wrapper : Type :=      (* layers removed by absolute_ty *)
| WDistinct (uid : N)
| WVariant (uid : N).

Record scrut : Type := mkScrut { s_wraps : list wrapper; s_shape : shape }.

Inductive arm : Type :=
| AShort (name : N)              (* ArmVariant::Shorthand  `.Name` *)
| AFull (t : vty)                (* ArmVariant::FullyQualified(expr), expr evaluates to the type t *)
| ANotType.                      (* ArmVariant::FullyQualified(expr), expr is not a type *)

(* ------------------------------------------------------------- equalities *)
Definition repr_eqb (a b : repr) : bool :=
  match a, b with
  | RZero, RZero | RScalar, RScalar | RPtr, RPtr | RAggr, RAggr => true
  | _, _ => false
  end.

Definition aty_eqb (a b : aty) : bool :=
  match a, b with
  | ANil, ANil => true
  | ADistinctNil u, ADistinctNil u' => N.eqb u u'
  | AOther i r, AOther i' r' => N.eqb i i' && repr_eqb r r'
  | _, _ => false
  end.

Definition variant_eqb (a b : variant) : bool :=
  N.eqb (v_euid a) (v_euid b) && N.eqb (v_name a) (v_name b) && N.eqb (v_uid a) (v_uid b) &&
  N.eqb (v_sub a) (v_sub b) && Bool.eqb (v_sub_nil a) (v_sub_nil b) && repr_eqb (v_repr a) (v_repr b) &&
  N.eqb (v_discr a) (v_discr b).

Definition vty_eqb (a b : vty) : bool :=
  match a, b with
  | TA x, TA y => aty_eqb x y
  | TV x, TV y => variant_eqb x y
  | _, _ => false
  end.

(* ------------------------------------------- (a) discriminant assignment *)
Definition memN (x : N) (l : list N) : bool := existsb (N.eqb x) l.

Definition u64_max : N := 18446744073709551615%N.

(* `while used.contains(&discrim) { discrim += 1; }` — at most |used| + 1 probes *)
Fixpoint first_free (fuel : nat) (used : list N) (d : N) : result N :=
  match fuel with
  | O => OutOfFuel
  | S f => if memN d used
           then (if N.eqb d u64_max then Crash 4838 else first_free f used (d + 1)%N)
           else Ok d
  end.

(* first pass: `used_discriminants` and which variants keep their manual value.
   A manual value that is already used is reported (DiscriminantUsedAlready) and
   the variant is auto-numbered. *)
Fixpoint pass1 (used : list N) (ms : list (option N)) : list (option N) * list N :=
  match ms with
  | [] => ([], used)
  | None :: r => let (k, u) := pass1 used r in (None :: k, u)
  | Some d :: r =>
      if memN d used
      then let (k, u) := pass1 used r in (None :: k, u)
      else let (k, u) := pass1 (d :: used) r in (Some d :: k, u)
  end.

(* second pass *)
Fixpoint pass2 (used : list N) (latest : N) (ks : list (option N)) : result (list N) :=
  match ks with
  | [] => Ok []
  | k :: r =>
      do d <- match k with
              | Some d => Ok d
              | None => first_free (S (length used)) used latest
              end;
      do latest' <- (if (latest <=? d)%N
                     then (if N.eqb d u64_max then Crash 4845 else Ok (d + 1)%N)
                     else Ok latest);
      do ds <- pass2 used latest' r;
      Ok (d :: ds)
  end.

Definition assign_discriminants (ms : list (option N)) : result (list N) :=
  let (ks, used) := pass1 [] ms in pass2 used 0%N ks.

(* indices of the variants whose manual discriminant is reported as used already *)
Fixpoint dup_manuals (used : list N) (i : nat) (ms : list (option N)) : list nat :=
  match ms with
  | [] => []
  | None :: r => dup_manuals used (S i) r
  | Some d :: r => if memN d used then i :: dup_manuals used (S i) r
                   else dup_manuals (d :: used) (S i) r
  end.

(* ------------------------------------------------- (b) the switch checker *)
Inductive diag : Type :=
| DScrutNotSum                 (* Mismatch { expected: SumType } on the scrutinee *)
| DArmNotType (i : nat)        (* Mismatch { expected: type } on arm i *)
| DNotVariant (i : nat)        (* NotAVariantOfSumType, arm i *)
| DShortOnNonEnum (i : nat)    (* Mismatch { expected: Enum } caused by shorthand arm i *)
| DNotShorthand (i : nat)      (* NotAShorthandVariantOfSumType, arm i *)
| DAlready (i : nat)           (* SwitchAlreadyCoversVariant, arm i *)
| DMissing (j : nat).          (* SwitchDoesNotCoverVariant, j-th variant of the sum type *)

Definition is_nil_vty (t : vty) : bool :=
  match t with
  | TA ANil => true
  | TA (ADistinctNil _) => true
  | TA (AOther _ _) => false
  | TV v => v_sub_nil v
  end.

(* Ty::has_sum_variant on the absolute type *)
Definition has_sum_variant (sh : shape) (t : vty) : bool :=
  match sh with
  | SOpt sub => vty_eqb t sub || is_nil_vty t
  | SErr e p => vty_eqb t e || vty_eqb t p
  | SEnum _ vs => existsb (fun v => vty_eqb (TV v) t) vs
  | SNotSum => false
  end.

Definition wrapped (s : scrut) : bool := match s_wraps s with [] => false | _ => true end.

(* the variant table of `match *scrutinee_ty` (only reached when not wrapped) *)
Definition variants_of (sh : shape) : list vty :=
  match sh with
  | SOpt sub => [sub; TA ANil]
  | SErr e p => [e; p]
  | SEnum _ vs => map TV vs
  | SNotSum => []
  end.

(* first pass over the arms: "resolve all arm types beforehand" *)
Definition resolve_arm (s : scrut) (i : nat) (a : arm) : result (list diag) :=
  match a with
  | ANotType => Ok [DArmNotType i]
  | AFull t => Ok (if has_sum_variant (s_shape s) t then [] else [DNotVariant i])
  | AShort n =>
      match s_shape s with
      | SEnum _ vs =>
          if wrapped s then Crash 1981    (* let Ty::Enum { .. } = *scrutinee_ty else { unreachable!() } *)
          else Ok (if existsb (fun v => N.eqb (v_name v) n) vs then [] else [DNotShorthand i])
      | _ => Ok [DShortOnNonEnum i]
      end
  end.

Fixpoint resolve (s : scrut) (i : nat) (arms : list arm) : result (list diag) :=
  match arms with
  | [] => Ok []
  | a :: r => do d <- resolve_arm s i a; do ds <- resolve s (S i) r; Ok (d ++ ds)
  end.

(* VariantToCheck::matches_arm *)
Definition matches_arm (vt : vty) (a : arm) : result bool :=
  match a with
  | AFull t => Ok (vty_eqb vt t)
  | AShort n => match vt with
                | TV v => Ok (N.eqb (v_name v) n)
                | TA _ => Crash 2024
                end
  | ANotType => Crash 2020                (* meta_ty(ty).expect(..) *)
  end.

(* variants.iter_mut().find(|v| v.matches_arm(..)) : index of the first match *)
Fixpoint find_variant (vts : list vty) (j : nat) (a : arm) : result (option nat) :=
  match vts with
  | [] => Ok None
  | vt :: r => do b <- matches_arm vt a;
               if b then Ok (Some j) else find_variant r (S j) a
  end.

Definition mem_nat (x : nat) (l : list nat) : bool := existsb (Nat.eqb x) l.

(* second pass: [seen] = indices whose `included_in_switch` is set *)
Fixpoint cover (vts : list vty) (seen : list nat) (i : nat) (arms : list arm)
  : result (list diag * list nat) :=
  match arms with
  | [] => Ok ([], seen)
  | a :: r =>
      do o <- find_variant vts 0 a;
      match o with
      | None => Crash 2068
      | Some j =>
          if mem_nat j seen
          then do x <- cover vts seen (S i) r; Ok (DAlready i :: fst x, snd x)
          else cover vts (j :: seen) (S i) r
      end
  end.

Definition missing (n : nat) (seen : list nat) : list diag :=
  map DMissing (filter (fun j => negb (mem_nat j seen)) (seq 0 n)).

Definition check_switch (s : scrut) (arms : list arm) (dflt : bool) : result (list diag) :=
  match s_shape s with
  | SNotSum => Ok [DScrutNotSum]
  | sh =>
      do ds <- resolve s 0 arms;
      match ds with
      | _ :: _ => Ok ds                                   (* type_resolution_error *)
      | [] =>
          if wrapped s then Crash 2053                    (* match *scrutinee_ty { .. _ => unreachable!() } *)
          else
            do x <- cover (variants_of sh) [] 0 arms;
            Ok (fst x ++ (if dflt then [] else missing (length (variants_of sh)) (snd x)))
      end
  end.

Definition accepted (s : scrut) (arms : list arm) (dflt : bool) : bool :=
  match check_switch s arms dflt with Ok [] => true | _ => false end.

(* --------------------------------------------------------- (c) code generation *)
Inductive binding : Type :=
| BNoArg        (* the switch has no argument *)
| BNone         (* zero-sized payload / nil: nothing is bound *)
| BLoad         (* scalar payload loaded from offset 0 of the tagged union *)
| BAddr         (* aggregate payload: address of the union (payload at offset 0) *)
| BPointer.     (* nullable pointer: the scrutinee value itself *)

Inductive table : Type :=
| TTag (entries : list (N * nat)) (dflt : bool) (binds : list binding)
    (* Cranelift Switch on the tag byte: (discriminant, arm index); dflt=false: trap *)
| TNull (nil_arm some_arm : nat) (binds : list binding).
    (* brif (scrutinee != 0) some_arm nil_arm *)

Definition repr_of (t : vty) : repr :=
  match t with
  | TA ANil => RZero
  | TA (ADistinctNil _) => RZero
  | TA (AOther _ r) => r
  | TV v => v_repr v
  end.

Definition is_non_zero (t : vty) : bool := match repr_of t with RPtr => true | _ => false end.

Definition is_tagged (sh : shape) : bool :=
  match sh with
  | SEnum _ _ | SErr _ _ => true
  | SOpt sub => negb (is_non_zero sub)
  | SNotSum => false
  end.

(* arm type computed by the code generator *)
Definition arm_vty (sh : shape) (a : arm) : result vty :=
  match a with
  | AFull t => Ok t
  | ANotType => Crash 1636
  | AShort n =>
      match sh with
      | SEnum _ vs => match find (fun v => N.eqb (v_name v) n) vs with
                      | Some v => Ok (TV v)
                      | None => Crash 1653
                      end
      | _ => Crash 1640
      end
  end.

Fixpoint arm_vtys (sh : shape) (arms : list arm) : result (list vty) :=
  match arms with
  | [] => Ok []
  | a :: r => do t <- arm_vty sh a; do ts <- arm_vtys sh r; Ok (t :: ts)
  end.

(* Ty::get_tagged_union_discrim *)
Definition get_discrim (sh : shape) (t : vty) : result (option N) :=
  match sh with
  | SOpt sub =>
      if is_non_zero sub then Ok None
      else match t with
           | TA ANil => Ok (Some 0%N)
           | _ => if vty_eqb sub t then Ok (Some 1%N) else Crash 499
           end
  | SErr e p =>
      if vty_eqb t e then Ok (Some 0%N)
      else if vty_eqb t p then Ok (Some 1%N)
      else Crash 504
  | SEnum uid _ =>
      match t with
      | TV v => if N.eqb uid (v_euid v) then Ok (Some (v_discr v)) else Crash 513
      | TA _ => Crash 516
      end
  | SNotSum => Ok None
  end.

(* Switch::set_entry for every arm, in order *)
Fixpoint set_entries (sh : shape) (i : nat) (ts : list vty) (acc : list (N * nat))
  : result (list (N * nat)) :=
  match ts with
  | [] => Ok (rev acc)
  | t :: r =>
      do o <- get_discrim sh t;
      match o with
      | None => Crash 1691                                   (* .unwrap() *)
      | Some d => if memN d (map fst acc) then Crash 56      (* "Tried to set the same entry twice" *)
                  else set_entries sh (S i) r ((d, i) :: acc)
      end
  end.

Definition max_entry (es : list (N * nat)) : N := fold_right (fun e m => N.max (fst e) m) 0%N es.

(* super::unwrap_sum_ty *)
Definition unwrap_sum_ty (sh : shape) (t : vty) : result binding :=
  if negb (has_sum_variant sh t) then Crash 1661
  else if negb (is_tagged sh) then
    match t with
    | TA ANil => Ok BNone
    | _ => if is_non_zero t then Ok BPointer else Crash 1671
    end
  else
    match repr_of t with
    | RScalar => Ok BLoad
    | RPtr => Crash 1679                                     (* assert!(!payload_ty.is_non_zero()) *)
    | RZero => Ok BNone
    | RAggr => Ok BAddr
    end.

Fixpoint binds_of (sh : shape) (with_arg : bool) (ts : list vty) : result (list binding) :=
  match ts with
  | [] => Ok []
  | t :: r =>
      do b <- (if with_arg then unwrap_sum_ty sh t else Ok BNoArg);
      do bs <- binds_of sh with_arg r;
      Ok (b :: bs)
  end.

Fixpoint index_of_nil (ts : list vty) (i : nat) : option nat :=
  match ts with
  | [] => None
  | TA ANil :: _ => Some i
  | _ :: r => index_of_nil r (S i)
  end.

Definition compile_switch (sh : shape) (arms : list arm) (dflt with_arg : bool) : result table :=
  do ts <- arm_vtys sh arms;
  if is_tagged sh then
    do es <- set_entries sh 0 ts [];
    if (255 <? max_entry es)%N then Crash 273            (* Switch::emit: index type i8 does not fit *)
    else do bs <- binds_of sh with_arg ts; Ok (TTag es dflt bs)
  else
    match sh with
    | SOpt _ =>
        if dflt then Crash 1729                           (* assert!(default.is_none()) *)
        else if negb (Nat.eqb (length ts) 2) then Crash 1736
        else match index_of_nil ts 0 with
             | None => Crash 1741
             | Some ni => do bs <- binds_of sh with_arg ts;
                          Ok (TNull ni (if Nat.eqb ni 0 then 1 else 0) bs)
             end
    | _ => Crash 1725
    end.

(* ------------------------------------------------------------ run time *)
Inductive rvalue : Type :=
| RTag (b : N)              (* tagged union whose tag byte is b *)
| RNullable (is_nil : bool).

Inductive outcome : Type :=
| OArm (i : nat) (b : option binding)   (* arm i runs with that binding of the argument *)
| ODefault                           (* the default arm runs (argument = the whole scrutinee) *)
| OTrap.                             (* compile_unreachable *)

Fixpoint lookup_entry (es : list (N * nat)) (tag : N) : option nat :=
  match es with
  | [] => None
  | (d, i) :: r => if N.eqb d tag then Some i else lookup_entry r tag
  end.

Definition run_table (t : table) (v : rvalue) : result outcome :=
  match t, v with
  | TTag es dflt bs, RTag tag =>
      match lookup_entry es tag with
      | Some i => Ok (OArm i (nth_error bs i))
      | None => Ok (if dflt then ODefault else OTrap)
      end
  | TNull ni si bs, RNullable isnil =>
      let i := if isnil then ni else si in Ok (OArm i (nth_error bs i))
  | _, _ => Crash 1       (* representation mismatch: never produced by [encode] for the same shape *)
  end.

(* the run-time representation of a value whose current variant is the j-th
   member of the sum type: the tag is stored through an 8-bit-visible store *)
Definition encode (sh : shape) (j : nat) : result rvalue :=
  match nth_error (variants_of sh) j with
  | None => Crash 2
  | Some t =>
      if is_tagged sh then
        do o <- get_discrim sh t;
        match o with
        | Some d => Ok (RTag (d mod 256)%N)
        | None => Crash 3
        end
      else Ok (RNullable (vty_eqb t (TA ANil)))
  end.

Definition dispatch (sh : shape) (arms : list arm) (dflt with_arg : bool) (j : nat) : result outcome :=
  do t <- compile_switch sh arms dflt with_arg;
  do v <- encode sh j;
  run_table t v.
