(* C21 -- the places where an ORDER enters an output of the compiler, as functions of an explicit
   visit / iteration order.

   1. [number]: first-use numbering -- codegen/src/convert.rs `to_type_id`: a compound type gets
      `kind << 26 | counter[kind]++` the first time it is requested (`type_ids` is searched
      linearly first), after its component types (the flattened request sequence is the input here).
      `.str_N` / i128 counters (UIDGenerator) are the same mechanism without the lookup.
   2. [isort]: `definitions().sorted()` -- hir_ty/src/lib.rs `finish` sorts every file's definitions
      before they enter the worklist, so the (hash-)order in which a file's names are stored is
      irrelevant.
   3. commutative folds over unordered containers: `has_errors = source_files.iter().any(..)`,
      main-file detection, and the unsafe-tracking loop over `all_finished_locations`
      (Model/Gate.v [track]): only the OR of the answers is kept.
   4. [print_all]: main.rs prints the diagnostics of `source_files` (an FxHashMap) in the map's
      iteration order and takes `main_files.first()`: here the iteration order DOES reach the
      output; reproducibility rests on FxHashMap iterating deterministically (fixed hasher, keys =
      interner indices assigned in a deterministic parse order), which is tested, not proved. *)
From Capy Require Import Common.Util.

(* ---- 1. first-use numbering ---------------------------------------------------------------- *)
Definition kind := N.
Definition key := N.                       (* identity of an interned type *)
Definition table := list (key * (kind * N)).   (* type_ids: key -> (kind, list id), in insertion order *)

Fixpoint lookup (t : table) (k : key) : option (kind * N) :=
  match t with
  | [] => None
  | (k', v) :: r => if N.eqb k k' then Some v else lookup r k
  end.

(* counter of a kind = number of entries of that kind so far (UIDGenerator per kind) *)
Fixpoint count_kind (t : table) (kd : kind) : N :=
  match t with
  | [] => 0%N
  | (_, (kd', _)) :: r => ((if N.eqb kd kd' then 1 else 0) + count_kind r kd)%N
  end.

(* one request; the table is kept in insertion order (new entries at the end) *)
Definition request (t : table) (kd : kind) (k : key) : table :=
  match lookup t k with
  | Some _ => t
  | None => t ++ [(k, (kd, count_kind t kd))]
  end.

Fixpoint number_from (t : table) (reqs : list (kind * key)) : table :=
  match reqs with
  | [] => t
  | (kd, k) :: r => number_from (request t kd k) r
  end.

Definition number (reqs : list (kind * key)) : table := number_from [] reqs.

(* the 32-bit id: kind << 26 | list id  (list ids >= 2^26 are outside the model) *)
Definition type_id (v : kind * N) : N := (fst v * 67108864 + snd v)%N.

(* ---- 2. sorting before use ------------------------------------------------------------------- *)
Fixpoint insert (a : N) (l : list N) : list N :=
  match l with
  | [] => [a]
  | b :: r => if N.leb a b then a :: l else b :: insert a r
  end.
Fixpoint isort (l : list N) : list N :=
  match l with [] => [] | a :: r => insert a (isort r) end.

(* ---- 4. printing in iteration order ------------------------------------------------------------ *)
Definition print_all {D} (files : list (N * list D)) : list D := flat_map snd files.
Definition pick_main (files : list (N * bool)) : option N :=
  match filter snd files with [] => None | (f, _) :: _ => Some f end.
