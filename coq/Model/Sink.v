(* Model of Sink::finish (/repo/crates/parser/src/sink.rs): builds the tree from
   the event list and the token list, attaching trivia and wrapping comments.
   Crash sites:  5 first event is not StartNode / last is not FinishNode (assert!)
                 6 add_token past the end of the token list (Tokens::kind OOB)
                 7 builder misuse (finish_node/add_token without an open node,
                   anything after the root was finished, unfinished nodes at the end) *)
From Capy Require Import Common.Util Model.ParserCore.

Inductive stree := SNode (kind : N) (kids : list stree) | STok (i : nat).

Definition NODE_COMMENT : N := 0%N.  (* NodeKind::Comment *)

Record sink := mkS {
  s_rem : list tk;                          (* kinds of the tokens from token_idx on *)
  s_idx : nat;                              (* token_idx *)
  s_stack : list (N * list stree);          (* open nodes, innermost first, children reversed *)
  s_done : option stree }.

Definition start_node (s : sink) (k : N) : result sink :=
  match s_done s with
  | Some _ => Crash 7
  | None => Ok (mkS (s_rem s) (s_idx s) ((k, []) :: s_stack s) None)
  end.

Definition finish_node (s : sink) : result sink :=
  match s_done s, s_stack s with
  | None, (k, kids) :: [] => Ok (mkS (s_rem s) (s_idx s) [] (Some (SNode k (rev kids))))
  | None, (k, kids) :: (k2, kids2) :: r => Ok (mkS (s_rem s) (s_idx s) ((k2, SNode k (rev kids) :: kids2) :: r) None)
  | _, _ => Crash 7
  end.

Definition add_token (s : sink) : result sink :=
  match s_rem s with
  | [] => Crash 6
  | _ :: r =>
      match s_done s, s_stack s with
      | None, (k, kids) :: st => Ok (mkS r (S (s_idx s)) ((k, STok (s_idx s) :: kids) :: st) None)
      | _, _ => Crash 7
      end
  end.

(* Sink::skip_trivia, first loop; fuel = number of remaining tokens + 1 *)
Fixpoint sk_loop (fuel : nat) (s : sink) : result sink :=
  match fuel with
  | 0 => OutOfFuel
  | S f =>
      match s_rem s with
      | KWs :: _ => do s1 <- add_token s; sk_loop f s1
      | KCLead :: _ =>
          do s1 <- start_node s NODE_COMMENT;
          do s2 <- add_token s1;
          match s_rem s2 with
          | KCCont :: _ => sk_loop f s2
          | _ => do s3 <- finish_node s2; sk_loop f s3
          end
      | KCCont :: _ => do s1 <- add_token s; do s2 <- finish_node s1; sk_loop f s2
      | _ => Ok s
      end
  end.
(* second loop: while trivia { add_token } *)
Fixpoint sk_rest (fuel : nat) (s : sink) : result sink :=
  match fuel with
  | 0 => OutOfFuel
  | S f =>
      match s_rem s with
      | k :: _ => if trivia k then do s1 <- add_token s; sk_rest f s1 else Ok s
      | [] => Ok s
      end
  end.
Definition sk (s : sink) : result sink :=
  do s1 <- sk_loop (S (length (s_rem s))) s; sk_rest (S (length (s_rem s1))) s1.

Definition process (s : sink) (e : event) : result sink :=
  match e with
  | EStart k => start_node s k
  | EFinish => finish_node s
  | EAdd => add_token s
  end.

Definition is_finish (e : event) : bool := match e with EFinish => true | _ => false end.

Fixpoint run (evs : list event) (s : sink) : result sink :=
  match evs with
  | [] => Ok s
  | cur :: rest =>
      match rest with
      | [] => do s1 <- sk s; process s1 cur          (* the last event *)
      | next :: _ =>
          do s1 <- process s cur;
          do s2 <- (if is_finish next then Ok s1 else sk s1);
          run rest s2
      end
  end.

Definition finish (evs : list event) (ts : list token) : result stree :=
  match evs with
  | EStart _ :: _ =>
      match last evs EAdd with
      | EFinish =>
          do s <- run evs (mkS (map fst ts) 0 [] None);
          match s_done s, s_stack s with
          | Some t, [] => Ok t
          | _, _ => Crash 7
          end
      | _ => Crash 5
      end
  | _ => Crash 5
  end.

Fixpoint leaves (t : stree) : list nat :=
  match t with
  | STok i => [i]
  | SNode _ kids => flat_map leaves kids
  end.
