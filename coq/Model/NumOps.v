(* C08 model: the instruction-selection decisions of the Capy code generator for
   numeric operators and casts, transcribed from
     crates/codegen/src/convert.rs            calc_single / finalize_int      -> [number_type]
     crates/codegen/src/compiler/mod.rs       cast_num, cast_into_memory tail -> [cast_num], [cast_value]
     crates/codegen/src/compiler/functions.rs compile_binary, compile_num_binary, Expr::Unary,
                                              Expr::Comptime re-materialisation
                                              -> [model_binary], [select_binop], [model_unary], [comptime_remat]
     crates/hir/src/common/ty.rs              Ty::max (numeric arms)           -> [ty_max]
   as functions returning short Cranelift instruction lists, plus an executor
   whose integer semantics is Common/Bits.v.  The float instruction semantics
   is a parameter [fsem] (instantiated with Flocq in Model/NumOpsF.v) so that
   everything proved here about integers holds for ANY float semantics and stays
   axiom-free.  The code is mirrored as it is, defects included. *)
From Capy Require Import Common.Util Common.Bits.
Open Scope Z_scope.

(* ---- Capy numeric types (the Ty constructors whose FinalTy is Number) -------- *)
Inductive nty := TIInt (w : N) | TUInt (w : N) | TFloat (w : N) | TBool | TChar.

(* ---- Cranelift types ------------------------------------------------------------ *)
Inductive clty := I8 | I16 | I32 | I64 | I128 | F32 | F64.
Definition clbits (t : clty) : Z :=
  match t with I8 => 8 | I16 => 16 | I32 => 32 | I64 => 64 | I128 => 128 | F32 => 32 | F64 => 64 end.
Definition cl_is_int (t : clty) : bool := match t with F32 | F64 => false | _ => true end.
Definition clty_eqb (a b : clty) : bool :=
  match a, b with
  | I8, I8 | I16, I16 | I32, I32 | I64, I64 | I128, I128 | F32, F32 | F64, F64 => true
  | _, _ => false
  end.

(* convert.rs NumberType *)
Record numty := mk_numty { nt_cl : clty; nt_float : bool; nt_signed : bool }.
Definition bit_width (t : numty) : Z := clbits (nt_cl t).

(* pointer type of the target the check runs on (x86_64) *)
Definition ptr_ty : clty := I64.

(* convert.rs finalize_int; crash 801 = unreachable!() *)
Definition finalize_int (bw : N) (sg : bool) : result numty :=
  match bw with
  | 255%N => Ok (mk_numty ptr_ty false sg)
  | 0%N => Ok (mk_numty I32 false true)
  | 8%N => Ok (mk_numty I8 false sg)
  | 16%N => Ok (mk_numty I16 false sg)
  | 32%N => Ok (mk_numty I32 false sg)
  | 64%N => Ok (mk_numty I64 false sg)
  | 128%N => Ok (mk_numty I128 false sg)
  | _ => Crash 801
  end.

(* convert.rs calc_single, numeric arms (= get_final_ty) ; crash 802 = unreachable!() *)
Definition number_type (t : nty) : result numty :=
  match t with
  | TIInt w => finalize_int w true
  | TUInt 0%N => finalize_int 0 true
  | TUInt w => finalize_int w false
  | TFloat w =>
      match w with
      | 0%N => Ok (mk_numty F32 true true)
      | 32%N => Ok (mk_numty F32 true true)
      | 64%N => Ok (mk_numty F64 true true)
      | _ => Crash 802
      end
  | TBool | TChar => Ok (mk_numty I8 false false)
  end.

(* ---- instructions ------------------------------------------------------------------ *)
Inductive floatcc := FLt | FGt | FLe | FGe | FEq | FNe.
Inductive binstr :=
| Biadd | Bisub | Bimul | Bsdiv | Budiv | Bsrem | Burem | Bband | Bbor | Bbxor
| Bishl | Bsshr | Bushr | Bicmp (cc : intcc)
| Bfadd | Bfsub | Bfmul | Bfdiv | Bfcmp (cc : floatcc).
Inductive uinstr :=
| Usextend (to : clty) | Uuextend (to : clty) | Uireduce (to : clty)
| Ufcvt_to_sint_sat (to : clty) | Ufcvt_to_uint_sat (to : clty)
| Ufcvt_from_sint (to : clty) | Ufcvt_from_uint (to : clty)
| Ufpromote (to : clty) | Ufdemote (to : clty)
| Uineg | Ubnot | Ufneg | Uicmp_eq_zero.

Inductive binop := OpAdd | OpSub | OpMul | OpDiv | OpMod | OpLt | OpGt | OpLe | OpGe | OpEq | OpNe
                 | OpBAnd | OpBOr | OpXor | OpLShift | OpRShift | OpLAnd | OpLOr.
Inductive unop := UPos | UNeg | UBNot | ULNot.

(* functions.rs compile_num_binary; crashes 805/806/807 = the unreachable!()s *)
Definition select_binop (ty : numty) (op : binop) : result binstr :=
  if nt_float ty then
    match op with
    | OpAdd => Ok Bfadd | OpSub => Ok Bfsub | OpMul => Ok Bfmul | OpDiv => Ok Bfdiv
    | OpMod => Crash 805
    | OpLt => Ok (Bfcmp FLt) | OpGt => Ok (Bfcmp FGt) | OpLe => Ok (Bfcmp FLe) | OpGe => Ok (Bfcmp FGe)
    | OpEq => Ok (Bfcmp FEq) | OpNe => Ok (Bfcmp FNe)
    | OpBAnd => Ok Bband | OpBOr => Ok Bbor | OpXor => Ok Bbxor
    | OpLShift | OpRShift => Crash 806
    | OpLAnd | OpLOr => Crash 807
    end
  else
    match op with
    | OpAdd => Ok Biadd | OpSub => Ok Bisub | OpMul => Ok Bimul
    | OpDiv => Ok (if nt_signed ty then Bsdiv else Budiv)
    | OpMod => Ok (if nt_signed ty then Bsrem else Burem)
    | OpLt => Ok (Bicmp (if nt_signed ty then CSlt else CUlt))
    | OpGt => Ok (Bicmp (if nt_signed ty then CSgt else CUgt))
    | OpLe => Ok (Bicmp (if nt_signed ty then CSle else CUle))
    | OpGe => Ok (Bicmp (if nt_signed ty then CSge else CUge))
    | OpEq => Ok (Bicmp CEq) | OpNe => Ok (Bicmp CNe)
    | OpBAnd => Ok Bband | OpBOr => Ok Bbor | OpXor => Ok Bbxor
    | OpLShift => Ok Bishl
    | OpRShift => Ok (if nt_signed ty then Bsshr else Bushr)
    | OpLAnd | OpLOr => Crash 807
    end.

(* mod.rs cast_num; crashes 803/804 = unreachable!() in the int_to matches.
   [bysrc] selects the code variant of the int -> wider int arm:
     false  the code before the repair of finding C08-1: sextend only when BOTH types are signed
     true   the repaired code: sextend whenever the SOURCE type is signed *)
Definition cast_num (bysrc : bool) (from to : numty) : result (list uinstr) :=
  if (bit_width from =? bit_width to) && Bool.eqb (nt_float from) (nt_float to) then Ok []
  else
    match nt_float from, nt_float to with
    | true, true =>
        match bit_width from ?= bit_width to with
        | Lt => Ok [Ufpromote (nt_cl to)]
        | Eq => Ok []
        | Gt => Ok [Ufdemote (nt_cl to)]
        end
    | true, false =>
        do int_to <- (if bit_width from =? 32 then Ok I32
                      else if bit_width from =? 64 then Ok I64 else Crash 803);
        let first := if nt_signed to then Ufcvt_to_sint_sat int_to else Ufcvt_to_uint_sat int_to in
        Ok (first ::
            match bit_width from ?= bit_width to with
            | Lt => if nt_signed to then [Usextend (nt_cl to)] else [Uuextend (nt_cl to)]
            | Eq => []
            | Gt => [Uireduce (nt_cl to)]
            end)
    | false, true =>
        do int_to <- (if bit_width to =? 32 then Ok I32
                      else if bit_width to =? 64 then Ok I64 else Crash 804);
        let first :=
          match bit_width from ?= bit_width to with
          | Lt => if nt_signed from && nt_signed to then [Usextend int_to] else [Uuextend int_to]
          | Eq => []
          | Gt => [Uireduce int_to]
          end in
        Ok (first ++ [if nt_signed from then Ufcvt_from_sint (nt_cl to) else Ufcvt_from_uint (nt_cl to)])
    | false, false =>
        match bit_width from ?= bit_width to with
        | Lt => if (if bysrc then nt_signed from else nt_signed from && nt_signed to)
                then Ok [Usextend (nt_cl to)] else Ok [Uuextend (nt_cl to)]
        | Eq => Ok []
        | Gt => Ok [Uireduce (nt_cl to)]
        end
    end.

(* functions.rs Expr::Unary (the operand's own type decides); crash 808 = unreachable!() *)
Definition select_unop (ty : numty) (op : unop) : result (list uinstr) :=
  if nt_float ty then
    match op with UPos => Ok [] | UNeg => Ok [Ufneg] | UBNot => Ok [Ubnot] | ULNot => Crash 808 end
  else
    match op with UPos => Ok [] | UNeg => Ok [Uineg] | UBNot => Ok [Ubnot] | ULNot => Ok [Uicmp_eq_zero] end.

(* ty.rs Ty::max, arms that apply to numeric types *)
Definition nty_eqb (a b : nty) : bool :=
  match a, b with
  | TIInt x, TIInt y | TUInt x, TUInt y | TFloat x, TFloat y => N.eqb x y
  | TBool, TBool | TChar, TChar => true
  | _, _ => false
  end.
Definition int_float_max (iw fw : N) : option nty :=
  if (iw =? 0)%N then Some (TFloat fw)
  else if (iw <? 64)%N && (fw =? 0)%N then Some (TFloat (N.max (iw * 2) 32))
  else if (iw <? fw)%N then Some (TFloat fw) else None.
Definition ty_max (a b : nty) : option nty :=
  if nty_eqb a b then Some a else
  match a, b with
  | TIInt x, TIInt y => Some (TIInt (N.max x y))
  | TUInt x, TUInt y => Some (TUInt (N.max x y))
  | TIInt s, TUInt u | TUInt u, TIInt s =>
      if (s =? 0)%N && (u =? 0)%N then Some (TIInt 0)
      else if (u <? s)%N then Some (TIInt s) else None
  | (TIInt iw | TUInt iw), TFloat fw | TFloat fw, (TIInt iw | TUInt iw) => int_float_max iw fw
  | TFloat x, TFloat y => Some (TFloat (N.max x y))
  | _, _ => None
  end.

(* ---- execution ---------------------------------------------------------------------- *)
(* float instruction semantics on bit patterns: a parameter here *)
Record fsem := mk_fsem {
  f_from_sint : clty -> Z -> Z -> Z;      (* float type, int width, int bits -> float bits *)
  f_from_uint : clty -> Z -> Z -> Z;
  f_to_sint_sat : clty -> Z -> Z -> Z;    (* float type, int width, float bits -> int bits *)
  f_to_uint_sat : clty -> Z -> Z -> Z;
  f_promote : Z -> Z;                     (* f32 bits -> f64 bits *)
  f_demote : Z -> Z;                      (* f64 bits -> f32 bits *)
  f_neg : clty -> Z -> Z;
  f_arith : binstr -> clty -> Z -> Z -> Z;  (* fadd fsub fmul fdiv *)
  f_cmp : floatcc -> clty -> Z -> Z -> bool;
  (* not a float instruction: which variant of cast_num the model mirrors (see [cast_num]);
     carried here because this record is what every model function is parameterised by *)
  v_cast_by_source : bool
}.

(* a run-time value: Cranelift type and bit pattern; [Trap] = hardware trap
   (SIGFPE); [Fault] = the generated program dies with a memory fault (SIGSEGV) *)
Definition value := (clty * Z)%type.
Inductive outcome := Val (v : value) | Trap | Fault.

(* crash 810: Cranelift's verifier rejects the instruction (the compiler panics);
   crash 812: the x64 backend has no lowering ("should be implemented in ISLE"):
   sdiv/udiv/srem/urem on i128 -- compilation aborts with an error;
   band/bor/bxor on f32/f64 operands are accepted by Cranelift but the code it
   emits faults when run (observed; mirrored as [Fault]). *)
Definition exec_u (F : fsem) (i : uinstr) (v : value) : result value :=
  let (t, a) := v in
  match i with
  | Usextend to =>
      if cl_is_int t && cl_is_int to && (clbits t <? clbits to)
      then Ok (to, sextend (clbits t) (clbits to) a) else Crash 810
  | Uuextend to =>
      if cl_is_int t && cl_is_int to && (clbits t <? clbits to)
      then Ok (to, uextend (clbits t) (clbits to) a) else Crash 810
  | Uireduce to =>
      if cl_is_int t && cl_is_int to && (clbits to <? clbits t)
      then Ok (to, ireduce (clbits to) a) else Crash 810
  | Ufcvt_to_sint_sat to =>
      if negb (cl_is_int t) && cl_is_int to then Ok (to, f_to_sint_sat F t (clbits to) a) else Crash 810
  | Ufcvt_to_uint_sat to =>
      if negb (cl_is_int t) && cl_is_int to then Ok (to, f_to_uint_sat F t (clbits to) a) else Crash 810
  | Ufcvt_from_sint to =>
      if cl_is_int t && negb (cl_is_int to) then Ok (to, f_from_sint F to (clbits t) a) else Crash 810
  | Ufcvt_from_uint to =>
      if cl_is_int t && negb (cl_is_int to) then Ok (to, f_from_uint F to (clbits t) a) else Crash 810
  | Ufpromote to =>
      match t, to with F32, F64 => Ok (F64, f_promote F a) | _, _ => Crash 810 end
  | Ufdemote to =>
      match t, to with F64, F32 => Ok (F32, f_demote F a) | _, _ => Crash 810 end
  | Uineg => if cl_is_int t then Ok (t, ineg (clbits t) a) else Crash 810
  | Ubnot => Ok (t, bnot (clbits t) a)
  | Ufneg => if cl_is_int t then Crash 810 else Ok (t, f_neg F t a)
  | Uicmp_eq_zero => if cl_is_int t then Ok (I8, icmp CEq (clbits t) a (iconst (clbits t) 0)) else Crash 810
  end.

Fixpoint exec_list (F : fsem) (l : list uinstr) (v : value) : result value :=
  match l with
  | [] => Ok v
  | i :: r => do v' <- exec_u F i v; exec_list F r v'
  end.

Definition of_trap (t : clty) (o : option Z) : outcome :=
  match o with Some z => Val (t, z) | None => Trap end.

Definition exec_b (F : fsem) (i : binstr) (x y : value) : result outcome :=
  let (t, a) := x in
  let (t', b) := y in
  if negb (clty_eqb t t') then Crash 810 else
  let w := clbits t in
  match i with
  | Bfadd | Bfsub | Bfmul | Bfdiv => if cl_is_int t then Crash 810 else Ok (Val (t, f_arith F i t a b))
  | Bfcmp cc => if cl_is_int t then Crash 810 else Ok (Val (I8, b2z (f_cmp F cc t a b)))
  | Bband => if cl_is_int t then Ok (Val (t, band w a b)) else Ok Fault
  | Bbor => if cl_is_int t then Ok (Val (t, bor w a b)) else Ok Fault
  | Bbxor => if cl_is_int t then Ok (Val (t, bxor w a b)) else Ok Fault
  | Bsdiv | Budiv | Bsrem | Burem =>
    if negb (cl_is_int t) then Crash 810 else
    if clty_eqb t I128 then Crash 812 else
    match i with
    | Bsdiv => Ok (of_trap t (sdiv w a b))
    | Budiv => Ok (of_trap t (udiv w a b))
    | Bsrem => Ok (of_trap t (srem w a b))
    | _ => Ok (of_trap t (urem w a b))
    end
  | _ =>
    if negb (cl_is_int t) then Crash 810 else
    match i with
    | Biadd => Ok (Val (t, iadd w a b))
    | Bisub => Ok (Val (t, isub w a b))
    | Bimul => Ok (Val (t, imul w a b))
    | Bishl => Ok (Val (t, ishl w a b))
    | Bsshr => Ok (Val (t, sshr w a b))
    | Bushr => Ok (Val (t, ushr w a b))
    | Bicmp cc => Ok (Val (I8, icmp cc w a b))
    | _ => Crash 810
    end
  end.

(* ---- the modelled compilation paths ------------------------------------------------ *)
(* mod.rs cast_into_memory, "simple cast" tail: both final types are Number *)
Definition cast_value (F : fsem) (from to : nty) (a : Z) : result value :=
  do nf <- number_type from;
  do nt <- number_type to;
  do is <- cast_num (v_cast_by_source F) nf nt;
  exec_list F is (nt_cl nf, a).

(* functions.rs compile_binary + compile_num_binary.
   crash 811 = .expect("hir_ty would've caught this") on Ty::max = None.
   OpLAnd/OpLOr: logical_and / logical_or block structure (short circuit): the
   result is the lhs when it decides, the rhs otherwise. *)
Definition model_binary (F : fsem) (lty rty : nty) (op : binop) (a b : Z) : result outcome :=
  match op with
  | OpLAnd => Ok (Val (I8, if a =? 0 then a else b))
  | OpLOr => Ok (Val (I8, if a =? 0 then b else a))
  | _ =>
    match ty_max lty rty with
    | None => Crash 811
    | Some m =>
      do nm <- number_type m;
      do x <- cast_value F lty m a;
      do y <- cast_value F rty m b;
      do i <- select_binop nm op;
      exec_b F i x y
    end
  end.

(* functions.rs Expr::Unary *)
Definition model_unary (F : fsem) (ty : nty) (op : unop) (a : Z) : result value :=
  do nt <- number_type ty;
  do is <- select_unop nt op;
  exec_list F is (nt_cl nt, a).

(* functions.rs Expr::Cast -> compile_and_cast -> cast -> cast_into_memory *)
Definition model_cast (F : fsem) (from to : nty) (a : Z) : result value := cast_value F from to a.

(* comptime.rs run_comptime_int/float + functions.rs Expr::Comptime: a value
   computed inside `comptime` comes back as u64 (zero-extended) / f64 and is
   re-materialised with iconst(ty, num as i64) / f32const(num as f32); i128 goes
   through a data blob. *)
Definition comptime_remat (F : fsem) (v : value) : value :=
  let (t, a) := v in
  match t with
  | I8 | I16 | I32 | I64 => (t, iconst (clbits t) (signed 64 (uextend (clbits t) 64 a)))
  | I128 => (t, a)
  | F32 => (t, f_demote F (f_promote F a))
  | F64 => (t, a)
  end.
