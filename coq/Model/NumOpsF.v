(* C08 model, float instance: the float-instruction semantics parameter of
   Model/NumOps.v instantiated with Flocq (Common/Floats.v), and the closed
   top-level functions that are extracted and run against the real compiler. *)
From Capy Require Import Common.Util Common.Bits Common.Floats Model.NumOps.
Open Scope Z_scope.

Definition farith_of (i : binstr) : farith :=
  match i with Bfsub => FSub | Bfmul => FMul | Bfdiv => FDiv | _ => FAdd end.

Definition fcmp_of (cc : floatcc) (c : option comparison) : bool :=
  match cc, c with
  | FLt, Some Lt => true
  | FGt, Some Gt => true
  | FLe, Some (Lt | Eq) => true
  | FGe, Some (Gt | Eq) => true
  | FEq, Some Eq => true
  | FNe, Some Eq => false
  | FNe, _ => true            (* FloatCC::NotEqual = unordered or not equal *)
  | _, _ => false
  end.

Definition ftrunc (t : clty) (x : Z) : option Z :=
  match t with F32 => fb_trunc32 x | _ => fb_trunc64 x end.

Definition flocq_sem_v (bysrc : bool) : fsem := {|
  f_from_sint := fun t w a => match t with F32 => fb_from_sint32 w a | _ => fb_from_sint64 w a end;
  f_from_uint := fun t w a => match t with F32 => fb_from_uint32 w a | _ => fb_from_uint64 w a end;
  f_to_sint_sat := fun t w x => to_sint_sat_of (ftrunc t x) w;
  f_to_uint_sat := fun t w x => to_uint_sat_of (ftrunc t x) w;
  f_promote := fb_promote;
  f_demote := fb_demote;
  f_neg := fun t x => fb_neg (clbits t) x;
  f_arith := fun i t x y => match t with F32 => fb_arith32 (farith_of i) x y | _ => fb_arith64 (farith_of i) x y end;
  f_cmp := fun cc t x y => fcmp_of cc (match t with F32 => fb_compare32 x y | _ => fb_compare64 x y end);
  v_cast_by_source := bysrc
|}.
(* the code as it was when the check was written (finding C08-1 open) / after its repair *)
Definition flocq_sem : fsem := flocq_sem_v false.
Definition flocq_sem_fixed : fsem := flocq_sem_v true.

Definition canon (v : value) : value :=
  let (t, a) := v in
  match t with F32 => (t, canon32 a) | F64 => (t, canon64 a) | _ => v end.

(* entry points, per code variant [fx] of cast_num (false: before the repair of C08-1) *)
Definition m_binary_v (fx : bool) (l r : nty) (op : binop) (a b : Z) : result outcome :=
  match model_binary (flocq_sem_v fx) l r op a b with
  | Ok (Val v) => Ok (Val (canon v))
  | o => o
  end.
Definition m_unary (t : nty) (op : unop) (a : Z) : result value :=
  do v <- model_unary flocq_sem t op a; Ok (canon v).
Definition m_cast_v (fx : bool) (from to : nty) (a : Z) : result value :=
  do v <- model_cast (flocq_sem_v fx) from to a; Ok (canon v).
Definition m_remat (v : value) : value := canon (comptime_remat flocq_sem v).
Definition m_binary := m_binary_v false.
Definition m_cast := m_cast_v false.
Definition m_binary_fx := m_binary_v true.
Definition m_cast_fx := m_cast_v true.
