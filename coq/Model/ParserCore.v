(* Model of the parser machine of /repo/crates/parser/src/parser.rs and
   parser/marker.rs: token cursor with trivia, event list with placeholders,
   markers (start / complete / precede), bump, at*, expect*, error recovery,
   previous_token_range.  Every panic site of the Rust code is a [Crash n]:
     1  Marker::complete on a slot that is not an open placeholder (debug_assert)
     2  p.events[pos] out of bounds
     3  Vec::insert position > len (CompletedMarker::precede)
     4  Tokens::range / Tokens::kind index out of bounds
   No proofs here. *)
From Capy Require Import Common.Util.

Inductive tk := KWs | KCLead | KCCont | KTok (k : N).
Definition trivia (k : tk) : bool := match k with KTok _ => false | _ => true end.
Definition tk_eqb (a b : tk) : bool :=
  match a, b with
  | KWs, KWs | KCLead, KCLead | KCCont, KCCont => true
  | KTok x, KTok y => N.eqb x y
  | _, _ => false
  end.

(* a token: kind and byte length; starts are the prefix sums (token::Tokens) *)
Definition token := (tk * nat)%type.

Inductive event := EStart (kind : N) | EFinish | EAdd.

Inductive errk :=
| Missing (offset : nat)
| UnexpectedTok (lo hi : nat)
| UnexpectedNode (lo hi : nat).

Record pstate := mkP {
  toks : list token;
  idx : nat;                         (* token_idx *)
  evs : list (option event);         (* Vec<Option<Event>> *)
  errs : list errk }.

Definition NODE_ERROR : N := 1%N.    (* NodeKind::Error *)

(* ---- Tokens ------------------------------------------------------------ *)
Fixpoint start_of (l : list token) (i : nat) : nat :=
  match i, l with
  | S j, t :: r => snd t + start_of r j
  | _, _ => 0
  end.
Definition total (l : list token) : nat := start_of l (length l).

(* Tokens::range(idx) = starts[idx] .. starts[idx+1] *)
Definition range (l : list token) (i : nat) : result (nat * nat) :=
  if i <? length l then Ok (start_of l i, start_of l (S i)) else Crash 4.
(* Tokens::kind(idx) *)
Definition kind_at (l : list token) (i : nat) : result tk :=
  match nth_error l i with Some t => Ok (fst t) | None => Crash 4 end.
(* Tokens::get_kind(idx) *)
Definition get_kind (l : list token) (i : nat) : option tk := option_map fst (nth_error l i).

(* ---- cursor -------------------------------------------------------------- *)
(* skip_trivia: while at_raw(Whitespace|CommentLeader|CommentContents) idx += 1 *)
Fixpoint skip_list (l : list token) (i : nat) : nat :=
  match l with
  | t :: r => if trivia (fst t) then skip_list r (S i) else i
  | [] => i
  end.
Definition skip_trivia (s : pstate) : pstate :=
  mkP (toks s) (skip_list (skipn (idx s) (toks s)) (idx s)) (evs s) (errs s).

Definition peek (s : pstate) : pstate * option tk :=
  let s' := skip_trivia s in (s', get_kind (toks s') (idx s')).
Definition at_kind (s : pstate) (k : tk) : pstate * bool :=
  let (s', o) := peek s in (s', match o with Some k' => tk_eqb k' k | None => false end).
Definition at_set (s : pstate) (set : tk -> bool) : pstate * bool :=
  let (s', o) := peek s in (s', match o with Some k' => set k' | None => false end).
Definition at_eof (s : pstate) : pstate * bool :=
  let s' := skip_trivia s in (s', length (toks s') <=? idx s').

(* at_ahead(offset, set): the cursor is restored afterwards *)
Fixpoint ahead (n : nat) (s : pstate) : option pstate :=
  match n with
  | 0 => Some s
  | S m =>
      let s1 := skip_trivia s in
      let s2 := mkP (toks s1) (S (idx s1)) (evs s1) (errs s1) in
      if snd (at_eof s2) then None else ahead m (fst (at_eof s2))
  end.
Definition at_ahead (s : pstate) (offset : nat) (set : tk -> bool) : bool :=
  match ahead offset s with
  | None => false
  | Some s' => snd (at_set s' set)
  end.

(* bump: push AddToken, token_idx += 1 -- NO skip_trivia *)
Definition bump (s : pstate) : pstate :=
  mkP (toks s) (S (idx s)) (evs s ++ [Some EAdd]) (errs s).

(* ---- markers --------------------------------------------------------------- *)
Definition start (s : pstate) : pstate * nat :=
  (mkP (toks s) (idx s) (evs s ++ [None]) (errs s), length (evs s)).

Fixpoint set_nth {A} (l : list A) (n : nat) (x : A) : list A :=
  match l, n with
  | _ :: r, 0 => x :: r
  | a :: r, S m => a :: set_nth r m x
  | [], _ => []
  end.

Definition complete (s : pstate) (pos : nat) (kind : N) : result pstate :=
  match nth_error (evs s) pos with
  | Some None => Ok (mkP (toks s) (idx s) (set_nth (evs s) pos (Some (EStart kind)) ++ [Some EFinish]) (errs s))
  | Some (Some _) => Crash 1
  | None => Crash 2
  end.

Definition insert_at {A} (l : list A) (n : nat) (x : A) : list A := firstn n l ++ x :: skipn n l.

Definition precede (s : pstate) (pos : nat) : result (pstate * nat) :=
  if pos <=? length (evs s)
  then Ok (mkP (toks s) (idx s) (insert_at (evs s) pos None) (errs s), pos)
  else Crash 3.

(* ---- errors ------------------------------------------------------------------ *)
(* previous_token_range: walk back over trivia; fall back to range(token_idx) *)
Fixpoint prev_nontrivia (l : list token) (i : nat) (fuel : nat) : result (option nat) :=
  (* i = candidate index; returns the index of the previous non-trivia token *)
  match fuel with
  | 0 => OutOfFuel
  | S f =>
      match kind_at l i with
      | Ok k =>
          if trivia k then match i with 0 => Ok None | S j => prev_nontrivia l j f end
          else Ok (Some i)
      | Crash c => Crash c
      | OutOfFuel => OutOfFuel
      end
  end.

Definition previous_token_range (s : pstate) : result (nat * nat) :=
  match idx s with
  | 0 => range (toks s) (idx s)
  | S j =>
      match prev_nontrivia (toks s) j (S (S j)) with
      | Ok (Some i) => range (toks s) i
      | Ok None => range (toks s) (idx s)
      | Crash c => Crash c
      | OutOfFuel => OutOfFuel
      end
  end.

(* error_with_recovery_set_no_default (the expected_syntax bookkeeping, an
   Option::take().unwrap(), is not modelled: see assumptions) *)
Definition error_no_default (s : pstate) (rs : tk -> bool) : result (pstate * option nat) :=
  let (s1, eof) := at_eof s in
  let (s2, inrs) := at_set s1 rs in
  if eof || inrs then
    do r <- previous_token_range s2;
    Ok (mkP (toks s2) (idx s2) (evs s2) (errs s2 ++ [Missing (snd r)]), None)
  else
    do r <- range (toks s2) (idx s2);
    let s3 := mkP (toks s2) (idx s2) (evs s2) (errs s2 ++ [UnexpectedTok (fst r) (snd r)]) in
    let (s4, m) := start s3 in
    let s5 := bump s4 in
    do s6 <- complete s5 m NODE_ERROR;
    Ok (s6, Some m).

Definition expect (s : pstate) (k : tk) (rs : tk -> bool) : result pstate :=
  let (s1, b) := at_kind s k in
  if b then Ok (bump s1) else do r <- error_no_default s1 rs; Ok (fst r).

(* mark_old_missing / mark_old_unexpected *)
Definition mark_old_missing (s : pstate) (start_token : nat) : result pstate :=
  do r <- range (toks s) start_token;
  Ok (mkP (toks s) (idx s) (evs s) (errs s ++ [Missing (fst r)])).
Definition mark_old_unexpected (s : pstate) (start_token end_token : nat) : result pstate :=
  do a <- range (toks s) start_token;
  do b <- range (toks s) end_token;
  Ok (mkP (toks s) (idx s) (evs s) (errs s ++ [UnexpectedNode (Nat.min (fst a) (fst b)) (Nat.max (snd a) (snd b))])).

(* ---- traces of marker operations (for the well-bracketing theorem) ----------- *)
Inductive mop :=
| OStart
| OComplete (pos : nat) (kind : N)
| OPrecede (pos : nat)
| OBump.

Definition step (s : pstate) (o : mop) : result pstate :=
  match o with
  | OStart => Ok (fst (start s))
  | OComplete pos k => complete s pos k
  | OPrecede pos => do r <- precede s pos; Ok (fst r)
  | OBump => Ok (bump s)
  end.

Fixpoint run_ops (s : pstate) (ops : list mop) : result pstate :=
  match ops with
  | [] => Ok s
  | o :: r => do s' <- step s o; run_ops s' r
  end.

(* Parser::parse: every event must be Some (the assert! before the transmute) *)
Fixpoint all_some (l : list (option event)) : option (list event) :=
  match l with
  | [] => Some []
  | Some e :: r => option_map (cons e) (all_some r)
  | None :: _ => None
  end.
