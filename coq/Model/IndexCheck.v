(* C10 — model of the bounds-check / #unwrap lowering of the Capy code generator.

   Mirrors, as they are:
     crates/codegen/src/compiler/functions.rs
        hir::Expr::Index  (zero-sized early return, auto-deref loads, cast of the index to
                           usize by cast_ty_to_cranelift/cast_num, length source = constant
                           array size or slice header, icmp ult, compile_unreachablez,
                           imul_imm stride, iadd, load unless no_load / aggregate)
        hir::Stmt::Assign (destination address first, then the value, then the store)
        Directive "unwrap" (I8 tag load + icmp_imm Equal, or compare with 0 for nullable
                           pointers, compile_unreachablez, unwrap_sum_ty payload access)
        compile_unreachablez / compile_unreachable (puts message; exit 1; trap)
     crates/hir_ty/src/globals.rs
        Expr::Index       (IndexOutOfBounds for IntLiteral indexes: index >= actual_size;
                           index type must `expect_match` usize)
        Expr::EnumDecl    (discriminant assignment: manual u8 discriminants, automatic ones
                           = first value >= latest_discrim that is not a manual one)
   The generated code is executed over an abstract memory [rd : Z -> Z] (value of the
   pointer-sized word at an address); observable behaviour is a trace of events. *)
From Capy Require Import Common.Util.
Open Scope Z_scope.

(* ------------------------------------------------------------------ events *)
Inductive msg :=
| MArrayOob                 (* "array index out of bounds" *)
| MSliceOob                 (* "slice index out of bounds" *)
| MUnwrap                   (* "called #unwrap(..) but the variant was different" *)
| MMarker (n : N).          (* output of user code (side-effect marker) *)

Inductive event :=
| Print (m : msg)
| Exit (code : Z)
| Load (addr w : Z)
| Store (addr w : Z).

Definition trace := list event.

(* compile_unreachable: puts(msg); exit(1); trap *)
Definition fail_block (m : msg) : trace := [Print m; Exit 1].

(* ------------------------------------------------------------------ types *)
(* The fragment of hir::Ty that indexing sees. [TInt b]: a scalar of b bytes (size = stride
   = b); [TZst]: void / empty struct. *)
Inductive ty :=
| TInt (bytes : Z)
| TZst
| TArr (n : Z) (t : ty)
| TSlice (t : ty)
| TPtr (t : ty).

Fixpoint stride (t : ty) : Z :=
  match t with
  | TInt b => b
  | TZst => 0
  | TArr n t => n * stride t
  | TSlice _ => 16          (* { len: usize, ptr: usize } *)
  | TPtr _ => 8
  end.

Definition is_aggregate (t : ty) : bool :=
  match t with TArr _ _ | TSlice _ => true | _ => false end.

(* Ty::is_zero_sized: ConcreteArray { size, sub_ty } => size == 0 || sub_ty.is_zero_sized() *)
Fixpoint is_zero_sized (t : ty) : bool :=
  match t with
  | TZst => true
  | TArr n t => (n =? 0) || is_zero_sized t
  | _ => false
  end.

(* while let Some((_, sub_ty)) = source_ty.as_pointer() { required_derefs += 1 } *)
Fixpoint strip_ptrs (t : ty) : nat * ty :=
  match t with
  | TPtr u => let (k, r) := strip_ptrs u in (S k, r)
  | _ => (O, t)
  end.

(* ------------------------------------------------------------------ index values *)
(* An index expression: its integer type (bit width, signedness), an optional side
   effect (marker printed while it is evaluated) and the bit pattern it evaluates to
   (0 <= bits < 2^width). *)
Record ity := { ibits : Z; isigned : bool }.

Definition two64 : Z := 2 ^ 64.
Definition wrap64 (z : Z) : Z := z mod two64.

(* cast_ty_to_cranelift(index, index_ty, ptr_ty) = cast_num(from, {I64, float:false,
   signed:false}):  equal width -> value unchanged; narrower -> sextend only if both
   signed (never: the target is unsigned), otherwise uextend; wider -> ireduce. *)
Definition cast_to_usize (it : ity) (v : Z) : Z :=
  if ibits it =? 64 then v
  else if ibits it <? 64 then
         (if isigned it && false
          then (if v <? 2 ^ (ibits it - 1) then v else v - 2 ^ ibits it + two64)   (* sextend *)
          else v)                                                                  (* uextend *)
  else v mod two64.                                                                (* ireduce *)

(* the integer the programmer wrote *)
Definition ival (it : ity) (v : Z) : Z :=
  if isigned it && (2 ^ (ibits it - 1) <=? v) then v - 2 ^ ibits it else v.

(* hir_ty: expect_match(index_ty, usize).  Observed on the real checker (correspondence
   stream "index types"): every unsigned width is accepted -- including u128, because the
   pointer-size marker 255 is compared as a width -- and every signed one is rejected. *)
Definition idx_ty_accepted (it : ity) : bool := negb (isigned it).

Definition marker (mk : option N) : trace :=
  match mk with Some n => [Print (MMarker n)] | None => [] end.

(* ------------------------------------------------------------------ expressions *)
Inductive expr :=
| ERoot (t : ty) (v : Z)                          (* an evaluated value: the address for aggregates,
                                                     the pointer value for pointers *)
| EIndex (src : expr) (it : ity) (mk : option N) (iv : Z).

Definition elem_of (t : ty) : option ty :=
  match snd (strip_ptrs t) with
  | TArr _ u => Some u
  | TSlice u => Some u
  | _ => None
  end.

(* the types hir_ty recorded for the expressions *)
Fixpoint type_of (e : expr) : option ty :=
  match e with
  | ERoot t _ => Some t
  | EIndex s _ _ _ => match type_of s with Some t => elem_of t | None => None end
  end.

Inductive outcome :=
| Val (v : option Z)        (* compile_expr's Option<Value>: None for zero-sized values *)
| Aborted.                  (* control reached a fail block: the process has exited *)

(* for _ in 1..required_derefs { source = load(ptr_ty, source) } *)
Fixpoint deref_loads (rd : Z -> Z) (k : nat) (v : Z) : trace * Z :=
  match k with
  | O => ([], v)
  | S k' => let (t, v') := deref_loads rd k' (rd v) in (Load v 8 :: t, v')
  end.

(* What the Index code extracts from the (already compiled) source value:
   deref loads, header loads, length, base address, failure message, element type. *)
Definition arr_view (rd : Z -> Z) (st : ty) (v0 : Z)
  : option (trace * trace * Z * Z * msg * ty) :=
  let (k, at_) := strip_ptrs st in
  let (td, v) := deref_loads rd (pred k) v0 in
  match at_ with
  | TArr n u => Some (td, [], wrap64 n, v, MArrayOob, u)             (* iconst(ptr_ty, len as i64) *)
  | TSlice u => Some (td, [Load v 8; Load (v + 8) 8], rd v, rd (v + 8), MSliceOob, u)
  | _ => None
  end.

Definition elem_addr (base naive : Z) (et : ty) : Z :=
  wrap64 (base + wrap64 (naive * stride et)).     (* imul_imm; iadd *)

Fixpoint comp (rd : Z -> Z) (e : expr) (no_load : bool) : result (trace * outcome) :=
  match e with
  | ERoot _ v => Ok ([], Val (Some v))
  | EIndex s it mk iv =>
    match type_of e, type_of s with
    | Some et, Some st =>
      if is_zero_sized et then Ok ([], Val None)         (* early return: nothing is compiled *)
      else
        do r <- comp rd s false;
        match r with
        | (t1, Aborted) => Ok (t1, Aborted)
        | (t1, Val None) => Crash 930                    (* compile_expr(source).unwrap() *)
        | (t1, Val (Some v0)) =>
          match arr_view rd st v0 with
          | None => Crash 937                            (* debug_assert!(is_array || is_slice) *)
          | Some (td, th, len, base, m, _) =>
            let naive := cast_to_usize it iv in
            let pre := t1 ++ td ++ marker mk ++ th in
            if naive <? len then                         (* icmp ult; brif pass, fail *)
              let addr := elem_addr base naive et in
              if no_load || is_aggregate et
              then Ok (pre, Val (Some addr))
              else Ok (pre ++ [Load addr (stride et)], Val (Some (rd addr)))
            else Ok (pre ++ fail_block m, Aborted)
          end
        end
    | _, _ => Crash 0                                    (* not a typed program *)
    end
  end.

(* ------------------------------------------------------------------ statements *)
Inductive sumkind :=
| KTagged (discr_off : Z) (payload_bytes : Z)   (* enums, ?T for non-pointer T, error unions;
                                                   payload_bytes = 0: zero-sized or aggregate
                                                   payload (no load), else scalar width *)
| KNullable.                                    (* ?^T: the pointer itself, nil = 0 *)

Inductive want :=
| WNil                                          (* #unwrap(x, nil) on a nullable pointer *)
| WVariant (discr : Z).                         (* the requested variant's discriminant
                                                   (1 = "some" for nullable pointers) *)

(* the 8-bit tag: iconst(I8, discrim) / icmp_imm on an I8 value keep the low 8 bits *)
Definition tag8 (d : Z) : Z := d mod 256.

(* Directive "unwrap": [v] = compiled sum value (address of a tagged union, or the
   nullable pointer), [rd8] = byte at an address. *)
Definition unwrap (rd8 : Z -> Z) (k : sumkind) (v : Z) (w : want) : trace * outcome :=
  match k with
  | KTagged off pb =>
    let d := match w with WNil => 0 | WVariant d => d end in
    let tl := [Load (v + off) 1] in
    if rd8 (v + off) =? tag8 d
    then (if pb =? 0 then (tl, Val (Some v)) else (tl ++ [Load v pb], Val (Some v)))
    else (tl ++ fail_block MUnwrap, Aborted)
  | KNullable =>
    let good := match w with WNil => v =? 0 | WVariant _ => negb (v =? 0) end in
    if good then ([], Val (Some v)) else (fail_block MUnwrap, Aborted)
  end.

Inductive stmt :=
| SRead (e : expr)                              (* x := e; *)
| SWrite (e : expr) (vm : option N)             (* e = value;   (value may print a marker) *)
| SUnwrap (k : sumkind) (v : Z) (w : want)      (* x := #unwrap(v, Variant); *)
| SMark (n : N).                                (* user output *)

Definition stmt_run (rd rd8 : Z -> Z) (s : stmt) : result (trace * bool) :=   (* bool: aborted *)
  match s with
  | SRead e =>
    do r <- comp rd e false;
    Ok (fst r, match snd r with Aborted => true | _ => false end)
  | SWrite e vm =>
    (* Stmt::Assign: dest = compile_expr_with_args(dest, true) else return; then value; store *)
    match type_of e with
    | None => Crash 0
    | Some et =>
      do r <- comp rd e true;
      match r with
      | (t, Aborted) => Ok (t, true)
      | (t, Val None) => Ok (t, false)
      | (t, Val (Some a)) => Ok (t ++ marker vm ++ [Store a (stride et)], false)
      end
    end
  | SUnwrap k v w =>
    let (t, o) := unwrap rd8 k v w in
    Ok (t, match o with Aborted => true | _ => false end)
  | SMark n => Ok ([Print (MMarker n)], false)
  end.

(* a straight-line program: nothing runs after an abort *)
Fixpoint exec (rd rd8 : Z -> Z) (p : list stmt) : result (trace * bool) :=
  match p with
  | [] => Ok ([], false)
  | s :: r =>
    do a <- stmt_run rd rd8 s;
    if snd a then Ok (fst a, true)
    else do b <- exec rd rd8 r; Ok (fst a ++ fst b, snd b)
  end.

(* ------------------------------------------------------------------ compile-time check *)
(* globals.rs: if let IntLiteral(index) = bodies[index] { if index >= actual_size { push
   IndexOutOfBounds } }  -- only when the (auto-dereferenced) source is an array *)
Definition lit_index_rejected (src_ty : ty) (index : Z) : bool :=
  match snd (strip_ptrs src_ty) with
  | TArr size _ => size <=? index
  | _ => false
  end.

(* ------------------------------------------------------------------ enum discriminants *)
(* globals.rs Expr::EnumDecl.  [vs]: per variant the manual discriminant, if any.
   used_discriminants = the manual ones only; automatic ones:
     discrim = latest_discrim; while used.contains(discrim) { discrim += 1 } *)
Definition mem_n (x : N) (l : list N) : bool := existsb (N.eqb x) l.

Fixpoint first_unused (fuel : nat) (used : list N) (d : N) : result N :=
  match fuel with
  | O => OutOfFuel
  | S f => if mem_n d used then first_unused f used (d + 1)%N else Ok d
  end.

Fixpoint manual_of (vs : list (option N)) : list N :=
  match vs with
  | [] => []
  | Some d :: r => d :: manual_of r
  | None :: r => manual_of r
  end.

Fixpoint assign_go (used : list N) (vs : list (option N)) (latest : N) : result (list N) :=
  match vs with
  | [] => Ok []
  | m :: r =>
    do d <- match m with
            | Some d => Ok d
            | None => first_unused (S (length used)) used latest
            end;
    let latest' := if (latest <=? d)%N then (d + 1)%N else latest in
    do ds <- assign_go used r latest';
    Ok (d :: ds)
  end.

Definition assign_discrims (vs : list (option N)) : result (list N) :=
  assign_go (manual_of vs) vs 0%N.
