(* Model of crates/lexer/src/lib.rs: the Logos automaton generated from
   tokenizer.txt (maximal munch, priority to literals, one Error token per
   unmatched code point) followed by the hand-written sub-lexers lex_char,
   lex_string and lex_comment.

   Input: list of Unicode scalar values (N).  Output: list of (kind, start byte
   offset) plus the final end offset, i.e. exactly the two vectors `kinds` and
   `starts` that `lex` hands to `Tokens::new`.

   The generated automaton is not hand-written Rust; this model is the reading
   of tokenizer.txt under Logos 0.14 semantics and is tied to the real lexer by
   the exhaustive correspondence stream of the C22 check. *)
From Capy Require Import Common.Util Model.UnicodeNd.
Open Scope N_scope.

Definition cp := N.

Inductive kind :=
| KWhitespace | KNbsp
| KKeyword (text : list cp)      (* As If Else While Loop Switch In Distinct Mut Extern Struct Enum
                                    Comptime Return Break Continue Defer Try Catch *)
| KIdent | KFloat | KInt | KHex | KBin | KBool
| KPunct (text : list cp)        (* Plus ... Hash *)
| KSingleQuote | KDoubleQuote | KEscape | KStringContents
| KCommentLeader | KCommentContents
| KError.

(* ---- character classes ---------------------------------------------------- *)
Definition in_range (lo hi c : N) : bool := andb (N.leb lo c) (N.leb c hi).
Definition is_ws (c : cp) : bool :=
  orb (N.eqb c 32) (orb (N.eqb c 9) (orb (N.eqb c 13) (N.eqb c 10))).
Definition is_alpha_ (c : cp) : bool :=
  orb (in_range 65 90 c) (orb (in_range 97 122 c) (N.eqb c 95)).
Definition is_ascii_digit (c : cp) : bool := in_range 48 57 c.
Definition is_ident_cont (c : cp) : bool := orb (is_alpha_ c) (is_ascii_digit c).
(* \d in a Logos regex over str is Unicode Nd *)
Definition is_digit (c : cp) : bool := is_nd c.
Definition is_du (c : cp) : bool := orb (is_digit c) (N.eqb c 95).
Definition is_e (c : cp) : bool := orb (N.eqb c 101) (N.eqb c 69).
Definition is_sign (c : cp) : bool := orb (N.eqb c 43) (N.eqb c 45).
Definition is_hex (c : cp) : bool :=
  orb (in_range 48 57 c) (orb (in_range 97 102 c) (in_range 65 70 c)).
Definition is_bin (c : cp) : bool := orb (N.eqb c 48) (N.eqb c 49).
Definition not_nl (c : cp) : bool := negb (N.eqb c 10).

Fixpoint span (p : cp -> bool) (l : list cp) : nat :=
  match l with
  | c :: r => if p c then S (span p r) else 0%nat
  | [] => 0%nat
  end.

Fixpoint list_eqb (a b : list cp) : bool :=
  match a, b with
  | [], [] => true
  | x :: a', y :: b' => andb (N.eqb x y) (list_eqb a' b')
  | _, _ => false
  end.

Fixpoint is_prefix (p l : list cp) : bool :=
  match p, l with
  | [], _ => true
  | x :: p', y :: l' => andb (N.eqb x y) (is_prefix p' l')
  | _ :: _, [] => false
  end.

(* ---- literal tables (tokenizer.txt) ----------------------------------------- *)
Definition keywords : list (list cp) :=
  [ [97;115]; [105;102]; [101;108;115;101]; [119;104;105;108;101]; [108;111;111;112];
    [115;119;105;116;99;104]; [105;110]; [100;105;115;116;105;110;99;116]; [109;117;116];
    [101;120;116;101;114;110]; [115;116;114;117;99;116]; [101;110;117;109];
    [99;111;109;112;116;105;109;101]; [114;101;116;117;114;110]; [98;114;101;97;107];
    [99;111;110;116;105;110;117;101]; [100;101;102;101;114]; [116;114;121]; [99;97;116;99;104] ].
Definition bools : list (list cp) := [ [116;114;117;101]; [102;97;108;115;101] ].

Definition puncts : list (list cp) :=
  [ [43]; [45]; [42]; [47]; [37]; [60]; [60;60]; [60;61]; [62]; [62;62]; [62;61]; [33]; [33;61];
    [38]; [38;38]; [124]; [124;124]; [61]; [61;61]; [126]; [44]; [46]; [46;46;46]; [63]; [45;62];
    [61;62]; [94]; [96]; [40]; [41]; [91]; [93]; [123]; [125]; [58]; [59]; [35] ].

Definition mem_list (t : list cp) (tbl : list (list cp)) : bool := existsb (list_eqb t) tbl.

(* ---- one matcher per rule family: length (in code points) of the longest match, 0 = none --- *)
Definition m_ws (l : list cp) : nat := span is_ws l.
Definition m_nbsp (l : list cp) : nat := match l with c :: _ => if N.eqb c 160 then 1%nat else 0%nat | [] => 0%nat end.

Definition m_word (l : list cp) : nat :=
  match l with c :: r => if is_alpha_ c then S (span is_ident_cont r) else 0%nat | [] => 0%nat end.
Definition word_kind (t : list cp) : kind :=
  if mem_list t keywords then KKeyword t else if mem_list t bools then KBool else KIdent.

(* digit then digits-or-underscores *)
Definition m_digits (l : list cp) : nat :=
  match l with c :: r => if is_digit c then S (span is_du r) else 0%nat | [] => 0%nat end.

(* exponent: e/E, optional sign when allowed, then a digits run *)
Definition m_exp (allow_sign : bool) (l : list cp) : nat :=
  match l with
  | e :: r =>
      if is_e e then
        let s := match r with c :: _ => if andb allow_sign (is_sign c) then 1%nat else 0%nat | [] => 0%nat end in
        let d := m_digits (skipn s r) in
        match d with 0%nat => 0%nat | _ => (1 + s + d)%nat end
      else 0%nat
  | [] => 0%nat
  end.

Definition m_int (l : list cp) : nat :=
  match m_digits l with
  | 0%nat => 0%nat
  | n => (n + m_exp false (skipn n l))%nat
  end.

Definition m_float (l : list cp) : nat :=
  let n0 := m_digits l in
  match skipn n0 l with
  | dot :: r =>
      if N.eqb dot 46 then
        match m_digits r with
        | 0%nat => 0%nat
        | n1 => let n := (n0 + 1 + n1)%nat in (n + m_exp true (skipn n l))%nat
        end
      else 0%nat
  | [] => 0%nat
  end.

Definition m_prefixed (marker : cp) (p : cp -> bool) (l : list cp) : nat :=
  match l with
  | z :: x :: r => if andb (N.eqb z 48) (N.eqb x marker) then
                     match span p r with 0%nat => 0%nat | n => (2 + n)%nat end
                   else 0%nat
  | _ => 0%nat
  end.
Definition m_hex := m_prefixed 120 is_hex.
Definition m_bin := m_prefixed 98 is_bin.

Definition m_punct (l : list cp) : nat :=
  fold_left (fun best p => if andb (is_prefix p l) (Nat.ltb best (length p)) then length p else best) puncts 0%nat.

(* quoted literal body (rule __InternalString / __InternalChar): length after the opening quote *)
Fixpoint str_body (q : cp) (l : list cp) : nat :=
  match l with
  | [] => 0%nat
  | c :: r =>
      if N.eqb c q then 1%nat
      else if N.eqb c 92 then
        match r with
        | d :: r' => if N.eqb d 10 then 0%nat else S (S (str_body q r'))
        | [] => 0%nat
        end
      else if N.eqb c 10 then 0%nat
      else S (str_body q r)
  end.
Definition m_quoted (q : cp) (l : list cp) : nat :=
  match l with c :: r => if N.eqb c q then S (str_body q r) else 0%nat | [] => 0%nat end.

Definition m_comment (l : list cp) : nat :=
  match l with
  | a :: b :: r => if andb (N.eqb a 47) (N.eqb b 47) then S (S (span not_nl r)) else 0%nat
  | _ => 0%nat
  end.

(* raw (Logos-level) token kinds *)
Inductive raw :=
| RPlain (k : kind)
| RString | RChar | RComment.

(* Maximal munch over the rule families; on equal length the earlier entry wins
   (Logos priority: literals before regexes).  A family that cannot match returns 0. *)
Definition candidates (l : list cp) : list (nat * raw) :=
  let w := m_word l in
  [ (w, RPlain (word_kind (firstn w l)));
    (m_punct l, RPlain (KPunct (firstn (m_punct l) l)));
    (m_float l, RPlain KFloat);
    (m_int l, RPlain KInt);
    (m_hex l, RPlain KHex);
    (m_bin l, RPlain KBin);
    (m_quoted 34 l, RString);
    (m_quoted 39 l, RChar);
    (m_comment l, RComment);
    (m_ws l, RPlain KWhitespace);
    (m_nbsp l, RPlain KNbsp) ].

Definition pick (cs : list (nat * raw)) : nat * raw :=
  fold_left (fun best c => if Nat.ltb (fst best) (fst c) then c else best) cs (0%nat, RPlain KError).

(* one Logos step: (length in code points >= 1, raw kind) *)
Definition lex_step (l : list cp) : nat * raw :=
  match pick (candidates l) with
  | (0%nat, _) => (1%nat, RPlain KError)
  | r => r
  end.

Definition utf8_len (c : cp) : N :=
  if N.ltb c 128 then 1 else if N.ltb c 2048 then 2 else if N.ltb c 65536 then 3 else 4.
Fixpoint byte_len (l : list cp) : N :=
  match l with [] => 0 | c :: r => utf8_len c + byte_len r end.

(* ---- the sub-lexers of lib.rs --------------------------------------------------- *)
Inductive mode := StartContents | InContents | EscapeM.

(* lex_char / lex_string (identical up to the quote character and kind) *)
Fixpoint sub_quoted (q : cp) (qk : kind) (m : mode) (pos : N) (s : list cp) : list (kind * N) :=
  match s with
  | [] => []
  | c :: r =>
      let pos' := pos + utf8_len c in
      match m with
      | EscapeM => sub_quoted q qk StartContents pos' r
      | _ =>
          if N.eqb c q then (qk, pos) :: sub_quoted q qk StartContents pos' r
          else if N.eqb c 92 then (KEscape, pos) :: sub_quoted q qk EscapeM pos' r
          else match m with
               | StartContents => (KStringContents, pos) :: sub_quoted q qk InContents pos' r
               | _ => sub_quoted q qk InContents pos' r
               end
      end
  end.

(* lex_comment(offset, len): `len` is the byte length of the slice *)
Definition sub_comment (pos : N) (len : N) : list (kind * N) :=
  (KCommentLeader, pos) :: (if N.ltb 1 len then [(KCommentContents, pos + 2)] else []).

Definition emit (r : raw) (pos : N) (text : list cp) : list (kind * N) :=
  match r with
  | RPlain k => [(k, pos)]
  | RString => sub_quoted 34 KDoubleQuote InContents pos text
  | RChar => sub_quoted 39 KSingleQuote InContents pos text
  | RComment => sub_comment pos (byte_len text)
  end.

(* ---- the main loop (fuel = an upper bound on the number of Logos tokens) ---------- *)
Fixpoint lex_loop (fuel : nat) (pos : N) (l : list cp) : result (list (kind * N)) :=
  match l with
  | [] => Ok []
  | _ =>
      match fuel with
      | O => OutOfFuel
      | S fuel' =>
          let '(n, r) := lex_step l in
          let text := firstn n l in
          match lex_loop fuel' (pos + byte_len text) (skipn n l) with
          | Ok toks => Ok (emit r pos text ++ toks)
          | Crash s => Crash s
          | OutOfFuel => OutOfFuel
          end
      end
  end.

(* `lex`: kinds/starts of all tokens, and the final entry of `starts` (= text.len()) *)
Definition lex (txt : list cp) : result (list (kind * N) * N) :=
  match lex_loop (length txt) 0 txt with
  | Ok toks => Ok (toks, byte_len txt)
  | Crash s => Crash s
  | OutOfFuel => OutOfFuel
  end.
