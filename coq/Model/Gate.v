(* C07 -- model of the build gate.

   1. [gate]: the decision sequence of crates/capy/src/main.rs after type inference:
        has_errors  -> print "not compiling due to previous errors", exit(1)
        assert!(!any_were_unsafe_to_compile)                      (panic = [Crash site_assert])
        eval remaining comptime blocks, main_files.len() == 1, compile_obj, write out/<x>.o
      [any_were_unsafe_to_compile] is only computed when `finish` is called with
      track_unsafe_to_compile = true; main.rs passes `!config.verbose_types.is_none()`, so
      in a default build the flag is constantly false and the assert is dead.

   2. [run] / [is_safe]: `GlobalInferenceCtx::is_safe_to_compile` (hir_ty/src/globals.rs),
      the explicit-stack traversal over `descendants(All {include_lambdas: false, ..})`
      with the [checked] set and the edges lambda (type ConcreteFunction), local global and
      `file.member`, over a small HIR: a node carries the information the traversal looks
      at (is it a statement, what do the type tables say, what kind of expression).
      [track]: the `track_unsafe_to_compile` loop of `InferenceCtx::finish`
      (hir_ty/src/lib.rs) with its three `.unwrap()`s on `Err(deps)`.

   Every panic site is a [Crash]; the loop of [run] is fuelled ([OutOfFuel] is excluded by
   the theorem statements, never turned into a verdict). *)
From Capy Require Import Common.Util.

(* ---------------------------------------------------------------------------------- *)
(* 1. the gate                                                                        *)
(* ---------------------------------------------------------------------------------- *)

Inductive cg_result := CgOk | CgError | CgPanic.     (* compile_obj: Ok bytes | Err / verifier exit | panic *)

Inductive outcome :=
| NotCompiled      (* "not compiling due to previous errors", exit 1, nothing written *)
| NoSingleMain     (* "there is no / there are multiple `main` functions", exit 1 *)
| Object           (* out/<x>.o written *)
| CodegenFailed.   (* "Cranelift Error: .." / verifier exit(1): nothing written *)

Record gate_in := {
  g_errors : bool;          (* has_errors: any error diagnostic of any stage *)
  g_track : bool;           (* track_unsafe_to_compile = !verbose_types.is_none() *)
  g_found_unsafe : bool;    (* what the tracking loop computes when it runs *)
  g_mains : N;              (* main_files.len() *)
  g_cg : cg_result
}.

Definition site_assert : N := 640%N.      (* main.rs:640 assert!(!any_were_unsafe_to_compile) *)
Definition site_cg_panic : N := 740%N.    (* a panic inside compile_obj *)

Definition any_unsafe (i : gate_in) : bool := g_track i && g_found_unsafe i.

Definition gate (i : gate_in) : result outcome :=
  if g_errors i then Ok NotCompiled
  else if any_unsafe i then Crash site_assert
  else if negb (N.eqb (g_mains i) 1) then Ok NoSingleMain
  else match g_cg i with
       | CgOk => Ok Object
       | CgError => Ok CodegenFailed
       | CgPanic => Crash site_cg_panic
       end.

(* ---------------------------------------------------------------------------------- *)
(* 2. is_safe_to_compile                                                              *)
(* ---------------------------------------------------------------------------------- *)

Definition loc := N.          (* ConcreteLoc (global or lambda), abstractly numbered *)

(* what the type tables say about an expression *)
Inductive tyc :=
| TMetaOk            (* tys[loc].meta_ty(expr) = Some ty, ty known *)
| TMetaUnknown       (* meta type is <unknown> *)
| TNone              (* expr_tys.get(expr) = None *)
| TUnknown           (* type is <unknown> *)
| TPolyFn            (* Ty::NaivePolymorphicFunction *)
| TConcreteFn (fn : loc)
| TOther.

Inductive kind :=
| KStmt (jump_without_label : bool)        (* Descendant::PreStmt; Break/Continue with label = None *)
| KMissing                                  (* Expr::Missing *)
| KPlain                                    (* the expression kinds with an empty arm *)
| KLocalGlobal (g : loc) (poly : bool)      (* Expr::LocalGlobal; poly: has_polymorphic_body / fn type *)
| KMemberFile (g : loc) (poly : bool)       (* Expr::Member whose `previous` has type Ty::File *)
| KCall (callee_poly : bool)
| KLambda.                                  (* Expr::Lambda not caught by the function-type arms *)

Inductive node := Node (id : N) (k : kind) (t : tyc) (children : list node).

Definition nid (n : node) : N := match n with Node i _ _ _ => i end.
Definition nkind (n : node) : kind := match n with Node _ k _ _ => k end.
Definition nty (n : node) : tyc := match n with Node _ _ t _ => t end.
Definition nchildren (n : node) : list node := match n with Node _ _ _ c => c end.

(* descendants(expr, All {include_lambdas: false, ..}): the node and everything below it
   (a lambda's body block is NOT a child: it hangs off the world, see [lam_of]) *)
Fixpoint desc (n : node) : list node :=
  match n with
  | Node _ _ _ cs => n :: (fix go (l : list node) : list node :=
                             match l with [] => [] | c :: r => desc c ++ go r end) cs
  end.

Inductive lambda_body := LBlock (b : node) | LEmpty | LExtern.
Record lambda_info := { l_body : lambda_body; l_has_ret : bool }.

Record world := {
  lam_of : loc -> option lambda_info;     (* world_bodies[fn.file][fn.expr] is a Lambda *)
  glob_body : loc -> option node;         (* world_bodies.global_body *)
  is_extern : loc -> bool;
  finished : loc -> bool;                 (* all_finished_locations *)
  naive_found : loc -> bool;              (* tys.try_naive(..) = Ok *)
  defined : loc -> bool;                  (* world_index.definition(..) = Defined *)
  err : N -> bool                         (* error_exprs: ids of expressions with an error diagnostic *)
}.

Inductive sres := Safe | Unsafe | NeedDeps (deps : list loc).

Definition mem (l : loc) (s : list loc) : bool := existsb (N.eqb l) s.

Inductive visit_res :=
| VStop (r : result sres)
| VCont (checked : list loc)
| VPush (l : loc) (items : list node) (checked : list loc).

(* the stack holds the items still to do in processing order (the Rust code collects the
   iterator into a Vec and pops from its end; the order only decides WHICH failure is
   reported first) *)
Definition frame_items (b : node) : list node := rev (desc b).

Definition visit (w : world) (n : node) (checked : list loc) : visit_res :=
  match nkind n with
  | KStmt j => if j then VStop (Ok Unsafe) else VCont checked
  | k =>
    if err w (nid n) then VStop (Ok Unsafe) else
    match nty n with
    | TMetaUnknown => VStop (Ok Unsafe)
    | TMetaOk => VCont checked
    | TNone => VStop (Ok Unsafe)
    | TUnknown => VStop (Ok Unsafe)
    | TPolyFn => VCont checked
    | TConcreteFn fn =>
        match lam_of w fn with
        | None => VStop (Crash 5224)                     (* let Expr::Lambda = .. else unreachable!() *)
        | Some li =>
            if mem fn checked then VCont checked else
            let checked' := fn :: checked in
            if negb (finished w fn) then VStop (Ok (NeedDeps [fn])) else
            match l_body li with
            | LEmpty => if l_has_ret li then VCont checked' else VStop (Ok Unsafe)
            | LBlock b => VPush fn (frame_items b) checked'
            | LExtern => VCont checked'
            end
        end
    | TOther =>
        match k with
        | KStmt _ => VCont checked
        | KMissing => VStop (Ok Unsafe)
        | KPlain => VCont checked
        | KLocalGlobal g poly =>
            if poly then VStop (Crash 5305) else          (* the three assert!s *)
            if mem g checked then VCont checked else
            if is_extern w g then VCont checked else
            if naive_found w g then
              match glob_body w g with
              | Some b => VPush g (frame_items b) (g :: checked)
              | None => VStop (Crash 5325)                (* global_bodies[&name] *)
              end
            else VStop (Ok (NeedDeps [g]))
        | KMemberFile g poly =>
            if poly then VStop (Crash 5371) else
            if mem g checked then VCont checked else
            let checked' := g :: checked in
            if is_extern w g then VCont checked' else
            if defined w g then
              if negb (finished w g) then VStop (Ok (NeedDeps [g])) else
              match glob_body w g with
              | Some b => VPush g (frame_items b) checked'
              | None => VStop (Crash 5398)
              end
            else VStop (Ok Unsafe)
        | KCall p => if p then VStop (Crash 5454) else VCont checked
        | KLambda => VStop (Crash 5459)                   (* unreachable!("Lambda .. wasn't handled") *)
        end
    end
  end.

Definition stack := list (loc * list node).

Fixpoint run (fuel : nat) (w : world) (st : stack) (checked : list loc) : result sres :=
  match fuel with
  | O => OutOfFuel
  | S f =>
    match st with
    | [] => Ok Safe
    | (l, []) :: rest => run f w rest checked
    | (l, n :: ns) :: rest =>
        match visit w n checked with
        | VStop r => r
        | VCont c => run f w ((l, ns) :: rest) c
        | VPush l' items c => run f w ((l', items) :: (l, ns) :: rest) c
        end
    end
  end.

Definition is_safe (fuel : nat) (w : world) (l : loc) (root : node) : result sres :=
  run fuel w [(l, frame_items root)] [l].

(* the tracking loop of InferenceCtx::finish.  [roots l]: for a global its body and (if present)
   its type annotation, for a lambda the lambda expression; checked left to right with `||`. *)
Definition site_unwrap : N := 782%N.   (* lib.rs:782/784/793  .unwrap() on Err(deps) *)

Fixpoint loc_unsafe (fuel : nat) (w : world) (l : loc) (roots : list node) : result bool :=
  match roots with
  | [] => Ok false
  | r :: rest =>
      match is_safe fuel w l r with
      | Ok Safe => loc_unsafe fuel w l rest
      | Ok Unsafe => Ok true
      | Ok (NeedDeps _) => Crash site_unwrap
      | Crash s => Crash s
      | OutOfFuel => OutOfFuel
      end
  end.

(* [locs]: all_finished_locations in the order the hash set yields them; [skip]: is_extern of
   the global (or of the global a lambda belongs to) *)
Fixpoint track (fuel : nat) (w : world) (roots : loc -> list node) (skip : loc -> bool)
         (locs : list loc) : result bool :=
  match locs with
  | [] => Ok false
  | l :: rest =>
      if skip l then track fuel w roots skip rest else
      match loc_unsafe fuel w l (roots l) with
      | Ok u => match track fuel w roots skip rest with
                | Ok u' => Ok (u || u')
                | other => other
                end
      | Crash s => Crash s
      | OutOfFuel => OutOfFuel
      end
  end.

(* a node at which the traversal can answer "unsafe" *)
Definition marked (w : world) (n : node) : bool :=
  match nkind n with
  | KStmt j => j
  | k =>
    err w (nid n) ||
    match nty n with
    | TMetaUnknown | TNone | TUnknown => true
    | TConcreteFn fn =>
        match lam_of w fn with
        | Some li => match l_body li with LEmpty => negb (l_has_ret li) | _ => false end
        | None => false
        end
    | TOther =>
        match k with
        | KMissing => true
        | KMemberFile g _ => negb (defined w g)
        | _ => false
        end
    | _ => false
    end
  end.

Definition is_expr (n : node) : bool := match nkind n with KStmt _ => false | _ => true end.
