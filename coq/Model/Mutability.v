(* Model of GlobalInferenceCtx::get_mutability (crates/hir_ty/src/globals.rs:730) and
   of its two consumers: Stmt::Assign (CannotMutate) and Expr::Ref{mutable:true}
   (MutableRefToImmutableData).

   An access path is the destination expression of an assignment / the operand of
   `^mut`.  Type information the Rust code reads from `self.tys` / `self.param_tys`
   is supplied by a typing oracle [pk : path -> option bool]:
     pk e = Some m   the type of e is a pointer `^` (m = false) or `^mut` (m = true)
     pk e = None     the type of e is not a pointer
   (`Ty::as_pointer`, `Ty::is_pointer`).  A local carries the things the code looks at:
   its `mutable` flag and its initialiser expression ([None] = no value).

   No panic site is reachable in these functions (param_tys[idx] is in range for every
   lowered Param), so the model is a plain total function. *)
From Capy Require Import Common.Util.

Inductive path : Type :=
| PLocal (id : N) (mutable : bool) (init : option path)   (* Expr::Local *)
| PParam (i : N)                                          (* Expr::Param *)
| PGlobal (g : N)                 (* Expr::LocalGlobal, or Member of a Ty::File *)
| PField (p : path) (f : N)       (* Expr::Member whose previous is not a file *)
| PIndex (p : path)               (* Expr::Index { source = p } *)
| PDeref (p : path)               (* Expr::Deref *)
| PParen (p : path)               (* Expr::Paren(Some p) *)
| PUnwrap (p : path)              (* Expr::Directive unwrap, first argument p *)
| PBlock (p : path)               (* Expr::Block with tail expression p *)
| PRef (m : bool) (p : path)      (* Expr::Ref *)
| PCall (id : N)                  (* Expr::Call (identified by a label) *)
| PCast (id : N)                  (* Expr::Cast *)
| PLit                            (* Missing / ArrayLiteral / StructLiteral *)
| POther (id : N).                (* everything else: literals, if, switch argument, comptime param ... *)

Inductive mutability : Type :=
| Mutable
| ImmutableBinding
| NotMutatingRefThroughDeref
| ImmutableRef
| ImmutableParam (assignment : bool)
| ImmutableGlobal
| CannotMutateExpr.

Section Model.
(* Typing oracles:
     pk e    pointer kind of the type of e (outermost level): None / Some false (`^`) / Some true (`^mut`)
     deep e  when the type of e is a pointer: the kinds of the FURTHER pointer levels below the
             outermost one (`^mut ^[3]i32` -> [false]); indexing and member access auto-dereference
             all of them, an explicit `^` only the outermost one.
   Variants of the code:
     fix_ = false                the code before /repo 1af504c
     fix_ = true, fix2_ = false  /repo 1af504c (`through_pointer`, outermost level only): at the three
                                 places where a pointer is dereferenced (Expr::Deref, Expr::Index /
                                 Expr::Member whose source has a pointer type) a Mutable answer becomes
                                 ImmutableRef when the TYPE of the dereferenced expression is `^T`
     fix_ = true, fix2_ = true   proposed: Index / Member look at every auto-dereferenced level *)
Variable fix_ fix2_ : bool.
Variable pk : path -> option bool.
Variable deep : path -> list bool.

Definition deep_immut (p : path) : bool :=
  match pk p with Some true => existsb negb (deep p) | _ => false end.

Definition through_pointer (auto_deref : bool) (p : path) (res : mutability) : mutability :=
  if fix_ then
    match res with
    | Mutable =>
        match pk p with
        | Some false => ImmutableRef
        | _ => if fix2_ && auto_deref && deep_immut p then ImmutableRef else res
        end
    | _ => res
    end
  else res.

Definition is_pointer (p : path) : bool := match pk p with Some _ => true | None => false end.

Fixpoint get_mutability (e : path) (assignment deref : bool) {struct e} : mutability :=
  match e with
  | PLit => Mutable
  | PRef m _ => if m then Mutable else ImmutableRef
  | PDeref p => through_pointer false p (get_mutability p assignment true)
  | PIndex p => through_pointer true p (get_mutability p assignment (deref || is_pointer p))
  | PBlock p => get_mutability p assignment deref
  | PLocal _ mutable init =>
      if deref then
        match init with
        | Some v => get_mutability v false deref
        | None => Mutable
        end
      else if mutable then Mutable else ImmutableBinding
  | PParam _ =>
      match pk e with
      | Some m =>
          if deref then (if m then Mutable else ImmutableRef)
          else if assignment then (if m then NotMutatingRefThroughDeref else ImmutableRef)
          else ImmutableParam assignment
      | None => ImmutableParam assignment
      end
  | PGlobal _ => ImmutableGlobal
  | PField p _ =>
      if deref then
        match pk e with
        | Some false => ImmutableRef
        | _ => Mutable                     (* .map(|(m, _)| m).unwrap_or(true) *)
        end
      else through_pointer true p (get_mutability p assignment (deref || is_pointer p))
  | PCall _ => if deref then Mutable else CannotMutateExpr
  | PCast _ =>
      if deref then
        match pk e with
        | Some true => Mutable
        | Some false => ImmutableRef
        | None => CannotMutateExpr
        end
      else CannotMutateExpr
  | PParen p => get_mutability p assignment deref
  | PUnwrap p => get_mutability p assignment deref
  | POther _ => CannotMutateExpr
  end.

Definition is_mutable (m : mutability) : bool := match m with Mutable => true | _ => false end.

(* Stmt::Assign: accepted (no CannotMutate diagnostic) iff into_diagnostic() is None *)
Definition assign_accepted (dest : path) : bool := is_mutable (get_mutability dest true false).
(* Expr::Ref { mutable: true, expr: inner } *)
Definition ref_mut_accepted (inner : path) : bool := is_mutable (get_mutability inner false false).

End Model.
