(* C27 — model of crates/codegen/src/mangle.rs (whole file) and of
   FileName::get_components / SubDir::is_sub_dir_of in
   crates/hir/src/common/names.rs, AS CODED.

   Strings are UTF-8 byte lists ([list N]); [String::len] is the byte length;
   every character test of the Rust code ('.', ascii digit, ".capy", "src")
   is ASCII and therefore byte-wise.  Paths are lists of their Normal
   components (the CLI only creates absolute, `clean`ed paths; RootDir is
   implicit on both sides of every comparison; Prefix components do not exist
   on the platform under test).

   Crash sites:  1 = `unreachable!()` in get_components (file neither under
                     the module directory nor under the current directory)
                 2 = `strip_prefix(..).unwrap()` (cannot fire: guarded by
                     is_sub_dir_of; kept explicit) *)
From Capy Require Import Common.Util.
From Coq Require Import Decimal DecimalN.

Definition str := list N.

(* ---------- characters ---------------------------------------------------- *)
Definition c_dot : N := 46.
Definition c_dash : N := 45.
Definition c_E : N := 69.
Definition is_digit (c : N) : bool := (48 <=? c)%N && (c <=? 57)%N.

Fixpoint str_eqb (a b : str) : bool :=
  match a, b with
  | [], [] => true
  | x :: a', y :: b' => (x =? y)%N && str_eqb a' b'
  | _, _ => false
  end.

Definition s_src : str := [115; 114; 99]%N.                 (* "src" *)
Definition s_capy : str := [46; 99; 97; 112; 121]%N.        (* ".capy" *)

(* ---------- usize::to_string / u32::to_string ------------------------------ *)
Fixpoint uint_chars (u : uint) : str :=
  match u with
  | Nil => []
  | D0 u => 48 :: uint_chars u | D1 u => 49 :: uint_chars u
  | D2 u => 50 :: uint_chars u | D3 u => 51 :: uint_chars u
  | D4 u => 52 :: uint_chars u | D5 u => 53 :: uint_chars u
  | D6 u => 54 :: uint_chars u | D7 u => 55 :: uint_chars u
  | D8 u => 56 :: uint_chars u | D9 u => 57 :: uint_chars u
  end%N.
Definition dec (n : N) : str := uint_chars (N.to_uint n).

(* ---------- MangledPartKind ------------------------------------------------ *)
Inductive kind := KModule | KFile | KName | KGeneric | KLambda | KComptime | KData.

Definition code (k : kind) : N :=
  match k with
  | KModule => 77 | KFile => 70 | KName => 78 | KGeneric => 71
  | KLambda => 76 | KComptime => 90 | KData => 73
  end%N.

(* char::to_ascii_lowercase *)
Definition to_ascii_lowercase (c : N) : N :=
  if (65 <=? c)%N && (c <=? 90)%N then (c + 32)%N else c.

Definition part := (kind * str)%type.

(* add_part *)
Definition add_part (p : part) : str :=
  let (k, text) := p in
  match text with
  | c :: _ =>
      if is_digit c
      then dec (N.of_nat (length text) + 1) ++ [to_ascii_lowercase (code k)] ++ text
      else dec (N.of_nat (length text)) ++ text
  | [] => dec (N.of_nat (length text)) ++ text
  end.

(* ---------- names.rs -------------------------------------------------------- *)
(* SubDir::is_sub_dir_of: base.components().all(|b| sub.next() == Some(b)) *)
Fixpoint is_sub_dir_of (sub base : list str) {struct base} : bool :=
  match base with
  | [] => true
  | b :: bs => match sub with
               | s :: ss => str_eqb s b && is_sub_dir_of ss bs
               | [] => false
               end
  end.

(* Path::strip_prefix *)
Fixpoint strip_prefix (sub base : list str) {struct base} : option (list str) :=
  match base with
  | [] => Some sub
  | b :: bs => match sub with
               | s :: ss => if str_eqb s b then strip_prefix ss bs else None
               | [] => None
               end
  end.

Definition contains_dot (c : str) : bool := existsb (fun x => (x =? c_dot)%N) c.

(* str::strip_suffix(".capy") *)
Definition strip_capy (c : str) : option str :=
  match List.rev c with
  | 121 :: 112 :: 97 :: 99 :: 46 :: r => Some (List.rev r)
  | _ => None
  end%N.

(* str::replace('.', "-") *)
Definition dashify (c : str) : str := map (fun x => if (x =? c_dot)%N then c_dash else x) c.

(* the closure mapped over the components *)
Definition norm_component (c : str) : str :=
  if contains_dot c
  then dashify (match strip_capy c with Some r => r | None => c end)
  else c.

Record env := { mod_dir : list str; cur_dir : list str }.

(* FileName::get_components -> (mod_name, sub_parts) *)
Definition get_components (e : env) (file : list str) : result (option str * list str) :=
  let is_mod := is_sub_dir_of file (mod_dir e) in
  do rel <- (if is_mod
             then match strip_prefix file (mod_dir e) with Some r => Ok r | None => Crash 2 end
             else if is_sub_dir_of file (cur_dir e)
             then match strip_prefix file (cur_dir e) with Some r => Ok r | None => Crash 2 end
             else Crash 1);
  let has_src := match rel with _ :: c :: _ => str_eqb c s_src | _ => false end in
  let comps := map norm_component rel in
  (* let mod_name = if is_mod { components.next() } else { None }; *)
  let '(mod_name, comps) :=
    if is_mod then match comps with m :: r => (Some m, r) | [] => (None, []) end
    else (None, comps) in
  (* if has_src { components.next(); } *)
  let comps := if has_src then match comps with _ :: r => r | [] => [] end else comps in
  Ok (mod_name, comps).

(* ---------- entity descriptors ---------------------------------------------- *)
(* NaiveGlobalLoc / NaiveLambdaLoc (+ the GLOBAL_LAMBDAS entry of the lambda,
   if any: the owning global's file and name). *)
Inductive base :=
| BGlobal (file : list str) (name : str)
| BLambda (file : list str) (lambda : N) (owner : option (list str * str)).

(* nothing | ComptimeLoc | (ComptimeLoc, &str) *)
Inductive tail := TNone | TComptime (idx : N) | TData (idx : N) (name : str).

(* ConcreteLoc = naive loc + optional ComptimeArgs (raw_start) *)
Record desc := { d_base : base; d_generic : option N; d_tail : tail }.

(* the MangledParts appended after the file parts *)
Definition generic_parts (g : option N) : list part :=
  match g with Some n => [(KGeneric, dec n)] | None => [] end.
Definition tail_parts (t : tail) : list part :=
  match t with
  | TNone => []
  | TComptime i => [(KComptime, dec i)]
  | TData i nm => [(KComptime, dec i); (KData, nm)]
  end.

(* create_mangled_for_naive_{global,lambda}: which file, which first part *)
Definition base_file_part (b : base) : list str * part :=
  match b with
  | BGlobal f n => (f, (KName, n))
  | BLambda f i None => (f, (KLambda, dec i))
  | BLambda _ _ (Some (gf, gn)) => (gf, (KName, gn))
  end.

Definition final_parts (d : desc) : list part :=
  snd (base_file_part (d_base d)) :: generic_parts (d_generic d) ++ tail_parts (d_tail d).

(* all parts in emission order *)
Definition file_part (s : str) : part := (KFile, s).
Definition all_parts (mod_name : option str) (subs : list str) (finals : list part) : list part :=
  (match mod_name with Some m => [(KModule, m)] | None => [] end)
  ++ map file_part subs ++ finals.

(* create_mangled_for_file *)
Definition mangle_parts (ps : list part) : str :=
  map (fun p => code (fst p)) ps ++ concat (map add_part ps) ++ [c_E].

Definition parts_of (e : env) (d : desc) : result (list part) :=
  do c <- get_components e (fst (base_file_part (d_base d)));
  Ok (all_parts (fst c) (snd c) (final_parts d)).

Definition mangle (e : env) (d : desc) : result str :=
  do ps <- parts_of e d; Ok (mangle_parts ps).

(* mangle_internal *)
Definition mangle_internal (name : str) : str :=
  [95; 67; 73]%N ++ dec (N.of_nat (length name)) ++ name ++ [c_E].
