(* C28 — model of Ctx::lower_import (`#import` / `#mod`) in
   crates/hir/src/body.rs, of path joining + path_clean::clean on absolute
   paths, of SubDir::is_sub_dir_of (names.rs, shared with Model/Mangle.v) and
   of the import worklist of compile_file in crates/capy/src/main.rs, against a
   file-system oracle.

   Paths are absolute: lists of Normal components (RootDir implicit).  Strings
   are UTF-8 byte lists.  The file system is an association list
   path -> File | Dir (no symlinks; `is_file`/`is_dir` are lookups of the
   lexically cleaned path, as in the code, which cleans before it asks).

   Crash sites: 1 = fs::read_to_string of a work-list entry fails -> exit(1)
                    (cannot fire for accepted imports of a stable file system). *)
From Capy Require Import Common.Util Model.Mangle.

Definition path := list str.

Fixpoint path_eqb (a b : path) : bool :=
  match a, b with
  | [], [] => true
  | x :: a', y :: b' => str_eqb x y && path_eqb a' b'
  | _, _ => false
  end.

(* ---------- file-system oracle ------------------------------------------------ *)
Inductive fkind := File | Dir.
Definition fsys := list (path * fkind).

Fixpoint fs_lookup (fs : fsys) (p : path) : option fkind :=
  match fs with
  | [] => None
  | (q, k) :: r => if path_eqb q p then Some k else fs_lookup r p
  end.
Definition is_file (fs : fsys) (p : path) : bool :=
  match fs_lookup fs p with Some File => true | _ => false end.
Definition is_dir (fs : fsys) (p : path) : bool :=
  match p with
  | [] => true                                   (* "/" *)
  | _ => match fs_lookup fs p with Some Dir => true | _ => false end
  end.

(* ---------- strings -> path pieces ------------------------------------------------ *)
(* text.replace(['/', '\\'], MAIN_SEPARATOR_STR) followed by Path::components():
   split at '/' and '\'; empty pieces and "." vanish, ".." is ParentDir *)
Definition is_sep (c : N) : bool := (c =? 47)%N || (c =? 92)%N.

Fixpoint split_go (s : str) (cur : str) : list str :=
  match s with
  | [] => [List.rev cur]
  | c :: r => if is_sep c then List.rev cur :: split_go r [] else split_go r (c :: cur)
  end.
Definition pieces (s : str) : list str := split_go s [].

Definition is_absolute (s : str) : bool :=
  match s with c :: _ => is_sep c | [] => false end.

Definition s_dot : str := [46]%N.
Definition s_dotdot : str := [46; 46]%N.

(* one step of path_clean::clean on a rooted path whose stack is [acc] *)
Definition clean_step (acc : path) (c : str) : path :=
  if str_eqb c [] || str_eqb c s_dot then acc
  else if str_eqb c s_dotdot then removelast acc      (* at the root: stays the root *)
  else acc ++ [c].

Definition clean (comps : list str) : path := fold_left clean_step comps [].

(* env::current_dir().join(self.file_name).join("..").join(file).clean()
   (file_name is absolute, so the first join replaces the base; an absolute
   `file` replaces everything) *)
Definition resolve (importer : path) (arg : str) : path :=
  if is_absolute arg then clean (pieces arg)
  else clean (importer ++ s_dotdot :: pieces arg).

(* str::ends_with(".capy") *)
Definition ends_capy (s : str) : bool :=
  match strip_capy s with Some _ => true | None => false end.

(* char::is_ascii_alphanumeric *)
Definition is_alnum (c : N) : bool :=
  ((48 <=? c) && (c <=? 57) || (65 <=? c) && (c <=? 90) || (97 <=? c) && (c <=? 122))%N.

Definition s_mod_capy : str := [109; 111; 100; 46; 99; 97; 112; 121]%N.   (* mod.capy *)

(* ---------- lower_import ------------------------------------------------------------ *)
Inductive arg :=
| ANoArgList              (* `#import` without parentheses *)
| ACount (n : N)          (* n <> 1 arguments *)
| ANonString              (* one argument that is not a string literal *)
| AStr (s : str).         (* one string literal (escapes already resolved) *)

Inductive reason :=
| RMissingSilently        (* Expr::Missing without a diagnostic (no arg list) *)
| RArgCount | RNonString
| RModNotAlnum | RModMissing | RModNoFile
| RNotCapy | RNotFound (p : path) | ROutside (p : path).

Inductive outcome := Accept (p : path) | Reject (r : reason).

Record directive := { dir_is_mod : bool; dir_arg : arg }.

(* c_fixed selects the code variant that is modelled:
     false = pinned commit: `!file.chars().all(is_ascii_alphanumeric)` only (so `#mod("")` passes),
     true  = after the repair `file.is_empty() || !file.chars().all(..)` (known finding C28-1). *)
Record cfg := { c_mod_dir : path; c_cwd : path; c_fs : fsys; c_fixed : bool }.

Definition str_is_empty (s : str) : bool := match s with [] => true | _ => false end.

(* the module-name test of lower_import *)
Definition mod_name_ok (c : cfg) (s : str) : bool :=
  forallb is_alnum s && negb (c_fixed c && str_is_empty s).

Definition lower_import (c : cfg) (importer : path) (d : directive) : outcome :=
  match dir_arg d with
  | ANoArgList => Reject RMissingSilently
  | ACount _ => Reject RArgCount
  | ANonString => Reject RNonString
  | AStr s =>
      if dir_is_mod d then
        if negb (mod_name_ok c s) then Reject RModNotAlnum else
        (* mod_dir.join(file).join("src"): joining "" adds nothing *)
        let folder := c_mod_dir c ++ (match s with [] => [] | _ => [s] end) ++ [s_src] in
        if negb (is_dir (c_fs c) folder) then Reject RModMissing else
        let f := clean (folder ++ [s_mod_capy]) in
        if negb (is_file (c_fs c) f) then Reject RModNoFile else Accept f
      else
        if negb (ends_capy s) then Reject RNotCapy else
        let f := resolve importer s in
        if negb (is_file (c_fs c) f) then Reject (RNotFound f) else
        if negb (is_sub_dir_of f (c_mod_dir c)) && negb (is_sub_dir_of f (c_cwd c))
        then Reject (ROutside f) else Accept f
  end.

(* ---------- the work list of compile_file -------------------------------------------- *)
(* program text: the import directives of every file that can be read *)
Definition program := list (path * list directive).

Fixpoint prog_lookup (pr : program) (f : path) : option (list directive) :=
  match pr with
  | [] => None
  | (q, ds) :: r => if path_eqb q f then Some ds else prog_lookup r f
  end.

Fixpoint accepted (os : list outcome) : list path :=
  match os with
  | [] => []
  | Accept p :: r => p :: accepted r
  | Reject _ :: r => accepted r
  end.

(* SourceFile::parse + build_bodies: the set `bodies.imports` *)
Definition imports_of (c : cfg) (pr : program) (f : path) : result (list path) :=
  match prog_lookup pr f with
  | None => Crash 1
  | Some ds => Ok (accepted (map (lower_import c f) ds))
  end.

Definition mem (f : path) (l : list path) : bool := existsb (path_eqb f) l.

(* `for file_name in old_imports { if source_files.contains_key(..) { continue } ... }` *)
Fixpoint batch (c : cfg) (pr : program) (todo visited next : list path) : result (list path * list path) :=
  match todo with
  | [] => Ok (visited, next)
  | f :: r =>
      if mem f visited then batch c pr r visited next
      else do is <- imports_of c pr f; batch c pr r (visited ++ [f]) (next ++ is)
  end.

(* `while !current_imports.is_empty() { ... }` *)
Fixpoint work (fuel : nat) (c : cfg) (pr : program) (visited current : list path) : result (list path) :=
  match fuel with
  | O => OutOfFuel
  | S n =>
      match current with
      | [] => Ok visited
      | _ => do vn <- batch c pr current visited []; work n c pr (fst vn) (snd vn)
      end
  end.

(* all files of the file system: the universe the measure counts in *)
Fixpoint fs_files (fs : fsys) : list path :=
  match fs with
  | [] => []
  | (p, File) :: r => p :: fs_files r
  | (_, Dir) :: r => fs_files r
  end.

(* compile events in order; fuel = |files| + 2 is always enough (Proofs/ImportsProofs.v) *)
Definition compile_all (c : cfg) (pr : program) (main : path) : result (list path) :=
  do is <- imports_of c pr main;
  work (S (S (length (fs_files (c_fs c))))) c pr [main] is.
