(* Footprint model of the store-emitting operations of
   /repo/crates/codegen/src/compiler/mod.rs (MemoryLoc::write_val / write_all /
   memset, cast_into_memory variant->enum arm, cast_payload_into_tagged_union,
   create_nil_value), compiler/functions.rs (store_struct_fields /
   store_array_items place their parts at layout offsets / i*stride) and
   convert/abi/mod.rs (PassMode::Cast word stores in build_fn / handle_ret, the
   by-value copy loop of build_fn): the byte ranges (offset, width) written
   RELATIVE TO THE DESTINATION OBJECT, as a function of the layout numbers of
   the types involved (size, stride, discriminant offset: Common/Layout.v
   computes them from types; C17 proves their invariants).  The code is
   mirrored as it is, including its over-wide writes.  No proofs here. *)
From Capy Require Import Common.Util.
Open Scope N_scope.

Definition range : Type := (N * N)%type.        (* offset, width *)

(* layout numbers of a value type *)
Record vlay : Type := {
  v_size : N;
  v_stride : N;
  v_agg : bool;         (* Ty::is_aggregate *)
  v_bytes : N           (* non-aggregates: bytes of the Cranelift value (get_final_ty) *)
}.

Definition ptr_bytes : N := 8.

(* one mem_cpy_loop!(w): while off + w <= (limit / w) * w { store sw bytes at off; off += w }
   the condition holds exactly ((limit / w) * w - off) / w times *)
Fixpoint loop_stores (k : nat) (off w sw : N) : list range :=
  match k with
  | O => []
  | S k' => (off, sw) :: loop_stores k' (off + w) w sw
  end.

Definition cpy_loop (off limit w : N) (wide : bool) : list range * N :=
  let top := (limit / w) * w in
  let k := (top - off) / w in
  (loop_stores (N.to_nat k) off w (if wide then 8 else w), off + k * w).

(* mem_cpy_loop!(8); (4); (2); (1);   wide = the stack memset, whose every store is an i64 *)
Definition cpy_loops (limit : N) (wide : bool) : list range :=
  let '(s8, o8) := cpy_loop 0 limit 8 wide in
  let '(s4, o4) := cpy_loop o8 limit 4 wide in
  let '(s2, o2) := cpy_loop o4 limit 2 wide in
  let '(s1, _) := cpy_loop o2 limit 1 wide in
  s8 ++ s4 ++ s2 ++ s1.

(* MemoryLoc::write_val(x, offset) *)
Definition write_val (offset width : N) : list range := [(offset, width)].

(* MemoryLoc::write_all(val, ty); on_stack = Location::Stack *)
Definition write_all (t : vlay) (on_stack : bool) : list range :=
  if v_agg t then
    if on_stack then cpy_loops (v_stride t) false
    else if v_stride t =? 0 then [] else [(0, v_stride t)]     (* emit_small_memory_copy(stride) *)
  else [(0, v_bytes t)].

(* MemoryLoc::memset(val, ty) *)
Definition memset (t : vlay) (on_stack : bool) : list range :=
  if on_stack then cpy_loops (v_stride t) true
  else if v_size t =? 0 then [] else [(0, v_size t)].

(* cast_into_memory, EnumVariant -> Enum: payload write_all, then the discriminant as
   `iconst(ptr_ty)` stored at discriminant_offset.  [tag_width] is the width of that
   store: ptr_bytes in the code as it is (1 after the proposed fix). *)
Definition variant_to_enum (tag_width : N) (payload : option vlay) (discr_off : N) (on_stack : bool)
  : list range :=
  (match payload with Some p => write_all p on_stack | None => [] end)
  ++ write_val discr_off tag_width.

(* cast_payload_into_tagged_union (payload functionally equivalent: write_all), tag as I8 *)
Definition payload_to_union (payload : option vlay) (discr_off : N) (on_stack : bool) : list range :=
  (match payload with Some p => write_all p on_stack | None => [] end)
  ++ write_val discr_off 1.

(* create_nil_value: nullable pointer -> pointer-sized zero at 0; otherwise the I8 tag *)
Definition nil_value (non_zero : bool) (discr_off : N) : list range :=
  if non_zero then write_val 0 ptr_bytes else write_val discr_off 1.

(* store_struct_fields / store_array_items: parts at their offsets *)
Definition shift (d : N) (fp : list range) : list range := map (fun '(o, w) => (o + d, w)) fp.

Fixpoint store_parts (parts : list (N * list range)) : list range :=
  match parts with
  | [] => []
  | (off, fp) :: r => shift off fp ++ store_parts r
  end.

(* PassMode::Cast: the words are stored at cumulative offsets into a slot of `size` bytes *)
Fixpoint cast_stores (off : N) (words : list N) : list range :=
  match words with
  | [] => []
  | w :: r => (off, w) :: cast_stores (off + w) r
  end.

(* build_fn, PassMode::Indirect(sz): copy loop over sz bytes into a slot of sz bytes *)
Definition byval_copy (sz : N) : list range := cpy_loops sz false.

(* ---- fix candidate C02-2 / C02-3: aggregates are copied with `size` bytes ----
   (write_all with ty.size() instead of ty.stride(); everything else unchanged) *)
Definition write_all_sz (t : vlay) (on_stack : bool) : list range :=
  if v_agg t then
    if on_stack then cpy_loops (v_size t) false
    else if v_size t =? 0 then [] else [(0, v_size t)]
  else [(0, v_bytes t)].

Definition variant_to_enum_sz (tag_width : N) (payload : option vlay) (discr_off : N) (on_stack : bool)
  : list range :=
  (match payload with Some p => write_all_sz p on_stack | None => [] end)
  ++ write_val discr_off tag_width.

Definition payload_to_union_sz (payload : option vlay) (discr_off : N) (on_stack : bool) : list range :=
  (match payload with Some p => write_all_sz p on_stack | None => [] end)
  ++ write_val discr_off 1.
