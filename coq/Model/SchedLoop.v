(* Model of the round loop of InferenceCtx::finish (/repo/crates/hir_ty/src/lib.rs,
   `loop { leaves = peek_all / peek_all_cyclic; for each leaf: infer -> remove | insert_deps;
   if to_infer.is_empty() break }`) over the TopoSort model of Model/Topo.v.

   The inference step itself (InferenceCtx::infer, globals.rs) is abstract: a section
   variable [infer x finished] returning the result of x or the list of locations it needs
   first (InferResult = Result<_, Vec<ConcreteLoc>>).  [cyc_order] is the client's sort of
   the cyclic list.  No proofs here. *)
From Capy Require Import Common.Util Model.Topo.

Section Loop.
  Variable R : Type.
  Inductive step := Done (r : R) | Needs (ds : list item).
  Variable infer : item -> list (item * R) -> step.
  Variable cyc_order : list item -> list item.

  Definition fins := list (item * R).

  Fixpoint lookup (x : item) (f : fins) : option R :=
    match f with
    | [] => None
    | e :: r => if N.eqb (fst e) x then Some (snd e) else lookup x r
    end.

  (* one iteration of `for inferrable in leaves` *)
  Definition process (st : topo * fins) (x : item) : result (topo * fins) :=
    match lookup x (snd st) with
    | Some _ => do p <- remove (fst st) x; Ok (fst p, snd st)     (* already finished: Ok(()) *)
    | None =>
        match infer x (snd st) with
        | Done r => do p <- remove (fst st) x; Ok (fst p, (x, r) :: snd st)
        | Needs ds => Ok (insert_deps (fst st) x ds, snd st)
        end
    end.

  Fixpoint process_all (st : topo * fins) (xs : list item) : result (topo * fins) :=
    match xs with
    | [] => Ok st
    | x :: r => do st' <- process st x; process_all st' r
    end.

  Definition round_items (t : topo) : result (list item) :=
    match peek_all t with
    | PeekOk l => if is_nil l then Crash 666 else Ok l
    | PeekCycle =>
        match peek_all_cyclic t with
        | Some l => if is_nil l then Crash 666 else Ok (cyc_order l)
        | None => Crash 622
        end
    end.

  Fixpoint finish_loop (fuel : nat) (st : topo * fins) : result fins :=
    match fuel with
    | O => OutOfFuel
    | S n =>
        do l <- round_items (fst st);
        do st' <- process_all st l;
        if is_empty (fst st') then Ok (snd st') else finish_loop n st'
    end.

  Definition finish (seed : list item) (fuel : nat) : result fins :=
    let t := extend empty seed in
    if is_empty t then Ok [] else finish_loop fuel (t, []).
End Loop.

Arguments Done {R} r.
Arguments Needs {R} ds.
