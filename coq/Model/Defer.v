(* C03 — model of the defer machinery of the Capy compiler AS IT IS.

   Two stages are modelled, mirroring the two crates involved:

   1. HIR lowering of labels (crates/hir/src/body.rs: lower_block, lower_while,
      lower_if, lower_return/lower_break/lower_continue, lower_propagate_expr,
      resolve_first_label, resolve_last_label, block_to_scope_id/scope_usages):
      [lower] turns a source statement with *named* labels into an HIR statement
      whose jumps carry the ScopeId of their target.
      Abstraction: a ScopeId is modelled by the nesting level of the label scope
      (the length of `label_kinds` when it is pushed), which identifies a live
      scope uniquely, instead of by the value of the uid generator.

   2. Code generation (crates/codegen/src/compiler/functions.rs: compile_stmt
      Defer/Break/Continue, break_to_label, Expr::Block, Expr::While, Expr::If,
      Expr::Propagate): [compile_stmt] transcribes the defer-stack algorithm
      into a small structured target language (Cranelift blocks with an exit
      block per Expr::Block, jumps to exit/header blocks), and [trun] executes
      target code under an oracle that resolves conditions.
      Rendering of the mutable `defer_stack`: the stack below the current block
      is passed down read-only and the frame of the current block is the
      accumulator [pend] of [compile_list]; this is the push/pop discipline of
      the Rust code (break_to_label restores the frames it pops).

   Statements that matter to defers are kept, everything else is `SPrint`.
   A deferred expression is either atomic (it prints one character) or a
   jump-free block of prints and nested defers (codegen test
   defers_within_defers).  ABSTRACTION: such a block is represented by the
   sequence of characters it prints, [flat]; the code generator's treatment of
   the nested block itself (frame push, statements, nested defers at its end)
   is not re-derived for it -- [flat] is shared by model and specification and
   tied to capy only by the end-to-end stream. *)
From Capy Require Import Common.Util.

Definition name := N.

(* ------------------------------------------------------------------ source *)
(* Which branch of the error path of Expr::Propagate is generated (decided by the
   types: hir_ty gives the type of the block propagated to and of the operand):
     TryZeroSized  `referenced_block_ty.is_zero_sized()` (fn -> nil, fn -> ?void whose
                   body is always nil, zero-sized error type): break_to_label(None, ..)
     TryOptional   optional operand, sized optional target: create_nil_value,
                   break_to_label(Some(nil_value), ..)
     TryError      error-union operand: unwrap the error, cast it into the target type,
                   break_to_label(casted, ..)
   The values are not modelled; what matters here is that each branch leaves the
   blocks through break_to_label. *)
Inductive try_kind : Type := TryZeroSized | TryOptional | TryError.

(* a deferred expression *)
Inductive dexpr : Type :=
| DAtom (c : N)                                   (* putchar(c) *)
| DBlock (prints : list N) (defers : list dexpr). (* { putchar.. ; defer ..; } (prints and defers may interleave) *)

(* what it prints when it runs: its prints, then its own defers, last first *)
Fixpoint flat (d : dexpr) : list N :=
  match d with
  | DAtom c => [c]
  | DBlock ps ds => ps ++ fold_right (fun x acc => acc ++ flat x) [] ds
  end.

Inductive stmt : Type :=
| SPrint (c : N)                                  (* an ordinary side effect *)
| SDefer (d : dexpr)                              (* defer <expr>; *)
| SBreak (l : option name)                        (* break; / break `l; *)
| SContinue (l : option name)                     (* continue; / continue `l; *)
| SReturn                                         (* return v; *)
| STry (k : try_kind)                             (* e.try; -- oracle decides whether it propagates *)
| SBlock (l : option name) (body : list stmt)     (* { .. } / `l: { .. } as a statement *)
| SLoop (l : option name) (cond : bool) (body : list stmt)  (* while c { .. } (cond=true) / loop { .. } *)
| SIf (thn els : list stmt).                      (* if c { .. } else { .. }  (no else = empty else) *)

(* --------------------------------------------------------------------- HIR *)
Inductive hstmt : Type :=
| HPrint (c : N)
| HDefer (cs : list N)                            (* Stmt::Defer; cs = what the expression prints *)
| HBreak (l : option N)                           (* Stmt::Break { label } (also `return`) *)
| HContinue (l : option N)                        (* Stmt::Continue { label } *)
| HTry (k : try_kind) (l : option N)              (* Expr::Propagate { label } + the branch its types select *)
| HBlock (sid : option N) (body : list hstmt)     (* Expr::Block, sid = block_to_scope_id *)
| HLoop (sid : option N) (cond : bool) (body : list hstmt)  (* Expr::While; body = Expr::Block without scope id *)
| HIf (thn els : list hstmt).                     (* Expr::If; both bodies are Expr::Blocks without (used) scope id *)

(* ScopeKind (the Defer kind is not needed: deferred expressions are atomic here) *)
Inductive skind : Type :=
| KBlock (n : option name) (id : N)
| KLoop (n : option name) (id : N).

Definition kid (k : skind) : N := match k with KBlock _ id => id | KLoop _ id => id end.

(* resolve_first_label: the outermost entry of label_kinds (the function body) *)
Fixpoint resolve_first (E : list skind) : option N :=
  match E with
  | [] => None
  | [k] => Some (kid k)
  | _ :: r => resolve_first r
  end.

(* resolve_last_label, labelled case: innermost scope with that name.
   The boolean says whether it is a Block (continue to it is an error). *)
Fixpoint find_named (n : name) (E : list skind) : option (N * bool) :=
  match E with
  | [] => None
  | KBlock (Some m) id :: r => if N.eqb m n then Some (id, true) else find_named n r
  | KLoop (Some m) id :: r => if N.eqb m n then Some (id, false) else find_named n r
  | _ :: r => find_named n r
  end.

(* resolve_last_label, unlabelled case: innermost loop, or (for break) named block *)
Fixpoint find_unnamed (must_loop : bool) (E : list skind) : option N :=
  match E with
  | [] => None
  | KBlock (Some _) id :: r => if must_loop then find_unnamed must_loop r else Some id
  | KLoop _ id :: r => Some id
  | _ :: r => find_unnamed must_loop r
  end.

(* result: (label, an error diagnostic was pushed) *)
Definition resolve_last (E : list skind) (l : option name) (must_loop default_first : bool)
  : option N * bool :=
  match l with
  | Some n =>
      match find_named n E with
      | Some (id, is_block) => (Some id, must_loop && is_block)   (* ContinueNonLoop *)
      | None => (None, true)                                       (* UndefinedLabel *)
      end
  | None =>
      match find_unnamed must_loop E with
      | Some id => (Some id, false)
      | None => if default_first
                then (resolve_first E, false)                      (* warning UsingBreakInsteadOfReturn *)
                else (None, true)                                  (* ContinueNonLoop *)
      end
  end.

(* scope_usages: does some jump inside target this scope id? *)
Definition opt_is (id : N) (l : option N) : bool :=
  match l with Some x => N.eqb x id | None => false end.

Fixpoint uses (id : N) (h : hstmt) : bool :=
  match h with
  | HPrint _ | HDefer _ => false
  | HBreak l | HContinue l | HTry _ l => opt_is id l
  | HBlock _ b => existsb (uses id) b
  | HLoop _ _ b => existsb (uses id) b
  | HIf a b => existsb (uses id) a || existsb (uses id) b
  end.

Definition lower_list (f : stmt -> hstmt * bool) (l : list stmt) : list hstmt * bool :=
  fold_right (fun s acc => let '(h, e) := f s in (h :: fst acc, e || snd acc)) ([], false) l.

Definition scope_id_if_used (id : N) (b : list hstmt) : option N :=
  if existsb (uses id) b then Some id else None.

(* lower E s = (hir, some error diagnostic was reported) *)
Fixpoint lower (E : list skind) (s : stmt) {struct s} : hstmt * bool :=
  match s with
  | SPrint c => (HPrint c, false)
  | SDefer d => (HDefer (flat d), false)
  | SBreak l => let '(t, e) := resolve_last E l false true in (HBreak t, e)
  | SContinue l => let '(t, e) := resolve_last E l true false in (HContinue t, e)
  | SReturn => (HBreak (resolve_first E), false)
  | STry k => (HTry k (resolve_first E), false)
  | SBlock l body =>
      let id := N.of_nat (length E) in
      let '(hb, e) := lower_list (lower (KBlock l id :: E)) body in
      (HBlock (scope_id_if_used id hb) hb, e)
  | SLoop l c body =>
      let id := N.of_nat (length E) in
      let '(hb, e) := lower_list (lower (KLoop l id :: E)) body in
      (HLoop (scope_id_if_used id hb) c hb, e)
  | SIf thn els =>
      let '(ha, e1) := lower_list (lower E) thn in
      (* the else block goes through lower_expr -> lower_block(_, true): it gets
         an (unnamed) label of its own, which nothing can target *)
      let id := N.of_nat (length E) in
      let '(hb, e2) := lower_list (lower (KBlock None id :: E)) els in
      (HIf ha hb, e1 || e2)
  end.

(* a function body: `f :: () { body }` -- lower_lambda resets label_kinds, the
   body is lowered by lower_block(_, true) *)
Definition lower_fn (body : list stmt) : hstmt * bool := lower [] (SBlock None body).

(* ------------------------------------------------------------------ target *)
Inductive tstmt : Type :=
| TEmit (c : N)                                   (* code of a print / of one deferred expression *)
| TJumpExit (id : N)                              (* jump exits[id] *)
| TJumpHeader (id : N)                            (* jump continues[id] *)
| TBlock (sid : option N) (body exit : list tstmt)(* block_body .. ; block_exit: exit *)
| TLoop (sid : option N) (cond : bool) (body : list tstmt)  (* while_header / while_body / while_exit *)
| TIf (thn els : list tstmt)
| TTry (fail : list tstmt).                       (* brif ok, propagate_okay, propagate_error: fail *)

Record frame : Type := mkFrame { fid : option N; fdefers : list N (* events of the pushed defers; [rev] of it is what running them prints *) }.
Definition dstack := list frame.                  (* head = top of `defer_stack` *)

(* `for defer in frame.defers.iter().rev() { compile_expr(defer) }` *)
Definition run_defers (ds : list N) : list tstmt := map TEmit (rev ds).

(* break_to_label: frames from the top down to (excluding) the frame whose id
   is the label; if no frame has that id the whole stack is used *)
Fixpoint unwind_code (st : dstack) (label : N) : list tstmt :=
  match st with
  | [] => []
  | f :: r => if opt_is label (fid f) then []
              else run_defers (fdefers f) ++ unwind_code r label
  end.

Definition is_jump_stmt (h : hstmt) : bool :=
  match h with HBreak _ | HContinue _ => true | _ => false end.

(* The statement loop of Expr::Block.  [pend] is the `defers` vector of the
   frame pushed for this block; result: (code, final defers, no_eval). *)
Definition compile_list (f : dstack -> hstmt -> result (list tstmt)) (sid : option N)
         (st : dstack) : list N -> list hstmt -> result (list tstmt * list N * bool) :=
  fix go (pend : list N) (hs : list hstmt) {struct hs} :=
  match hs with
  | [] => Ok ([], pend, false)
  | h :: r =>
      match h with
      | HDefer cs => go (pend ++ rev cs) r
      | _ =>
        do c <- f (mkFrame sid pend :: st) h;
        if is_jump_stmt h then Ok (c, pend, true)    (* no_eval = true; break *)
        else do x <- go pend r;
             let '(cr, p, ne) := x in Ok (c ++ cr, p, ne)
      end
  end.

Definition is_none {A} (o : option A) : bool := match o with None => true | Some _ => false end.

Fixpoint compile_stmt (st : dstack) (h : hstmt) {struct h} : result (list tstmt) :=
  match h with
  | HPrint c => Ok [TEmit c]
  | HDefer c => Crash 1                            (* only reachable through compile_list *)
  | HBreak None => Crash 2                         (* unreachable!() *)
  | HBreak (Some l) => Ok (unwind_code st l ++ [TJumpExit l])
  | HContinue None => Crash 3                      (* unreachable!() *)
  | HContinue (Some l) => Ok [TJumpHeader l]      (* just jumps to the header *)
  | HTry _ None => Crash 4                         (* bodies[label] with label = None *)
  | HTry k (Some l) =>
      match k with
      | TryZeroSized => Ok [TTry (unwind_code st l ++ [TJumpExit l])]   (* break_to_label(None, label) *)
      | TryOptional => Ok [TTry (unwind_code st l ++ [TJumpExit l])]    (* break_to_label(Some(nil_value), label) *)
      | TryError => Ok [TTry (unwind_code st l ++ [TJumpExit l])]       (* break_to_label(casted, label) *)
      end
  | HBlock sid body =>
      do x <- compile_list (fun s x => compile_stmt s x) sid st [] body;
      let '(code, defers, no_eval) := x in
      (* `if !no_eval || scope_id.is_some()`: the exit block runs the frame's defers *)
      Ok [TBlock sid code (if no_eval && is_none sid then [] else run_defers defers)]
  | HLoop sid c body =>                            (* no DeferFrame for the loop itself *)
      do x <- compile_list (fun s x => compile_stmt s x) None st [] body;
      let '(code, defers, no_eval) := x in
      Ok [TLoop sid c [TBlock None code (if no_eval then [] else run_defers defers)]]
  | HIf a b =>
      do x <- compile_list (fun s x => compile_stmt s x) None st [] a;
      let '(ca, da, na) := x in
      do y <- compile_list (fun s x => compile_stmt s x) None st [] b;
      let '(cb, db, nb) := y in
      Ok [TIf [TBlock None ca (if na then [] else run_defers da)]
              [TBlock None cb (if nb then [] else run_defers db)]]
  end.

Definition compile_fn (h : hstmt) : result (list tstmt) := compile_stmt [] h.

(* --------------------------------------------------------- target execution *)
Inductive tout : Type := TNormal | TExit (id : N) | THeader (id : N).

Definition oracle := list bool.
Definition next (o : oracle) : bool * oracle :=
  match o with [] => (false, []) | b :: r => (b, r) end.

Definition trace := list N.

(* run a list: stop at the first statement that does not complete normally *)
Definition trun_list (f : tstmt -> oracle -> result (trace * oracle * tout))
  : list tstmt -> oracle -> result (trace * oracle * tout) :=
  fix go (cs : list tstmt) (o : oracle) {struct cs} :=
  match cs with
  | [] => Ok ([], o, TNormal)
  | c :: r =>
      do x <- f c o;
      let '(t1, o1, out) := x in
      match out with
      | TNormal => do y <- go r o1;
                   let '(t2, o2, out2) := y in Ok (t1 ++ t2, o2, out2)
      | _ => Ok (t1, o1, out)
      end
  end.

(* [fuel] bounds the number of iterations of each loop activation *)
Fixpoint trun (fuel : nat) (c : tstmt) (o : oracle) {struct c} : result (trace * oracle * tout) :=
  match c with
  | TEmit ch => Ok ([ch], o, TNormal)
  | TJumpExit id => Ok ([], o, TExit id)
  | TJumpHeader id => Ok ([], o, THeader id)
  | TBlock sid body ex =>
      do x <- trun_list (trun fuel) body o;
      let '(t1, o1, out) := x in
      let to_exit := match out with
                     | TNormal => Some true
                     | TExit id => Some (opt_is id sid)
                     (* `continues[label]` has no entry for a block: continue to a block's id panics *)
                     | THeader id => if opt_is id sid then None else Some false
                     end in
      match to_exit with
      | Some true =>
        do y <- trun_list (trun fuel) ex o1;
        let '(t2, o2, out2) := y in Ok (t1 ++ t2, o2, out2)
      | Some false => Ok (t1, o1, out)
      | None => Crash 12
      end
  | TLoop sid cond body =>
      (fix iter (n : nat) (o : oracle) {struct n} : result (trace * oracle * tout) :=
         match n with
         | O => OutOfFuel
         | S n' =>
             let '(go, o0) := if cond then next o else (true, o) in
             if negb go then Ok ([], o0, TNormal)
             else
               do x <- trun_list (trun fuel) body o0;
               let '(t1, o1, out) := x in
               let again := match out with
                            | TNormal => Some true
                            | TExit id => if opt_is id sid then Some false else None
                            | THeader id => if opt_is id sid then Some true else None
                            end in
               match again with
               | Some true => do y <- iter n' o1;
                              let '(t2, o2, out2) := y in Ok (t1 ++ t2, o2, out2)
               | Some false => Ok (t1, o1, TNormal)
               | None => Ok (t1, o1, out)
               end
         end) fuel o
  | TIf a b =>
      let '(c0, o0) := next o in
      trun_list (trun fuel) (if c0 then a else b) o0
  | TTry fail =>
      let '(c0, o0) := next o in
      if c0 then trun_list (trun fuel) fail o0 else Ok ([], o0, TNormal)
  end.

(* a whole function: a jump that leaves the function body is a malformed CFG *)
Definition trun_fn (fuel : nat) (code : list tstmt) (o : oracle) : result trace :=
  do x <- trun_list (trun fuel) code o;
  let '(t, _, out) := x in
  match out with TNormal => Ok t | _ => Crash 9 end.

(* the modelled pipeline for one function body *)
Definition model_fn (fuel : nat) (body : list stmt) (o : oracle) : result trace :=
  let '(h, err) := lower_fn body in
  if err then Crash 10                              (* not an accepted program *)
  else do code <- compile_fn h; trun_fn fuel code o.
