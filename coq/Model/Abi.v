(* Model of /repo/crates/codegen/src/convert/abi/x86_64.rs
   (Class::merge_eigthbyte, classify_arg, reg_component, split_aggregate,
   fn_ty_to_abi), of PassMode::to_abiparam / FnAbi::to_cl and the word offsets
   used by get_arg_list / handle_ret / build_fn in abi/mod.rs, and of the part
   of layout.rs they consult (size / align / stride / struct offsets at
   pointer width 64), restricted to the C-compatible type fragment of
   Common/CAbiTy.v.  The code is mirrored as it is; every reachable panic is a
   [Crash site]:
     1  classes[..] index out of bounds (classify_eight_byte)
     2  members[field] out of bounds (struct arm)
     3  classes[0] / classes[i] on an array that is not 8 long (cannot happen)
     6  todo!("vector types") in reg_component
     7  unreachable!("reg_component: unhandled class")
     9  reg_component(..).unwrap() on None in split_aggregate (lo word)
    10  idx.try_into::<u16>().unwrap()
    11  int_regs -= 1 underflow
   No proofs here. *)
From Capy Require Import Common.Util Common.CAbiTy.
Open Scope N_scope.

(* ---------------------------------------------------------------- layout.rs *)

Definition ssize (s : scalar) : N :=
  match s with
  | I8 | BoolT | CharT => 1
  | I16 => 2
  | I32 | F32 => 4
  | I64 | F64 | Ptr | OptPtr => 8
  end.

(* `size.min(8)` for numbers and pointers, 1 for bool/char; Optional{ptr}: sub_ty.align() *)
Definition salign (s : scalar) : N :=
  match s with
  | BoolT | CharT => 1
  | _ => N.min (ssize s) 8
  end.

(* stride(): let mask = align - 1; (size + mask) & !mask *)
Definition stride_of (size align : N) : N :=
  let mask := align - 1 in N.ldiff (size + mask) mask.

Fixpoint falign (t : fty) : N :=
  match t with
  | FS s => salign s
  | FA _ e => falign e
  end.

Fixpoint fsize (t : fty) : N :=
  match t with
  | FS s => ssize s
  | FA n e => stride_of (fsize e) (falign e) * n
  end.

Definition fstride (t : fty) : N := stride_of (fsize t) (falign t).

Definition padding_needed_for (offset align : N) : N :=
  let misalign := offset mod align in
  if 0 <? misalign then align - misalign else 0.

(* StructLayout::new: offsets and final current_offset (= size) *)
Fixpoint struct_offsets_from (cur : N) (fs : list fty) : list N * N :=
  match fs with
  | [] => ([], cur)
  | f :: r =>
      let o := cur + padding_needed_for cur (falign f) in
      let (os, e) := struct_offsets_from (o + fsize f) r in
      (o :: os, e)
  end.

Fixpoint struct_align_from (m : N) (fs : list fty) : N :=
  match fs with
  | [] => m
  | f :: r => struct_align_from (if m <? falign f then falign f else m) r
  end.

Definition struct_offsets (fs : list fty) : list N := fst (struct_offsets_from 0 fs).
Definition struct_size (fs : list fty) : N := snd (struct_offsets_from 0 fs).
Definition struct_align (fs : list fty) : N := struct_align_from 1 fs.

Definition asize (t : aty) : N :=
  match t with AS s => ssize s | AStruct fs => struct_size fs end.
Definition aalign (t : aty) : N :=
  match t with AS s => salign s | AStruct fs => struct_align fs end.
Definition astride (t : aty) : N := stride_of (asize t) (aalign t).

(* Ty::is_zero_sized / Ty::is_aggregate on this fragment *)
Fixpoint fzero (t : fty) : bool :=
  match t with
  | FS _ => false
  | FA n e => (n =? 0) || fzero e
  end.

Definition azero (t : aty) : bool :=
  match t with
  | AS _ => false
  | AStruct fs => match fs with [] => true | _ => forallb fzero fs end
  end.

Definition is_aggregate (t : aty) : bool :=
  match t with AS _ => false | AStruct _ => true end.

(* ------------------------------------------------------------ x86_64.rs *)

Inductive class : Type := Int | Sse | SseUp | NoClass.

Definition class_eqb (a b : class) : bool :=
  match a, b with
  | Int, Int | Sse, Sse | SseUp, SseUp | NoClass, NoClass => true
  | _, _ => false
  end.

(* Class::merge_eigthbyte *)
Definition merge (x y : class) : class :=
  if class_eqb x y then x
  else match x, y with
       | c, NoClass => c
       | NoClass, c => c
       | Int, _ => Int
       | _, Int => Int
       | _, _ => Sse
       end.

Fixpoint upd (i : nat) (f : class -> class) (l : list class) : option (list class) :=
  match l, i with
  | [], _ => None
  | x :: r, O => Some (f x :: r)
  | x :: r, S j => match upd j f r with Some r' => Some (x :: r') | None => None end
  end.

(* classes[idx] = classes[idx].merge_eigthbyte(c) *)
Definition merge_at (cls : list class) (idx : N) (c : class) : result (list class) :=
  match upd (N.to_nat idx) (fun x => merge x c) cls with
  | Some l => Ok l
  | None => Crash 1
  end.

Definition is_float_scalar (s : scalar) : bool :=
  match s with F32 | F64 => true | _ => false end.

(* the scalar arms of classify_eight_byte.  OptPtr is `Ty::Optional` whose
   enum_layout() is None: the else-branch, identical to the integer arm *)
Definition classify_scalar (s : scalar) (off : N) (cls : list class) : result (list class) :=
  if is_float_scalar s then merge_at cls (off / 8) Sse
  else
    do c1 <- merge_at cls (off / 8) Int;
    if 8 <? ssize s then merge_at c1 (off / 8 + 1) Int else Ok c1.

(* for idx in 0..size { step idx } *)
Fixpoint iter_idx (k : nat) (idx : N) (step : N -> list class -> result (list class))
         (cls : list class) : result (list class) :=
  match k with
  | O => Ok cls
  | S k' => do c <- step idx cls; iter_idx k' (idx + 1) step c
  end.

Fixpoint classify_f (t : fty) (off : N) (cls : list class) {struct t} : result (list class) :=
  match t with
  | FS s => classify_scalar s off cls
  | FA n e =>
      if n =? 0 then Ok cls
      else iter_idx (N.to_nat n) 0 (fun idx => classify_f e (off + idx * fstride e)) cls
  end.

(* for (field, &field_off) in offsets.iter().enumerate() { classify(members[field].ty, offset + field_off) } *)
Fixpoint classify_fields (offs : list N) (fs : list fty) (base : N) (cls : list class)
  : result (list class) :=
  match offs with
  | [] => Ok cls
  | o :: os =>
      match fs with
      | [] => Crash 2
      | f :: r => do c <- classify_f f (base + o) cls; classify_fields os r base c
      end
  end.

Definition classify_eight_byte (t : aty) (cls : list class) : result (list class) :=
  match t with
  | AS s => classify_scalar s 0 cls
  | AStruct fs => classify_fields (struct_offsets fs) fs 0 cls
  end.

Definition init_classes : list class :=
  [NoClass; NoClass; NoClass; NoClass; NoClass; NoClass; NoClass; NoClass].

Definition set_nth (i : nat) (c : class) (l : list class) : option (list class) :=
  upd i (fun _ => c) l.

(* inner `while i != n && classes[i] == SseUp { i += 1 }`; at most n - i steps *)
Fixpoint skip_up (k : nat) (i n : N) (cls : list class) : result N :=
  if i =? n then Ok i
  else match k with
       | O => OutOfFuel
       | S k' =>
           match nth_error cls (N.to_nat i) with
           | None => Crash 3
           | Some SseUp => skip_up k' (i + 1) n cls
           | Some _ => Ok i
           end
       end.

(* the post-merger fix-up loop for n <= 2 *)
Fixpoint fixup (fuel : nat) (i n : N) (cls : list class) : result (list class) :=
  match fuel with
  | O => OutOfFuel
  | S f =>
      if i <? n then
        match nth_error cls (N.to_nat i) with
        | None => Crash 3
        | Some SseUp =>
            match set_nth (N.to_nat i) Sse cls with
            | Some c => fixup f i n c
            | None => Crash 3
            end
        | Some Sse =>
            do i' <- skip_up (N.to_nat (n - (i + 1))) (i + 1) n cls;
            fixup f i' n cls
        | Some _ => fixup f (i + 1) n cls
        end
      else Ok cls
  end.

Definition slice (a : nat) (b : nat) (l : list class) : list class := firstn (b - a) (skipn a l).

(* classify_arg: Ok None = "MEMORY" *)
Definition classify_arg (t : aty) : result (option (list class)) :=
  let n := (asize t + 7) / 8 in          (* size().div_ceil(8) *)
  if 8 <? n then Ok None
  else
    do cls <- classify_eight_byte t init_classes;
    if 2 <? n then
      match cls with
      | [] => Crash 3
      | c0 :: _ =>
          if negb (class_eqb c0 Sse) then Ok None
          else if existsb (fun c => negb (class_eqb c SseUp)) (slice 1 (N.to_nat n) cls) then Ok None
          else Ok (Some cls)
      end
    else
      do cls' <- fixup 32 0 n cls;
      Ok (Some cls').

(* Cranelift value types that can occur here *)
Inductive clty : Type := CI8 | CI16 | CI32 | CI64 | CI128 | CF32 | CF64.

Definition clty_bytes (t : clty) : N :=
  match t with CI8 => 1 | CI16 => 2 | CI32 | CF32 => 4 | CI64 | CF64 => 8 | CI128 => 16 end.

Definition clty_is_float (t : clty) : bool :=
  match t with CF32 | CF64 => true | _ => false end.

(* ir::Type::int_with_byte_size *)
Definition int_with_byte_size (b : N) : option clty :=
  match b with
  | 1 => Some CI8 | 2 => Some CI16 | 4 => Some CI32 | 8 => Some CI64 | 16 => Some CI128
  | _ => None
  end.

(* u16::next_power_of_two on values < 8 (0 -> 1) *)
Definition next_power_of_two (x : N) : N :=
  if x <=? 1 then 1 else if x <=? 2 then 2 else if x <=? 4 then 4 else if x <=? 8 then 8
  else if x <=? 16 then 16 else 2 ^ N.log2_up x.

Fixpoint count_while_up (l : list class) : N :=
  match l with
  | SseUp :: r => 1 + count_while_up r
  | _ => 0
  end.

(* reg_component(cls, &mut i, size) -> (Option<Type>, new i) *)
Definition reg_component (cls : list class) (i : N) (size : N) : result (option clty * N) :=
  if N.of_nat (length cls) <=? i then Ok (None, i)
  else match nth_error cls (N.to_nat i) with
       | None => Crash 3
       | Some NoClass => Ok (None, i)
       | Some Int =>
           Ok (if size <? 8 then int_with_byte_size (next_power_of_two size) else Some CI64, i + 1)
       | Some Sse =>
           let vec_len := 1 + count_while_up (skipn (N.to_nat (i + 1)) cls) in
           if vec_len =? 1 then Ok (Some (if size =? 4 then CF32 else CF64), i + vec_len)
           else Crash 6
       | Some SseUp => Crash 7
       end.

Definition split_aggregate (size : N) (cls : list class) : result (list clty) :=
  do r <- reg_component cls 0 size;
  let '(lo, i) := r in
  match lo with
  | None => Crash 9
  | Some lo =>
      let off := i * 8 in
      if off <? size then
        do r2 <- reg_component cls i (size - off);
        let '(hi, _) := r2 in
        Ok (lo :: match hi with Some h => [h] | None => [] end)
      else Ok [lo]
  end.

Inductive passmode : Type :=
| Cast (tys : list clty)
| Direct (t : clty)
| Indirect (sz : option N).

Record fnabi : Type := { fa_args : list (passmode * N); fa_ret : option passmode }.

(* get_final_ty().into_real_type().unwrap() for scalars *)
Definition final_ty (s : scalar) : clty :=
  match s with
  | I8 | BoolT | CharT => CI8
  | I16 => CI16
  | I32 => CI32
  | I64 | Ptr | OptPtr => CI64
  | F32 => CF32
  | F64 => CF64
  end.

Definition direct_of (t : aty) : passmode :=
  match t with
  | AS s => Direct (final_ty s)
  | AStruct _ => Direct CI64     (* not reached: aggregates never take this path *)
  end.

Definition count_class (c : class) (cls : list class) : N :=
  N.of_nat (length (filter (class_eqb c) cls)).

(* usize::next_multiple_of(8) *)
Definition next_multiple_of_8 (x : N) : N :=
  if x mod 8 =? 0 then x else x + (8 - x mod 8).

Definition push_direct (t : aty) (cls : list class) : result passmode :=
  if is_aggregate t then do tys <- split_aggregate (asize t) cls; Ok (Cast tys)
  else Ok (direct_of t).

(* the loop over the arguments, state = (int_regs, sse_regs) *)
Fixpoint abi_args (ts : list aty) (idx : N) (int_regs sse_regs : N)
  : result (list (passmode * N)) :=
  match ts with
  | [] => Ok []
  | t :: r =>
      if azero t then abi_args r (idx + 1) int_regs sse_regs
      else if 65536 <=? idx then Crash 10
      else
        do c <- classify_arg t;
        match c with
        | Some classes =>
            let needed_int := count_class Int classes in
            let needed_sse := count_class Sse classes in
            if (needed_int <=? int_regs) && (needed_sse <=? sse_regs) then
              do pm <- push_direct t classes;
              do rest <- abi_args r (idx + 1) (int_regs - needed_int) (sse_regs - needed_sse);
              Ok ((pm, idx) :: rest)
            else
              let pm := if is_aggregate t then Indirect (Some (next_multiple_of_8 (astride t)))
                        else direct_of t in
              do rest <- abi_args r (idx + 1) int_regs sse_regs;
              Ok ((pm, idx) :: rest)
        | None =>
            do rest <- abi_args r (idx + 1) int_regs sse_regs;
            Ok ((Indirect (Some (next_multiple_of_8 (astride t))), idx) :: rest)
        end
  end.

Definition fn_ty_to_abi (ts : list aty) (ret : rty) : result fnabi :=
  do rr <-
    match ret with
    | RVoid => Ok (None, 6)
    | RT t =>
        if azero t then Ok (None, 6)
        else
          do c <- classify_arg t;
          match c with
          | Some cls =>
              if is_aggregate t then do tys <- split_aggregate (asize t) cls; Ok (Some (Cast tys), 6)
              else Ok (Some (direct_of t), 6)
          | None => Ok (Some (Indirect (Some (asize t))), 5)
          end
    end;
  let '(rm, int_regs) := rr in
  do args <- abi_args ts 0 int_regs 8;
  Ok {| fa_args := args; fa_ret := rm |}.

(* ------------------------------------------------------------- abi/mod.rs *)

Inductive abiparam : Type :=
| PNormal (t : clty)
| PStructArg (sz : N)       (* AbiParam::special(ptr, StructArgument(sz)) *)
| PSret.                    (* AbiParam::special(ptr, StructReturn) *)

Definition to_abiparam (p : passmode) : list abiparam :=
  match p with
  | Cast tys => map PNormal tys
  | Direct t => [PNormal t]
  | Indirect (Some sz) => [PStructArg sz]
  | Indirect None => [PNormal CI64]
  end.

(* FnAbi::to_cl (simple_ret = false): (params, returns) *)
Definition to_cl (a : fnabi) : list abiparam * list clty :=
  let sret := match fa_ret a with Some (Indirect _) => [PSret] | _ => [] end in
  let rets := match fa_ret a with
              | Some (Cast tys) => tys
              | Some (Direct t) => [t]
              | _ => []
              end in
  (sret ++ flat_map (fun pa => to_abiparam (fst pa)) (fa_args a), rets).

(* byte offsets at which get_arg_list / handle_ret / build_fn load and store the
   words of a Cast: off = 0; for ty in tys { use off; off += ty.bytes() } *)
Fixpoint word_offsets (off : N) (tys : list clty) : list (N * clty) :=
  match tys with
  | [] => []
  | t :: r => (off, t) :: word_offsets (off + clty_bytes t) r
  end.

(* ------------------------------------------------- environment (Cranelift) *)
(* Cranelift's System V lowering of a flat signature is not part of /repo.
   What the theorems assume about it (and the end-to-end stream exercises):
   parameters are assigned left to right; an integer-typed parameter (and the
   StructReturn pointer) takes the next of 6 integer registers, a float-typed
   one the next of 8 SSE registers, otherwise an 8-byte stack slot;
   StructArgument(sz) occupies sz bytes of the stack argument area; returns
   take rax,rdx / xmm0,xmm1 in order. *)
Inductive loc : Type :=
| RInt (k : N)      (* k-th integer argument register: rdi rsi rdx rcx r8 r9 / return: rax rdx *)
| RSse (k : N)      (* xmm k *)
| Stack (off : N).  (* offset in the outgoing stack argument area *)

Fixpoint cl_assign (ps : list abiparam) (ni ns so : N) : list loc :=
  match ps with
  | [] => []
  | PStructArg sz :: r => Stack so :: cl_assign r ni ns (so + sz)
  | PSret :: r =>
      if ni <? 6 then RInt ni :: cl_assign r (ni + 1) ns so
      else Stack so :: cl_assign r ni ns (so + 8)
  | PNormal t :: r =>
      if clty_is_float t then
        if ns <? 8 then RSse ns :: cl_assign r ni (ns + 1) so
        else Stack so :: cl_assign r ni ns (so + 8)
      else
        if ni <? 6 then RInt ni :: cl_assign r (ni + 1) ns so
        else Stack so :: cl_assign r ni ns (so + 8)
  end.

Fixpoint cl_ret_assign (ts : list clty) (ni ns : N) : list loc :=
  match ts with
  | [] => []
  | t :: r => if clty_is_float t then RSse ns :: cl_ret_assign r ni (ns + 1)
              else RInt ni :: cl_ret_assign r (ni + 1) ns
  end.

(* A piece: bytes [off, off+bytes) of the argument object travel in [l]. *)
Definition piece : Type := (loc * N * N)%type.

(* pieces of one argument, given the locations of its abiparams *)
Definition pieces_of (p : passmode) (ls : list loc) : list piece :=
  match p with
  | Cast tys => map (fun '(l, (o, t)) => (l, o, clty_bytes t)) (combine ls (word_offsets 0 tys))
  | Direct t => map (fun l => (l, 0, clty_bytes t)) ls
  | Indirect (Some sz) => map (fun l => (l, 0, sz)) ls
  | Indirect None => map (fun l => (l, 0, 8)) ls
  end.

Fixpoint split_locs (ps : list passmode) (ls : list loc) : list (list piece) :=
  match ps with
  | [] => []
  | p :: r =>
      let k := length (to_abiparam p) in
      pieces_of p (firstn k ls) :: split_locs r (skipn k ls)
  end.

(* where every argument (by original index) and the return value travel *)
Record placement : Type := {
  pl_sret : bool;                          (* hidden return pointer in the first int register *)
  pl_ret : list piece;
  pl_args : list (N * list piece)          (* original parameter index, pieces *)
}.

Definition place (a : fnabi) : placement :=
  let '(params, rets) := to_cl a in
  let sret := match fa_ret a with Some (Indirect _) => true | _ => false end in
  let locs := cl_assign params 0 0 0 in
  let arg_locs := if sret then tl locs else locs in
  let pms := map fst (fa_args a) in
  {| pl_sret := sret;
     pl_ret := match fa_ret a with
               | Some (Cast tys) =>
                   map (fun '(l, (o, t)) => (l, o, clty_bytes t))
                       (combine (cl_ret_assign tys 0 0) (word_offsets 0 tys))
               | Some (Direct t) => map (fun l => (l, 0, clty_bytes t)) (cl_ret_assign [t] 0 0)
               | _ => []
               end;
     pl_args := combine (map snd (fa_args a)) (split_locs pms arg_locs) |}.

(* ------------------------------------ bytes of the argument object that are READ *)
(* get_arg_list: a Cast loads its words from the struct's address (off = 0; off +=
   ty.bytes()), an Indirect(Some sz) hands the address to Cranelift's StructArgument copy,
   which reads sz bytes.  [caller_read pm] = number of bytes read from the start of the
   source object, as the code is. *)
Definition sum_bytes (tys : list clty) : N := fold_right (fun t acc => clty_bytes t + acc) 0 tys.

Definition caller_read (pm : passmode) : N :=
  match pm with
  | Cast tys => sum_bytes tys
  | Indirect (Some sz) => sz
  | _ => 0
  end.

(* fix candidate C19-1 / C19-2: when more bytes would be read than the object has, the
   object is first copied (exactly `size` bytes) into a padded temporary and the words /
   the by-value copy are taken from there *)
Definition caller_read_fixed (pm : passmode) (size : N) : N :=
  let n := caller_read pm in if size <? n then size else n.
