(* C11 — the model of Model/Switch.v with the candidate repairs of the five
   known findings, each switchable: [fixes] says which repairs are present in
   the tree (lib/verif/props/c11.py probes the tree for each of them at the start
   of a run and drives this model with the result).

   fx1  K1  the checker and the code generator look through distinct / variant
            wrappers (`absolute_ty()`) before the structural matches
            (globals.rs `match *scrutinee_ty`, `let Ty::Enum {..} = *scrutinee_ty`,
            functions.rs `let Ty::Enum {..} = *sum_ty`)
   fx2  K2  an automatic discriminant above u8::MAX is reported
            (IntTooBigForType) by the enum declaration
   fx3  K3  Ty::has_sum_variant of an optional compares with `Ty::Nil`
            instead of asking `is_nil()`
   fx4  K4  the nullable-pointer branch of Expr::Switch supports a default arm
            (a missing arm goes to the default block)
   fx5  K5  unwrap_sum_ty no longer asserts `!payload_ty.is_non_zero()` in the
            tagged-union branch (a pointer payload is loaded like any scalar)

   With no repair present every function below equals the function of
   Model/Switch.v it is derived from (Proofs/SwitchFixed.v, *_no_fixes). *)
From Capy Require Import Common.Util Model.Switch.

Record fixes : Type := mkFixes { fx1 : bool; fx2 : bool; fx3 : bool; fx4 : bool; fx5 : bool }.
Definition no_fixes : fixes := mkFixes false false false false false.
Definition all_fixes : fixes := mkFixes true true true true true.

(* ------------------------------------------------------------ (a) K2 *)
(* indices of the auto-numbered variants (no kept manual value) whose
   discriminant exceeds u8::MAX *)
Fixpoint too_big_autos (i : nat) (ks : list (option N)) (ds : list N) : list nat :=
  match ks, ds with
  | k :: kr, d :: dr =>
      let rest := too_big_autos (S i) kr dr in
      match k with
      | None => if (255 <? d)%N then i :: rest else rest
      | Some _ => rest
      end
  | _, _ => []
  end.

Definition assign_discriminants_fx (f : fixes) (ms : list (option N)) : result (list N * list nat) :=
  let (ks, used) := pass1 [] ms in
  do ds <- pass2 used 0%N ks;
  Ok (ds, if fx2 f then too_big_autos 0 ks ds else []).

(* ------------------------------------------------------------ (b) checker *)
Definition has_sum_variant_fx (f : fixes) (sh : shape) (t : vty) : bool :=
  match sh with
  | SOpt sub => vty_eqb t sub || (if fx3 f then vty_eqb t (TA ANil) else is_nil_vty t)
  | _ => has_sum_variant sh t
  end.

Definition resolve_arm_fx (f : fixes) (s : scrut) (i : nat) (a : arm) : result (list diag) :=
  match a with
  | ANotType => Ok [DArmNotType i]
  | AFull t => Ok (if has_sum_variant_fx f (s_shape s) t then [] else [DNotVariant i])
  | AShort n =>
      match s_shape s with
      | SEnum _ vs =>
          if wrapped s && negb (fx1 f) then Crash 1981
          else Ok (if existsb (fun v => N.eqb (v_name v) n) vs then [] else [DNotShorthand i])
      | _ => Ok [DShortOnNonEnum i]
      end
  end.

Fixpoint resolve_fx (f : fixes) (s : scrut) (i : nat) (arms : list arm) : result (list diag) :=
  match arms with
  | [] => Ok []
  | a :: r => do d <- resolve_arm_fx f s i a; do ds <- resolve_fx f s (S i) r; Ok (d ++ ds)
  end.

Definition check_switch_fx (f : fixes) (s : scrut) (arms : list arm) (dflt : bool) : result (list diag) :=
  match s_shape s with
  | SNotSum => Ok [DScrutNotSum]
  | sh =>
      do ds <- resolve_fx f s 0 arms;
      match ds with
      | _ :: _ => Ok ds
      | [] =>
          if wrapped s && negb (fx1 f) then Crash 2053
          else
            do x <- cover (variants_of sh) [] 0 arms;
            Ok (fst x ++ (if dflt then [] else missing (length (variants_of sh)) (snd x)))
      end
  end.

(* ------------------------------------------------------------ (c) code generation *)
Definition unwrap_sum_ty_fx (f : fixes) (sh : shape) (t : vty) : result binding :=
  if negb (has_sum_variant_fx f sh t) then Crash 1661
  else if negb (is_tagged sh) then
    match t with
    | TA ANil => Ok BNone
    | _ => if is_non_zero t then Ok BPointer else Crash 1671
    end
  else
    match repr_of t with
    | RScalar => Ok BLoad
    | RPtr => if fx5 f then Ok BLoad else Crash 1679
    | RZero => Ok BNone
    | RAggr => Ok BAddr
    end.

Fixpoint binds_of_fx (f : fixes) (sh : shape) (with_arg : bool) (ts : list vty) : result (list binding) :=
  match ts with
  | [] => Ok []
  | t :: r =>
      do b <- (if with_arg then unwrap_sum_ty_fx f sh t else Ok BNoArg);
      do bs <- binds_of_fx f sh with_arg r;
      Ok (b :: bs)
  end.

(* in the nullable-pointer table a target is an arm or (None) the default block *)
Inductive table_fx : Type :=
| TTagF (entries : list (N * nat)) (dflt : bool) (binds : list binding)
| TNullF (nil_target some_target : option nat) (binds : list binding).

Fixpoint index_of_non_nil (ts : list vty) (i : nat) : option nat :=
  match ts with
  | [] => None
  | TA ANil :: r => index_of_non_nil r (S i)
  | _ :: _ => Some i
  end.

Definition compile_switch_fx (f : fixes) (sh : shape) (arms : list arm) (dflt with_arg : bool)
  : result table_fx :=
  do ts <- arm_vtys sh arms;
  if is_tagged sh then
    do es <- set_entries sh 0 ts [];
    if (255 <? max_entry es)%N then Crash 273
    else do bs <- binds_of_fx f sh with_arg ts; Ok (TTagF es dflt bs)
  else
    match sh with
    | SOpt _ =>
        if fx4 f then
          if (2 <? length ts)%nat then Crash 1758              (* assert!(arm_blocks.len() <= 2) *)
          else
            let nt := index_of_nil ts 0 in
            let st := index_of_non_nil ts 0 in
            (* some_block.or(default_block).expect(..), then nil_block.or(default_block).expect(..) *)
            if (match st with None => negb dflt | Some _ => false end) then Crash 1780
            else if (match nt with None => negb dflt | Some _ => false end) then Crash 1783
            else do bs <- binds_of_fx f sh with_arg ts; Ok (TNullF nt st bs)
        else
          if dflt then Crash 1729
          else if negb (Nat.eqb (length ts) 2) then Crash 1736
          else match index_of_nil ts 0 with
               | None => Crash 1741
               | Some ni => do bs <- binds_of_fx f sh with_arg ts;
                            Ok (TNullF (Some ni) (Some (if Nat.eqb ni 0 then 1 else 0)) bs)
               end
    | _ => Crash 1725
    end.

Definition run_table_fx (t : table_fx) (v : rvalue) : result outcome :=
  match t, v with
  | TTagF es dflt bs, RTag tag =>
      match lookup_entry es tag with
      | Some i => Ok (OArm i (nth_error bs i))
      | None => Ok (if dflt then ODefault else OTrap)
      end
  | TNullF nt st bs, RNullable isnil =>
      match (if isnil then nt else st) with
      | Some i => Ok (OArm i (nth_error bs i))
      | None => Ok ODefault
      end
  | _, _ => Crash 1
  end.

Definition dispatch_fx (f : fixes) (sh : shape) (arms : list arm) (dflt with_arg : bool) (j : nat)
  : result outcome :=
  do t <- compile_switch_fx f sh arms dflt with_arg;
  do v <- encode sh j;
  run_table_fx t v.
