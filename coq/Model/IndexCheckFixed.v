(* C10 — model of the Expr::Index lowering WITH the fix candidates applied, switchable per finding:

     fw (C10-1-fix.diff): an index whose Cranelift type is wider than a usize is compared in its
        own width against the zero-extended length (icmp ult index, uextend len) instead of being
        reduced first; address arithmetic still uses the reduced index.
     fz (C10-2-fix.diff): no early return for zero-sized elements: source and index are compiled
        and the index is checked; only the element address / load is skipped (the expression still
        yields None).  A source that compiles to None (a zero-sized array: it has no address) is
        replaced by iconst 0 -- only its constant length is used -- instead of being unwrapped
        (this also removes the compiler panic of finding C10-4).

   [compf false false] is [comp] of Model/IndexCheck.v (lemma compf_ff); the check selects the
   flags by probing the built compiler with the witness programs of the findings. *)
From Capy Require Import Common.Util Model.IndexCheck.
Open Scope Z_scope.

(* compile_expr(source): Some v, or -- with fz -- None replaced by iconst(ptr_ty, 0) *)
Definition src_val (fz : bool) (ov : option Z) : option Z :=
  match ov with
  | Some v => Some v
  | None => if fz then Some 0 else None
  end.

Fixpoint compf (fw fz : bool) (rd : Z -> Z) (e : expr) (no_load : bool) : result (trace * outcome) :=
  match e with
  | ERoot _ v => Ok ([], Val (Some v))
  | EIndex s it mk iv =>
    match type_of e, type_of s with
    | Some et, Some st =>
      if negb fz && is_zero_sized et then Ok ([], Val None)       (* unfixed: early return *)
      else
        do r <- compf fw fz rd s false;
        match r with
        | (t1, Aborted) => Ok (t1, Aborted)
        | (t1, Val ov) =>
          match src_val fz ov with
          | None => Crash 930                                      (* compile_expr(source).unwrap() *)
          | Some v0 =>
            match arr_view rd st v0 with
            | None => Crash 937
            | Some (td, th, len, base, m, _) =>
              let naive := cast_to_usize it iv in
              (* two compare branches, as in the code: index type wider than usize -> compare in the index's own
                 width on the untruncated value [iv] against the zero-extended length (same integer [len]);
                 otherwise -> compare the usize-cast index *)
              let good := if fw && (64 <? ibits it)
                          then iv <? len                           (* icmp ult index, uextend(len) *)
                          else naive <? len in                     (* icmp ult naive_index, len *)
              let pre := t1 ++ td ++ marker mk ++ th in
              if good then
                if is_zero_sized et then Ok (pre, Val None)        (* fz: checked, nothing accessed *)
                else
                  let addr := elem_addr base naive et in
                  if no_load || is_aggregate et
                  then Ok (pre, Val (Some addr))
                  else Ok (pre ++ [Load addr (stride et)], Val (Some (rd addr)))
              else Ok (pre ++ fail_block m, Aborted)
            end
          end
        end
    | _, _ => Crash 0
    end
  end.

Definition stmt_runf (fw fz : bool) (rd rd8 : Z -> Z) (s : stmt) : result (trace * bool) :=
  match s with
  | SRead e =>
    do r <- compf fw fz rd e false;
    Ok (fst r, match snd r with Aborted => true | _ => false end)
  | SWrite e vm =>
    match type_of e with
    | None => Crash 0
    | Some et =>
      do r <- compf fw fz rd e true;
      match r with
      | (t, Aborted) => Ok (t, true)
      | (t, Val None) => Ok (t, false)
      | (t, Val (Some a)) => Ok (t ++ marker vm ++ [Store a (stride et)], false)
      end
    end
  | SUnwrap k v w =>
    let (t, o) := unwrap rd8 k v w in
    Ok (t, match o with Aborted => true | _ => false end)
  | SMark n => Ok ([Print (MMarker n)], false)
  end.

Fixpoint execf (fw fz : bool) (rd rd8 : Z -> Z) (p : list stmt) : result (trace * bool) :=
  match p with
  | [] => Ok ([], false)
  | s :: r =>
    do a <- stmt_runf fw fz rd rd8 s;
    if snd a then Ok (fst a, true)
    else do b <- execf fw fz rd rd8 r; Ok (fst a ++ fst b, snd b)
  end.
