(* C04 - model of comptime result capture and re-materialisation.

   Transcribed from (pinned tree):
     crates/codegen/src/compiler/comptime.rs   eval_comptime_blocks (second loop: run + capture),
                                               ComptimeBytes::into_bytes, IntBytes for u64 / f64
     crates/codegen/src/compiler/functions.rs  compile_expr  Expr::Comptime   (local re-materialisation)
                                               expr_to_const_data Expr::Comptime + compile_global (global path)
     crates/codegen/src/convert.rs             calc_single (FinalTy), abi/simplified.rs ty_to_passmode
     crates/codegen/src/layout.rs              size / align (only to know how many bytes are copied)
     crates/hir/src/common/ty.rs               absolute_ty, is_pointer, is_function, is_aggregate, is_zero_sized
     crates/hir_ty/src/globals.rs              Expr::Comptime  (ComptimePointer guard)
     crates/hir/src/common/locations.rs        ComptimeResult, ComptimeResultMap

   NOT modelled (trusted / exercised end to end only): what the JIT-compiled body computes.  The
   model starts from the value [v] the body yields and follows it through the Simplified ABI
   return convention, the capture in eval_comptime_blocks, the ComptimeResultMap and the code
   that the final binary gets for the comptime expression.

   Data are [Z]; bytes are [Z] in 0..255; target is little endian with 64 bit pointers.
   Every panic / unwrap / unreachable!() of the Rust code that the model can reach is [Crash site]. *)
From Capy Require Import Common.Util.
Local Open Scope Z_scope.

(* ------------------------------------------------------------------ types *)

(* hir::common::Ty, the part that can be the type of a comptime block.  Widths as in the Rust
   code: 0 = weak ({int}/{uint}/{float}), 255 = pointer sized (usize / isize). *)
Inductive ty : Type :=
| TInt (signed : bool) (w : N)             (* IInt / UInt *)
| TFloat (w : N)
| TBool | TChar | TStr | TType | TVoid | TNil
| TArray (anon : bool) (n : N) (elem : ty) (* AnonArray / ConcreteArray *)
| TStruct (ms : list ty)                   (* AnonStruct / ConcreteStruct (member types in order) *)
| TEnum (vs : list ty)                     (* Enum: payload area + 1 tag byte *)
| TVariant (sub : ty)                      (* EnumVariant *)
| TOptional (sub : ty)
| TErrUnion (e p : ty)
| TPtr (sub : ty) | TRawPtr | TSlice (sub : ty) | TRawSlice | TAny
| TFn | TFnPtr                             (* ConcreteFunction / FunctionPointer *)
| TDistinct (sub : ty).

Fixpoint absolute_ty (t : ty) : ty :=
  match t with
  | TVariant s => absolute_ty s
  | TDistinct s => absolute_ty s
  | _ => t
  end.

Definition is_pointer (t : ty) : bool :=
  match absolute_ty t with TPtr _ | TRawPtr => true | _ => false end.

Definition is_function (t : ty) : bool :=
  match absolute_ty t with TFn | TFnPtr => true | _ => false end.

Definition is_non_zero (t : ty) : bool := is_pointer t.

Definition is_aggregate (t : ty) : bool :=
  match absolute_ty t with
  | TStruct _ | TEnum _ | TErrUnion _ _ | TArray _ _ _ | TSlice _ | TRawSlice | TAny => true
  | TOptional s => negb (is_non_zero s)
  | _ => false
  end.

(* Ty::is_zero_sized: looks through Distinct (explicit arm) and, via absolute_ty, EnumVariant.
   Only ConcreteArray / ConcreteStruct are looked into. *)
Fixpoint is_zero_sized (t : ty) : bool :=
  match t with
  | TVoid | TNil => true
  | TArray false n e => (n =? 0)%N || is_zero_sized e
  | TStruct ms => forallb is_zero_sized ms
  | TDistinct s => is_zero_sized s
  | TVariant s => is_zero_sized s
  | _ => false
  end.

(* the checker's test in globals.rs, Expr::Comptime: `ty.is_pointer() || ty.is_function()`
   => diagnostic ComptimePointer.  [guard t = true]: the block is accepted. *)
Definition guard (t : ty) : bool := negb (is_pointer t || is_function t).

(* what the property needs: does an object of this type hold an address? *)
Fixpoint contains_ptr (t : ty) : bool :=
  match t with
  | TStr | TPtr _ | TRawPtr | TSlice _ | TRawSlice | TAny | TFn | TFnPtr => true
  | TArray _ n e => negb (n =? 0)%N && contains_ptr e
  | TStruct ms => existsb contains_ptr ms
  | TEnum vs => existsb contains_ptr vs
  | TVariant s => contains_ptr s
  | TOptional s => contains_ptr s
  | TErrUnion e p => contains_ptr e || contains_ptr p
  | TDistinct s => contains_ptr s
  | _ => false
  end.

(* ------------------------------------------------------------------ Cranelift types, FinalTy *)

Inductive cl_ty := I8 | I16 | I32 | I64 | I128 | F32 | F64.
Inductive final_ty := FNumber (c : cl_ty) | FPointer | FVoid.

Definition cl_bits (c : cl_ty) : Z :=
  match c with I8 => 8 | I16 => 16 | I32 => 32 | I64 => 64 | I128 => 128 | F32 => 32 | F64 => 64 end.
Definition cl_bytes (c : cl_ty) : nat :=
  match c with I8 => 1 | I16 => 2 | I32 => 4 | I64 => 8 | I128 => 16 | F32 => 4 | F64 => 8 end%nat.
Definition cl_is_float (c : cl_ty) : bool := match c with F32 | F64 => true | _ => false end.

Definition site_finalize_int : N := 1.        (* convert.rs finalize_int  _ => unreachable!() *)
Definition site_finalize_float : N := 2.      (* convert.rs Ty::Float     _ => unreachable!() *)
Definition site_passmode_unwrap : N := 3.     (* simplified.rs into_real_type().unwrap() *)
Definition site_meta_tys_index : N := 4.      (* comptime.rs meta_tys[&ty_id] *)
Definition site_invalid_layout : N := 5.      (* comptime.rs Layout::from_size_align(..).expect *)
Definition site_iconst_unwrap : N := 6.       (* functions.rs final_ty.into_real_type().unwrap() (Integer) *)
Definition site_float_unwrap : N := 7.        (* functions.rs into_number_type().unwrap() *)
Definition site_float_width : N := 8.         (* functions.rs Float  _ => unreachable!() *)
Definition site_load_unwrap : N := 9.         (* functions.rs Data load into_real_type().unwrap() *)
Definition site_intbytes_width : N := 10.     (* comptime.rs IntBytes  _ => unreachable!() *)
Definition site_into_bytes_unwrap : N := 11.  (* functions.rs expr_to_const_data .into_bytes(..).unwrap() on Void *)
Definition site_final_uncompiled : N := 12.   (* functions.rs "The final binary should not have uncompiled comptime blocks" *)
Definition site_insert_twice : N := 13.       (* locations.rs ComptimeResultMap::insert assert *)

Definition finalize_int (w : N) : result final_ty :=
  if (w =? 255)%N then Ok (FNumber I64)          (* u8::MAX => ptr_ty *)
  else if (w =? 0)%N then Ok (FNumber I32)
  else if (w =? 8)%N then Ok (FNumber I8)
  else if (w =? 16)%N then Ok (FNumber I16)
  else if (w =? 32)%N then Ok (FNumber I32)
  else if (w =? 64)%N then Ok (FNumber I64)
  else if (w =? 128)%N then Ok (FNumber I128)
  else Crash site_finalize_int.

Definition finalize_float (w : N) : result final_ty :=
  if (w =? 0)%N || (w =? 32)%N then Ok (FNumber F32)
  else if (w =? 64)%N then Ok (FNumber F64)
  else Crash site_finalize_float.

(* convert.rs calc_single *)
Fixpoint get_final_ty (t : ty) : result final_ty :=
  if is_zero_sized t then Ok FVoid else
  match t with
  | TInt _ w => finalize_int w
  | TFloat w => finalize_float w
  | TBool | TChar => Ok (FNumber I8)
  | TType => Ok (FNumber I32)
  | TDistinct s => get_final_ty s
  | TVariant s => get_final_ty s
  | TVoid | TNil => Ok FVoid
  | _ => Ok FPointer
  end.

Definition into_real_type (f : final_ty) : option cl_ty :=
  match f with FNumber c => Some c | FPointer => Some I64 | FVoid => None end.
Definition into_number_type (f : final_ty) : option cl_ty :=
  match f with FNumber c => Some c | _ => None end.
Definition is_pointer_type (f : final_ty) : bool := match f with FPointer => true | _ => false end.

(* ------------------------------------------------------------------ layout.rs: size, align *)

Definition min8 (n : N) : N := N.min n 8.

Fixpoint align_of (t : ty) : N :=
  match t with
  | TInt _ w => min8 (match w with 255 => 8 | 0 => 4 | _ => w / 8 end)%N
  | TFloat w => min8 (match w with 0 => 4 | _ => w / 8 end)%N
  | TBool | TChar => 1
  | TStr | TPtr _ | TFn | TFnPtr | TRawPtr | TSlice _ | TRawSlice | TAny => 8
  | TType => 4
  | TVoid | TNil => 1
  | TArray _ _ e => align_of e
  | TStruct ms => fold_left (fun a m => N.max a (align_of m)) ms 1
  | TEnum vs => fold_left (fun a m => N.max a (align_of m)) vs 1
  | TVariant s | TOptional s | TDistinct s => align_of s
  | TErrUnion e p => N.max (align_of e) (align_of p)
  end%N.

Definition padding_needed_for (offset align : N) : N :=
  let misalign := (offset mod align)%N in
  if (0 <? misalign)%N then (align - misalign)%N else 0%N.

Fixpoint size_of (t : ty) : N :=
  match t with
  | TInt _ w => match w with 255 => 8 | 0 => 4 | _ => w / 8 end
  | TFloat w => match w with 0 => 4 | _ => w / 8 end
  | TBool | TChar => 1
  | TStr | TPtr _ | TFn | TFnPtr | TRawPtr => 8
  | TSlice _ | TRawSlice | TAny => 16
  | TType => 4
  | TVoid | TNil => 0
  | TArray _ n e =>
      let sz := size_of e in
      (sz + padding_needed_for sz (align_of e)) * n          (* stride * len *)
  | TStruct ms =>
      (fix go (l : list ty) (off : N) : N :=
         match l with
         | [] => off
         | m :: r => go r (off + padding_needed_for off (align_of m) + size_of m)
         end) ms 0
  | TEnum vs => (fix mx (l : list ty) (acc : N) : N :=
                   match l with [] => acc | m :: r => mx r (N.max acc (size_of m)) end) vs 0 + 1
  | TVariant s | TDistinct s => size_of s
  | TOptional s => if is_non_zero s then size_of s else size_of s + 1
  | TErrUnion e p => N.max (size_of e) (size_of p) + 1
  end%N.

(* ------------------------------------------------------------------ bytes *)

Fixpoint le_bytes (n : nat) (z : Z) : list Z :=
  match n with
  | O => []
  | S k => (z mod 256) :: le_bytes k (z / 256)
  end.

Fixpoint from_le (bs : list Z) : Z :=
  match bs with
  | [] => 0
  | b :: r => b + 256 * from_le r
  end.

(* ------------------------------------------------------------------ f32 <-> f64 on bit patterns *)

(* `f32 as f64` / `From<f32> for f64` (exact; NaNs are quietened as cvtss2sd does).
   Fields: sign, biased exponent, mantissa. *)
Definition promote_fields (s e m : Z) : Z :=
  if e =? 255 then
    if m =? 0 then s * 2 ^ 63 + 2047 * 2 ^ 52 + 0
    else s * 2 ^ 63 + 2047 * 2 ^ 52 + Z.lor (2 ^ 51) (m * 2 ^ 29)
  else if e =? 0 then
    if m =? 0 then s * 2 ^ 63 + 0 * 2 ^ 52 + 0
    else let k := Z.log2 m in
         s * 2 ^ 63 + (k + 874) * 2 ^ 52 + (m - 2 ^ k) * 2 ^ (52 - k)
  else s * 2 ^ 63 + (e + 896) * 2 ^ 52 + m * 2 ^ 29.

Definition promote (b : Z) : Z :=
  promote_fields (b / 2 ^ 31) ((b / 2 ^ 23) mod 2 ^ 8) (b mod 2 ^ 23).

(* `f64 as f32`: round to nearest, ties to even; overflow to infinity; NaNs quietened *)
Definition demote_fields (s e m : Z) : Z :=
  if e =? 2047 then
    if m =? 0 then s * 2 ^ 31 + 255 * 2 ^ 23
    else s * 2 ^ 31 + 255 * 2 ^ 23 + Z.lor (2 ^ 22) (m / 2 ^ 29)
  else
    let e32 := e - 896 in                       (* biased f32 exponent if normal *)
    let sig := if e =? 0 then m else 2 ^ 52 + m in
    let sh := if 1 <=? e32 then 29 else Z.min (29 + (1 - e32)) 64 in
    let q := sig / 2 ^ sh in
    let r := sig mod 2 ^ sh in
    let half := 2 ^ (sh - 1) in
    let q' := if (half <? r) || ((r =? half) && Z.odd q) then q + 1 else q in
    let body := if 1 <=? e32 then (e32 - 1) * 2 ^ 23 + q' else q' in
    if 255 * 2 ^ 23 <=? body then s * 2 ^ 31 + 255 * 2 ^ 23 else s * 2 ^ 31 + body.

Definition demote (b : Z) : Z :=
  demote_fields (b / 2 ^ 63) ((b / 2 ^ 52) mod 2 ^ 11) (b mod 2 ^ 52).

Definition is_nan32 (b : Z) : bool := ((b / 2 ^ 23) mod 2 ^ 8 =? 255) && negb (b mod 2 ^ 23 =? 0).

(* ------------------------------------------------------------------ the environment: JIT outcome *)

(* the value the block's body yields (object of the block's type) *)
Inductive value :=
| VNum (bits : Z)          (* scalar: bit pattern of the final Cranelift type; an address for pointers;
                              for `type` the type id *)
| VAgg (bytes : list Z)    (* aggregate: object representation, [size_of t] bytes *)
| VUnit.

Definition bits_of (v : value) : Z :=
  match v with VNum z => z | VAgg b => from_le b | VUnit => 0 end.
Definition bytes_of (n : nat) (v : value) : list Z :=
  match v with VNum z => le_bytes n z | VAgg b => b | VUnit => [] end.

(* what the caller cannot control: upper register bits, content of freshly allocated memory *)
Record garbage := { g_upper : Z; g_fupper : Z; g_uninit : list Z }.

(* machine state after the call `comptime()` / `comptime(raw)` *)
Record jit_ret := { r_reg : Z; r_freg : Z; r_buf : list Z }.

Inductive pass_mode := PNone | PIndirect | PDirect (c : cl_ty).

(* abi/simplified.rs ty_to_passmode *)
Definition ret_passmode (t : ty) : result pass_mode :=
  if is_zero_sized t then Ok PNone
  else if is_aggregate t then Ok PIndirect
  else do f <- get_final_ty t;
       match into_real_type f with
       | Some c => Ok (PDirect c)
       | None => Crash site_passmode_unwrap
       end.

(* The compiled block seen through the Simplified ABI: a direct return leaves the value in the
   low bits of the return register (upper bits unspecified) and does NOT touch the buffer the
   caller may have passed; an indirect return stores the object through the pointer argument. *)
Definition run_jit (t : ty) (v : value) (g : garbage) : result jit_ret :=
  do pm <- ret_passmode t;
  Ok match pm with
     | PNone => {| r_reg := g_upper g; r_freg := g_fupper g; r_buf := g_uninit g |}
     | PIndirect => {| r_reg := g_upper g; r_freg := g_fupper g; r_buf := bytes_of (N.to_nat (size_of t)) v |}
     | PDirect c =>
         if cl_is_float c
         then {| r_reg := g_upper g; r_freg := bits_of v + 2 ^ cl_bits c * g_fupper g; r_buf := g_uninit g |}
         else {| r_reg := bits_of v + 2 ^ cl_bits c * g_upper g; r_freg := g_fupper g; r_buf := g_uninit g |}
     end.

(* ------------------------------------------------------------------ ComptimeResult, capture *)

Inductive comptime_result :=
| CType (t : ty)
| CInteger (num : Z) (bit_width : Z)
| CFloat (num : Z) (bit_width : Z)        (* num: the f64 bit pattern *)
| CData (bytes : list Z)
| CVoid.

Fixpoint lookup_id (id : Z) (tbl : list (Z * ty)) : option ty :=
  match tbl with
  | [] => None
  | (k, t) :: r => if k =? id then Some t else lookup_id id r
  end.

Definition is_type (t : ty) : bool := match t with TType => true | _ => false end.

Definition is_pow2 (n : N) : bool :=
  match n with 1%N | 2%N | 4%N | 8%N | 16%N => true | _ => false end.

(* comptime.rs eval_comptime_blocks, body of the last loop.  [ids]: the JIT instance's
   type-id table (meta_tys, id -> Ty). *)
Definition capture (ids : list (Z * ty)) (t : ty) (jr : jit_ret) : result comptime_result :=
  if is_type t then                                     (* `*return_ty == Ty::Type`: no absolute_ty *)
    match lookup_id (r_reg jr mod 2 ^ 32) ids with      (* fn() -> u32 *)
    | Some t' => Ok (CType t')
    | None => Crash site_meta_tys_index
    end
  else
  do f <- get_final_ty t;
  match f with
  | FNumber F32 => Ok (CFloat (promote (r_freg jr mod 2 ^ 32)) 32)
  | FNumber F64 => Ok (CFloat (r_freg jr mod 2 ^ 64) 64)
  | FNumber I8 => Ok (CInteger (r_reg jr mod 2 ^ 8) 8)
  | FNumber I16 => Ok (CInteger (r_reg jr mod 2 ^ 16) 16)
  | FNumber I32 => Ok (CInteger (r_reg jr mod 2 ^ 32) 32)
  | FNumber I64 => Ok (CInteger (r_reg jr mod 2 ^ 64) 64)
  | FNumber I128 => Ok (CData (le_bytes 16 (r_reg jr mod 2 ^ 128)))   (* to_ne_bytes *)
  | FPointer =>
      if is_pow2 (align_of t)                           (* Layout::from_size_align(..).expect *)
      then Ok (CData (r_buf jr))                        (* size() bytes of `raw` after comptime(raw) *)
      else Crash site_invalid_layout
  | FVoid => Ok CVoid
  end.

(* ------------------------------------------------------------------ re-materialisation *)

(* what the code generated for the comptime expression evaluates to in the built program *)
Inductive observed :=
| ONum (c : cl_ty) (bits : Z)     (* an SSA value of type c with this bit pattern *)
| OAddr (blob : list Z)           (* the address of a data object with exactly these bytes *)
| ONone.

(* functions.rs compile_expr, Expr::Comptime, `if let Some(result) = self.comptime_results.get(ctc)`.
   [type_id]: to_type_id of the final binary's instance. *)
Definition materialise_local (type_id : ty -> Z) (t : ty) (no_load : bool) (r : comptime_result)
  : result observed :=
  do f <- get_final_ty t;
  match r with
  | CType t' => Ok (ONum I32 (type_id t' mod 2 ^ 32))
  | CInteger num _ =>
      match into_real_type f with
      | Some c => Ok (ONum c (num mod 2 ^ cl_bits c))            (* iconst(c, num as i64) *)
      | None => Crash site_iconst_unwrap
      end
  | CFloat num _ =>
      match into_number_type f with
      | Some c => if cl_bits c =? 32 then Ok (ONum F32 (demote num))   (* f32const(num as f32) *)
                  else if cl_bits c =? 64 then Ok (ONum F64 num)
                  else Crash site_float_width
      | None => Crash site_float_unwrap
      end
  | CData bytes =>
      if no_load || is_pointer_type f then Ok (OAddr bytes)
      else match into_real_type f with
           | Some c => Ok (ONum c (from_le (firstn (cl_bytes c) bytes)))   (* load c from the data object *)
           | None => Crash site_load_unwrap
           end
  | CVoid => Ok ONone
  end.

(* comptime.rs IntBytes for u64 / f64 (little endian) and ComptimeBytes::into_bytes *)
Definition int_into_bytes (num bw : Z) : result (list Z) :=
  if bw =? 8 then Ok (le_bytes 1 (num mod 2 ^ 8))
  else if bw =? 16 then Ok (le_bytes 2 (num mod 2 ^ 16))
  else if bw =? 32 then Ok (le_bytes 4 (num mod 2 ^ 32))
  else if bw =? 64 then Ok (le_bytes 8 (num mod 2 ^ 64))
  else if bw =? 128 then Ok (le_bytes 16 (num mod 2 ^ 64))     (* self as u128: zero extended *)
  else Crash site_intbytes_width.

Definition float_into_bytes (num bw : Z) : result (list Z) :=
  if bw =? 32 then Ok (le_bytes 4 (demote num))
  else if bw =? 64 then Ok (le_bytes 8 num)
  else Crash site_intbytes_width.

Definition into_bytes (type_id : ty -> Z) (r : comptime_result) : result (option (list Z)) :=
  match r with
  | CType t => Ok (Some (le_bytes 4 (type_id t mod 2 ^ 32)))
  | CInteger num bw => do b <- int_into_bytes num bw; Ok (Some b)
  | CFloat num bw => do b <- float_into_bytes num bw; Ok (Some b)
  | CData b => Ok (Some b)
  | CVoid => Ok None
  end.

(* global path: `g :: comptime { .. }` : expr_to_const_data (Expr::Comptime arm) builds the
   bytes of the global's data object, compile_global reads it. *)
Definition materialise_global (type_id : ty -> Z) (t : ty) (no_load : bool) (r : comptime_result)
  : result observed :=
  if is_zero_sized t then Ok ONone else        (* compile_global: zero sized => None, no data *)
  do ob <- into_bytes type_id r;
  match ob with
  | None => Crash site_into_bytes_unwrap
  | Some blob =>
      do f <- get_final_ty t;
      if no_load || is_pointer_type f then Ok (OAddr blob)
      else match into_real_type f with
           | Some c => Ok (ONum c (from_le (firstn (cl_bytes c) blob)))
           | None => Crash site_load_unwrap
           end
  end.

(* ------------------------------------------------------------------ pipelines and the reference *)

Definition pipeline_local ids type_id (t : ty) (v : value) (g : garbage) : result observed :=
  do jr <- run_jit t v g;
  do r <- capture ids t jr;
  materialise_local type_id t false r.

Definition pipeline_global ids type_id (t : ty) (v : value) (g : garbage) : result observed :=
  do jr <- run_jit t v g;
  do r <- capture ids t jr;
  materialise_global type_id t false r.

(* What the same expression evaluates to when it is compiled as ordinary run-time code: a
   scalar SSA value, or (aggregates) the address of memory holding the object. *)
Definition observe_runtime (t : ty) (v : value) : result observed :=
  do f <- get_final_ty t;
  Ok match f with
     | FVoid => ONone
     | FNumber c => ONum c (bits_of v)
     | FPointer => if is_aggregate t then OAddr (bytes_of (N.to_nat (size_of t)) v)
                   else ONum I64 (bits_of v)
     end.

(* well-formed values *)
Definition value_ok (t : ty) (v : value) : Prop :=
  match get_final_ty t with
  | Ok (FNumber c) => exists z, v = VNum z /\ 0 <= z < 2 ^ cl_bits c
  | Ok FPointer => if is_aggregate t
                   then exists b, v = VAgg b /\ length b = N.to_nat (size_of t)
                   else exists z, v = VNum z /\ 0 <= z < 2 ^ 64
  | Ok FVoid => True
  | _ => False
  end.

(* ------------------------------------------------------------------ classification of known defects *)

Inductive known := KStr | KFatPointer | KOptionalPointer | KAggregateWithPointer.

(* narrow syntactic classes of accepted result types that hold addresses *)
Definition known_class (t : ty) : option known :=
  match absolute_ty t with
  | TStr => Some KStr
  | TSlice _ | TRawSlice | TAny => Some KFatPointer
  | TOptional s => if contains_ptr s then
                     (if is_pointer s || is_function s then Some KOptionalPointer
                      else Some KAggregateWithPointer)
                   else None
  | TArray _ n e => if negb (n =? 0)%N && contains_ptr e then Some KAggregateWithPointer else None
  | TStruct ms => if existsb contains_ptr ms then Some KAggregateWithPointer else None
  | TEnum vs => if existsb contains_ptr vs then Some KAggregateWithPointer else None
  | TErrUnion e p => if contains_ptr e || contains_ptr p then Some KAggregateWithPointer else None
  | _ => None
  end.

(* ------------------------------------------------------------------ side effects: lowering *)

(* Code emitted for a comptime expression (functions.rs Expr::Comptime).  [body] stands for
   the block's body expression. *)
Inductive lowered (B : Type) :=
| LConst (o : observed)                 (* constant / data symbol; nothing of the body *)
| LLazy (body : B).                     (* init-flag test + store_expr_in_memory(body) *)
Arguments LConst {B} o.
Arguments LLazy {B} body.

Fixpoint lookup_result (ctc : N) (m : list (N * comptime_result)) : option comptime_result :=
  match m with
  | [] => None
  | (k, r) :: rest => if (k =? ctc)%N then Some r else lookup_result ctc rest
  end.

Definition lower_comptime {B} type_id (results : list (N * comptime_result)) (ctc : N) (t : ty)
           (no_load : bool) (body : B) : result (lowered B) :=
  match lookup_result ctc results with
  | Some r => do o <- materialise_local type_id t no_load r; Ok (LConst o)
  | None => Ok (LLazy body)
  end.

Definition runs_body {B} (l : lowered B) : bool :=
  match l with LConst _ => false | LLazy _ => true end.

(* eval_comptime_blocks: which blocks are JIT-executed by one call.
     to_eval.filter(|ctc| !results.contains(ctc)); every remaining block is run once and
     inserted (insert asserts the key is new). *)
Definition to_run (results : list (N * comptime_result)) (to_eval : list N) : list N :=
  filter (fun c => match lookup_result c results with Some _ => false | None => true end) to_eval.

Fixpoint insert_all (results : list (N * comptime_result)) (new : list (N * comptime_result))
  : result (list (N * comptime_result)) :=
  match new with
  | [] => Ok results
  | (c, r) :: rest =>
      match lookup_result c results with
      | Some _ => Crash site_insert_twice
      | None => insert_all ((c, r) :: results) rest
      end
  end.
