(* Model of GlobalInferenceCtx::get_const, const_data and their consumers
   (array length in const_ty/ArrayDecl, enum discriminant in const_ty/EnumDecl,
   comptime argument in evaluate_comptime_args, global body in finish_body) of
   crates/hir_ty/src/globals.rs.

   An expression is a tree in which a reference carries what the code looks up:
   a local carries its `mutable` flag and its value expression, a global (same file
   `LocalGlobal`, or `file.name` Member of a Ty::File) carries extern / finished flags and
   its body.  Type information the code reads from `self.tys` is a flag on the node.

   get_const is transcribed as the worklist loop it is (`to_check` vector, index walk,
   early return on the first non-Const verdict) with explicit fuel; the theorems show
   that |tree| fuel suffices.

   Crash sites:
     SITE_ARRAY_LEN   panic!("... already checked that the constant was an integer ...")  const_ty ArrayDecl
     SITE_DISCRIM     unreachable!() in the EnumDecl discriminant match
     SITE_COMPTIME_ARG panic!("@{} expr #{} didn't work") in evaluate_comptime_args
                       (also stands for the later "was not given a type" panic the same
                        missing value causes for array literals)
     SITE_LOCAL_NOVALUE assert!(local_def.value.is_some()) in const_data *)
From Capy Require Import Common.Util.

Definition SITE_ARRAY_LEN : N := 4697%N.
Definition SITE_DISCRIM : N := 4816%N.
Definition SITE_COMPTIME_ARG : N := 3844%N.
Definition SITE_LOCAL_NOVALUE : N := 5076%N.

Inductive litkind : Type := LInt (n : N) | LFloat | LBool | LString | LChar.

(* ComptimeResult *)
Inductive cdata : Type := DInt (n : N) | DFloat | DType | DData.

Inductive cexpr : Type :=
| CLit (k : litkind)
| CTypeLit                               (* PrimitiveTy / StructDecl / Distinct : type Ty::Type *)
| CLambda
| CImport
| CMissing
| CComptime (safe : bool) (res : cdata)  (* comptime block: is_safe_to_compile, evaluated result *)
| CArrayLit (is_array : bool) (items : list cexpr)
| CGlobal (is_extern finished : bool) (body : cexpr)
| CLocal (mutable : bool) (value : option cexpr)
| CMemberOther                            (* Member whose previous is not a file *)
| CComptimeParam (arg : cdata)
| COther (is_type_or_file : bool).        (* any other expression kind (arithmetic, call, paren,
                                             cast, param, if, block ...); flag: its type is Ty::Type / Ty::File *)

Inductive verdict : Type := Const | Runtime | Unknown.

(* one iteration of the loop body: verdict for this node + what it pushes on to_check.
   [None] = the `return ExprIsConst::Unknown` inside the match (unfinished global). *)
Definition visit (e : cexpr) : verdict * list cexpr :=
  match e with
  | CLit LChar => (Runtime, [])            (* CharLiteral is not in the Const list: falls to `_` *)
  | CLit _ | CTypeLit | CLambda | CImport | CMissing | CComptime _ _ => (Const, [])
  | CArrayLit true items => (Const, items)
  | CArrayLit false _ => (Runtime, [])     (* `_` arm; an array literal never has type Type *)
  | CGlobal ext fin body =>
      if ext then (Runtime, [])
      else if negb fin then (Unknown, [])
      else (Const, [body])
  | CLocal mu value =>
      let kids := match value with Some v => [v] | None => [] end in
      if mu then (Runtime, kids)
      else match value with None => (Unknown, kids) | Some _ => (Const, kids) end
  | CMemberOther => (Runtime, [])
  | CComptimeParam _ => (Const, [])
  | COther ty => (if ty then Const else Runtime, [])
  end.

(* while let Some(e) = to_check.get(idx) { ...; idx += 1 }  — the processed prefix is dropped *)
Fixpoint get_const_loop (fuel : nat) (to_check : list cexpr) : result verdict :=
  match to_check with
  | [] => Ok Const
  | e :: rest =>
    match fuel with
    | O => OutOfFuel
    | S f =>
      let (v, kids) := visit e in
      match v with
      | Const => get_const_loop f (rest ++ kids)
      | _ => Ok v
      end
    end
  end.

Fixpoint size (e : cexpr) : nat :=
  match e with
  | CArrayLit _ items => S ((fix sz (l : list cexpr) := match l with [] => 0 | x :: r => size x + sz r end) items)
  | CGlobal _ _ b => S (size b)
  | CLocal _ (Some v) => S (size v)
  | _ => 1
  end.

Definition get_const (e : cexpr) : result verdict := get_const_loop (size e) [e].

Fixpoint const_data (e : cexpr) : result (option cdata) :=
  match e with
  | CLit (LInt n) => Ok (Some (DInt n))
  | CLit LFloat => Ok (Some DFloat)
  | CComptime safe res => Ok (if safe then Some res else None)
  | CLocal _ (Some v) => const_data v
  | CLocal _ None => Crash SITE_LOCAL_NOVALUE
  | CGlobal _ _ body => const_data body
  | CComptimeParam d => Ok (Some d)
  | CTypeLit | COther true => Ok (Some DType)
  | _ => Ok None
  end.

(* ---- consumers (after their expect_match type check succeeded) --------------------- *)
Inductive outcome : Type :=
| Accepted (d : cdata)
| NotConst          (* *NotConst diagnostic *)
| Silent.           (* ExprIsConst::Unknown: no diagnostic, no value *)

Definition consume (site : N) (want_int : bool) (e : cexpr) : result outcome :=
  do v <- get_const e;
  match v with
  | Runtime => Ok NotConst
  | Unknown => Ok Silent
  | Const =>
      do d <- const_data e;
      match d with
      | Some (DInt n) => Ok (Accepted (DInt n))
      | Some d' => if want_int then Crash site else Ok (Accepted d')
      | None => Crash site
      end
  end.

Definition array_len (e : cexpr) : result outcome := consume SITE_ARRAY_LEN true e.
Definition discriminant (e : cexpr) : result outcome := consume SITE_DISCRIM true e.
Definition comptime_arg (e : cexpr) : result outcome := consume SITE_COMPTIME_ARG false e.
(* finish_body: a global whose body is Runtime gets GlobalNotConst (builtin bodies excepted) *)
Definition global_body (e : cexpr) : result outcome :=
  do v <- get_const e;
  Ok (match v with Runtime => NotConst | Unknown => Silent | Const => Accepted DData end).

(* ==== multi-file worlds ======================================================================
   The tree model above inlines the body a reference resolves to.  Which body that is, is itself
   decided by the code: `Expr::LocalGlobal(name)` names a global of the file the expression LIVES
   in (`loc.file()` of the location whose body is being walked — not the file being inferred), and
   `file.name` names a global of the file the member's receiver denotes.  The world model keeps
   references symbolic and transcribes that lookup: get_const's worklist carries (file, expr)
   pairs, const_data recurses with the file of the body it enters. *)
Definition SITE_NO_GLOBAL : N := 3200%N.   (* global_bodies[&name] index panic (`global_body`) *)

Inductive wexpr : Type :=
| WInt (n : N)
| WGlobal (g : N)                         (* Expr::LocalGlobal *)
| WMember (f g : N)                       (* Expr::Member whose previous has type Ty::File f *)
| WLocal (mutable : bool) (value : option wexpr)
| WComptime (safe : bool) (res : cdata)
| WParam (arg : cdata)
| WOther (is_type_or_file : bool).

Record wglobal : Type := mkwg { wg_extern : bool; wg_finished : bool; wg_body : wexpr }.
Definition world : Type := N -> N -> option wglobal.     (* file -> name -> definition *)

Section World.
Variable w : world.

Definition visit_w (cur : N) (e : wexpr) : result (verdict * list (N * wexpr)) :=
  match e with
  | WInt _ | WComptime _ _ | WParam _ => Ok (Const, [])
  | WOther ty => Ok (if ty then Const else Runtime, [])
  | WGlobal g =>
      match w cur g with
      | None => Crash SITE_NO_GLOBAL
      | Some gd =>
          if wg_extern gd then Ok (Runtime, [])
          else if negb (wg_finished gd) then Ok (Unknown, [])
          else Ok (Const, [(cur, wg_body gd)])
      end
  | WMember f g =>
      match w f g with
      | None => Ok (Unknown, [])              (* !global_exists *)
      | Some gd =>
          if wg_extern gd then Ok (Runtime, [])
          else if negb (wg_finished gd) then Ok (Unknown, [])
          else Ok (Const, [(f, wg_body gd)])
      end
  | WLocal mu value =>
      let kids := match value with Some v => [(cur, v)] | None => [] end in
      if mu then Ok (Runtime, kids)
      else match value with None => Ok (Unknown, kids) | Some _ => Ok (Const, kids) end
  end.

Fixpoint get_const_w (fuel : nat) (to_check : list (N * wexpr)) : result verdict :=
  match to_check with
  | [] => Ok Const
  | (cur, e) :: rest =>
    match fuel with
    | O => OutOfFuel
    | S f =>
      do r <- visit_w cur e;
      match fst r with
      | Const => get_const_w f (rest ++ snd r)
      | v => Ok v
      end
    end
  end.

(* const_data(loc, expr): [cur] = loc.file() *)
Fixpoint const_data_w (fuel : nat) (cur : N) (e : wexpr) : result (option cdata) :=
  match fuel with
  | O => OutOfFuel
  | S f =>
    match e with
    | WInt n => Ok (Some (DInt n))
    | WComptime safe res => Ok (if safe then Some res else None)
    | WParam d => Ok (Some d)
    | WOther ty => Ok (if ty then Some DType else None)
    | WLocal _ (Some v) => const_data_w f cur v
    | WLocal _ None => Crash SITE_LOCAL_NOVALUE
    | WGlobal g =>
        match w cur g with            (* Fqn { file: loc.file(), name } *)
        | Some gd => if wg_extern gd then Crash SITE_NO_GLOBAL else const_data_w f cur (wg_body gd)
        | None => Crash SITE_NO_GLOBAL
        end
    | WMember file g =>
        match w file g with
        | Some gd => if wg_extern gd then Crash SITE_NO_GLOBAL else const_data_w f file (wg_body gd)
        | None => Crash SITE_NO_GLOBAL
        end
    end
  end.

Definition consume_w (site : N) (want_int : bool) (fuel : nat) (cur : N) (e : wexpr) : result outcome :=
  do v <- get_const_w fuel [(cur, e)];
  match v with
  | Runtime => Ok NotConst
  | Unknown => Ok Silent
  | Const =>
      do d <- const_data_w fuel cur e;
      match d with
      | Some (DInt n) => Ok (Accepted (DInt n))
      | Some d' => if want_int then Crash site else Ok (Accepted d')
      | None => Crash site
      end
  end.

Definition array_len_w := consume_w SITE_ARRAY_LEN true.
Definition discriminant_w := consume_w SITE_DISCRIM true.
Definition comptime_arg_w := consume_w SITE_COMPTIME_ARG false.

End World.
