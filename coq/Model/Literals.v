(* C09 model: literal lowering, acceptance and defaulting, transcribed from
     crates/hir/src/body.rs           lower_int_literal / lower_string_literal / lower_char_literal
     crates/hir/src/common/ty.rs      Ty::get_max_int_size
     crates/hir_ty/src/globals.rs     expect_match int shortcut / replace_weak_tys (IntTooBigForType),
                                      reinfer_expr widening of weak literals
     crates/codegen/src/convert.rs    finalize_int ({int}/{uint} compile as signed i32)
     crates/codegen/src/compiler/functions.rs  IntLiteral materialisation (iconst / 128-bit data)
   The code is mirrored as it is, defects included.  Rejections are [None]
   (= a diagnostic is pushed), never a default value. *)
From Capy Require Import Common.Util Common.Bits.
Open Scope Z_scope.

Definition u64_max : Z := 18446744073709551615.
Definition u32_max : Z := 4294967295.
Definition i32_max : Z := 2147483647.
Definition i64_max : Z := 9223372036854775807.

(* one character of a decimal literal token: a digit (its value) or '_' *)
Inductive dch := Dg (d : Z) | Us.

(* text.replace('_', "") *)
Fixpoint strip (l : list dch) : list Z :=
  match l with [] => [] | Dg d :: r => d :: strip r | Us :: r => strip r end.

(* str::parse::<uN> / from_str_radix: checked multiply-add, left to right;
   the empty string is an error *)
Fixpoint parse_acc (base max acc : Z) (ds : list Z) : option Z :=
  match ds with
  | [] => Some acc
  | d :: r => let acc' := acc * base + d in if acc' <=? max then parse_acc base max acc' r else None
  end.
Definition parse_radix (base max : Z) (ds : list Z) : option Z :=
  match ds with [] => None | _ => parse_acc base max 0 ds end.

(* 10_u64.checked_pow(e): None iff 10^e does not fit u64, i.e. iff e >= 20
   (the exponent itself was parsed into a u32 first) *)
Definition checked_pow10 (e : Z) : option Z := if e <=? 19 then Some (10 ^ e) else None.
Definition checked_mul64 (a b : Z) : option Z := if a * b <=? u64_max then Some (a * b) else None.

(* Code variants (fix candidates in .cache/prompts/C09-{2,3,4}-fix.diff); false = the code before
   the repair, true = the repaired code:
     fx_zero  lower_int_literal: a zero mantissa with an exponent yields 0 without computing 10^e  (C09-4)
     fx_i128  get_max_int_size: IInt(128) -> u64::MAX instead of i64::MAX                           (C09-2)
     fx_isize get_max_int_size: IInt(255) -> i64::MAX instead of None                              (C09-3) *)
Record variant := mk_variant { fx_zero : bool; fx_i128 : bool; fx_isize : bool }.
Definition v_orig : variant := mk_variant false false false.
Definition v_fixed : variant := mk_variant true true true.

(* IntValue::Dec: mantissa, optional exponent after the first 'e'/'E' *)
Definition lower_dec (V : variant) (mant : list dch) (exp : option (list dch)) : option Z :=
  match parse_radix 10 u64_max (strip mant) with
  | None => None
  | Some base =>
      match exp with
      | None => Some base
      | Some e =>
          if fx_zero V && (base =? 0) then Some 0 else
          match parse_radix 10 u32_max (strip e) with
          | None => None
          | Some ev =>
              match checked_pow10 ev with
              | None => None
              | Some p => checked_mul64 base p
              end
          end
      end
  end.
Definition lower_hex (ds : list Z) : option Z := parse_radix 16 u64_max ds.
Definition lower_bin (ds : list Z) : option Z := parse_radix 2 u64_max ds.

(* ---- escapes ---------------------------------------------------------------------- *)
(* the match in lower_string_literal / lower_char_literal; None = InvalidEscape *)
Definition escape_char (c : Z) : option Z :=
  if c =? 48 then Some 0          (* \0 *)
  else if c =? 97 then Some 7     (* \a *)
  else if c =? 98 then Some 8     (* \b *)
  else if c =? 110 then Some 10   (* \n *)
  else if c =? 102 then Some 12   (* \f *)
  else if c =? 114 then Some 13   (* \r *)
  else if c =? 116 then Some 9    (* \t *)
  else if c =? 118 then Some 11   (* \v *)
  else if c =? 101 then Some 27   (* \e *)
  else if c =? 34 then Some 34    (* backslash doublequote *)
  else if c =? 39 then Some 39    (* backslash quote *)
  else if c =? 92 then Some 92    (* \\ *)
  else None.

(* a component of a string/char token: an escape (the char after the backslash)
   or literal contents (code points) *)
Inductive comp := Esc (c : Z) | Lit (cs : list Z).

(* lower_string_literal: (code points, number of InvalidEscape diagnostics);
   an invalid escape contributes nothing *)
Fixpoint lower_string (l : list comp) : list Z * nat :=
  match l with
  | [] => ([], O)
  | Esc c :: r =>
      let (t, n) := lower_string r in
      match escape_char c with Some v => (v :: t, n) | None => (t, S n) end
  | Lit cs :: r => let (t, n) := lower_string r in (cs ++ t, n)
  end.

(* lower_char_literal *)
Inductive char_diag := InvalidEscapeD | EmptyChar | NonU8Char | TooManyChars.
Fixpoint total_len (l : list comp) : nat :=
  match l with [] => O | Esc _ :: r => S (total_len r) | Lit cs :: r => (length cs + total_len r)%nat end.
Definition lower_char (l : list comp) : Z * list char_diag :=
  let (text, ninv) := lower_string l in
  let inv := repeat InvalidEscapeD ninv in
  match total_len l with
  | O => (0, inv ++ [EmptyChar])
  | S O =>
      match text with
      | [] => (0, inv)                                  (* unwrap_or('\0') *)
      | c :: _ => if c <=? 255 then (c, inv) else (0, inv ++ [NonU8Char])
      end
  | _ => (0, inv ++ [TooManyChars])
  end.

(* ---- acceptance ------------------------------------------------------------------------ *)
(* integer types: signedness and the width field of Ty::IInt/UInt (0 weak, 255 pointer-sized) *)
Inductive ity := IT (sg : bool) (w : Z).

(* ty.rs get_max_int_size *)
Definition max_int_size (V : variant) (t : ity) : option Z :=
  match t with
  | IT true w =>
      if w =? 8 then Some 127 else if w =? 16 then Some 32767 else if w =? 32 then Some i32_max
      else if w =? 64 then Some i64_max
      else if w =? 128 then Some (if fx_i128 V then u64_max else i64_max)
      else if (w =? 255) && fx_isize V then Some i64_max else None
  | IT false w =>
      if w =? 8 then Some 255 else if w =? 16 then Some 65535 else if w =? 32 then Some u32_max
      else if (w =? 64) || (w =? 128) then Some u64_max else None
  end.

(* expect_match / replace_weak_tys: IntTooBigForType iff num > max *)
Definition accepted (V : variant) (t : ity) (n : Z) : bool :=
  match max_int_size V t with Some m => n <=? m | None => true end.

(* convert.rs finalize_int: final (signed, bits); pointer width 64 *)
Definition final_ty (t : ity) : bool * Z :=
  match t with
  | IT sg w => if w =? 0 then (true, 32) else if w =? 255 then (sg, 64) else (sg, w)
  end.

(* functions.rs IntLiteral: iconst(ty, n as i64) / 128-bit data blob: the bit pattern *)
Definition materialise (t : ity) (n : Z) : Z := wrap (snd (final_ty t)) n.
(* the value the program then works with *)
Definition observed (t : ity) (n : Z) : Z :=
  let (sg, w) := final_ty t in if sg then signed w (wrap w n) else wrap w n.

(* an unannotated literal: {uint}, widened by reinfer_expr above u32::MAX *)
Definition default_ity (n : Z) : ity := if u32_max <? n then IT false 64 else IT false 0.
