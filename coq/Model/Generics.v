(* Generics — model for C16 "generic calls behave like calls to hand-substituted
   copies".

   Two pieces:
   1. syntactic substitution of the comptime arguments [s : senv] (type
      arguments, integer arguments) into code ([tsubst] of CapyCore on every type
      annotation, [ECParam n] / [CRef n] replaced by the literal), which is what
      a programmer does when writing the monomorphic copy by hand
      ([subst_fun]);
   2. the instantiation table of the compiler: one instance per distinct key
      (function, comptime type arguments, comptime value arguments), found by
      linear search with structural equality, appended when absent; the symbol
      of an instance is the base name plus "G<index in the table>".

   Definitions only; the theorems are in Proofs/GenericsProofs.v. *)
From Coq Require Import List ZArith Bool Arith.
From Capy Require Import Common.CapyCore.
Import ListNotations.

(* ------------------------------------------------------------ substitution *)
Definition csubst (s : senv) (c : cval) : cval :=
  match c with
  | CLit t z => CLit (tsubst (fst s) t) z
  | CRef n =>
      match nth_error (snd s) n with
      | Some (VInt i z) => CLit (TInt i) z
      | _ => CRef n
      end
  end.

Fixpoint subst (s : senv) (e : expr) {struct e} : expr :=
  match e with
  | EInt t z => EInt (tsubst (fst s) t) z
  | EBool b => EBool b
  | EUnit => EUnit
  | ECParam n =>
      match nth_error (snd s) n with
      | Some (VInt i z) => EInt (TInt i) z
      | _ => ECParam n
      end
  | EVar x => EVar x
  | EBin op a b => EBin op (subst s a) (subst s b)
  | ECmp op a b => ECmp op (subst s a) (subst s b)
  | EUn op a => EUn op (subst s a)
  | EAnd a b => EAnd (subst s a) (subst s b)
  | EOr a b => EOr (subst s a) (subst s b)
  | ECast t a => ECast (tsubst (fst s) t) (subst s a)
  | EIf c a b => EIf (subst s c) (subst s a) (subst s b)
  | EWhile l c body => EWhile l (subst s c) (subst s body)
  | ELoop l body => ELoop l (subst s body)
  | EBlock l t ss tail => EBlock l (tsubst (fst s) t) (map (subst s) ss) (subst s tail)
  | EBreak l v => EBreak l (subst s v)
  | EContinue l => EContinue l
  | EReturn v => EReturn (subst s v)
  | ECall f targs cargs args =>
      ECall f (map (tsubst (fst s)) targs) (map (csubst s) cargs) (map (subst s) args)
  | EArr t es => EArr (tsubst (fst s) t) (map (subst s) es)
  | EIndex a i => EIndex (subst s a) (subst s i)
  | EStruct t es => EStruct (tsubst (fst s) t) (map (subst s) es)
  | EField a k => EField (subst s a) k
  | ELet x t m e0 => ELet x (tsubst (fst s) t) m (subst s e0)
  | EAssign lhs rhs => EAssign (subst s lhs) (subst s rhs)
  | EPrint a => EPrint (subst s a)
  | EDefer d => EDefer (subst s d)
  | EInject t k a => EInject (tsubst (fst s) t) k (subst s a)
  | ESwitch t a x arms dflt =>
      ESwitch (tsubst (fst s) t) (subst s a) x (map (subst s) arms) (option_map (subst s) dflt)
  | EIsVariant a k => EIsVariant (subst s a) k
  | EUnwrap a k => EUnwrap (subst s a) k
  | ETry a => ETry (subst s a)
  end.

(* the hand-substituted, non-generic copy of [fd] for the comptime arguments [s] *)
Definition subst_fun (s : senv) (fd : fundef) : fundef :=
  mkFun 0 []
        (map (fun p => (fst p, tsubst (fst s) (snd p))) (f_params fd))
        (tsubst (fst s) (f_ret fd))
        (subst s (f_body fd)).

(* comptime value parameters are integers *)
Definition is_vint (v : value) : bool :=
  match v with VInt _ _ => true | _ => false end.

Definition int_senvb (s : senv) : bool := forallb is_vint (snd s).

Definition int_senv (s : senv) : Prop :=
  forall v, In v (snd s) -> exists i z, v = VInt i z.

(* plain statements of a block: the head is neither a [let] nor a [defer] (used
   to state how [eval_stmts] dispatches) *)
Definition nonlet (e : expr) : Prop :=
  match e with ELet _ _ _ _ => False | EDefer _ => False | _ => True end.

(* results equal up to the function a run-time fault is attributed to *)
Definition res_eq_upto_fn (r1 r2 : res) : Prop :=
  match r1, r2 with
  | RFault o1 k1 _, RFault o2 k2 _ => o1 = o2 /\ k1 = k2
  | _, _ => r1 = r2
  end.

(* ----------------------------------------------------- instantiation table *)
Fixpoint value_eqb (a b : value) {struct a} : bool :=
  match a, b with
  | VInt i x, VInt j y => ity_eqb i j && Z.eqb x y
  | VBool x, VBool y => Bool.eqb x y
  | VUnit, VUnit => true
  | VArr xs, VArr ys => list_eqb value_eqb xs ys
  | VStruct xs, VStruct ys => list_eqb value_eqb xs ys
  | VSum j x, VSum k y => Nat.eqb j k && value_eqb x y
  | _, _ => false
  end.

(* function index, comptime type arguments, comptime value arguments *)
Definition inst_key := (nat * list ty * list value)%type.

Definition key_eqb (a b : inst_key) : bool :=
  match a, b with
  | (f, ts, vs), (g, us, ws) =>
      Nat.eqb f g && list_eqb ty_eqb ts us && list_eqb value_eqb vs ws
  end.

(* index of the first entry equal to [key] *)
Fixpoint find_key (tbl : list inst_key) (key : inst_key) : option nat :=
  match tbl with
  | [] => None
  | k :: r =>
      if key_eqb k key then Some O
      else match find_key r key with Some i => Some (S i) | None => None end
  end.

(* the compiler's "find or instantiate": index of the instance and new table *)
Definition find_or_add (tbl : list inst_key) (key : inst_key) : nat * list inst_key :=
  match find_key tbl key with
  | Some i => (i, tbl)
  | None => (length tbl, tbl ++ [key])
  end.

(* symbol of an instance: base name (abstractly, a number) plus "G<k>" *)
Definition inst_symbol (base : nat) (k : nat) : nat * nat := (base, k).
