(* Model of the scope discipline of crates/hir/src/body.rs:
   Ctx::{lower_global, lower_lambda, lower_comptime, lower_local_define,
   lower_block, lower_switch, lower_var_ref, insert_into_current_scope,
   look_up_in_current_scope, look_up_param, look_up_inline_header_param,
   create_new_child_scope, destroy_current_scope} and of `lower` (one Ctx for all
   globals of a file).

   Abstract syntax: binder-only.  Everything that neither binds nor resolves a
   name is [Node children] (children in the order the Rust code lowers them);
   an absent optional child is [Node ENil].  Every binder carries a unique
   label (supplied by the generator; the harness maps source ranges to labels).

   State = the three mutable fields the Rust code uses for resolution:
     scopes : Vec<FxHashMap<Key,Local>>   (head of the list = last element = innermost)
     params : FxHashMap<Key,ParamInfo>
     inline_header_params : FxHashMap<Key,ParamInfo>
   A hash map is an association list with insert = cons and get = first match
   (so a later insert of the same key wins, as in a HashMap).

   Crash sites (explicit, never totalised):
     SITE_SCOPE  = `self.scopes.last_mut().unwrap()` in insert_into_current_scope (body.rs:2366)
     SITE_ASSERT = `assert!(self.inline_header_params.is_empty())` in lower_lambda (body.rs:853)

   [fix : bool] selects the proposed repair of lower_switch (each arm is lowered
   in a child scope that is destroyed after the arm); [fix = false] is the code
   as it is. *)
From Capy Require Import Common.Util.

Definition SITE_SCOPE : N := 2366%N.
Definition SITE_ASSERT : N := 853%N.

Inductive res : Type :=
| RLocal (l : N)          (* Expr::Local(def), label of the definition *)
| RSwitchArg (l : N)      (* Expr::SwitchArgument, label of the arm *)
| RParam (l : N)          (* Expr::Param, label of the parameter *)
| RCtParam (l : N)        (* Expr::ComptimeParam *)
| RInline (l : N)         (* Expr::InlineParam *)
| RInlineNotCt (l : N)    (* InlineParamNotComptime diagnostic, Expr::Missing *)
| RGlobal (x : N)         (* Expr::LocalGlobal *)
| RPrim                   (* Expr::PrimitiveTy *)
| RNil                    (* Expr::Nil *)
| RUndef.                 (* UndefinedRef diagnostic, Expr::Missing *)

Inductive local : Type := LDef (l : N) | LArm (l : N).
Record pinfo : Type := mkp { p_lbl : N; p_ct : bool }.

Inductive expr : Type :=
| Var (x : N)
| Node (es : exprs)
| Block (ss : stmts)
| Switch (arg : option N) (scrut : expr) (arms : arms)
| Lambda (ps : params) (ret : expr) (hasbody : bool) (ss : stmts)
| Comptime (e : expr)
with exprs : Type := ENil | ECons (e : expr) (es : exprs)
with stmts : Type :=
| STail (e : expr)                                   (* tail expression (or Node ENil) *)
| SDef (l x : N) (ty v : expr) (rest : stmts)        (* x : ty = v   /  x :: v  /  x := v *)
| SExpr (e : expr) (rest : stmts)
with arms : Type := ANil | ACons (l : N) (variant body : expr) (rest : arms)
with params : Type := PNil | PCons (l x : N) (ct : bool) (ty : expr) (rest : params).

Record world : Type := mkworld { globals : list N; prims : list N; nil_name : N }.

Record state : Type := mkst {
  scopes : list (list (N * local));
  sparams : list (N * pinfo);
  inline : list (N * pinfo) }.

Fixpoint assoc {A} (x : N) (l : list (N * A)) : option A :=
  match l with
  | [] => None
  | (y, a) :: r => if N.eqb x y then Some a else assoc x r
  end.

Fixpoint memN (x : N) (l : list N) : bool :=
  match l with [] => false | y :: r => if N.eqb x y then true else memN x r end.

(* look_up_in_current_scope: for scope in self.scopes.iter().rev() *)
Fixpoint look_up_scopes (x : N) (sc : list (list (N * local))) : option local :=
  match sc with
  | [] => None
  | s :: r => match assoc x s with Some d => Some d | None => look_up_scopes x r end
  end.

Definition lower_var_ref (w : world) (s : state) (x : N) : res :=
  match assoc x (inline s) with
  | Some p => if p_ct p then RInline (p_lbl p) else RInlineNotCt (p_lbl p)
  | None =>
    match look_up_scopes x (scopes s) with
    | Some (LDef l) => RLocal l
    | Some (LArm l) => RSwitchArg l
    | None =>
      match assoc x (sparams s) with
      | Some p => if p_ct p then RCtParam (p_lbl p) else RParam (p_lbl p)
      | None =>
        if memN x (globals w) then RGlobal x
        else if memN x (prims w) then RPrim
        else if N.eqb x (nil_name w) then RNil
        else RUndef
      end
    end
  end.

Definition insert_cur (x : N) (d : local) (s : state) : result state :=
  match scopes s with
  | [] => Crash SITE_SCOPE
  | top :: r => Ok (mkst (((x, d) :: top) :: r) (sparams s) (inline s))
  end.

Definition push (s : state) : state := mkst ([] :: scopes s) (sparams s) (inline s).
(* Vec::pop on an empty vector is a no-op returning None *)
Definition pop (s : state) : state := mkst (tl (scopes s)) (sparams s) (inline s).

(* One global definition `name : ty : body` / `name : ty : extern`. *)
Record gdef : Type := mkg { g_name : N; g_ty : expr; g_extern : bool; g_body : expr }.

Section Lower.
Variable fix_ : bool.
Variable w : world.

Fixpoint lower_expr (e : expr) (s : state) {struct e} : result (state * list res) :=
  match e with
  | Var x => Ok (s, [lower_var_ref w s x])
  | Node es => lower_exprs es s
  | Block ss =>
      do r <- lower_stmts ss (push s);
      Ok (pop (fst r), snd r)
  | Switch arg scrut ars =>
      do r1 <- lower_expr scrut s;
      do r2 <- lower_arms arg ars (fst r1);
      Ok (fst r2, snd r1 ++ snd r2)
  | Lambda ps ret hasbody ss =>
      match inline s with
      | _ :: _ => Crash SITE_ASSERT
      | [] =>
        do r1 <- lower_params ps [] s;
        let s1 := fst (fst r1) in
        let keys := snd (fst r1) in
        do r2 <- lower_expr ret s1;
        let s2 := fst r2 in
        (* inline_header_params.clear(); old_params = replace(params, keys); old_scopes = take(scopes) *)
        let s3 := mkst [] keys [] in
        do r4 <- (if hasbody
                  then do r <- lower_stmts ss (push s3); Ok (pop (fst r), snd r)
                  else Ok (s3, []));
        Ok (mkst (scopes s2) (sparams s2) (inline (fst r4)), snd r1 ++ snd r2 ++ snd r4)
      end
  | Comptime b =>
      do r <- lower_expr b (mkst [] [] (inline s));
      Ok (mkst (scopes s) (sparams s) (inline (fst r)), snd r)
  end
with lower_exprs (es : exprs) (s : state) {struct es} : result (state * list res) :=
  match es with
  | ENil => Ok (s, [])
  | ECons e r =>
      do r1 <- lower_expr e s;
      do r2 <- lower_exprs r (fst r1);
      Ok (fst r2, snd r1 ++ snd r2)
  end
with lower_stmts (ss : stmts) (s : state) {struct ss} : result (state * list res) :=
  match ss with
  | STail e => lower_expr e s
  | SDef l x ty v rest =>
      do r1 <- lower_expr ty s;
      do r2 <- lower_expr v (fst r1);
      do s3 <- insert_cur x (LDef l) (fst r2);
      do r4 <- lower_stmts rest s3;
      Ok (fst r4, snd r1 ++ snd r2 ++ snd r4)
  | SExpr e rest =>
      do r1 <- lower_expr e s;
      do r2 <- lower_stmts rest (fst r1);
      Ok (fst r2, snd r1 ++ snd r2)
  end
with lower_arms (arg : option N) (ars : arms) (s : state) {struct ars} : result (state * list res) :=
  match ars with
  | ANil => Ok (s, [])
  | ACons l variant body rest =>
      do r1 <- lower_expr variant s;
      let s1 := if fix_ then push (fst r1) else fst r1 in
      do s2 <- match arg with
               | None => Ok s1
               | Some x => insert_cur x (LArm l) s1
               end;
      do r3 <- lower_expr body s2;
      let s4 := if fix_ then pop (fst r3) else fst r3 in
      do r5 <- lower_arms arg rest s4;
      Ok (fst r5, snd r1 ++ snd r3 ++ snd r5)
  end
with lower_params (ps : params) (keys : list (N * pinfo)) (s : state) {struct ps}
  : result (state * list (N * pinfo) * list res) :=
  match ps with
  | PNil => Ok (s, keys, [])
  | PCons l x ct ty rest =>
      do r1 <- lower_expr ty s;
      let s1 := fst r1 in
      let info := mkp l ct in
      let s2 := mkst (scopes s1) (sparams s1) ((x, info) :: inline s1) in
      do r <- lower_params rest ((x, info) :: keys) s2;
      Ok (fst (fst r), snd (fst r), snd r1 ++ snd r)
  end.

(* lower_global; [seen] = keys of bodies.global_bodies *)
Definition lower_global (g : gdef) (seen : list N) (s : state)
  : result (state * list N * list res) :=
  if memN (g_name g) seen then Ok (s, seen, [])
  else
    do r1 <- lower_expr (g_ty g) s;
    if g_extern g then Ok (fst r1, seen, snd r1)
    else
      do r2 <- lower_expr (g_body g) (fst r1);
      Ok (fst r2, g_name g :: seen, snd r1 ++ snd r2).

Fixpoint lower_globals (gs : list gdef) (seen : list N) (s : state) : result (list res) :=
  match gs with
  | [] => Ok []
  | g :: r =>
      do r1 <- lower_global g seen s;
      do o <- lower_globals r (snd (fst r1)) (fst (fst r1));
      Ok (snd r1 ++ o)
  end.

(* Ctx::new: scopes = vec![FxHashMap::default()] *)
Definition init_state : state := mkst [[]] [] [].

Definition lower_program (gs : list gdef) : result (list res) :=
  lower_globals gs [] init_state.

End Lower.
