(* Model of the run-time type ids: crates/codegen/src/convert.rs
   (`simple_id`, `simple_id_with_align`, `ToTyId::to_type_id` with the
   `MetaTyData` table and per-kind uid generators) and of the readers in
   core/src/meta.capy (`size_of`, `align_of`, `stride_of`, and the bit-field
   parts of `get_type_info`), plus the layout tables that
   compiler/ty_info.rs::compile_memory_layouts emits (one (size, align) entry
   per compound type, in `tys_to_compile` order).

   Crash sites: 1/2/3 the three asserts of simple_id_with_align (discriminant,
   size, align field widths), 4 `unreachable!` for NaivePolymorphicFunction,
   5 layout lookup failed (`self.size()` on Ty::Any), 6 meta.capy assert
   "unknown type" / index out of bounds. *)
From Capy Require Import Common.Util Common.LTy Common.Layout.
Local Open Scope N_scope.

Definition VOID_D := 1.   Definition INT_D := 2.    Definition FLOAT_D := 3.
Definition BOOL_D := 4.   Definition STRING_D := 5. Definition CHAR_D := 6.
Definition META_TYPE_D := 7. Definition ANY_D := 8. Definition FILE_D := 9.
Definition RAW_PTR_D := 10. Definition RAW_SLICE_D := 11. Definition NIL_D := 12.
Definition NO_RETURN_D := 13.
Definition STRUCT_D := 16. Definition DISTINCT_D := 17. Definition ARRAY_D := 18.
Definition SLICE_D := 19. Definition POINTER_D := 20. Definition FUNCTION_D := 21.
Definition ENUM_D := 22. Definition VARIANT_D := 23. Definition OPTIONAL_D := 24.
Definition ERROR_UNION_D := 25.

Definition b2n (b : bool) : N := if b then 1 else 0.

(* simple_id_with_align(discriminant, size, align, signed) *)
Definition simple_id_with_align (d size align : N) (signed : bool) : result N :=
  if negb (d <? 63) then Crash 1
  else if negb (size <? 31) then Crash 2
  else if negb (align <? 15) then Crash 3
  else Ok (N.lor (N.lor (N.lor (N.shiftl d 26) (N.shiftl (b2n signed) 9)) (N.shiftl align 5)) size).

(* simple_id(discriminant, bit_width, signed): align = size.clamp(1, 8) *)
Definition clamp18 (s : N) : N := if s <? 1 then 1 else if 8 <? s then 8 else s.
Definition simple_id (d bit_width : N) (signed : bool) : result N :=
  let size := bit_width / 8 in
  simple_id_with_align d size (clamp18 size) signed.

Definition int_bits (pw w : N) : N := if w =? 255 then pw else w.

(* the arms of to_type_id that do not touch MetaTyData; None = compound type *)
Definition simple_type_id (pw : N) (t : lty) : option (result N) :=
  match t with
  | LNotYetResolved | LUnknown => Some (simple_id VOID_D 0 false)
  | LIInt w => Some (if w =? 0 then simple_id INT_D 32 true else simple_id INT_D (int_bits pw w) true)
  | LUInt w => Some (if w =? 0 then simple_id INT_D 32 true else simple_id INT_D (int_bits pw w) false)
  | LFloat w => Some (if w =? 0 then simple_id FLOAT_D 32 false else simple_id FLOAT_D w false)
  | LBool => Some (simple_id BOOL_D 8 false)
  | LString => Some (simple_id STRING_D pw false)
  | LChar => Some (simple_id CHAR_D 8 false)
  | LType => Some (simple_id META_TYPE_D 32 false)
  | LAny => Some (match lay pw LAny with
                  | Ok (s, a) => simple_id_with_align ANY_D s a false
                  | _ => Crash 5
                  end)
  | LRawPtr m => Some (simple_id_with_align RAW_PTR_D (pw / 8) (N.min (pw / 8) 8) m)
  | LRawSlice => Some (simple_id_with_align RAW_SLICE_D (pw / 8 * 2) (N.min (pw / 8) 8) false)
  | LFile _ => Some (simple_id FILE_D 0 false)
  | LVoid => Some (simple_id VOID_D 0 false)
  | LAlwaysJumps => Some (simple_id NO_RETURN_D 0 false)
  | LNil => Some (simple_id NIL_D 0 false)
  | LPolyFn _ => Some (Crash 4)
  | _ => None
  end.

(* MetaTyData: the id table (in push order, oldest first) and the uid generators *)
Inductive kind := KArr | KSlice | KPtr | KDist | KFn | KStruct | KEnum | KVar | KOpt | KEu.
Definition kind_eqb (a b : kind) : bool :=
  match a, b with
  | KArr, KArr | KSlice, KSlice | KPtr, KPtr | KDist, KDist | KFn, KFn | KStruct, KStruct
  | KEnum, KEnum | KVar, KVar | KOpt, KOpt | KEu, KEu => true
  | _, _ => false
  end.
Definition kind_discr (k : kind) : N :=
  match k with
  | KArr => ARRAY_D | KSlice => SLICE_D | KPtr => POINTER_D | KDist => DISTINCT_D
  | KFn => FUNCTION_D | KStruct => STRUCT_D | KEnum => ENUM_D | KVar => VARIANT_D
  | KOpt => OPTIONAL_D | KEu => ERROR_UNION_D
  end.
Definition kind_of (t : lty) : option kind :=
  match t with
  | LAnonArray _ _ | LArray _ _ => Some KArr
  | LSlice _ => Some KSlice
  | LPointer _ _ => Some KPtr
  | LDistinct _ _ => Some KDist
  | LFn _ _ _ | LFnPtr _ _ => Some KFn
  | LAnonStruct _ | LStruct _ _ => Some KStruct
  | LEnum _ _ => Some KEnum
  | LVariant _ _ _ _ _ => Some KVar
  | LOptional _ => Some KOpt
  | LErrorUnion _ _ => Some KEu
  | _ => None
  end.

Record meta := { ids : list (lty * N); counter : kind -> N }.
Definition meta0 : meta := {| ids := []; counter := fun _ => 0 |}.

Fixpoint find_id (t : lty) (l : list (lty * N)) : option N :=
  match l with
  | [] => None
  | (u, id) :: r => if lty_eqb u t then Some id else find_id t r
  end.

(* generate_unique_id of the kind's generator, then `id | list_id`, then push *)
Definition alloc (k : kind) (t : lty) (st : meta) : N * meta :=
  let c := counter st k in
  let id := N.lor (N.shiftl (kind_discr k) 26) c in
  (id, {| ids := ids st ++ [(t, id)];
          counter := fun k' => if kind_eqb k' k then c + 1 else counter st k' |}).

Definition push_simple (t : lty) (id : N) (st : meta) : meta :=
  {| ids := ids st ++ [(t, id)]; counter := counter st |}.

(* to_type_id *)
Fixpoint tid (pw : N) (t : lty) (st : meta) {struct t} : result (N * meta) :=
  match find_id t (ids st) with
  | Some id => Ok (id, st)
  | None =>
      match simple_type_id pw t with
      | Some r => do id <- r; Ok (id, push_simple t id st)
      | None =>
          do st' <-
            match t with
            | LAnonArray _ sub | LArray _ sub | LSlice sub | LPointer _ sub | LDistinct _ sub
            | LVariant _ _ _ _ sub | LOptional sub =>
                do r <- tid pw sub st; Ok (snd r)
            | LErrorUnion e p =>
                do r1 <- tid pw e st; do r2 <- tid pw p (snd r1); Ok (snd r2)
            | LAnonStruct ms | LStruct _ ms =>
                (fix go (ms : list (N * lty)) (st : meta) : result meta :=
                   match ms with
                   | [] => Ok st
                   | m :: r => do x <- tid pw (snd m) st; go r (snd x)
                   end) ms st
            | LEnum _ vs =>
                (fix go (vs : list lty) (st : meta) : result meta :=
                   match vs with
                   | [] => Ok st
                   | v :: r => do x <- tid pw v st; go r (snd x)
                   end) vs st
            | _ => Ok st   (* function types: sub types are not visited *)
            end;
          match kind_of t with
          | Some k => Ok (alloc k t st')
          | None => Crash 4
          end
      end
  end.

(* a sequence of to_type_id calls on one MetaTyData; a panicking call leaves the
   table as it was before the call in this model (the harness only feeds
   non-panicking sequences) *)
Fixpoint tid_seq (pw : N) (ts : list lty) (st : meta) : list (result N) * meta :=
  match ts with
  | [] => ([], st)
  | t :: r =>
      match tid pw t st with
      | Ok (id, st') => let res := tid_seq pw r st' in (Ok id :: fst res, snd res)
      | Crash s => let res := tid_seq pw r st in (Crash s :: fst res, snd res)
      | OutOfFuel => let res := tid_seq pw r st in (OutOfFuel :: fst res, snd res)
      end
  end.

(* ---- the readers of core/src/meta.capy --------------------------------------- *)
Definition id_discr (id : N) : N := N.shiftr id 26.
Definition id_size (id : N) : N := N.land id 31.
Definition id_align (id : N) : N := N.land (N.shiftr id 5) 15.
Definition id_flag (id : N) : N := N.land (N.shiftr id 9) 1.
Definition id_index (id : N) : N := N.ldiff id (N.shiftl 63 26).

(* compile_memory_layouts: the (size, align) table of a kind, in table order *)
Definition has_layout_table (k : kind) : bool :=
  match k with KSlice | KPtr | KFn => false | _ => true end.
Fixpoint layout_table (pw : N) (k : kind) (l : list (lty * N)) : list (result (N * N)) :=
  match l with
  | [] => []
  | (t, _) :: r =>
      match kind_of t with
      | Some k' => if kind_eqb k' k then lay pw t :: layout_table pw k r else layout_table pw k r
      | None => layout_table pw k r
      end
  end.

Definition kind_of_discr (d : N) : option kind :=
  if d =? STRUCT_D then Some KStruct else if d =? DISTINCT_D then Some KDist
  else if d =? ENUM_D then Some KEnum else if d =? VARIANT_D then Some KVar
  else if d =? ARRAY_D then Some KArr else if d =? SLICE_D then Some KSlice
  else if d =? OPTIONAL_D then Some KOpt else if d =? ERROR_UNION_D then Some KEu
  else if d =? POINTER_D then Some KPtr else if d =? FUNCTION_D then Some KFn
  else None.

(* meta.size_of / meta.align_of on an id, given the emitted tables *)
Definition meta_layout (pw : N) (st : meta) (id : N) : result (N * N) :=
  let d := id_discr id in
  if d <? 16 then Ok (id_size id, id_align id)
  else match kind_of_discr d with
       | None => Crash 6
       | Some KSlice => Ok (pw / 8 * 2, N.min (pw / 8) 8)
       | Some KPtr | Some KFn => Ok (pw / 8, N.min (pw / 8) 8)
       | Some k =>
           match nth_error (layout_table pw k (ids st)) (N.to_nat (id_index id)) with
           | Some r => r
           | None => Crash 6
           end
       end.
Definition meta_size_of pw st id := do r <- meta_layout pw st id; Ok (fst r).
Definition meta_align_of pw st id := do r <- meta_layout pw st id; Ok (snd r).
Definition meta_stride_of pw st id :=
  do r <- meta_layout pw st id;
  let mask := snd r - 1 in Ok (N.ldiff (fst r + mask) mask).

(* get_type_info, Int arm: bit_width = u8.((raw & 0b11111) * 8), signed = bit 9 *)
Definition info_int_bits (id : N) : N := (id_size id * 8) mod 256.
Definition info_int_signed (id : N) : bool := id_flag id =? 1.

(* ---- which types exist at run time, and the known collision -------------------- *)
(* weak ints/floats, unresolved types and generic function names never reach codegen *)
Definition runtime_simple (t : lty) : bool :=
  match t with
  | LIInt w | LUInt w => negb (w =? 0)
  | LFloat w => negb (w =? 0)
  | LNotYetResolved | LUnknown | LPolyFn _ => false
  | _ => true
  end.

(* known finding C18-1: isize/usize get the id of the fixed-width int of the same size *)
Definition known_pair (pw : N) (a b : lty) : bool :=
  match a, b with
  | LIInt w1, LIInt w2 | LUInt w1, LUInt w2 =>
      ((w1 =? 255) && (w2 =? pw)) || ((w2 =? 255) && (w1 =? pw))
  | _, _ => false
  end.
(* every `file` type has the same id (no two files are the same type, says meta.capy) *)
Definition file_pair (a b : lty) : bool :=
  match a, b with LFile _, LFile _ => true | _, _ => false end.
