(* Model of the expression grammar of /repo/crates/parser/src/grammar/expr.rs
   (parse_expr_bp, parse_lhs, parse_post_operators, parse_expr_for_prefix,
   parse_ref, parse_prefix_expr, parse_lambda's paren detection, parse_paren,
   parse_cast and the argument loop) as fuelled functions over lists of
   NON-TRIVIA token kinds producing an expression tree.

   The control flow mirrors the Rust code branch by branch.  What is outside
   the transcribed fragment is never totalised away:
     PErr          the real parser records at least one SyntaxError here
                   (error recovery itself is not part of this model)
     PUnsupported  the real parser enters a construct outside the fragment
                   (lambda, block, struct/array literal, directive, ...)
     PFuel         fuel exhausted (excluded by the theorems)
   No proofs in this file (extraction must survive a broken proof). *)
From Coq Require Import List Arith Bool.
Import ListNotations.

(* BinaryOp tokens (ast::BinaryOp) *)
Inductive binop :=
| OLOr | OLAnd
| OLt | OLe | OGt | OGe | OEq | ONe
| OAdd | OSub | OBOr | OXor
| OMul | ODiv | OMod | OBAnd | OShl | OShr.

Inductive unop := UNeg | UPos | UNot | UBNot.

(* Token kinds.  Int/Hex/Bin are one kind here (expr.rs treats them alike).
   TStarter: any other kind that starts an lhs construct outside the fragment
   (Distinct Comptime Struct Enum Question If While Loop Switch Backtick
   DoubleQuote SingleQuote).  TJunk: every remaining kind. *)
Inductive tok :=
| TInt | TFloat | TBool | TIdent
| TOp (o : binop)            (* + - | ~ * / % & << >> < <= > >= == != && || *)
| TBang | TCaret | TMut | TDot | TTry | TAs
| TComma | TColon | TEllipsis | TEquals | TSemi
| TLParen | TRParen | TLBrack | TRBrack | TLBrace | TRBrace
| TArrow | TExtern | THash
| TStarter | TJunk.

Inductive atom := AInt | AFloat | ABool | AVar.

Inductive expr :=
| EAtom (a : atom)
| EParen (e : expr)                     (* ParenExpr *)
| EEmptyParen                           (* `()` *)
| EUnary (o : unop) (e : expr)          (* UnaryExpr *)
| ERef (m : bool) (e : expr)            (* RefExpr, `^e` / `^mut e` *)
| EBin (o : binop) (l r : expr)         (* BinaryExpr *)
| ECall (f : expr) (args : list expr)   (* Call *)
| EIndex (a i : expr)                   (* IndexExpr *)
| EField (e : expr)                     (* Path  `e.name` *)
| ETry (e : expr)                       (* PropagateExpr `e.try` *)
| ECast (ty : expr) (v : option expr)   (* CastExpr `ty.(v)` *)
| EDeref (e : expr).                    (* DerefExpr `e^` *)

Inductive pres :=
| POk (e : expr) (rest : list tok)
| PErr
| PUnsupported
| PFuel.

(* binding powers exactly as in parse_expr_bp *)
Definition bp (o : binop) : nat * nat :=
  match o with
  | OLOr => (1, 2)
  | OLAnd => (3, 4)
  | OLt | OLe | OGt | OGe | OEq | ONe => (5, 6)
  | OAdd | OSub | OBOr | OXor => (7, 8)
  | OMul | ODiv | OMod | OBAnd | OShl | OShr => (9, 10)
  end.
Definition lbp o := fst (bp o).
Definition rbp o := snd (bp o).

(* stmt::QUICK_ASSIGN_OPERATORS *)
Definition quick_op (o : binop) : bool :=
  match o with
  | OAdd | OSub | OBOr | OXor | OMul | ODiv | OMod | OBAnd | OShl | OShr => true
  | _ => false
  end.

(* p.at_set(QUICK_ASSIGN_OPERATORS) && p.at_ahead(1, {Equals}) *)
Definition quick_assign (ts : list tok) : bool :=
  match ts with
  | TOp o :: TEquals :: _ => quick_op o
  | _ => false
  end.

(* PREFIX_TOKENS = Hyphen Plus Bang Tilde *)
Definition prefix_op (t : tok) : option unop :=
  match t with
  | TOp OSub => Some UNeg
  | TOp OAdd => Some UPos
  | TBang => Some UNot
  | TOp OXor => Some UBNot
  | _ => None
  end.

(* ---- parse_lambda: 'detect_paren ------------------------------------- *)
Definition param_only (t : tok) : bool :=
  match t with TColon | TComma | TEllipsis => true | _ => false end.
Definition after_params (t : tok) : bool :=
  match t with TArrow | TLBrace | TExtern | THash => true | _ => false end.
Definition is_rparen (t : tok) : bool := match t with TRParen => true | _ => false end.

(* [ts] = tokens after the opening `(`; depth starts at 1.
   true = parse_paren, false = the construct is parsed as a lambda. *)
Fixpoint lambda_scan (depth : nat) (hp hnp : bool) (ts : list tok) : bool :=
  match depth with
  | 0 =>
      (* loop left through `if depth == 0 { break }` *)
      if negb hp && hnp then true
      else if hp then false
      else match ts with
           | [] => true
           | k :: _ => negb (after_params k)
           end
  | S d =>
      match ts with
      | [] => negb hp && hnp                 (* p.peek() == None *)
      | k :: ts' =>
          let flag := Nat.eqb depth 1 && negb (is_rparen k) in
          let hp' := if flag && param_only k then true else hp in
          let hnp' := if flag && negb (param_only k) then true else hnp in
          match k with
          | TLParen | TLBrack | TLBrace => lambda_scan (S depth) hp' hnp' ts'
          | TRParen | TRBrack | TRBrace => lambda_scan d hp' hnp' ts'
          | _ => lambda_scan depth hp' hnp' ts'
          end
      end
  end.

Definition is_var (e : expr) : bool := match e with EAtom AVar => true | _ => false end.
Definition is_var_or_path (e : expr) : bool :=
  match e with EAtom AVar | EField _ => true | _ => false end.
Definition at_lbrace (ts : list tok) : bool := match ts with TLBrace :: _ => true | _ => false end.
(* p.at_ahead(2, {Comma}) seen from the `[`: [r] = the tokens after the `[` *)
Definition ahead2_comma (r : list tok) : bool := match r with _ :: TComma :: _ => true | _ => false end.

(* [rsb] = recovery_set.contains(TokenKind::LBrace); the only way the recovery
   set influences the error-free behaviour of these functions. *)
Fixpoint parse_bp (fuel : nat) (min : nat) (rsb : bool) (ts : list tok) {struct fuel} : pres :=
  match fuel with 0 => PFuel | S f =>
    match parse_lhs f rsb ts with
    | POk lhs ts1 => bp_loop f min rsb lhs ts1
    | r => r
    end
  end

(* the `loop { ... }` of parse_expr_bp *)
with bp_loop (fuel : nat) (min : nat) (rsb : bool) (lhs : expr) (ts : list tok) {struct fuel} : pres :=
  match fuel with 0 => PFuel | S f =>
    match parse_post f rsb lhs false false ts with
    | POk lhs1 ts1 =>
        if quick_assign ts1 then POk lhs1 ts1
        else match ts1 with
             | TOp o :: ts2 =>
                 if lbp o <? min then POk lhs1 ts1
                 else
                   (* p.bump(); lhs.precede; parse_expr_bp(right_bp); a `None`
                      operand means an error was recorded *)
                   match parse_bp f (rbp o) rsb ts2 with
                   | POk rhs ts3 => bp_loop f min rsb (EBin o lhs1 rhs) ts3
                   | r => r
                   end
             | _ => POk lhs1 ts1
             end
    | r => r
    end
  end

with parse_lhs (fuel : nat) (rsb : bool) (ts : list tok) {struct fuel} : pres :=
  match fuel with 0 => PFuel | S f =>
    match ts with
    | TInt :: r => POk (EAtom AInt) r
    | TFloat :: r => POk (EAtom AFloat) r
    | TBool :: r => POk (EAtom ABool) r
    | TIdent :: r => POk (EAtom AVar) r          (* parse_var_ref; old `import "x"` syntax: see assumptions *)
    | TCaret :: r =>
        (* parse_ref: optional `mut`, then parse_expr_for_prefix(.., true) *)
        let (m, r1) := match r with TMut :: r1 => (true, r1) | _ => (false, r) end in
        match lhs_post f rsb true r1 with
        | POk e r2 => POk (ERef m e) r2
        | x => x
        end
    | TMut :: _ => PUnsupported                   (* parse_mut inspects the token text *)
    | THash :: _ => PUnsupported
    | TStarter :: _ => PUnsupported
    | TLBrack :: _ => PUnsupported                (* parse_array_decl *)
    | TLBrace :: _ => PUnsupported                (* parse_block *)
    | TLParen :: r =>
        if lambda_scan 1 false false r then
          (* parse_paren *)
          match r with
          | TRParen :: r1 => POk EEmptyParen r1
          | _ =>
              match parse_bp f 0 rsb r with
              | POk e (TRParen :: r2) => POk (EParen e) r2
              | POk _ _ => PErr                   (* expect_with_no_skip(RParen) *)
              | x => x
              end
          end
        else PUnsupported                         (* lambda *)
    | TDot :: TLParen :: _ => PErr                (* parse_cast(None): "this will just report an error" *)
    | TDot :: TLBrack :: _ => PUnsupported
    | TDot :: TLBrace :: _ => PUnsupported
    | t :: r =>
        match prefix_op t with
        | Some o =>
            (* parse_prefix_expr: PREFIX_DISALLOW_DOT is empty, so
               disallow_dot_instantiation = false *)
            match lhs_post f rsb false r with
            | POk e r2 => POk (EUnary o e) r2
            | x => x
            end
        | None => PErr                            (* error_with_recovery_set *)
        end
    | [] => PErr
    end
  end

(* parse_expr_for_prefix(p, rs, "operand", ddi): parse_lhs, then
   parse_post_operators(.., disallow_derefs = true, ddi) *)
with lhs_post (fuel : nat) (rsb : bool) (ddi : bool) (ts : list tok) {struct fuel} : pres :=
  match fuel with 0 => PFuel | S f =>
    match parse_lhs f rsb ts with
    | POk cm ts1 => parse_post f rsb cm true ddi ts1
    | r => r
    end
  end

(* parse_post_operators *)
with parse_post (fuel : nat) (rsb : bool) (cm : expr) (dd ddi : bool) (ts : list tok) {struct fuel} : pres :=
  match fuel with 0 => PFuel | S f =>
    if is_var cm && negb rsb && at_lbrace ts then PUnsupported   (* old struct literal syntax *)
    else
      match post_loop f rsb cm dd ddi ts with
      | POk cm1 ts1 =>
          if is_var_or_path cm1 && negb rsb && at_lbrace ts1 then PUnsupported
          else POk cm1 ts1
      | r => r
      end
  end

(* the `loop { match p.kind() ... }` of parse_post_operators *)
with post_loop (fuel : nat) (rsb : bool) (cm : expr) (dd ddi : bool) (ts : list tok) {struct fuel} : pres :=
  match fuel with 0 => PFuel | S f =>
    match ts with
    | TLBrack :: r =>
        if ahead2_comma r then PUnsupported       (* at_ahead(2, {Comma}): typed array literal *)
        else
            (* parse_expr(p, "array index") uses TokenSet::NONE *)
            match parse_bp f 0 false r with
            | POk i (TRBrack :: r2) => post_loop f rsb (EIndex cm i) dd ddi r2
            | POk _ _ => PErr
            | x => x
            end
    | TLParen :: r =>
        match parse_args f [] r with
        | Some (inl (args, r2)) => post_loop f rsb (ECall cm args) dd ddi r2
        | Some (inr x) => x
        | None => PFuel
        end
    | TCaret :: r =>
        if dd then POk cm ts else post_loop f rsb (EDeref cm) dd ddi r
    | TAs :: _ =>
        if dd then POk cm ts else PErr            (* old cast syntax: mark_old_unexpected *)
    | TBang :: _ => PUnsupported                  (* ErrorUnionDecl *)
    | TDot :: TLParen :: r =>
        if ddi then POk cm ts
        else
          (* parse_cast(Some(ty)) *)
          match r with
          | TRParen :: r2 => post_loop f rsb (ECast cm None) dd ddi r2
          | _ =>
              match parse_bp f 0 rsb r with
              | POk v (TRParen :: r2) => post_loop f rsb (ECast cm (Some v)) dd ddi r2
              | POk _ _ => PErr
              | x => x
              end
          end
    | TDot :: TLBrace :: _ => if ddi then POk cm ts else PUnsupported
    | TDot :: TLBrack :: _ => if ddi then POk cm ts else PUnsupported
    | TDot :: TTry :: r => post_loop f rsb (ETry cm) dd ddi r
    | TDot :: TIdent :: r => post_loop f rsb (EField cm) dd ddi r
    | TDot :: _ => PErr                           (* "field name" error *)
    | _ => POk cm ts
    end
  end

(* argument loop of a call; result: Some (inl (args, rest)) after the closing
   `)`, Some (inr outcome) for PErr/PUnsupported, None for fuel *)
with parse_args (fuel : nat) (acc : list expr) (ts : list tok) {struct fuel}
  : option ((list expr * list tok) + pres) :=
  match fuel with 0 => None | S f =>
    match ts with
    | TRParen :: r => Some (inl (rev acc, r))
    | _ =>
        match parse_bp f 0 false ts with
        | POk a ts1 =>
            match ts1 with
            | TRParen :: r => Some (inl (rev (a :: acc), r))
            | TComma :: r => parse_args f (a :: acc) r
            | _ => Some (inr PErr)                (* missing `,` or `)` *)
            end
        | PFuel => None
        | x => Some (inr x)
        end
    end
  end.

(* Enough for every input (see Proofs/PrattTermination... / C24 theorems: the
   round-trip theorem shows 6*(n+1) suffices on printed trees). *)
Definition expr_fuel (ts : list tok) : nat := 6 * (length ts + 1).

(* parse_expr(p, ..) = parse_expr_bp(p, 0, TokenSet::NONE, ..) *)
Definition parse_expr (ts : list tok) : pres := parse_bp (expr_fuel ts) 0 false ts.
