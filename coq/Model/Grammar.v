(* Model of the whole grammar of /repo/crates/parser/src/grammar.rs,
   grammar/stmt.rs and grammar/expr.rs, transcribed function by function onto
   the parser machine of Model/ParserCore.v (tokens WITH trivia, event list with
   placeholders, markers, error list).  Output: the event list and the error
   list of Parser::parse.

   [cfg] selects the variant of the two repaired behaviours so that the model
   mirrors the code before and after the proposed fixes:
     fix_bump  = Parser::bump calls skip_trivia first          (C23-1-fix.diff)
     fix_loops = the struct-literal / array-literal / switch-arm loops stop when
                 an iteration consumed no token                 (C23-loops-fix.diff)

   Token texts matter at four places only (`rawptr`, `import`, `mod`, `_`); they
   are given as a class per token ([tx]).  Rust `assert!`s that guard function
   entry are Crash 8.  Fuel counts call depth; OutOfFuel is excluded by theorems
   / reported by the driver.  No proofs here. *)
From Capy Require Import Common.Util Model.ParserCore.

Notation "'do2' ( a , b ) <- r ; k" :=
  (bind r (fun ab_ => let '(a, b) := ab_ in k))
  (at level 200, a name, b name, r at level 100, k at level 200).

Record cfg := mkCfg { fix_bump : bool; fix_loops : bool }.

(* ---- token kinds (syntax::TokenKind); 0 = every kind the grammar never tests -- *)
Definition T_INT := 1%N. Definition T_HEX := 2%N. Definition T_BIN := 3%N. Definition T_FLOAT := 4%N.
Definition T_BOOL := 5%N. Definition T_DQUOTE := 6%N. Definition T_SQUOTE := 7%N. Definition T_STRC := 8%N.
Definition T_ESCAPE := 9%N. Definition T_IDENT := 10%N. Definition T_CARET := 11%N. Definition T_MUT := 12%N.
Definition T_HASH := 13%N. Definition T_DISTINCT := 14%N. Definition T_COMPTIME := 15%N. Definition T_STRUCT := 16%N.
Definition T_ENUM := 17%N. Definition T_QUESTION := 18%N. Definition T_HYPHEN := 19%N. Definition T_PLUS := 20%N.
Definition T_BANG := 21%N. Definition T_TILDE := 22%N. Definition T_IF := 23%N. Definition T_ELSE := 24%N.
Definition T_WHILE := 25%N. Definition T_LOOP := 26%N. Definition T_SWITCH := 27%N. Definition T_LPAREN := 28%N.
Definition T_RPAREN := 29%N. Definition T_LBRACK := 30%N. Definition T_RBRACK := 31%N. Definition T_LBRACE := 32%N.
Definition T_RBRACE := 33%N. Definition T_DOT := 34%N. Definition T_BACKTICK := 35%N. Definition T_COLON := 36%N.
Definition T_COMMA := 37%N. Definition T_ELLIPSIS := 38%N. Definition T_ARROW := 39%N. Definition T_EXTERN := 40%N.
Definition T_AS := 41%N. Definition T_TRY := 42%N. Definition T_IN := 43%N. Definition T_FATARROW := 44%N.
Definition T_EQUALS := 45%N. Definition T_SEMI := 46%N. Definition T_RETURN := 47%N. Definition T_BREAK := 48%N.
Definition T_CONTINUE := 49%N. Definition T_DEFER := 50%N. Definition T_DPIPE := 51%N. Definition T_DAND := 52%N.
Definition T_LEFT := 53%N. Definition T_LEFTEQ := 54%N. Definition T_RIGHT := 55%N. Definition T_RIGHTEQ := 56%N.
Definition T_DEQ := 57%N. Definition T_BANGEQ := 58%N. Definition T_PIPE := 59%N. Definition T_ASTERISK := 60%N.
Definition T_SLASH := 61%N. Definition T_PERCENT := 62%N. Definition T_AND := 63%N. Definition T_DLEFT := 64%N.
Definition T_DRIGHT := 65%N.

(* text classes *)
Definition X_RAWPTR := 1%N. Definition X_IMPORT := 2%N. Definition X_MOD := 3%N. Definition X_UNDERSCORE := 4%N.

(* ---- node kinds (syntax::NodeKind); 0 = Comment, 1 = Error as in ParserCore/Sink -- *)
Definition N_ROOT := 2%N. Definition N_VARREF := 3%N. Definition N_CALL := 4%N. Definition N_ARGLIST := 5%N.
Definition N_ARG := 6%N. Definition N_DIRECTIVE := 7%N. Definition N_ARRAYDECL := 8%N. Definition N_ARRAYSIZE := 9%N.
Definition N_ARRAYLIT := 10%N. Definition N_ARRAYITEM := 11%N. Definition N_INDEXEXPR := 12%N. Definition N_INDEX := 13%N.
Definition N_SOURCE := 14%N. Definition N_DISTINCT := 15%N. Definition N_COMPTIME := 16%N. Definition N_PAREN := 17%N.
Definition N_BLOCK := 18%N. Definition N_IF := 19%N. Definition N_ELSE := 20%N. Definition N_WHILE := 21%N.
Definition N_CONDITION := 22%N. Definition N_SWITCH := 23%N. Definition N_SWITCHARM := 24%N. Definition N_VSHORT := 25%N.
Definition N_DEFAULTARM := 26%N. Definition N_LABELDECL := 27%N. Definition N_LABELREF := 28%N. Definition N_INTLIT := 29%N.
Definition N_FLOATLIT := 30%N. Definition N_BOOLLIT := 31%N. Definition N_CHARLIT := 32%N. Definition N_STRINGLIT := 33%N.
Definition N_CAST := 34%N. Definition N_REF := 35%N. Definition N_MUT := 36%N. Definition N_DEREF := 37%N.
Definition N_BINARY := 38%N. Definition N_UNARY := 39%N. Definition N_BINDING := 40%N. Definition N_VARDEF := 41%N.
Definition N_ASSIGN := 42%N. Definition N_EXPRSTMT := 43%N. Definition N_RETURN := 44%N. Definition N_BREAK := 45%N.
Definition N_CONTINUE := 46%N. Definition N_DEFER := 47%N. Definition N_LAMBDA := 48%N. Definition N_PARAMLIST := 49%N.
Definition N_PARAM := 50%N. Definition N_STRUCTDECL := 51%N. Definition N_MEMBERDECL := 52%N. Definition N_STRUCTLIT := 53%N.
Definition N_MEMBERLIT := 54%N. Definition N_ENUMDECL := 55%N. Definition N_VARIANTDECL := 56%N. Definition N_DISCRIMINANT := 57%N.
Definition N_OPTIONAL := 58%N. Definition N_ERRORTY := 59%N. Definition N_PAYLOADTY := 60%N. Definition N_ERRORUNION := 61%N.
Definition N_PROPAGATE := 62%N. Definition N_TY := 63%N. Definition N_PATH := 64%N.

(* ---- token sets -------------------------------------------------------------- *)
Definition tset := N -> bool.
Definition ts_of (l : list N) : tset := fun k => existsb (N.eqb k) l.
Definition ts_none : tset := fun _ => false.
Definition ts_all : tset := fun _ => true.
Definition ts_union (a b : tset) : tset := fun k => a k || b k.
(* TokenSet::without is an XOR of the kind's bit *)
Definition ts_without (a : tset) (x : N) : tset := fun k => if N.eqb k x then negb (a k) else a k.
Definition lift (f : tset) : tk -> bool := fun t => match t with KTok k => f k | _ => false end.

Definition DEFAULT_RS : tset := ts_of [T_SEMI; T_LBRACE; T_RBRACE].
Definition QUICK_ASSIGN_OPS : tset :=
  ts_of [T_PLUS; T_HYPHEN; T_PIPE; T_TILDE; T_ASTERISK; T_SLASH; T_PERCENT; T_AND; T_DLEFT; T_DRIGHT].
Definition PREFIX_TOKENS : tset := ts_of [T_HYPHEN; T_PLUS; T_BANG; T_TILDE].
Definition LOOP_TOKENS : tset := ts_of [T_WHILE; T_LOOP].
Definition PARAM_ONLY : tset := ts_of [T_COLON; T_COMMA; T_ELLIPSIS].
Definition AFTER_PARAMS : tset := ts_of [T_ARROW; T_LBRACE; T_EXTERN; T_HASH].
Definition PARAM_RS : tset := ts_of [T_COMMA; T_RPAREN; T_ELLIPSIS].
Definition BODY_SET : tset := ts_of [T_LBRACE; T_EXTERN; T_HASH].
Definition DEF_SET : tset := ts_of [T_EQUALS; T_COLON].
Definition DEFAULT_NO_BRACES : tset := ts_without (ts_without DEFAULT_RS T_LBRACE) T_RBRACE.

(* ---- markers ------------------------------------------------------------------- *)
Record mk := mkM { m_pos : nat; m_start : nat }.
Record cm := mkC { c_pos : nat; c_kind : N; c_start : nat }.

Definition with_idx (s : pstate) (i : nat) : pstate := mkP (toks s) i (evs s) (errs s).

Definition bump_fixed (s : pstate) : pstate := bump (skip_trivia s).
Definition p_bump (c : cfg) (s : pstate) : pstate := if fix_bump c then bump_fixed s else bump s.

Definition p_at (s : pstate) (k : N) : pstate * bool := at_kind s (KTok k).
Definition p_at_set (s : pstate) (f : tset) : pstate * bool := at_set s (lift f).
Definition p_at_ahead (s : pstate) (n : nat) (f : tset) : bool := at_ahead s n (lift f).
Definition p_kind (s : pstate) : pstate * option N :=
  let (s', o) := peek s in (s', match o with Some (KTok k) => Some k | _ => None end).

(* at_eof_ahead(offset) *)
Fixpoint eof_ahead (n : nat) (s : pstate) : bool :=
  match n with
  | 0 => snd (at_eof s)
  | S m =>
      let s1 := skip_trivia s in
      let s2 := with_idx s1 (S (idx s1)) in
      if snd (at_eof s2) then true else eof_ahead m (fst (at_eof s2))
  end.

Definition p_start (s : pstate) : pstate * mk :=
  let (s', pos) := start s in (s', mkM pos (idx s)).
Definition p_complete (s : pstate) (m : mk) (kind : N) : result (pstate * cm) :=
  do s' <- complete s (m_pos m) kind; Ok (s', mkC (m_pos m) kind (m_start m)).
Definition p_precede (s : pstate) (c : cm) : result (pstate * mk) :=
  do2 (s', pos) <- precede s (c_pos c); Ok (s', mkM pos (c_start c)).
(* cm.precede(p).complete(p, kind) *)
Definition wrap (s : pstate) (c : cm) (kind : N) : result (pstate * cm) :=
  do2 (s1, m) <- p_precede s c; p_complete s1 m kind.

(* error_with_recovery_set_no_default *)
Definition err_nd (c : cfg) (s : pstate) (rs : tset) : result (pstate * option cm) :=
  let (s1, eof) := at_eof s in
  let (s2, inrs) := at_set s1 (lift rs) in
  if eof || inrs then
    do r <- previous_token_range s2;
    Ok (mkP (toks s2) (idx s2) (evs s2) (errs s2 ++ [Missing (snd r)]), None)
  else
    do r <- range (toks s2) (idx s2);
    let s3 := mkP (toks s2) (idx s2) (evs s2) (errs s2 ++ [UnexpectedTok (fst r) (snd r)]) in
    let (s4, m) := p_start s3 in
    let s5 := p_bump c s4 in
    do2 (s6, e) <- p_complete s5 m NODE_ERROR;
    Ok (s6, Some e).
Definition err_rs c s rs := err_nd c s (ts_union rs DEFAULT_RS).     (* error_with_recovery_set *)
Definition err_noskip c s := err_nd c s ts_all.                      (* error_with_no_skip *)
Definition err_skip c s := err_nd c s ts_none.                       (* error_with_skip *)

Definition drop {A} (r : result (pstate * A)) : result pstate := do2 (s, _x) <- r; Ok s.

Definition exp_nd c s k rs : result pstate :=                        (* expect_with_recovery_set_no_default *)
  let (s1, b) := p_at s k in if b then Ok (p_bump c s1) else drop (err_nd c s1 rs).
Definition exp_rs c s k rs : result pstate :=                        (* expect_with_recovery_set *)
  let (s1, b) := p_at s k in if b then Ok (p_bump c s1) else drop (err_rs c s1 rs).
Definition exp c s k := exp_rs c s k ts_none.                        (* expect *)
Definition exp_noskip c s k : result pstate :=                       (* expect_with_no_skip *)
  let (s1, b) := p_at s k in if b then Ok (p_bump c s1) else drop (err_noskip c s1).

(* p.text(idx) compared with a keyword-like text: Tokens::range(idx) must be in bounds *)
Definition text_is (s : pstate) (tx : list N) (i : nat) (x : N) : result bool :=
  do _r <- range (toks s) i; Ok (N.eqb (nth i tx 0%N) x).

(* previous_token_kind *)
Definition previous_token_kind (s : pstate) : result tk :=
  match idx s with
  | 0 => kind_at (toks s) (idx s)
  | S j =>
      match prev_nontrivia (toks s) j (S (S j)) with
      | Ok (Some i) => kind_at (toks s) i
      | Ok None => kind_at (toks s) (idx s)
      | Crash x => Crash x
      | OutOfFuel => OutOfFuel
      end
  end.

Definition is_kind (o : option cm) (k : N) : bool := match o with Some c => N.eqb (c_kind c) k | None => false end.

(* binding powers of parse_expr_bp *)
Definition binop_bp (k : N) : option (nat * nat) :=
  if N.eqb k T_DPIPE then Some (1, 2)
  else if N.eqb k T_DAND then Some (3, 4)
  else if ts_of [T_LEFT; T_LEFTEQ; T_RIGHT; T_RIGHTEQ; T_DEQ; T_BANGEQ] k then Some (5, 6)
  else if ts_of [T_PLUS; T_HYPHEN; T_PIPE; T_TILDE] k then Some (7, 8)
  else if ts_of [T_ASTERISK; T_SLASH; T_PERCENT; T_AND; T_DLEFT; T_DRIGHT] k then Some (9, 10)
  else None.

(* parse_lambda 'detect_paren: the scan with p.token_idx += 1 / p.peek().
   [s] has idx at the `(`.  Result: (true = parenthesised expression) *)
Fixpoint lam_scan (fuel : nat) (s : pstate) (depth : nat) (hp hnp : bool) : result bool :=
  match fuel with
  | 0 => OutOfFuel
  | S f =>
      let s1 := with_idx s (S (idx s)) in          (* p.token_idx += 1 *)
      match depth with
      | 0 =>
          if negb hp && hnp then Ok true
          else if hp then Ok false
          else match snd (p_kind s1) with
               | None => Ok true
               | Some k => Ok (negb (AFTER_PARAMS k))
               end
      | S d =>
          let (s2, o) := p_kind s1 in                (* p.peek() skips trivia *)
          match o with
          | None => Ok (negb hp && hnp)
          | Some k =>
              let flag := Nat.eqb depth 1 && negb (N.eqb k T_RPAREN) in
              let hp' := if flag && PARAM_ONLY k then true else hp in
              let hnp' := if flag && negb (PARAM_ONLY k) then true else hnp in
              if ts_of [T_LPAREN; T_LBRACK; T_LBRACE] k then lam_scan f s2 (S depth) hp' hnp'
              else if ts_of [T_RPAREN; T_RBRACK; T_RBRACE] k then lam_scan f s2 d hp' hnp'
              else lam_scan f s2 depth hp' hnp'
          end
      end
  end.

(* when p.peek() returns an Error-kind or other untested kind it is Some(0) here:
   p_kind maps every non-trivia kind to Some _ *)

Section G.
Variable c : cfg.
Variable tx : list N.

(* while p.at(Semicolon) { p.bump() } *)
Fixpoint eat_semis (fuel : nat) (s : pstate) : result pstate :=
  match fuel with 0 => OutOfFuel | S f =>
    let (s1, b) := p_at s T_SEMI in if b then eat_semis f (p_bump c s1) else Ok s1
  end.

(* while p.at(StringContents) || p.at(Escape) { p.bump() } *)
Fixpoint eat_string (fuel : nat) (s : pstate) : result pstate :=
  match fuel with 0 => OutOfFuel | S f =>
    let (s1, b1) := p_at s T_STRC in
    let (s2, b2) := if b1 then (s1, true) else p_at s1 T_ESCAPE in
    if b2 then eat_string f (p_bump c s2) else Ok s2
  end.

Definition parse_quoted (fuel : nat) (s : pstate) (q : N) (kind : N) : result (pstate * cm) :=
  let (s0, b) := p_at s q in
  if negb b then Crash 8 else
  let (s1, m) := p_start s0 in
  let s2 := p_bump c s1 in
  do s3 <- eat_string fuel s2;
  do s4 <- exp c s3 q;
  p_complete s4 m kind.

Definition simple_lit (s : pstate) (kind : N) : result (pstate * cm) :=
  let (s1, m) := p_start s in p_complete (p_bump c s1) m kind.

Fixpoint parse_decl (fuel : nat) (s : pstate) (top : bool) {struct fuel} : result (pstate * cm) :=
  match fuel with 0 => OutOfFuel | S f =>
    let (s, m) := p_start s in
    do s <- exp_noskip c s T_IDENT;
    let (s, first_colon) := p_at s T_COLON in
    do s <- exp_noskip c s T_COLON;
    let (s, indef) := p_at_set s DEF_SET in
    do s <- (if first_colon && negb indef then drop (parse_ty f s DEF_SET) else Ok s);
    let (s, eof) := at_eof s in
    let (s, semi) := if eof then (s, true) else p_at s T_SEMI in
    if semi then do s <- exp_noskip c s T_SEMI; p_complete s m N_VARDEF
    else
      let (s, colon) := if top then (s, true) else p_at s T_COLON in
      do2 (s, kind) <- (if colon then do s <- exp_rs c s T_COLON (ts_without ts_all T_EQUALS); Ok (s, N_BINDING)
                        else do s <- exp_noskip c s T_EQUALS; Ok (s, N_VARDEF));
      let (s, ext) := if top then p_at s T_EXTERN else (s, false) in
      if ext then
        let s := p_bump c s in
        do s <- exp_noskip c s T_SEMI; p_complete s m kind
      else
        do2 (s, value) <- parse_expr_bp f s 0 ts_none;
        do tl <- (if top && is_kind value N_LAMBDA
                  then do k <- previous_token_kind s; Ok (tk_eqb k (KTok T_RBRACE))
                  else Ok false);
        do s <- (if tl then Ok s else exp_noskip c s T_SEMI);
        p_complete s m kind
  end

with parse_stmt (fuel : nat) (s : pstate) (repl : bool) {struct fuel} : result (pstate * option cm) :=
  match fuel with 0 => OutOfFuel | S f =>
    do s <- eat_semis f s;
    let (s, eof) := at_eof s in
    if eof then Ok (s, None) else
    let (s, a_ret) := p_at s T_RETURN in
    let (s, a_brk) := p_at s T_BREAK in
    let (s, a_cont) := p_at s T_CONTINUE in
    let (s, a_def) := p_at s T_DEFER in
    if a_ret || a_brk || a_cont || a_def then
      let (s, m) := p_start s in
      let s := p_bump c s in
      let (s, ai) := p_at s T_IDENT in
      let old_label := ai && p_at_ahead s 1 (ts_of [T_BACKTICK]) in
      let (s, ab) := p_at s T_BACKTICK in
      let new_label := ab && p_at_ahead s 1 (ts_of [T_IDENT]) && negb (p_at_ahead s 2 (ts_of [T_COLON])) in
      do s <- (if negb a_ret && (old_label || new_label) then
                 let (s, lm) := p_start s in
                 do s <- exp_noskip c s T_BACKTICK;
                 do s <- exp_noskip c s T_IDENT;
                 let (s, bt) := if old_label then p_at s T_BACKTICK else (s, false) in
                 do s <- (if bt then drop (err_skip c s) else Ok s);
                 drop (p_complete s lm N_LABELREF)
               else Ok s);
      do s <- (if a_def then drop (parse_expr_bp f s 0 ts_none) else Ok s);
      let (s, semi) := if a_ret || a_brk then p_at s T_SEMI else (s, true) in
      do s <- (if (a_ret || a_brk) && negb semi then drop (parse_expr_bp f s 0 ts_none) else Ok s);
      do s <- exp_noskip c s T_SEMI;
      do2 (s, res) <- p_complete s m (if a_ret then N_RETURN else if a_brk then N_BREAK
                                      else if a_cont then N_CONTINUE else N_DEFER);
      do s <- eat_semis f s;
      Ok (s, Some res)
    else
      let (s, ai) := p_at s T_IDENT in
      if ai && p_at_ahead s 1 (ts_of [T_COLON]) then
        do2 (s, res) <- parse_decl f s false;
        do s <- eat_semis f s;
        Ok (s, Some res)
      else
        do2 (s, eo) <- parse_expr_bp f s 0 ts_none;
        match eo with
        | None => Ok (s, None)
        | Some ecm =>
            let (s, rb) := p_at s T_RBRACE in
            if rb then Ok (s, Some ecm) else
            do2 (s, m) <- p_precede s ecm;
            let (s, q1) := p_at_set s QUICK_ASSIGN_OPS in
            let quick := q1 && p_at_ahead s 1 (ts_of [T_EQUALS]) in
            let (s, regular) := p_at s T_EQUALS in
            do2 (s, res) <-
              (if quick || regular then
                 do2 (s, src) <- p_complete s m N_SOURCE;
                 do2 (s, m2) <- p_precede s src;
                 let s := if quick then p_bump c s else s in
                 let s := p_bump c s in
                 do s <- drop (parse_expr_bp f s 0 ts_none);
                 let (s, eof2) := if repl then at_eof s else (s, false) in
                 do s <- (if repl && eof2 then Ok s else exp_noskip c s T_SEMI);
                 p_complete s m2 N_ASSIGN
               else
                 let blocky := existsb (N.eqb (c_kind ecm)) [N_IF; N_WHILE; N_SWITCH; N_COMPTIME; N_BLOCK] in
                 let (s, eof2) := if blocky then (s, false) else if repl then at_eof s else (s, false) in
                 do s <- (if blocky || (repl && eof2) then Ok s else exp_noskip c s T_SEMI);
                 p_complete s m N_EXPRSTMT);
            do s <- eat_semis f s;
            Ok (s, Some res)
        end
  end

(* parse_ty *)
with parse_ty (fuel : nat) (s : pstate) (rs : tset) {struct fuel} : result (pstate * option cm) :=
  match fuel with 0 => OutOfFuel | S f =>
    do2 (s, o) <- parse_lhs f s rs;
    match o with
    | None => Ok (s, None)
    | Some x =>
        do2 (s, x) <- parse_post f s rs x true true;
        do2 (s, t) <- wrap s x N_TY;
        Ok (s, Some t)
    end
  end

(* parse_expr_for_prefix *)
with parse_for_prefix (fuel : nat) (s : pstate) (rs : tset) (ddi : bool) {struct fuel} : result (pstate * option cm) :=
  match fuel with 0 => OutOfFuel | S f =>
    do2 (s, o) <- parse_lhs f s rs;
    match o with
    | None => Ok (s, None)
    | Some x => do2 (s, x) <- parse_post f s rs x true ddi; Ok (s, Some x)
    end
  end

with parse_expr_bp (fuel : nat) (s : pstate) (min : nat) (rs : tset) {struct fuel} : result (pstate * option cm) :=
  match fuel with 0 => OutOfFuel | S f =>
    do2 (s, o) <- parse_lhs f s rs;
    match o with
    | None => Ok (s, None)
    | Some lhs => do2 (s, x) <- bp_loop f s min rs lhs; Ok (s, Some x)
    end
  end

with bp_loop (fuel : nat) (s : pstate) (min : nat) (rs : tset) (lhs : cm) {struct fuel} : result (pstate * cm) :=
  match fuel with 0 => OutOfFuel | S f =>
    do2 (s, lhs) <- parse_post f s rs lhs false false;
    let (s, q) := p_at_set s QUICK_ASSIGN_OPS in
    if q && p_at_ahead s 1 (ts_of [T_EQUALS]) then Ok (s, lhs) else
    let (s, o) := p_kind s in
    match o with
    | Some k =>
        match binop_bp k with
        | Some (l, r) =>
            if l <? min then Ok (s, lhs) else
            let s := p_bump c s in
            do2 (s, m) <- p_precede s lhs;
            do s <- drop (parse_expr_bp f s r rs);
            do2 (s, lhs) <- p_complete s m N_BINARY;
            bp_loop f s min rs lhs
        | None => Ok (s, lhs)
        end
    | None => Ok (s, lhs)
    end
  end

with parse_lhs (fuel : nat) (s : pstate) (rs : tset) {struct fuel} : result (pstate * option cm) :=
  match fuel with 0 => OutOfFuel | S f =>
    let some (r : result (pstate * cm)) : result (pstate * option cm) := do2 (s', x) <- r; Ok (s', Some x) in
    let (s, o) := p_kind s in
    match o with
    | None => err_rs c s rs
    | Some k =>
        if ts_of [T_INT; T_HEX; T_BIN] k then some (simple_lit s N_INTLIT)
        else if N.eqb k T_FLOAT then some (simple_lit s N_FLOATLIT)
        else if N.eqb k T_BOOL then some (simple_lit s N_BOOLLIT)
        else if N.eqb k T_DQUOTE then some (parse_quoted f s T_DQUOTE N_STRINGLIT)
        else if N.eqb k T_SQUOTE then some (parse_quoted f s T_SQUOTE N_CHARLIT)
        else if N.eqb k T_IDENT then some (parse_var_ref f s)
        else if N.eqb k T_CARET then
          (* parse_ref *)
          let (s, m) := p_start s in
          let s := p_bump c s in
          let (s, mu) := p_at s T_MUT in
          let s := if mu then p_bump c s else s in
          do s <- drop (parse_for_prefix f s rs true);
          some (p_complete s m N_REF)
        else if N.eqb k T_MUT then
          (* parse_mut *)
          let start_idx := idx s in
          let (s, m) := p_start s in
          let s := p_bump c s in
          do2 (s, e) <- parse_for_prefix f s rs true;
          do ok <- (match e with
                    | Some x => if N.eqb (c_kind x) N_VARREF then text_is s tx (c_start x) X_RAWPTR else Ok false
                    | None => Ok false
                    end);
          do s <- (if ok then Ok s else mark_old_missing s start_idx);
          some (p_complete s m N_MUT)
        else if N.eqb k T_HASH then some (parse_directive f s)
        else if N.eqb k T_DISTINCT then
          let (s, m) := p_start s in
          let s := p_bump c s in
          do s <- drop (parse_ty f s rs);
          some (p_complete s m N_DISTINCT)
        else if N.eqb k T_COMPTIME then
          let (s, m) := p_start s in
          let s := p_bump c s in
          do s <- drop (parse_expr_bp f s 0 ts_none);
          some (p_complete s m N_COMPTIME)
        else if N.eqb k T_STRUCT then some (parse_struct_decl f s rs)
        else if N.eqb k T_ENUM then some (parse_enum_decl f s rs)
        else if N.eqb k T_QUESTION then
          let (s, m) := p_start s in
          let s := p_bump c s in
          do s <- drop (parse_ty f s rs);
          some (p_complete s m N_OPTIONAL)
        else if PREFIX_TOKENS k then
          (* parse_prefix_expr: PREFIX_DISALLOW_DOT is empty *)
          let (s, m) := p_start s in
          let s := p_bump c s in
          do s <- drop (parse_for_prefix f s rs false);
          some (p_complete s m N_UNARY)
        else if N.eqb k T_IF then some (parse_if f s (ts_union rs (ts_of [T_IF; T_ELSE])))
        else if LOOP_TOKENS k then some (parse_loop f s None rs)
        else if N.eqb k T_SWITCH then some (parse_switch f s rs)
        else if N.eqb k T_LPAREN then some (parse_lambda f s rs)
        else if N.eqb k T_LBRACK then some (parse_array_decl f s rs)
        else if N.eqb k T_LBRACE then some (parse_block f s None rs)
        else if N.eqb k T_DOT && p_at_ahead s 1 (ts_of [T_LPAREN]) then some (parse_cast f s None rs)
        else if N.eqb k T_DOT && p_at_ahead s 1 (ts_of [T_LBRACK]) then some (parse_array_literal f s None rs None)
        else if N.eqb k T_DOT && p_at_ahead s 1 (ts_of [T_LBRACE]) then some (parse_struct_literal f s None rs)
        else if N.eqb k T_BACKTICK then
          let (s, lm) := p_start s in
          let s := p_bump c s in
          do s <- exp_noskip c s T_IDENT;
          do s <- exp_noskip c s T_COLON;
          do2 (s, label) <- p_complete s lm N_LABELDECL;
          let (s, lp) := p_at_set s LOOP_TOKENS in
          if lp then some (parse_loop f s (Some label) rs)
          else
            let (s, lb) := p_at s T_LBRACE in
            if lb then some (parse_block f s (Some label) rs)
            else do s <- drop (err_noskip c s); parse_lhs f s rs
        else err_rs c s rs
    end
  end

(* parse_post_operators *)
with parse_post (fuel : nat) (s : pstate) (rs : tset) (x : cm) (dd ddi : bool) {struct fuel} : result (pstate * cm) :=
  match fuel with 0 => OutOfFuel | S f =>
    let (s, lb) := if N.eqb (c_kind x) N_VARREF && negb (rs T_LBRACE) then p_at s T_LBRACE else (s, false) in
    do2 (s, x) <- (if lb then do2 (s, t) <- wrap s x N_TY; parse_struct_literal f s (Some t) rs else Ok (s, x));
    do2 (s, x) <- post_loop f s rs x dd ddi;
    let (s, lb) := if (N.eqb (c_kind x) N_PATH || N.eqb (c_kind x) N_VARREF) && negb (rs T_LBRACE)
                   then p_at s T_LBRACE else (s, false) in
    if lb then do2 (s, t) <- wrap s x N_TY; parse_struct_literal f s (Some t) rs else Ok (s, x)
  end

with post_loop (fuel : nat) (s : pstate) (rs : tset) (x : cm) (dd ddi : bool) {struct fuel} : result (pstate * cm) :=
  match fuel with 0 => OutOfFuel | S f =>
    let (s, o) := p_kind s in
    match o with
    | None => Ok (s, x)
    | Some k =>
        if N.eqb k T_LBRACK then
          if p_at_ahead s 2 (ts_of [T_COMMA]) then
            do2 (s, t) <- wrap s x N_TY;
            do2 (s, x) <- parse_array_literal f s (Some t) rs None;
            post_loop f s rs x dd ddi
          else
            do2 (s, src) <- wrap s x N_SOURCE;
            do2 (s, ie) <- p_precede s src;
            let s := p_bump c s in
            let (s, ri) := p_start s in
            do s <- drop (parse_expr_bp f s 0 ts_none);
            do s <- drop (p_complete s ri N_INDEX);
            do s <- exp_noskip c s T_RBRACK;
            do2 (s, x) <- p_complete s ie N_INDEXEXPR;
            post_loop f s rs x dd ddi
        else if N.eqb k T_LPAREN then
          do2 (s, call) <- p_precede s x;
          let (s, al) := p_start s in
          let s := p_bump c s in
          do s <- args_loop f s;
          do s <- exp c s T_RPAREN;
          do s <- drop (p_complete s al N_ARGLIST);
          do2 (s, x) <- p_complete s call N_CALL;
          post_loop f s rs x dd ddi
        else if N.eqb k T_CARET && negb dd then
          do2 (s, m) <- p_precede s x;
          let s := p_bump c s in
          do2 (s, x) <- p_complete s m N_DEREF;
          post_loop f s rs x dd ddi
        else if N.eqb k T_AS && negb dd then
          do2 (s, m) <- p_precede s x;
          let s := p_bump c s in
          do s <- drop (parse_ty f s rs);
          do2 (s, x) <- p_complete s m N_CAST;
          let end_token := Nat.max (idx s - 1) (c_start x) in
          do s <- mark_old_unexpected s (c_start x) end_token;
          post_loop f s rs x dd ddi
        else if N.eqb k T_BANG then
          do2 (s, t) <- wrap s x N_TY;
          do2 (s, et) <- wrap s t N_ERRORTY;
          do2 (s, eu) <- p_precede s et;
          let s := p_bump c s in
          do2 (s, ty) <- parse_ty f s rs;
          do s <- (match ty with Some t => drop (wrap s t N_PAYLOADTY) | None => Ok s end);
          do2 (s, x) <- p_complete s eu N_ERRORUNION;
          post_loop f s rs x dd ddi
        else if N.eqb k T_DOT then
          if p_at_ahead s 1 (ts_of [T_LPAREN]) then
            if ddi then Ok (s, x) else
            do2 (s, t) <- wrap s x N_TY;
            do2 (s, x) <- parse_cast f s (Some t) rs;
            post_loop f s rs x dd ddi
          else if p_at_ahead s 1 (ts_of [T_LBRACE]) then
            if ddi then Ok (s, x) else
            do2 (s, t) <- wrap s x N_TY;
            do2 (s, x) <- parse_struct_literal f s (Some t) rs;
            post_loop f s rs x dd ddi
          else if p_at_ahead s 1 (ts_of [T_LBRACK]) then
            if ddi then Ok (s, x) else
            do2 (s, t) <- wrap s x N_TY;
            do2 (s, x) <- parse_array_literal f s (Some t) rs None;
            post_loop f s rs x dd ddi
          else if p_at_ahead s 1 (ts_of [T_TRY]) then
            do2 (s, m) <- p_precede s x;
            let s := p_bump c (p_bump c s) in
            do2 (s, x) <- p_complete s m N_PROPAGATE;
            post_loop f s rs x dd ddi
          else
            do2 (s, m) <- p_precede s x;
            let s := p_bump c s in
            let (s, ai) := p_at s T_IDENT in
            do s <- (if ai then Ok (p_bump c s) else drop (err_noskip c s));
            do2 (s, x) <- p_complete s m N_PATH;
            post_loop f s rs x dd ddi
        else Ok (s, x)
    end
  end

(* the argument loop of calls and directives (up to, not including, expect(RParen)) *)
with args_loop (fuel : nat) (s : pstate) {struct fuel} : result pstate :=
  match fuel with 0 => OutOfFuel | S f =>
    let (s, rp) := p_at s T_RPAREN in
    if rp then Ok s else
    do2 (s, a) <- parse_expr_bp f s 0 ts_none;
    do s <- (match a with Some x => drop (wrap s x N_ARG) | None => Ok s end);
    let (s, eof) := at_eof s in
    let (s, d) := if eof then (s, true) else p_at_set s DEFAULT_RS in
    if d then Ok s else
    let (s, rp) := p_at s T_RPAREN in
    do s <- (if rp then Ok s else exp_noskip c s T_COMMA);
    args_loop f s
  end

with parse_var_ref (fuel : nat) (s : pstate) {struct fuel} : result (pstate * cm) :=
  match fuel with 0 => OutOfFuel | S f =>
    let (s, m) := p_start s in
    let start_idx := idx s in
    let s := p_bump c s in
    do is_import <- text_is s tx (idx s - 1) X_IMPORT;
    do is_mod <- text_is s tx (idx s - 1) X_MOD;
    let (s, dq) := if is_import || is_mod then p_at s T_DQUOTE else (s, false) in
    if dq then
      do s <- mark_old_missing s start_idx;
      do s <- exp_noskip c s T_LPAREN;
      let (s, al) := p_start s in
      do2 (s, a) <- parse_expr_bp f s 0 ts_none;
      do s <- (match a with Some x => drop (wrap s x N_ARG) | None => Ok s end);
      do s <- exp_noskip c s T_RPAREN;
      do s <- drop (p_complete s al N_ARGLIST);
      p_complete s m N_DIRECTIVE
    else p_complete s m N_VARREF
  end

with parse_lambda (fuel : nat) (s : pstate) (rs : tset) {struct fuel} : result (pstate * cm) :=
  match fuel with 0 => OutOfFuel | S f =>
    do paren <- lam_scan (S (S (length (toks s)))) s 1 false false;
    if paren then parse_paren f s rs else
    let (s, m) := p_start s in
    let (s, plm) := p_start s in
    let s := p_bump c s in
    do s <- params_loop f s;
    do s <- exp_rs c s T_RPAREN (ts_of [T_ARROW; T_LBRACE; T_HASH]);
    do s <- drop (p_complete s plm N_PARAMLIST);
    let (s, body) := p_at_set s BODY_SET in
    do s <- (if body then Ok s else
             do s <- exp_noskip c s T_ARROW;
             let (s, body2) := p_at_set s BODY_SET in
             if body2 then drop (err_noskip c s)
             else drop (parse_ty f s (ts_union rs (ts_of [T_LBRACE]))));
    let (s, lb) := p_at s T_LBRACE in
    do s <- (if lb then drop (parse_block f s None rs) else
             let (s, h) := p_at s T_HASH in
             if h then drop (parse_directive f s) else
             let (s, e) := p_at s T_EXTERN in
             if e then Ok (p_bump c s) else Ok s);
    p_complete s m N_LAMBDA
  end

with params_loop (fuel : nat) (s : pstate) {struct fuel} : result pstate :=
  match fuel with 0 => OutOfFuel | S f =>
    let (s, rp) := p_at s T_RPAREN in
    if rp then Ok s else
    let (s, pm) := p_start s in
    let (s, ct) := p_at s T_COMPTIME in
    let s := if ct then p_bump c s else s in
    do s <- exp_rs c s T_IDENT PARAM_RS;
    do s <- exp_noskip c s T_COLON;
    let (s, el) := p_at s T_ELLIPSIS in
    let s := if el then p_bump c s else s in
    do s <- drop (parse_ty f s PARAM_RS);
    do s <- drop (p_complete s pm N_PARAM);
    let (s, eof) := at_eof s in
    let (s, d) := if eof then (s, true) else p_at_set s DEFAULT_RS in
    if d then Ok s else
    let (s, rp) := p_at s T_RPAREN in
    do s <- (if rp then Ok s else exp_noskip c s T_COMMA);
    params_loop f s
  end

with parse_paren (fuel : nat) (s : pstate) (rs : tset) {struct fuel} : result (pstate * cm) :=
  match fuel with 0 => OutOfFuel | S f =>
    let (s, m) := p_start s in
    let s := p_bump c s in
    let (s, rp) := p_at s T_RPAREN in
    if rp then p_complete (p_bump c s) m N_PAREN else
    do s <- drop (parse_expr_bp f s 0 rs);
    do s <- exp_noskip c s T_RPAREN;
    p_complete s m N_PAREN
  end

with parse_cast (fuel : nat) (s : pstate) (prev : option cm) (rs : tset) {struct fuel} : result (pstate * cm) :=
  match fuel with 0 => OutOfFuel | S f =>
    do s <- (match prev with Some _ => Ok s | None => drop (err_noskip c s) end);
    let (s, ad) := p_at s T_DOT in
    if negb (ad && p_at_ahead s 1 (ts_of [T_LPAREN])) then Crash 8 else
    do2 (s, m) <- (match prev with Some t => p_precede s t | None => Ok (p_start s) end);
    let s := p_bump c (p_bump c s) in
    let (s, rp) := p_at s T_RPAREN in
    do s <- (if rp then Ok s else drop (parse_expr_bp f s 0 (ts_union rs (ts_of [T_COMMA; T_RPAREN]))));
    do s <- exp_rs c s T_RPAREN rs;
    p_complete s m N_CAST
  end

with parse_struct_decl (fuel : nat) (s : pstate) (rs : tset) {struct fuel} : result (pstate * cm) :=
  match fuel with 0 => OutOfFuel | S f =>
    let (s, m) := p_start s in
    let s := p_bump c s in
    let (s, lb) := p_at s T_LBRACE in
    if negb lb then do s <- drop (err_rs c s rs); p_complete s m N_STRUCTDECL else
    let s := p_bump c s in
    do s <- struct_decl_loop f s rs;
    do s <- exp c s T_RBRACE;
    p_complete s m N_STRUCTDECL
  end

with struct_decl_loop (fuel : nat) (s : pstate) (rs : tset) {struct fuel} : result pstate :=
  match fuel with 0 => OutOfFuel | S f =>
    let (s, rb) := p_at s T_RBRACE in
    if rb then Ok s else
    let (s, fm) := p_start s in
    do s <- exp c s T_IDENT;
    do s <- exp_noskip c s T_COLON;
    do s <- drop (parse_ty f s (ts_union rs (ts_of [T_COMMA; T_RBRACE])));
    do s <- drop (p_complete s fm N_MEMBERDECL);
    let (s, eof) := at_eof s in
    let (s, d) := if eof then (s, true) else p_at_set s DEFAULT_RS in
    if d then Ok s else
    let (s, rb) := p_at s T_RBRACE in
    do s <- (if rb then Ok s else exp_noskip c s T_COMMA);
    struct_decl_loop f s rs
  end

with parse_struct_literal (fuel : nat) (s : pstate) (prev : option cm) (rs : tset) {struct fuel} : result (pstate * cm) :=
  match fuel with 0 => OutOfFuel | S f =>
    let (s, ad) := p_at s T_DOT in
    let (s, alb) := p_at s T_LBRACE in
    if negb (if ad then p_at_ahead s 1 (ts_of [T_LBRACE]) else alb) then Crash 8 else
    do2 (s, m) <- (match prev with Some t => p_precede s t | None => Ok (p_start s) end);
    do s <- exp_noskip c s T_DOT;
    let s := p_bump c s in
    do s <- struct_lit_loop f s rs;
    do s <- exp_rs c s T_RBRACE rs;
    p_complete s m N_STRUCTLIT
  end

with struct_lit_loop (fuel : nat) (s : pstate) (rs : tset) {struct fuel} : result pstate :=
  match fuel with 0 => OutOfFuel | S f =>
    let (s, rb) := p_at s T_RBRACE in
    if rb then Ok s else
    let it_start := idx s in
    let (s, fm) := p_start s in
    do s <- exp_noskip c s T_IDENT;
    let (s, col) := p_at s T_COLON in
    do s <- (if col then exp c s T_EQUALS else exp_noskip c s T_EQUALS);
    do s <- drop (parse_expr_bp f s 0 (ts_union rs (ts_of [T_COMMA; T_RBRACE])));
    do s <- drop (p_complete s fm N_MEMBERLIT);
    let (s, eof) := at_eof s in
    let (s, d) := if eof then (s, true) else p_at_set s DEFAULT_RS in
    if d then Ok s else
    let (s, rb) := p_at s T_RBRACE in
    do s <- (if rb then Ok s else exp_noskip c s T_COMMA);
    if fix_loops c && Nat.eqb (idx s) it_start then Ok s else
    struct_lit_loop f s rs
  end

with parse_enum_decl (fuel : nat) (s : pstate) (rs : tset) {struct fuel} : result (pstate * cm) :=
  match fuel with 0 => OutOfFuel | S f =>
    let (s, m) := p_start s in
    let s := p_bump c s in
    let (s, lb) := p_at s T_LBRACE in
    if negb lb then do s <- drop (err_rs c s rs); p_complete s m N_ENUMDECL else
    let s := p_bump c s in
    do s <- enum_loop f s rs;
    do s <- exp c s T_RBRACE;
    p_complete s m N_ENUMDECL
  end

with enum_loop (fuel : nat) (s : pstate) (rs : tset) {struct fuel} : result pstate :=
  match fuel with 0 => OutOfFuel | S f =>
    let (s, rb) := p_at s T_RBRACE in
    if rb then Ok s else
    let (s, vm) := p_start s in
    do s <- exp c s T_IDENT;
    let (s, col) := p_at s T_COLON in
    do s <- (if col then drop (parse_ty f (p_bump c s) (ts_union rs (ts_of [T_COMMA; T_RBRACE]))) else Ok s);
    let (s, pipe) := p_at s T_PIPE in
    do s <- (if pipe then
               let (s, dm) := p_start s in
               let s := p_bump c s in
               do s <- drop (parse_expr_bp f s 0 ts_none);
               drop (p_complete s dm N_DISCRIMINANT)
             else Ok s);
    do s <- drop (p_complete s vm N_VARIANTDECL);
    let (s, eof) := at_eof s in
    let (s, d) := if eof then (s, true) else p_at_set s DEFAULT_RS in
    if d then Ok s else
    let (s, rb) := p_at s T_RBRACE in
    do s <- (if rb then Ok s else exp_noskip c s T_COMMA);
    enum_loop f s rs
  end

with parse_array_literal (fuel : nat) (s : pstate) (prev : option cm) (rs : tset) (decl : option mk)
  {struct fuel} : result (pstate * cm) :=
  match fuel with 0 => OutOfFuel | S f =>
    let (s, ad) := p_at s T_DOT in
    let (s, alb) := p_at s T_LBRACE in
    let (s, alk) := p_at s T_LBRACK in
    if negb (if ad then p_at_ahead s 1 (ts_of [T_LBRACK]) else alb || alk) then Crash 8 else
    do2 (s, m) <- (match decl with
                   | Some d => Ok (s, d)
                   | None => match prev with Some t => p_precede s t | None => Ok (p_start s) end
                   end);
    do s <- exp_noskip c s T_DOT;
    do s <- exp_nd c s T_LBRACK DEFAULT_NO_BRACES;
    do s <- array_lit_loop f s rs;
    do s <- exp_nd c s T_RBRACK DEFAULT_NO_BRACES;
    p_complete s m N_ARRAYLIT
  end

with array_lit_loop (fuel : nat) (s : pstate) (rs : tset) {struct fuel} : result pstate :=
  match fuel with 0 => OutOfFuel | S f =>
    let (s, rk) := p_at s T_RBRACK in
    let (s, rb) := if rk then (s, true) else p_at s T_RBRACE in
    if rb then Ok s else
    let it_start := idx s in
    do2 (s, item) <- parse_expr_bp f s 0 rs;
    do s <- (match item with Some x => drop (wrap s x N_ARRAYITEM) | None => Ok s end);
    let (s, eof) := at_eof s in
    let (s, d) := if eof then (s, true) else p_at_set s DEFAULT_RS in
    if d then Ok s else
    let (s, rk) := p_at s T_RBRACK in
    let (s, rb) := if rk then (s, true) else p_at s T_RBRACE in
    do s <- (if rb then Ok s else exp_noskip c s T_COMMA);
    if fix_loops c && Nat.eqb (idx s) it_start then Ok s else
    array_lit_loop f s rs
  end

with parse_array_decl (fuel : nat) (s : pstate) (rs : tset) {struct fuel} : result (pstate * cm) :=
  match fuel with 0 => OutOfFuel | S f =>
    let (s, array) := p_start s in
    let (s, size) := p_start s in
    let size_start := idx s in
    let s := p_bump c s in
    let (s, rk) := p_at s T_RBRACK in
    do s <- (if rk then Ok s else drop (parse_expr_bp f s 0 ts_none));
    do s <- exp_rs c s T_RBRACK (ts_union rs (ts_of [T_LBRACE]));
    do s <- drop (p_complete s size N_ARRAYSIZE);
    let size_end := idx s in
    do2 (s, ty) <- parse_ty f s (ts_union rs (ts_of [T_LBRACE]));
    let (s, lb) := match ty with Some _ => if negb (rs T_LBRACE) then p_at s T_LBRACE else (s, false) | None => (s, false) end in
    match ty with
    | Some t =>
        if lb then
          do s <- mark_old_unexpected s size_start size_end;
          parse_array_literal f s (Some t) rs (Some array)
        else p_complete s array N_ARRAYDECL
    | None => p_complete s array N_ARRAYDECL
    end
  end

with parse_if (fuel : nat) (s : pstate) (rs : tset) {struct fuel} : result (pstate * cm) :=
  match fuel with 0 => OutOfFuel | S f =>
    let (s, m) := p_start s in
    let s := p_bump c s in
    do s <- drop (parse_expr_bp f s 0 (ts_union rs (ts_of [T_LBRACE])));
    let (s, lb) := p_at s T_LBRACE in
    do s <- (if lb then drop (parse_block f s None rs) else drop (err_rs c s rs));
    let (s, el) := p_at s T_ELSE in
    do s <- (if el then
               let (s, em) := p_start s in
               let s := p_bump c s in
               let (s, ai) := p_at s T_IF in
               do s <- (if ai then drop (parse_if f s rs) else
                        let (s, lb2) := p_at s T_LBRACE in
                        if lb2 then drop (parse_block f s None rs) else drop (err_rs c s rs));
               drop (p_complete s em N_ELSE)
             else Ok s);
    p_complete s m N_IF
  end

with parse_loop (fuel : nat) (s : pstate) (label : option cm) (rs : tset) {struct fuel} : result (pstate * cm) :=
  match fuel with 0 => OutOfFuel | S f =>
    let (s, aw) := p_at s T_WHILE in
    let (s, al) := p_at s T_LOOP in
    if negb (aw || al) then Crash 8 else
    do2 (s, m) <- (match label with Some l => p_precede s l | None => Ok (p_start s) end);
    let s := p_bump c s in
    do s <- (if aw then
               let (s, cmk) := p_start s in
               do s <- drop (parse_expr_bp f s 0 (ts_union rs (ts_of [T_LBRACE])));
               drop (p_complete s cmk N_CONDITION)
             else Ok s);
    let (s, lb) := p_at s T_LBRACE in
    do s <- (if lb then drop (parse_block f s None rs) else drop (err_rs c s rs));
    p_complete s m N_WHILE
  end

with parse_switch (fuel : nat) (s : pstate) (rs : tset) {struct fuel} : result (pstate * cm) :=
  match fuel with 0 => OutOfFuel | S f =>
    let (s, m) := p_start s in
    let s := p_bump c s in
    let (s, ai) := p_at s T_IDENT in
    do s <- (if ai && (p_at_ahead s 1 (ts_of [T_IN]) || eof_ahead 1 s) then
               do s <- exp c s T_IDENT;
               exp_rs c s T_IN (ts_union rs (ts_of [T_LBRACE]))
             else Ok s);
    do s <- drop (parse_expr_bp f s 0 (ts_union rs (ts_of [T_LBRACE])));
    let (s, lb) := p_at s T_LBRACE in
    do s <- (if lb then
               let s := p_bump c s in
               do s <- switch_loop f s rs;
               exp_rs c s T_RBRACE rs
             else drop (err_rs c s rs));
    p_complete s m N_SWITCH
  end

with switch_loop (fuel : nat) (s : pstate) (rs : tset) {struct fuel} : result pstate :=
  match fuel with 0 => OutOfFuel | S f =>
    let (s, rb) := p_at s T_RBRACE in
    if rb then Ok s else
    let it_start := idx s in
    let (s, am) := p_start s in
    let (s, ad) := p_at s T_DOT in
    do s <- (if ad then
               let (s, sm) := p_start s in
               do s <- exp_noskip c s T_DOT;
               do s <- exp c s T_IDENT;
               drop (p_complete s sm N_VSHORT)
             else
               let (s, ai) := p_at s T_IDENT in
               do us <- (if ai then text_is s tx (idx s) X_UNDERSCORE else Ok false);
               if us then
                 let (s, dm) := p_start s in
                 drop (p_complete (p_bump c s) dm N_DEFAULTARM)
               else drop (parse_ty f s (ts_union rs (ts_of [T_FATARROW]))));
    do s <- exp_noskip c s T_FATARROW;
    do s <- drop (parse_expr_bp f s 0 rs);
    do s <- drop (p_complete s am N_SWITCHARM);
    let (s, eof) := at_eof s in
    let (s, d) := if eof then (s, true) else p_at_set s DEFAULT_RS in
    if d then Ok s else
    let (s, rb) := p_at s T_RBRACE in
    let (s, cma) := if rb then p_at s T_COMMA else (s, false) in
    do s <- (if negb rb || cma then exp_noskip c s T_COMMA else Ok s);
    if fix_loops c && Nat.eqb (idx s) it_start then Ok s else
    switch_loop f s rs
  end

with parse_block (fuel : nat) (s : pstate) (label : option cm) (rs : tset) {struct fuel} : result (pstate * cm) :=
  match fuel with 0 => OutOfFuel | S f =>
    let (s, lb) := p_at s T_LBRACE in
    if negb lb then Crash 8 else
    do2 (s, m) <- (match label with Some l => p_precede s l | None => Ok (p_start s) end);
    let s := p_bump c s in
    do s <- block_loop f s;
    do s <- exp_rs c s T_RBRACE rs;
    p_complete s m N_BLOCK
  end

with block_loop (fuel : nat) (s : pstate) {struct fuel} : result pstate :=
  match fuel with 0 => OutOfFuel | S f =>
    let (s, rb) := p_at s T_RBRACE in
    let (s, eof) := if rb then (s, true) else at_eof s in
    if eof then Ok s else
    do s <- drop (parse_stmt f s false);
    block_loop f s
  end

with parse_directive (fuel : nat) (s : pstate) {struct fuel} : result (pstate * cm) :=
  match fuel with 0 => OutOfFuel | S f =>
    let (s, m) := p_start s in
    let s := p_bump c s in
    do s <- exp_noskip c s T_IDENT;
    let (s, al) := p_start s in
    do s <- exp_noskip c s T_LPAREN;
    do s <- args_loop f s;
    do s <- exp c s T_RPAREN;
    do s <- drop (p_complete s al N_ARGLIST);
    p_complete s m N_DIRECTIVE
  end.

(* grammar::source_file *)
Fixpoint source_loop (fuel : nat) (big : nat) (s : pstate) : result pstate :=
  match fuel with 0 => OutOfFuel | S f =>
    let (s, eof) := at_eof s in
    if eof then Ok s else
    let (s, semi) := p_at s T_SEMI in
    if semi then source_loop f big (p_bump c s) else
    let (s, d) := p_at_set s DEFAULT_RS in
    if d then do s <- drop (err_nd c s ts_none); source_loop f big s else
    do s <- drop (parse_decl big s true);
    source_loop f big s
  end.

(* grammar::repl_line *)
Fixpoint repl_loop (fuel : nat) (big : nat) (s : pstate) : result pstate :=
  match fuel with 0 => OutOfFuel | S f =>
    let (s, eof) := at_eof s in
    if eof then Ok s else
    let (s, semi) := p_at s T_SEMI in
    if semi then repl_loop f big (p_bump c s) else
    do2 (s, o) <- parse_stmt big s true;
    match o with
    | Some _ => repl_loop f big s
    | None =>
        let (s, eof2) := at_eof s in
        if eof2 then Ok s else
        do s <- drop (err_skip c s);
        repl_loop f big s
    end
  end.

Definition parse_top (repl : bool) (fuel : nat) (ts : list token) : result pstate :=
  let (s, m) := p_start (mkP ts 0 [] []) in
  do s <- (if repl then repl_loop fuel fuel s else source_loop fuel fuel s);
  drop (p_complete s m N_ROOT).

End G.

(* fuel used by the driver: linear in the number of tokens *)
Definition grammar_fuel (ts : list token) : nat := 40 * (length ts + 2).
