(* Model of the type relations of hir::common::Ty
   (/repo/crates/hir/src/common/ty.rs), transcribed arm for arm and in the
   same arm order (Rust `match` = first match, like Coq's).

     might_be_weak                   -> might_be_weak
     is_zero_sized                   -> is_zero_sized
     is_functionally_equivalent_to   -> feq   (lose = self_can_lose_distinction)
     can_fit_into                    -> fit
     is_weak_replaceable_by          -> weak
     has_semantics_of                -> has_semantics_of
     max                             -> tmax  (ENUM_MAP is the argument [m])
     can_be_created_from_nothing     -> created_from_nothing
     can_cast_to                     -> cast
     can_differentiate_from          -> differentiate (fuelled: it recurses on
                                        swapped arguments)

   Recursion: [fit]/[weak] are mutually structural on the expected type,
   [has_semantics_of]/[tmax] structural on self, [feq]/[cast] by a nested
   fixpoint (outer on self, inner on the other type).  No proofs here.

   The model takes the record [fixes]: one flag per repaired defect of ty.rs.  A flag
   that is off gives the code of the pinned commit; a flag that is on mirrors the
   corresponding `fix:` patch (.cache/prompts/C12-2-fix.diff, C12-1-fix.diff,
   C13-2-fix.diff).  The checks detect which variant the implementation is. *)
From Capy Require Import Common.Util Common.Ty.

Record fixes : Type := mkFx {
  fx_max_distinct : bool;   (* C12-2: max's distinct arms are guarded by `other fits into the distinct` *)
  fx_weak_nominal : bool;   (* C12-1: is_weak_replaceable_by's anon-array arms also require can_fit_into *)
  fx_feq_uid : bool         (* C13-2: is_functionally_equivalent_to never equates two different named structs *)
}.
Definition no_fixes : fixes := mkFx false false false.
Definition all_fixes : fixes := mkFx true true true.

Definition enum_map := list (N * ty).
Fixpoint get_enum (m : enum_map) (u : N) : option ty :=
  match m with
  | [] => None
  | (k, t) :: r => if N.eqb k u then Some t else get_enum r u
  end.

(* matches!((found_mutable, expected_mutable), (true, _) | (false, false)) *)
Definition mut_ok (found expected : bool) : bool := found || negb expected.

Definition any_comptime (ps : list (pflags * ty)) : bool :=
  existsb (fun p => match pf_comptime (fst p) with Some _ => true | None => false end) ps.

(* matches!(sub_ty.as_ref(), Ty::Char | Ty::UInt(8)) *)
Definition is_char_or_u8 (t : ty) : bool :=
  match t with TChar => true | UInt 8 => true | _ => false end.

(* ---- might_be_weak ---------------------------------------------------- *)
Fixpoint might_be_weak (t : ty) : bool :=
  match t with
  | IInt 0 | UInt 0 | TFloat 0 => true
  | Array _ s => might_be_weak s
  | Slice s => might_be_weak s
  | Ptr _ s => might_be_weak s
  | Optional s => might_be_weak s
  | _ => false
  end.

(* ---- is_zero_sized ------------------------------------------------------
   The code matches on `self.absolute_ty()`; the loop of absolute_ty is the
   first two arms here (so that the recursion is structural).  The code's own
   `Ty::Distinct` arm is unreachable after absolute_ty and coincides with it. *)
Fixpoint is_zero_sized (t : ty) : bool :=
  match t with
  | Variant _ _ _ s _ => is_zero_sized s
  | Distinct _ s => is_zero_sized s
  | NotYetResolved | Unknown => true
  | Void => true
  | Nil => true
  | File _ => true
  | AlwaysJumps => true
  | Array n s => N.eqb n 0 || is_zero_sized s
  | Struct _ ms =>
      match ms with [] => true | _ => false end
      || forallb (fun p => is_zero_sized (snd p)) ms
  | _ => false
  end.

Section WithFixes.
Variable fx : fixes.

(* ---- is_functionally_equivalent_to ------------------------------------- *)
Fixpoint feq (lose : bool) (a : ty) {struct a} : ty -> bool :=
  fix feq_a (b : ty) {struct b} : bool :=
    match a, b with
    | (Array n1 s1 | AnonArray n1 s1), (Array n2 s2 | AnonArray n2 s2) =>
        N.eqb n1 n2 && feq lose s1 s2
    | Ptr m1 s1, Ptr m2 s2 => Bool.eqb m1 m2 && feq lose s1 s2
    | Slice s1, Slice s2 => feq lose s1 s2
    | Distinct _ s1, Distinct _ s2 => feq lose s1 s2
    | Distinct _ s1, _ => lose && feq lose s1 b
    | _, Distinct _ s2 => feq_a s2
    | Variant _ _ _ s1 _, Variant _ _ _ s2 _ => feq lose s1 s2
    | Variant _ _ _ s1 _, _ => lose && feq lose s1 b
    | _, Variant _ _ _ s2 _ => feq_a s2
    (* C13-2 fix: `(ConcreteStruct{uid: u1}, ConcreteStruct{uid: u2}) if u1 != u2 => false` *)
    | Struct u1 ms1, Struct u2 ms2 =>
        if fx_feq_uid fx && negb (N.eqb u1 u2) then false else
        Nat.eqb (length ms1) (length ms2)
        && all2 (fun p q => N.eqb (fst p) (fst q) && feq lose (snd p) (snd q)) ms1 ms2
    | Struct _ ms1, AnonStruct ms2 | AnonStruct ms1, Struct _ ms2 | AnonStruct ms1, AnonStruct ms2 =>
        Nat.eqb (length ms1) (length ms2)
        && all2 (fun p q => N.eqb (fst p) (fst q) && feq lose (snd p) (snd q)) ms1 ms2
    | Optional s1, Optional s2 => feq lose s1 s2
    | ErrorUnion e1 p1, ErrorUnion e2 p2 => feq lose e1 e2 && feq lose p1 p2
    | Fn ps1 r1 _, FnPtr ps2 r2 | FnPtr ps1 r1, Fn ps2 r2 _ =>
        params_eqb ps1 ps2 && ty_eqb r1 r2
    | _, _ => ty_eqb a b
    end.

(* ---- can_fit_into / is_weak_replaceable_by ------------------------------ *)

Section MembersFit.
  (* the AnonStruct -> ConcreteStruct loop shared by can_fit_into and (with
     can_cast_to as [rel]) by can_cast_to: equal lengths; every found member is
     looked up by name in the FxHashMap of the expected members (last entry
     wins) and must be related; every expected name must occur among the found. *)
  Variable rel : ty -> ty -> bool.
  Definition members_rel (fms ems : list (N * ty)) : bool :=
    Nat.eqb (length fms) (length ems)
    && forallb (fun p => match lookup_last (rel (snd p)) (fst p) ems with
                         | Some b => b
                         | None => false
                         end) fms
    && forallb (fun q => has_key (fst q) fms) ems.
End MembersFit.

Fixpoint fit (a e : ty) {struct e} : bool :=
  if ty_eqb a e then true else
  match a, e with
  | Unknown, _ | _, Unknown => true
  | AlwaysJumps, _ => true
  | IInt f, IInt x | UInt f, UInt x => N.eqb x 0 || N.leb f x
  | IInt _, UInt 0 => true
  | IInt _, UInt _ => false
  | UInt f, IInt x => N.eqb x 0 || N.ltb f x
  | (IInt f | UInt f), TFloat x => N.eqb f 0 || N.ltb f x
  | TFloat f, TFloat x => N.eqb x 0 || N.leb f x
  | Ptr fm fs, Ptr em es =>
      mut_ok fm em && ((might_be_weak fs && weak fs es) || feq false fs es)
  | Ptr fm fs, RawPtr em => mut_ok fm em && negb (might_be_weak fs)
  | RawPtr fm, RawPtr em => mut_ok fm em
  | Slice f, Slice x => feq false f x
  | Slice f, RawSlice => negb (might_be_weak f)
  | AnonArray _ f, Slice x => fit f x
  | Array _ f, Slice x => feq false f x
  | AnonArray n f, Array k x | Array n f, Array k x => N.eqb n k && fit f x
  | _, TAny => true
  | Struct u1 _, Struct u2 _ => N.eqb u1 u2
  | AnonStruct fms, Struct _ ems => members_rel fit fms ems
  | Distinct u1 _, Distinct u2 _ => N.eqb u1 u2
  | _, Distinct _ s => fit a s
  | Variant _ _ u1 _ _, Variant _ _ u2 _ _ => N.eqb u1 u2
  | Variant eu _ _ _ _, Enum u _ => N.eqb eu u
  | Nil, Optional _ => true
  | Optional f, Optional x => fit f x
  | _, Optional s => fit a s
  | ErrorUnion fe fp, ErrorUnion ee ep => fit fe ee && fit fp ep
  | _, ErrorUnion ee ep => fit a ee || fit a ep
  | PolyFn _, Fn ps _ _ => any_comptime ps
  | Fn ps1 r1 _, FnPtr ps2 r2 => params_eqb ps1 ps2 && ty_eqb r1 r2
  | _, _ => feq false a e
  end

with weak (a e : ty) {struct e} : bool :=
  match a, e with
  | IInt 0, IInt w | UInt 0, UInt w => negb (N.eqb w 0)
  | UInt 0, IInt _ => true
  | (IInt 0 | UInt 0), TFloat _ => true
  | TFloat 0, TFloat w => negb (N.eqb w 0)
  (* C12-1 fix: `|| (is_functionally_equivalent_to(..) && can_fit_into(..))` *)
  | AnonArray n f, Array k x =>
      N.eqb n k && (weak f x || (feq false f x && (negb (fx_weak_nominal fx) || fit f x)))
  | AnonArray _ f, Slice x =>
      weak f x || (feq false f x && (negb (fx_weak_nominal fx) || fit f x))
  | Slice f, Slice x => feq false f x
  | Ptr fm fs, Ptr em es => mut_ok fm em && might_be_weak fs && weak fs es
  (* `(ConcreteStruct | AnonStruct, ConcreteStruct) => self.can_fit_into(expected)`:
     the call is on the same pair, so the two arms of can_fit_into that can be
     reached from here are unfolded in place (lemma weak_struct_is_fit in
     Proofs/TyRelBasics.v states that this equals [fit a e]). *)
  | Struct u1 _, Struct u2 _ => ty_eqb a e || N.eqb u1 u2
  | AnonStruct fms, Struct _ ems => ty_eqb a e || members_rel fit fms ems
  | _, Distinct _ s => weak a s
  | Optional f, Optional x => weak f x
  | _, Optional x => weak a x
  | PolyFn _, Fn ps _ _ => any_comptime ps
  | _, _ => false
  end.

(* ---- has_semantics_of --------------------------------------------------
   Arms that do not `return` fall out of the match into the trailing
   `self.can_fit_into(expected)`. *)
Fixpoint has_semantics_of (a e : ty) {struct a} : bool :=
  match a, e with
  | (Distinct _ t | Variant _ _ _ t _), (IInt 0 | UInt 0) =>
      if has_semantics_of t e then true else fit a e
  | (Distinct _ _ | Variant _ _ _ _ _), (IInt _ | UInt _) => false
  | Distinct u1 _, Distinct u2 _ => if N.eqb u1 u2 then true else fit a e
  | Variant _ _ u1 _ _, Variant _ _ u2 _ _ => if N.eqb u1 u2 then true else fit a e
  | (Distinct _ t | Variant _ _ _ t _), _ =>
      if has_semantics_of t e then true else fit a e
  | _, _ => fit a e
  end.

(* ---- max ---------------------------------------------------------------
   Arms with `if` guards fall through to the later arms when the guard fails,
   so the match is written as a cascade of arms, each returning None when its
   pattern (or guard) does not apply. *)

(* arms 1-8: numbers *)
Definition max_arm_numbers (a b : ty) : option (option ty) :=
  match a, b with
  | UInt 0, UInt 0 => Some (Some (UInt 0))
  (* (IInt(0) | UInt(0), IInt(0) | UInt(0)); the UInt(0),UInt(0) alternative is taken by the arm above *)
  | IInt 0, IInt 0 | IInt 0, UInt 0 | UInt 0, IInt 0 => Some (Some (IInt 0))
  | IInt w1, IInt w2 => Some (Some (IInt (N.max w1 w2)))
  | UInt w1, UInt w2 => Some (Some (UInt (N.max w1 w2)))
  | IInt s, UInt u | UInt u, IInt s =>
      Some (if N.ltb u s then Some (IInt s) else None)
  | (IInt 0 | UInt 0), TFloat f | TFloat f, (IInt 0 | UInt 0) => Some (Some (TFloat f))
  | (IInt i | UInt i), TFloat f | TFloat f, (IInt i | UInt i) =>
      Some (if N.ltb i 64 && N.eqb f 0 then Some (TFloat (N.max (i * 2) 32))
            else if N.ltb i f then Some (TFloat f)
            else None)
  | TFloat w1, TFloat w2 => Some (Some (TFloat (N.max w1 w2)))
  | _, _ => None
  end.

(* arms 9-10: distincts (the assert_eq!(self, non_distinct) compares a value
   with itself and cannot fire) *)
(* C12-2 fix: both arms become guarded arms
   `(x, Distinct) if other.has_semantics_of(x) && x.can_fit_into(other) => Some(other)`, so a
   failed guard falls through to the later arms (first to the second distinct arm). *)
Definition max_arm_distinct_r (a b : ty) : option (option ty) :=
  match b with
  | Distinct _ _ =>
      if fx_max_distinct fx
      then (if has_semantics_of b a && fit a b then Some (Some b) else None)
      else Some (if has_semantics_of b a then Some b else None)
  | _ => None
  end.
Definition max_arm_distinct_l (a b : ty) : option (option ty) :=
  match a with
  | Distinct _ _ =>
      if fx_max_distinct fx
      then (if has_semantics_of a b && fit b a then Some (Some a) else None)
      else Some (if has_semantics_of a b then Some a else None)
  | _ => None
  end.

(* arms 11-13: enums; get_enum_from_uid(..).unwrap() is Crash 1 *)
Definition max_arm_enum (m : enum_map) (a b : ty) : option (result (option ty)) :=
  match a, b with
  | Variant e1 _ _ _ _, Variant e2 _ _ _ _ =>
      Some (if N.eqb e1 e2 then
              match get_enum m e1 with Some t => Ok (Some t) | None => Crash 1 end
            else if is_zero_sized a && is_zero_sized b then Ok (Some TType)
            else Ok None)
  | Variant eu _ _ _ _, Enum u _ => if N.eqb eu u then Some (Ok (Some b)) else None
  | Enum u _, Variant eu _ _ _ _ => if N.eqb eu u then Some (Ok (Some a)) else None
  | _, _ => None
  end.

(* arms 15-18 (14 is recursive and inlined in tmax) *)
Definition max_arm_opt_nil (a b : ty) : option (option ty) :=
  match a, b with
  | Optional s, Nil | Nil, Optional s => Some (Some (Optional s))
  | Nil, Nil => Some (Some a)
  | _, _ => None
  end.
Definition max_arm_opt_fit (a b : ty) : option (option ty) :=
  match a, b with
  | Optional s, x | x, Optional s => if fit x s then Some (Some (Optional s)) else None
  | _, _ => None
  end.
Definition max_arm_nil (a b : ty) : option (option ty) :=
  match a, b with
  | Nil, x | x, Nil => Some (Some (Optional x))
  | _, _ => None
  end.
(* arm 20 *)
Definition max_arm_eu_fit (a b : ty) : option (option ty) :=
  match a, b with
  | ErrorUnion e p, x | x, ErrorUnion e p =>
      if fit x e || fit x p then Some (Some (ErrorUnion e p)) else None
  | _, _ => None
  end.
(* arm 21 *)
Definition max_arm_type (a b : ty) : option (option ty) :=
  match a, b with
  | x, TType | TType, x => if is_zero_sized x then Some (Some TType) else None
  | _, _ => None
  end.
(* arm 22 *)
Definition max_arm_unknown (a b : ty) : option (option ty) :=
  match a, b with
  | (Unknown | AlwaysJumps), x | x, (Unknown | AlwaysJumps) => Some (Some x)
  | _, _ => None
  end.

Definition lift_arm (o : option (option ty)) : option (result (option ty)) :=
  match o with Some r => Some (Ok r) | None => None end.

Fixpoint tmax (m : enum_map) (a b : ty) {struct a} : result (option ty) :=
  if ty_eqb a b then Ok (Some a) else
  match lift_arm (max_arm_numbers a b) with Some r => r | None =>
  match lift_arm (max_arm_distinct_r a b) with Some r => r | None =>
  match lift_arm (max_arm_distinct_l a b) with Some r => r | None =>
  match max_arm_enum m a b with Some r => r | None =>
  match (match a, b with
         | Optional l, Optional r =>                      (* arm 14 *)
             Some (match tmax m l r with
                   | Ok (Some t) => Ok (Some (Optional t))
                   | Ok None => Ok None
                   | Crash s => Crash s
                   | OutOfFuel => OutOfFuel
                   end)
         | _, _ => None
         end) with Some r => r | None =>
  match lift_arm (max_arm_opt_nil a b) with Some r => r | None =>
  match lift_arm (max_arm_opt_fit a b) with Some r => r | None =>
  match lift_arm (max_arm_nil a b) with Some r => r | None =>
  match (match a, b with
         | ErrorUnion le lp, ErrorUnion re rp =>           (* arm 19: `?` twice *)
             Some (match tmax m le re with
                   | Ok (Some te) =>
                       match tmax m lp rp with
                       | Ok (Some tp) => Ok (Some (ErrorUnion te tp))
                       | Ok None => Ok None
                       | Crash s => Crash s
                       | OutOfFuel => OutOfFuel
                       end
                   | Ok None => Ok None
                   | Crash s => Crash s
                   | OutOfFuel => OutOfFuel
                   end)
         | _, _ => None
         end) with Some r => r | None =>
  match lift_arm (max_arm_eu_fit a b) with Some r => r | None =>
  match lift_arm (max_arm_type a b) with Some r => r | None =>
  match lift_arm (max_arm_unknown a b) with Some r => r | None =>
  Ok None
  end end end end end end end end end end end end.

(* ---- can_be_created_from_nothing ---------------------------------------- *)
Definition created_from_nothing (m : enum_map) (t : ty) : result bool :=
  match absolute_ty t with
  | Void => Ok true
  | other =>
      match tmax m Void other with
      | Ok (Some _) => Ok true
      | Ok None => Ok (fit Void other)
      | Crash s => Crash s
      | OutOfFuel => OutOfFuel
      end
  end.

(* ---- can_cast_to --------------------------------------------------------- *)
Fixpoint cast (a : ty) {struct a} : ty -> bool :=
  fix cast_a (b : ty) {struct b} : bool :=
    if fit a b then true else
    match a, b with
    | (TBool | IInt _ | UInt _ | TFloat _ | TChar), (TBool | IInt _ | UInt _ | TFloat _ | TChar) => true
    | Distinct _ f, Distinct _ t => cast f t
    | Distinct _ f, _ => cast f b
    | _, Distinct _ t => cast_a t
    | Variant _ _ _ f _, Variant _ _ _ t _ => cast f t
    | Variant _ _ _ f _, _ => cast f b
    | _, Variant _ _ _ t _ => cast_a t
    | Ptr fm fs, Ptr em es => mut_ok fm em && (ty_eqb fs es || weak fs es)
    | Ptr fm _, RawPtr em | RawPtr fm, Ptr em _ | RawPtr fm, RawPtr em => mut_ok fm em
    | TStr, Ptr false s | Ptr false s, TStr => is_char_or_u8 s
    | TStr, RawPtr false | RawPtr false, TStr => true
    | TStr, (Array _ s | AnonArray _ s) | (Array _ s | AnonArray _ s), TStr => is_char_or_u8 s
    | Slice f, Slice t => ty_eqb f t || weak f t
    | Slice _, RawSlice | RawSlice, Slice _ | RawSlice, RawSlice => true
    | (Array _ f | AnonArray _ f), Slice t | Slice f, (Array _ t | AnonArray _ t) => cast f t
    | (Array n f | AnonArray n f), (Array k t | AnonArray k t) => N.eqb n k && cast f t
    | _, TAny => negb (might_be_weak a)
    | (Struct _ fms | AnonStruct fms), (Struct _ ems | AnonStruct ems) =>
        Nat.eqb (length fms) (length ems)
        && forallb (fun p => match lookup_last (cast (snd p)) (fst p) ems with
                             | Some r => r
                             | None => false
                             end) fms
        && forallb (fun q => has_key (fst q) fms) ems
    (* `(other, Ty::Type) if other.is_zero_sized() => true`; when the guard fails
       no later arm matches `(_, Type)` except the final one *)
    | _, TType => if is_zero_sized a then true else feq true a b
    | Nil, Optional _ => true
    | Optional l, Optional r => cast l r
    | _, Optional s => cast_a s
    | _, _ => feq true a b
    end.

(* ---- can_differentiate_from ------------------------------------------------
   Recurses on (member of other, member of self) in one arm, so it is fuelled;
   [differentiate] supplies size a + size b, which always suffices. *)
Fixpoint differentiate_fuel (fuel : nat) (m : enum_map) (a b : ty) : result bool :=
  match fuel with
  | O => OutOfFuel
  | S fuel' =>
    let rec := differentiate_fuel fuel' m in
    let members (lms rms : list (N * ty)) : result bool :=
      if negb (Nat.eqb (length lms) (length rms)) then Ok true else
      (fix go (l : list (N * ty)) : result bool :=
         match l with
         | [] => Ok (negb (forallb (fun q => has_key (fst q) lms) rms))
         | (n, lt) :: r =>
             match lookup_last (fun x => x) n rms with
             | None => Ok true
             | Some rt =>
                 match rec lt rt with
                 | Ok false => Ok true           (* sic: `if !left.can_differentiate_from(right) { return true }` *)
                 | Ok true => go r
                 | Crash s => Crash s
                 | OutOfFuel => OutOfFuel
                 end
             end
         end) lms in
    match a, b with
    | Unknown, _ | _, Unknown => Ok true
    | (IInt _ | UInt _ | TFloat _), (IInt _ | UInt _ | TFloat _) => Ok false
    | Ptr _ l, Ptr _ r => rec l r
    | Ptr _ _, RawPtr _ | RawPtr _, Ptr _ _ => Ok false
    | RawPtr _, RawPtr _ => Ok false
    | Slice l, Slice r => rec l r
    | Slice _, RawSlice | RawPtr _, Slice _ => Ok false
    | Array _ l, Slice r | Slice l, Array _ r => rec l r
    | Array n l, Array k r =>
        if negb (N.eqb n k) then Ok true else rec l r
    | _, TAny | TAny, _ => Ok false
    | Struct u1 _, Struct u2 _ => Ok (negb (N.eqb u1 u2))
    | AnonStruct lms, AnonStruct rms | AnonStruct lms, Struct _ rms | Struct _ rms, AnonStruct lms =>
        members lms rms
    | Distinct u1 _, Distinct u2 _ => Ok (negb (N.eqb u1 u2))
    | x, Distinct _ s | Distinct _ s, x => rec x s
    | Variant _ _ u1 _ _, Variant _ _ u2 _ _ => Ok (negb (N.eqb u1 u2))
    | Variant eu _ _ _ _, Enum u _ => Ok (negb (N.eqb eu u))
    | _, _ =>
        match created_from_nothing m a with
        | Ok ca =>
            (* `&&` short-circuits: other.can_be_created_from_nothing() only runs when ca *)
            match (if ca then created_from_nothing m b else Ok false) with
            | Ok cb => Ok (negb ((ca && cb) || fit a b || fit b a))
            | Crash s => Crash s
            | OutOfFuel => OutOfFuel
            end
        | Crash s => Crash s
        | OutOfFuel => OutOfFuel
        end
    end
  end.

Definition differentiate (m : enum_map) (a b : ty) : result bool :=
  differentiate_fuel (size a + size b) m a b.

End WithFixes.
