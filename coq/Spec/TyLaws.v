(* Specification side of C12 / C13: the acceptance relation the laws are stated
   against, the law checkers that are run on the IMPLEMENTATION's answers, and
   the narrow syntactic classifiers of the known exceptions.  No proofs here. *)
From Capy Require Import Common.Util Common.Ty.
From Capy Require Import Model.TyRel Model.ExpectMatch.

Section WithFixes.
Variable fx : fixes.
Notation fit := (fit fx).
Notation weak := (weak fx).
Notation feq := (feq fx).
Notation has_semantics_of := (has_semantics_of fx).
Notation tmax := (tmax fx).


(* "a value of type a is implicitly accepted where e is expected": the decision of
   expect_match for two known types = can_fit_into, plus its `type` shortcut for
   zero-sized values. *)
Definition accepts (a e : ty) : bool :=
  fit a e || (match e with TType => is_zero_sized a | _ => false end).

(* types of values: no error/placeholder types anywhere (Unknown, NotYetResolved,
   AlwaysJumps never are the type of a checked value; the relations treat them as
   wildcards on purpose) *)
Fixpoint value_ty (t : ty) : bool :=
  match t with
  | NotYetResolved | Unknown | AlwaysJumps => false
  | AnonArray _ s | Array _ s | Slice s | Ptr _ s | Distinct _ s
  | Variant _ _ _ s _ | Optional s => value_ty s
  | ErrorUnion e p => value_ty e && value_ty p
  | Fn ps r _ | FnPtr ps r => forallb (fun p => value_ty (snd p)) ps && value_ty r
  | AnonStruct ms | Struct _ ms => forallb (fun p => value_ty (snd p)) ms
  | Enum _ vs => forallb value_ty vs
  | _ => true
  end.

(* ---- C12 law checkers over observed answers ------------------------------ *)
Definition law_fit_implies_cast (fit_ab cast_ab : bool) : bool := implb fit_ab cast_ab.
Definition law_weak_implies_fit (weak_ab fit_ab : bool) : bool := implb weak_ab fit_ab.
Definition law_max_accepts (acc_ac acc_bc : bool) : bool := acc_ac && acc_bc.

(* ---- known exception classes --------------------------------------------- *)

(* a nominal type occurs in t (not looking inside enums / function types, which the
   relations compare by plain equality) *)
Fixpoint has_nominal (t : ty) : bool :=
  match t with
  | Distinct _ _ | Struct _ _ | Variant _ _ _ _ _ => true
  | AnonArray _ s | Array _ s | Slice s | Ptr _ s | Optional s => has_nominal s
  | ErrorUnion e p => has_nominal e || has_nominal p
  | AnonStruct ms => existsb (fun p => has_nominal (snd p)) ms
  | _ => false
  end.

(* C12-1: an anonymous array literal type (possibly under ? or ^) whose element type
   mentions a nominal type: is_weak_replaceable_by compares the elements with
   is_functionally_equivalent_to, which ignores uids, while can_fit_into does not *)
Fixpoint known_weak_fit0 (a : ty) : bool :=
  match a with
  | AnonArray _ f => has_nominal f
  | Optional f | Ptr _ f => known_weak_fit0 f
  | _ => false
  end.
(* the class is empty once the C12-1 fix is in force *)
Definition known_weak_fit (a : ty) : bool := negb (fx_weak_nominal fx) && known_weak_fit0 a.

(* C12-2 / C12-3: exactly where Ty::max returns a type that does not accept an operand.
   Follows max's own recursion (Optional/Optional, ErrorUnion/ErrorUnion); [depth] says we
   are below such a sum (there the result must satisfy can_fit_into itself, the `type`
   shortcut of expect_match does not apply).
     1 = the distinct arms: max answers with the distinct type because its underlying type
         fits into the other operand (has_semantics_of), although the other operand does
         not fit into the distinct type;
     2 = below a sum: two zero-sized variants of different enums, or a zero-sized type and
         `type`: max answers `type`, and ?type does not accept ?variant *)
Definition known_max_distinct (a b : ty) : bool :=
  (* class 1 is empty once the C12-2 fix is in force *)
  match a, b with
  | _, Distinct _ _ => negb (fx_max_distinct fx) && has_semantics_of b a && negb (fit a b)
  | Distinct _ _, _ => negb (fx_max_distinct fx) && has_semantics_of a b && negb (fit b a)
  | _, _ => false
  end.

Fixpoint known_max (depth : bool) (a b : ty) {struct a} : N :=
  if ty_eqb a b then 0 else
  if known_max_distinct a b then 1 else
  match a, b with
  | Variant e1 _ _ _ _, Variant e2 _ _ _ _ =>
      if depth && negb (N.eqb e1 e2) && is_zero_sized a && is_zero_sized b then 2 else 0
  | x, TType | TType, x => if depth && is_zero_sized x then 2 else 0
  | Optional l, Optional r => known_max true l r
  | ErrorUnion le lp, ErrorUnion re rp =>
      match known_max true le re with 0 => known_max true lp rp | c => c end
  | _, _ => 0
  end%N.

(* what "accepts both" means at the top level / below a sum *)
Definition max_accepts (depth : bool) (a b c : ty) : bool :=
  if depth then fit a c && fit b c else accepts a c && accepts b c.

(* every enum registered under uid u is an enum with uid u (set_enum_uid asserts it) *)
Definition wf_enum_map (m : enum_map) : Prop :=
  forall u t, get_enum m u = Some t -> exists vs, t = Enum u vs.

(* where the order of max's operands matters: the two placeholder types against each other
   (`(Unknown | AlwaysJumps, other) | (other, Unknown | AlwaysJumps) => other`), and two
   different `distinct` types carrying the same uid (impossible for types made by one
   UIDGenerator), possibly below optionals / error unions *)
Fixpoint known_order (a b : ty) {struct a} : bool :=
  if ty_eqb a b then false else
  match a, b with
  | Unknown, AlwaysJumps | AlwaysJumps, Unknown => true
  | Distinct u1 _, Distinct u2 _ => N.eqb u1 u2
  | Optional l, Optional r => known_order l r
  | ErrorUnion le lp, ErrorUnion re rp => known_order le re || known_order lp rp
  | _, _ => false
  end.

(* ---- C13: where may a nominal value be accepted -------------------------- *)
Inductive ntarget_kind : Type :=
| NT_same        (* the same nominal type (same kind and uid), any, or unknown *)
| NT_own_enum    (* variant -> its own enum *)
| NT_structural  (* named struct -> anonymous struct type of the same shape *)
| NT_wrapper     (* known class C13-1: a distinct / variant type whose underlying type accepts it *)
| NT_payload     (* known class C13-2: named struct -> variant type: the payload is compared with
                    is_functionally_equivalent_to, which ignores struct uids *)
| NT_cross.      (* a different nominal type, or the underlying type: never allowed *)

Definition same_nominal (a e : ty) : bool :=
  match a, e with
  | Distinct u1 _, Distinct u2 _ => N.eqb u1 u2
  | Struct u1 _, Struct u2 _ => N.eqb u1 u2
  | Variant _ _ u1 _ _, Variant _ _ u2 _ _ => N.eqb u1 u2
  | _, _ => false
  end.

Fixpoint ntarget (a e : ty) {struct e} : ntarget_kind :=
  if ty_eqb a e || same_nominal a e then NT_same else
  match e with
  | TAny | Unknown => NT_same
  | Optional s => ntarget a s
  | ErrorUnion x p => if fit a x then ntarget a x else ntarget a p
  | Enum u _ => match a with
                | Variant eu _ _ _ _ => if N.eqb eu u then NT_own_enum else NT_cross
                | _ => NT_cross
                end
  | Distinct _ s | Variant _ _ _ s _ =>
      match a, e with
      | Distinct _ _, Distinct _ _ | Variant _ _ _ _ _, Variant _ _ _ _ _ => NT_cross
      | Struct _ _, Variant _ _ _ _ _ =>
          (* the class is empty once the C13-2 fix is in force: then only the same struct
             (possibly wrapped) or an anonymous struct type can be the payload *)
          if fx_feq_uid fx
          then match ntarget a s with NT_cross => NT_cross | NT_payload => NT_payload | _ => NT_wrapper end
          else NT_payload
      | _, _ => match ntarget a s with NT_cross => NT_cross | NT_payload => NT_payload | _ => NT_wrapper end
      end
  | AnonStruct _ => match a with Struct _ _ => NT_structural | _ => NT_cross end
  | _ => NT_cross
  end.

Definition ntarget_code (k : ntarget_kind) : N :=
  match k with NT_same => 0 | NT_own_enum => 1 | NT_structural => 2 | NT_wrapper => 3 | NT_cross => 4 | NT_payload => 5 end.

(* the C13 law on an observed answer: a nominal value accepted => target not NT_cross *)
Definition law_nominal (a e : ty) (fit_ae : bool) : bool :=
  negb (is_nominal a && fit_ae) ||
  match ntarget a e with NT_cross => false | _ => true end.

End WithFixes.
