(* System V AMD64 psABI (section 3.2.3 "Parameter Passing", "Returning of
   Values") for the C types of Common/CAbiTy.v, written from the ABI document
   and from C's layout rules, independently of the compiler's algorithm:
   - C layout: every scalar is naturally aligned, a struct's fields are placed
     at the next multiple of their alignment, sizeof is rounded up to the
     struct's alignment;
   - classification: each eightbyte of an object gets the merge of the classes
     of all scalars that OVERLAP it (INTEGER / SSE / NO_CLASS); objects larger
     than eight eightbytes, or containing unaligned fields, or larger than two
     eightbytes (no vector types exist in this fragment, so post-merger rule
     (c) always applies) are MEMORY;
   - passing: INTEGER eightbytes take the next of %rdi %rsi %rdx %rcx %r8 %r9,
     SSE eightbytes the next of %xmm0-7; if there are not enough registers for
     ALL eightbytes of an argument the whole argument goes to the stack (and the
     registers stay available for later arguments); MEMORY arguments go to the
     stack; stack arguments are pushed in order, each rounded up to 8 bytes;
   - returning: MEMORY -> caller passes a hidden pointer in %rdi (consuming
     it); INTEGER eightbytes -> %rax, %rdx; SSE eightbytes -> %xmm0, %xmm1.
   Register and stack locations use Model.Abi.loc only as a datatype. *)
From Capy Require Import Common.Util Common.CAbiTy Model.Abi.
Open Scope N_scope.

(* ------------------------------------------------------------- C layout *)
Definition c_size_s (s : scalar) : N :=
  match s with
  | I8 | BoolT | CharT => 1      (* char, _Bool *)
  | I16 => 2                     (* short *)
  | I32 | F32 => 4               (* int, float *)
  | I64 | F64 | Ptr | OptPtr => 8 (* long, double, pointers *)
  end.
Definition c_align_s (s : scalar) : N := c_size_s s.

Definition align_up (x a : N) : N := ((x + a - 1) / a) * a.

Fixpoint c_align_f (t : fty) : N :=
  match t with FS s => c_align_s s | FA _ e => c_align_f e end.

Fixpoint c_sizeof_f (t : fty) : N :=
  match t with FS s => c_size_s s | FA n e => n * c_sizeof_f e end.

(* scalar leaves (offset, scalar) of an object placed at [off] *)
Fixpoint c_leaves_f (t : fty) (off : N) : list (N * scalar) :=
  match t with
  | FS s => [(off, s)]
  | FA n e => flat_map (fun k => c_leaves_f e (off + N.of_nat k * c_sizeof_f e)) (seq 0 (N.to_nat n))
  end.

Fixpoint c_struct_leaves (fs : list fty) (cur : N) : list (N * scalar) * N :=
  match fs with
  | [] => ([], cur)
  | f :: r =>
      let o := align_up cur (c_align_f f) in
      let (ls, e) := c_struct_leaves r (o + c_sizeof_f f) in
      (c_leaves_f f o ++ ls, e)
  end.

Definition c_align_struct (fs : list fty) : N := fold_right (fun f m => N.max (c_align_f f) m) 1 fs.

Definition c_leaves (t : aty) : list (N * scalar) :=
  match t with
  | AS s => [(0, s)]
  | AStruct fs => fst (c_struct_leaves fs 0)
  end.

Definition c_sizeof (t : aty) : N :=
  match t with
  | AS s => c_size_s s
  | AStruct fs => align_up (snd (c_struct_leaves fs 0)) (c_align_struct fs)
  end.

(* ------------------------------------------------------- classification *)
Inductive sclass : Type := INTEGER | SSE | NO_CLASS.

Definition sclass_eqb (a b : sclass) : bool :=
  match a, b with
  | INTEGER, INTEGER | SSE, SSE | NO_CLASS, NO_CLASS => true
  | _, _ => false
  end.

Definition class_of_scalar (s : scalar) : sclass :=
  match s with F32 | F64 => SSE | _ => INTEGER end.

(* merge rules (a) (b) (d) (f); (c) and (e) concern MEMORY / X87 which no scalar here has *)
Definition smerge (a b : sclass) : sclass :=
  match a, b with
  | NO_CLASS, x => x
  | x, NO_CLASS => x
  | INTEGER, _ => INTEGER
  | _, INTEGER => INTEGER
  | SSE, SSE => SSE
  end.

Definition overlaps (o sz i : N) : bool := (o <? 8 * (i + 1)) && (8 * i <? o + sz).

Definition eightbyte_class (leaves : list (N * scalar)) (i : N) : sclass :=
  fold_left (fun acc '(o, s) => if overlaps o (c_size_s s) i then smerge acc (class_of_scalar s) else acc)
            leaves NO_CLASS.

(* number of bytes of eightbyte i that carry data (up to the end of the last scalar in it) *)
Definition eightbyte_need (leaves : list (N * scalar)) (i : N) : N :=
  fold_left (fun acc '(o, s) => if overlaps o (c_size_s s) i
                                then N.max acc (N.min 8 (o + c_size_s s - 8 * i)) else acc)
            leaves 0.

Definition unaligned (leaves : list (N * scalar)) : bool :=
  existsb (fun '(o, s) => negb (o mod c_align_s s =? 0)) leaves.

Fixpoint nseq (start : N) (len : nat) : list N :=
  match len with O => [] | S k => start :: nseq (start + 1) k end.

(* None = MEMORY *)
Definition sysv_classify (t : aty) : option (list sclass) :=
  let sz := c_sizeof t in
  let leaves := c_leaves t in
  if (64 <? sz) || unaligned leaves then None
  else
    let n := (sz + 7) / 8 in
    if 2 <? n then None
    else Some (map (eightbyte_class leaves) (nseq 0 (N.to_nat n))).

(* ------------------------------------------------------ passing / returning *)
Definition count_sclass (c : sclass) (l : list sclass) : N :=
  N.of_nat (length (filter (sclass_eqb c) l)).

(* registers for the eightbytes of one argument, starting at eightbyte j *)
Fixpoint reg_pieces (leaves : list (N * scalar)) (cls : list sclass) (j ni ns : N) : list piece :=
  match cls with
  | [] => []
  | INTEGER :: r => (RInt ni, 8 * j, eightbyte_need leaves j) :: reg_pieces leaves r (j + 1) (ni + 1) ns
  | SSE :: r => (RSse ns, 8 * j, eightbyte_need leaves j) :: reg_pieces leaves r (j + 1) ni (ns + 1)
  | NO_CLASS :: r => reg_pieces leaves r (j + 1) ni ns
  end.

Definition data_end (leaves : list (N * scalar)) : N :=
  fold_left (fun acc '(o, s) => N.max acc (o + c_size_s s)) leaves 0.

(* registers for one argument if all its eightbytes fit: pieces and the updated counters *)
Definition sysv_arg_regs (t : aty) (ni ns : N) : option (list piece * N * N) :=
  match sysv_classify t with
  | None => None
  | Some cls =>
      let need_i := count_sclass INTEGER cls in
      let need_s := count_sclass SSE cls in
      if (ni + need_i <=? 6) && (ns + need_s <=? 8)
      then Some (reg_pieces (c_leaves t) cls 0 ni ns, ni + need_i, ns + need_s)
      else None
  end.

Fixpoint sysv_args (ts : list aty) (idx ni ns so : N) : list (N * list piece) :=
  match ts with
  | [] => []
  | t :: r =>
      match sysv_arg_regs t ni ns with
      | Some (ps, ni', ns') => (idx, ps) :: sysv_args r (idx + 1) ni' ns' so
      | None =>
          (* MEMORY class, or not enough registers for all eightbytes: the whole argument
             goes to the stack; the registers stay available for later arguments *)
          (idx, [(Stack so, 0, data_end (c_leaves t))])
            :: sysv_args r (idx + 1) ni ns (so + align_up (c_sizeof t) 8)
      end
  end.

Definition sysv_place (ts : list aty) (ret : rty) : placement :=
  match ret with
  | RVoid => {| pl_sret := false; pl_ret := []; pl_args := sysv_args ts 0 0 0 0 |}
  | RT t =>
      match sysv_classify t with
      | None => {| pl_sret := true; pl_ret := []; pl_args := sysv_args ts 0 1 0 0 |}
      | Some cls => {| pl_sret := false; pl_ret := reg_pieces (c_leaves t) cls 0 0 0;
                      pl_args := sysv_args ts 0 0 0 0 |}
      end
  end.

(* ------------------------------------------------ comparison (the checker) *)
Definition loc_eqb (a b : loc) : bool :=
  match a, b with
  | RInt x, RInt y | RSse x, RSse y | Stack x, Stack y => x =? y
  | _, _ => false
  end.

(* an implementation piece covers a required piece: same location, same object
   offset, at least the required bytes *)
Definition piece_covers (impl spec : piece) : bool :=
  let '(l1, o1, w1) := impl in
  let '(l2, o2, w2) := spec in
  loc_eqb l1 l2 && (o1 =? o2) && (w2 <=? w1).

Fixpoint pieces_cover (impl spec : list piece) : bool :=
  match impl, spec with
  | [], [] => true
  | a :: r, b :: s => piece_covers a b && pieces_cover r s
  | _, _ => false
  end.

Fixpoint args_cover (impl spec : list (N * list piece)) : bool :=
  match impl, spec with
  | [], [] => true
  | (i, a) :: r, (j, b) :: s => (i =? j) && pieces_cover a b && args_cover r s
  | _, _ => false
  end.

Definition placement_covers (impl spec : placement) : bool :=
  Bool.eqb (pl_sret impl) (pl_sret spec) && pieces_cover (pl_ret impl) (pl_ret spec)
  && args_cover (pl_args impl) (pl_args spec).

(* size of the stack copy of a by-value aggregate must be exactly the C size rounded to 8 *)
Fixpoint byval_sizes_ok (ts : list aty) (args : list (passmode * N)) : bool :=
  match ts, args with
  | _, [] => true
  | [], _ :: _ => false
  | t :: r, (Indirect (Some sz), _) :: ar => (sz =? align_up (c_sizeof t) 8) && byval_sizes_ok r ar
  | t :: r, _ :: ar => byval_sizes_ok r ar
  end.

(* the checker used as the direct oracle on an ABI description (model's or the
   real compiler's): it places every value where System V says *)
Definition abi_ok (ts : list aty) (ret : rty) (a : fnabi) : bool :=
  placement_covers (place a) (sysv_place ts ret) && byval_sizes_ok ts (fa_args a).
