(* C08 specification, stated on mathematical integers and independent of the
   model's instruction selection.

   A Capy integer-like type denotes (signedness, width); a bit pattern of that
   type denotes the mathematical integer [decode]; the bit pattern of a
   mathematical result is [encode] (the unique representative modulo 2^width).
   The property statement, operator by operator:
     + - *      wrap modulo 2^width:             encode (x + y) ...
     / %        truncate toward zero:            Z.quot / Z.rem, unspecified for a zero
                                                 divisor and for MIN / -1, MIN % -1
     & | ^ ~    bitwise:                          Z.land / Z.lor / Z.lxor / Z.lnot of the VALUES
                                                 (two's-complement on Z) -- see also the bit-level
                                                 characterisations in Proofs/NumOpsProofs.v
     <<         x * 2^s, wrapped; >> floor (x / 2^s) of the VALUE, i.e. arithmetic for signed and
                logical for unsigned types (shift amount 0 <= s < width, else unspecified)
     < <= > >= == !=   comparison of the VALUES (so they follow the signedness)
     casts      the target's encoding of the source VALUE: sign-extension for signed sources,
                zero-extension for unsigned sources, truncation when narrowing. *)
From Capy Require Import Common.Util Common.Bits Model.NumOps.
Open Scope Z_scope.

(* (signed?, width) of the integer-like Capy types; [None] for floats, weak
   ({int}/{uint}, width 0) and ill-formed widths.  isize/usize (255) are
   64 bits wide on the target the check runs on. *)
Definition int_width (w : N) : option Z :=
  if (w =? 8)%N then Some 8 else if (w =? 16)%N then Some 16 else if (w =? 32)%N then Some 32
  else if (w =? 64)%N then Some 64 else if (w =? 128)%N then Some 128
  else if (w =? 255)%N then Some 64 else None.
Definition ty_sem (t : nty) : option (bool * Z) :=
  match t with
  | TIInt w => option_map (fun z => (true, z)) (int_width w)
  | TUInt w => option_map (fun z => (false, z)) (int_width w)
  | TBool | TChar => Some (false, 8)
  | TFloat _ => None
  end.

Definition decode (s : bool) (w bits : Z) : Z := if s then signed w bits else bits.
Definition encode (w v : Z) : Z := wrap w v.
Definition tmin (s : bool) (w : Z) : Z := if s then smin w else 0.
Definition tmax (s : bool) (w : Z) : Z := if s then smax w else umax w.
Definition fits (s : bool) (w v : Z) : bool := (tmin s w <=? v) && (v <=? tmax s w).

(* mathematical result of a binary operator on VALUES x y of a type (s, w);
   [None] = the statement says nothing (excluded operands) *)
Definition binop_math (s : bool) (w : Z) (op : binop) (x y : Z) : option Z :=
  match op with
  | OpAdd => Some (x + y)
  | OpSub => Some (x - y)
  | OpMul => Some (x * y)
  | OpDiv => if (y =? 0) || ((x =? tmin s w) && (y =? -1)) then None else Some (Z.quot x y)
  | OpMod => if (y =? 0) || ((x =? tmin s w) && (y =? -1)) then None else Some (Z.rem x y)
  | OpBAnd => Some (Z.land x y)
  | OpBOr => Some (Z.lor x y)
  | OpXor => Some (Z.lxor x y)
  | OpLShift => if (0 <=? y) && (y <? w) then Some (x * 2 ^ y) else None
  | OpRShift => if (0 <=? y) && (y <? w) then Some (x / 2 ^ y) else None
  | OpLt => Some (b2z (x <? y))
  | OpGt => Some (b2z (y <? x))
  | OpLe => Some (b2z (x <=? y))
  | OpGe => Some (b2z (y <=? x))
  | OpEq => Some (b2z (x =? y))
  | OpNe => Some (b2z (negb (x =? y)))
  | OpLAnd => Some (if x =? 0 then 0 else if y =? 0 then 0 else 1)
  | OpLOr => Some (if x =? 0 then (if y =? 0 then 0 else 1) else 1)
  end.

Definition is_compare (op : binop) : bool :=
  match op with OpLt | OpGt | OpLe | OpGe | OpEq | OpNe | OpLAnd | OpLOr => true | _ => false end.

(* expected result: Cranelift type width and bit pattern *)
Definition spec_binop (t : nty) (op : binop) (a b : Z) : option (Z * Z) :=
  match ty_sem t with
  | None => None
  | Some (s, w) =>
      match binop_math s w op (decode s w a) (decode s w b) with
      | None => None
      | Some r => if is_compare op then Some (8, encode 8 r) else Some (w, encode w r)
      end
  end.

Definition unop_math (op : unop) (x : Z) : Z :=
  match op with
  | UPos => x
  | UNeg => - x
  | UBNot => Z.lnot x
  | ULNot => b2z (x =? 0)
  end.
Definition spec_unop (t : nty) (op : unop) (a : Z) : option (Z * Z) :=
  match ty_sem t with
  | None => None
  | Some (s, w) =>
      let r := unop_math op (decode s w a) in
      match op with ULNot => Some (8, encode 8 r) | _ => Some (w, encode w r) end
  end.

(* casts between integer-like types: the target's encoding of the source value *)
Definition spec_cast (from to : nty) (a : Z) : option (Z * Z) :=
  match ty_sem from, ty_sem to with
  | Some (s1, w1), Some (s2, w2) => Some (w2, encode w2 (decode s1 w1 a))
  | _, _ => None
  end.

(* The narrow class of casts the unchanged code generator gets wrong
   (finding C08-1): signed source, strictly wider unsigned target. *)
Definition known_cast_class (from to : nty) : option N :=
  match ty_sem from, ty_sem to with
  | Some (true, w1), Some (false, w2) => if w1 <? w2 then Some 1%N else None
  | _, _ => None
  end.

(* Binary operators the unchanged compiler cannot compile at all (finding
   C08-4): / and % at i128/u128 (Cranelift's x64 backend has no lowering). *)
Definition known_binop_class (t : nty) (op : binop) : option N :=
  match ty_sem t, op with
  | Some (_, w), (OpDiv | OpMod) => if w =? 128 then Some 4%N else None
  | _, _ => None
  end.

(* the fourteen integer-like types of the statement *)
Definition all_int_tys : list nty :=
  [TIInt 8; TIInt 16; TIInt 32; TIInt 64; TIInt 128; TIInt 255;
   TUInt 8; TUInt 16; TUInt 32; TUInt 64; TUInt 128; TUInt 255; TBool; TChar].

(* binary operator on operands of possibly different types: both are converted
   (cast specification) to the common type the language prescribes (Ty::max,
   taken from the model), then the operator specification applies there *)
Definition spec_binary (l r : nty) (op : binop) (a b : Z) : option (Z * Z) :=
  match ty_max l r with
  | None => None
  | Some m =>
      match spec_cast l m a, spec_cast r m b with
      | Some (_, a'), Some (_, b') => spec_binop m op a' b'
      | _, _ => None
      end
  end.
