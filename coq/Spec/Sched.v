(* Abstract scheduler: the specification the TopoSort model is proved to refine.
   Independent of TopoSort's counters and reverse-edge sets: the state is just
   which items are pending (in registration order), which completed, and which
   "x waits on c" registrations were made. *)
From Capy Require Import Common.Util Model.Topo.

Record sched := mkSched {
  pending : list item;            (* registration (insertion) order *)
  done    : list item;            (* completed items, most recent first *)
  waits   : list (item * item)    (* (x, c): x registered a dependency on c *)
}.

Definition pair_eqb (a b : item * item) : bool := N.eqb (fst a) (fst b) && N.eqb (snd a) (snd b).
Definition memp (w : item * item) (l : list (item * item)) : bool := existsb (pair_eqb w) l.

(* x is ready iff every dependency it registered has completed *)
Definition readyb (s : sched) (x : item) : bool :=
  forallb (fun w => implb (N.eqb (fst w) x) (memb (snd w) (done s))) (waits s).
Definition ready (s : sched) : list item := filter (readyb s) (pending s).

(* what a scheduling round offers: the ready items; if there are none, all
   pending items (cycle-breaking round) *)
Definition offer (s : sched) : list item :=
  match ready s with [] => pending s | r => r end.

Definition add_pending (l : list item) (x : item) : list item := if memb x l then l else l ++ [x].
Definition add_wait (l : list (item * item)) (w : item * item) := if memp w l then l else l ++ [w].

Definition a_seed (xs : list item) : sched := mkSched (fold_left add_pending xs []) [] [].

Definition a_complete (s : sched) (x : item) : sched :=
  mkSched (filter (fun y => negb (N.eqb y x)) (pending s)) (x :: done s) (waits s).

Definition a_reg1 (s : sched) (x c : item) : sched :=
  mkSched (add_pending (add_pending (pending s) c) x) (done s) (add_wait (waits s) (x, c)).

Definition a_register (s : sched) (x : item) (ds : list item) : sched :=
  fold_left (fun s c => a_reg1 s x c) ds s.

Definition a_event (s : sched) (e : event) : sched :=
  match snd e with
  | Complete => a_complete s (fst e)
  | Register ds => a_register s (fst e) ds
  end.

Definition a_round (s : sched) (r : round) : sched := fold_left a_event r s.
Definition a_run (s : sched) (h : list round) : sched := fold_left a_round h s.

(* ---- the usage protocol of the client (hypothesis of the theorems) --------------- *)
(* An event is legal when its actor is pending and every dependency it registers
   has not completed ("registers dependencies on not-yet-completed items"). *)
Definition event_okb (s : sched) (e : event) : bool :=
  memb (fst e) (pending s) &&
  match snd e with
  | Complete => true
  | Register ds => forallb (fun c => negb (memb c (done s))) ds
  end.

Fixpoint round_okb (s : sched) (r : round) : bool :=
  match r with
  | [] => true
  | e :: r' => event_okb s e && round_okb (a_event s e) r'
  end.

Fixpoint usage_okb (s : sched) (h : list round) : bool :=
  match h with
  | [] => true
  | r :: h' => round_okb s r && usage_okb (a_round s r) h'
  end.

(* The full protocol of `finish`: additionally, the actors of a round are exactly
   the offered items, each once (in offer order when the round is not a
   cycle-breaking one; `finish` sorts the cyclic list). *)
Fixpoint nodupb (l : list item) : bool :=
  match l with [] => true | x :: r => negb (memb x r) && nodupb r end.
Definition same_setb (a b : list item) : bool :=
  Nat.eqb (length a) (length b) && forallb (fun x => memb x b) a && nodupb a.
Fixpoint list_eqb (a b : list item) : bool :=
  match a, b with
  | [], [] => true
  | x :: a', y :: b' => N.eqb x y && list_eqb a' b'
  | _, _ => false
  end.
Definition actors_okb (s : sched) (r : round) : bool :=
  match ready s with
  | [] => same_setb (map fst r) (pending s)
  | rd => list_eqb (map fst r) rd
  end.

Fixpoint protocol_okb (s : sched) (h : list round) : bool :=
  match h with
  | [] => true
  | r :: h' => actors_okb s r && round_okb s r && protocol_okb (a_round s r) h'
  end.

(* bookkeeping used by the statements *)
Definition completed_of_round (r : round) : list item :=
  map fst (filter (fun e => match snd e with Complete => true | _ => false end) r).
Definition completed_of (h : list round) : list item := flat_map completed_of_round h.
Definition registered_of_round (r : round) : list item :=
  flat_map (fun e => match snd e with Complete => [] | Register ds => ds end) r.
Definition registered_of (h : list round) : list item := flat_map registered_of_round h.
