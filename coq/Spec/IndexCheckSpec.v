(* C10 — specification side: what indexing and #unwrap MEAN, independent of addresses,
   strides, casts and generated code.

   [lookup]: value-level semantics of `a[i1]..[ik]` on an abstract value (no memory): pointers
   are followed silently, every array/slice level is checked against its own number of
   elements, outermost first, after the index expression's side effect; the first index
   outside [0, len) aborts with that level's message.
   [walk]: the same for nested fixed arrays laid out at an address (used by theorem
   nested_levels).
   [known_class]: the narrow syntactic classes of inputs on which the unchanged compiler is
   known to violate C10. *)
From Capy Require Import Common.Util Model.IndexCheck.
Open Scope Z_scope.

(* ------------------------------------------------------------------ value-level semantics *)
Inductive aval :=
| AInt (id : Z)                               (* a scalar, identified by [id] *)
| AArr (is_slice : bool) (elems : list aval)
| APtr (target : aval).

Inductive obs :=
| OMark (n : N)                               (* side effect of an index expression *)
| OAbort (slice : bool)                       (* "array|slice index out of bounds", exit 1 *)
| OFound (id : Z).                            (* the scalar designated by the path *)

Fixpoint nth_z {A} (l : list A) (i : Z) : option A :=
  match l with
  | [] => None
  | x :: r => if i =? 0 then Some x else nth_z r (i - 1)
  end.

Fixpoint strip_aptr (fuel : nat) (v : aval) : aval :=
  match fuel, v with
  | S f, APtr t => strip_aptr f t
  | _, _ => v
  end.

Fixpoint aval_depth (v : aval) : nat :=
  match v with
  | APtr t => S (aval_depth t)
  | _ => O
  end.

Definition omark (mk : option N) : list obs :=
  match mk with Some n => [OMark n] | None => [] end.

(* path: per level the index expression's marker and its integer value *)
Fixpoint lookup (v : aval) (path : list (option N * Z)) : result (list obs) :=
  match path with
  | [] => match strip_aptr (aval_depth v) v with
          | AInt id => Ok [OFound id]
          | _ => Ok []                         (* an aggregate: only its address is taken *)
          end
  | (mk, i) :: r =>
    match strip_aptr (aval_depth v) v with
    | AArr sl elems =>
      if (0 <=? i) && (i <? Z.of_nat (length elems)) then
        match nth_z elems i with
        | Some x => do o <- lookup x r; Ok (omark mk ++ o)
        | None => Crash 1                      (* impossible: i < length *)
        end
      else Ok (omark mk ++ [OAbort sl])
    | _ => Crash 2                             (* indexing a non-array: rejected by hir_ty *)
    end
  end.

(* ------------------------------------------------------------------ nested fixed arrays *)
Definition idx := (ity * option N * Z)%type.

Fixpoint chain (e : expr) (ix : list idx) : expr :=
  match ix with
  | [] => e
  | (it, mk, iv) :: r => chain (EIndex e it mk iv) r
  end.

(* reference walk: trace of markers / fail block, and the designated (address, type) *)
Fixpoint walk (t : ty) (addr : Z) (ix : list idx) {struct ix} : trace * option (Z * ty) :=
  match ix with
  | [] => ([], Some (addr, t))
  | (it, mk, iv) :: r =>
    match t with
    | TArr n u =>
      if ival it iv <? n
      then let (tr, o) := walk u (addr + ival it iv * stride u) r in (marker mk ++ tr, o)
      else (marker mk ++ fail_block MArrayOob, None)
    | _ => ([], None)
    end
  end.

Definition walk_result (rd : Z -> Z) (nl : bool) (w : trace * option (Z * ty)) : trace * outcome :=
  match w with
  | (tr, None) => (tr, Aborted)
  | (tr, Some (a, et)) =>
    if nl || is_aggregate et then (tr, Val (Some a))
    else (tr ++ [Load a (stride et)], Val (Some (rd a)))
  end.

(* side conditions on the path: it stays inside nested fixed arrays, indexes are unsigned,
   at most 64 bits wide and well-formed bit patterns; the designated element has a size *)
Fixpoint shape_ok (t : ty) (ix : list idx) {struct ix} : Prop :=
  match ix with
  | [] => 0 < stride t
  | (it, mk, iv) :: r =>
    match t with
    | TArr n u =>
      isigned it = false /\ ibits it <= 64 /\ 0 <= iv < 2 ^ ibits it /\ 0 <= n < two64 /\
      shape_ok u r
    | _ => False
    end
  end.

(* ------------------------------------------------------------------ known failing classes *)
Inductive known := KWideIndex | KZeroSizedElem.

Definition known_class (it : ity) (et : ty) : option known :=
  if is_zero_sized et then Some KZeroSizedElem
  else if 64 <? ibits it then Some KWideIndex
  else None.

(* enum declarations whose automatic discriminants leave the 8-bit tag *)
Definition discrims_overflow (ds : list N) : bool := existsb (fun d => (256 <=? d)%N) ds.

(* the classes that remain once the fix candidates are applied (fw: C10-1, fz: C10-2);
   [known_class_f false false = known_class], [known_class_f true true] is always None *)
Definition known_class_f (fw fz : bool) (it : ity) (et : ty) : option known :=
  if negb fz && is_zero_sized et then Some KZeroSizedElem
  else if negb fw && (64 <? ibits it) then Some KWideIndex
  else None.
