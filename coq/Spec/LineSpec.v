(* C25 specification, independent of the line-start table. *)
From Capy Require Import Common.Util.

Definition NL : N := 10%N.

(* number of newlines among the first [off] bytes *)
Fixpoint count_nl (l : list N) : nat :=
  match l with [] => 0 | b :: r => (if N.eqb b NL then 1 else 0) + count_nl r end.
Definition line_spec (txt : list N) (off : nat) : nat := count_nl (firstn off txt).

(* start of the line containing [off]: position just after the last newline
   strictly before [off], or 0 *)
Fixpoint last_start (pos cur : nat) (pre : list N) : nat :=
  match pre with
  | [] => cur
  | b :: r => last_start (S pos) (if N.eqb b NL then S pos else cur) r
  end.
Definition line_start_spec (txt : list N) (off : nat) : nat := last_start 0 0 (firstn off txt).
Definition col_spec (txt : list N) (off : nat) : nat := off - line_start_spec txt off.

(* Declarative reading of line_start_spec, used to validate the spec itself. *)
Definition IsLineStart (txt : list N) (off s : nat) : Prop :=
  s <= off /\
  (s = 0 \/ exists k, s = S k /\ nth_error txt k = Some NL) /\
  (forall k, s <= k -> k < off -> nth_error txt k <> Some NL).
