(* C03 — specification: what defers must do, independent of the compiler's
   defer-stack algorithm and of its label resolution.

   [exec] is a big-step semantics of the SOURCE statement language (named
   labels).  A block keeps the list of the defers it has reached; whichever way
   control leaves the block (falling off the end, break, continue, return,
   .try) exactly those defers run, most recently reached first, exactly once,
   and then the outcome travels on to the enclosing construct.  Jumps are not
   resolved statically: an outcome `OBreak l` travels outwards until a construct
   catches it (dynamic formulation of "innermost matching scope").

   [hexec] is the same semantics for the HIR (jumps carry scope ids); it is the
   intermediate specification used to split the proof in two (label resolution
   / defer algorithm). *)
From Capy Require Import Common.Util Model.Defer.

Inductive sout : Type :=
| ONormal
| OBreak (l : option name)
| OContinue (l : option name)
| OReturn.

Definition is_some {A} (o : option A) : bool := match o with Some _ => true | None => false end.

Definition name_is (n : name) (lbl : option name) : bool :=
  match lbl with Some m => N.eqb m n | None => false end.

(* which `break`s stop at a construct labelled [lbl]:
   `break;` leaves the innermost loop or NAMED block, `break `n;` the innermost
   construct named n *)
Definition catches_break (is_loop : bool) (lbl : option name) (l : option name) : bool :=
  match l with
  | None => is_loop || is_some lbl
  | Some n => name_is n lbl
  end.

(* `continue;` restarts the innermost loop, `continue `n;` the innermost loop named n *)
Definition catches_continue (lbl : option name) (l : option name) : bool :=
  match l with
  | None => true
  | Some n => name_is n lbl
  end.

(* A statement list of one block.  [pend]: defers reached so far, most recent
   first.  Leaving the block -- by any path -- emits exactly [pend]. *)
Definition exec_list (f : stmt -> oracle -> result (trace * oracle * sout))
  : list N -> list stmt -> oracle -> result (trace * oracle * sout) :=
  fix go (pend : list N) (ss : list stmt) (o : oracle) {struct ss} :=
  match ss with
  | [] => Ok (pend, o, ONormal)
  | s :: r =>
      match s with
      | SDefer d => go (flat d ++ pend) r o
      | _ =>
        do x <- f s o;
        let '(t1, o1, out) := x in
        match out with
        | ONormal => do y <- go pend r o1;
                     let '(t2, o2, out2) := y in Ok (t1 ++ t2, o2, out2)
        | _ => Ok (t1 ++ pend, o1, out)
        end
      end
  end.

Fixpoint exec (fuel : nat) (s : stmt) (o : oracle) {struct s} : result (trace * oracle * sout) :=
  match s with
  | SPrint c => Ok ([c], o, ONormal)
  | SDefer c => Crash 1                            (* only meaningful inside a block: see exec_list *)
  | SBreak l => Ok ([], o, OBreak l)
  | SContinue l => Ok ([], o, OContinue l)
  | SReturn => Ok ([], o, OReturn)
  | STry _ => let '(c0, o0) := next o in Ok ([], o0, if c0 then OReturn else ONormal)
  | SBlock lbl body =>
      do x <- exec_list (exec fuel) [] body o;
      let '(t, o1, out) := x in
      match out with
      | OBreak l => Ok (t, o1, if catches_break false lbl l then ONormal else out)
      | _ => Ok (t, o1, out)
      end
  | SLoop lbl cond body =>
      (fix iter (n : nat) (o : oracle) {struct n} : result (trace * oracle * sout) :=
         match n with
         | O => OutOfFuel
         | S n' =>
             let '(go, o0) := if cond then next o else (true, o) in
             if negb go then Ok ([], o0, ONormal)
             else
               do x <- exec_list (exec fuel) [] body o0;
               let '(t1, o1, out) := x in
               let again := match out with
                            | ONormal => Some true
                            | OBreak l => if catches_break true lbl l then Some false else None
                            | OContinue l => if catches_continue lbl l then Some true else None
                            | OReturn => None
                            end in
               match again with
               | Some true => do y <- iter n' o1;
                              let '(t2, o2, out2) := y in Ok (t1 ++ t2, o2, out2)
               | Some false => Ok (t1, o1, ONormal)
               | None => Ok (t1, o1, out)
               end
         end) fuel o
  | SIf a b =>
      let '(c0, o0) := next o in
      exec_list (exec fuel) [] (if c0 then a else b) o0
  end.

(* a function body; an unlabelled break outside any loop / named block returns
   (the compiler warns); a jump to an unknown label is not a valid program *)
Definition exec_fn (fuel : nat) (body : list stmt) (o : oracle) : result trace :=
  do x <- exec_list (exec fuel) [] body o;
  let '(t, _, out) := x in
  match out with
  | ONormal | OReturn | OBreak None => Ok t
  | _ => Crash 11
  end.

(* ------------------------------------------------------------ HIR level *)
Definition hexec_list (f : hstmt -> oracle -> result (trace * oracle * tout))
  : list N -> list hstmt -> oracle -> result (trace * oracle * tout) :=
  fix go (pend : list N) (hs : list hstmt) (o : oracle) {struct hs} :=
  match hs with
  | [] => Ok (pend, o, TNormal)
  | h :: r =>
      match h with
      | HDefer cs => go (cs ++ pend) r o
      | _ =>
        do x <- f h o;
        let '(t1, o1, out) := x in
        match out with
        | TNormal => do y <- go pend r o1;
                     let '(t2, o2, out2) := y in Ok (t1 ++ t2, o2, out2)
        | _ => Ok (t1 ++ pend, o1, out)
        end
      end
  end.

Fixpoint hexec (fuel : nat) (h : hstmt) (o : oracle) {struct h} : result (trace * oracle * tout) :=
  match h with
  | HPrint c => Ok ([c], o, TNormal)
  | HDefer c => Crash 1
  | HBreak None => Crash 2
  | HBreak (Some l) => Ok ([], o, TExit l)
  | HContinue None => Crash 3
  | HContinue (Some l) => Ok ([], o, THeader l)
  | HTry _ None => Crash 4
  | HTry _ (Some l) => let '(c0, o0) := next o in Ok ([], o0, if c0 then TExit l else TNormal)
  | HBlock sid body =>
      do x <- hexec_list (hexec fuel) [] body o;
      let '(t, o1, out) := x in
      match out with
      | TExit id => Ok (t, o1, if opt_is id sid then TNormal else out)
      | THeader id => if opt_is id sid then Crash 12 (* continue to a block *) else Ok (t, o1, out)
      | _ => Ok (t, o1, out)
      end
  | HLoop sid cond body =>
      (fix iter (n : nat) (o : oracle) {struct n} : result (trace * oracle * tout) :=
         match n with
         | O => OutOfFuel
         | S n' =>
             let '(go, o0) := if cond then next o else (true, o) in
             if negb go then Ok ([], o0, TNormal)
             else
               do x <- hexec_list (hexec fuel) [] body o0;
               let '(t1, o1, out) := x in
               let again := match out with
                            | TNormal => Some true
                            | TExit id => if opt_is id sid then Some false else None
                            | THeader id => if opt_is id sid then Some true else None
                            end in
               match again with
               | Some true => do y <- iter n' o1;
                              let '(t2, o2, out2) := y in Ok (t1 ++ t2, o2, out2)
               | Some false => Ok (t1, o1, TNormal)
               | None => Ok (t1, o1, out)
               end
         end) fuel o
  | HIf a b =>
      let '(c0, o0) := next o in
      hexec_list (hexec fuel) [] (if c0 then a else b) o0
  end.

Definition hexec_fn (fuel : nat) (h : hstmt) (o : oracle) : result trace :=
  do x <- hexec fuel h o;
  let '(t, _, out) := x in
  match out with TNormal => Ok t | _ => Crash 9 end.

(* ------------------------------------------------- known defect classes
   Syntactic classifier of the HIR programs on which the UNCHANGED compiler is
   known to get defers wrong (findings C03-1..3).  [cx] is the static context:
   the enclosing blocks (with: do they have a pending defer at this point?) and
   loops, innermost first. *)
Inductive centry : Type :=
| CFrame (sid : option N) (pending : bool)
| CLoop (sid : option N).

Definition centry_pending (e : centry) : bool :=
  match e with CFrame _ p => p | CLoop _ => false end.

(* K1 "break-out-of-loop-with-outer-defers": an exit jump whose target is a loop
   while a block enclosing that loop has a pending defer.
   (an exit jump to an id that is not in scope is also flagged) *)
Fixpoint k1_at (cx : list centry) (id : N) : bool :=
  match cx with
  | [] => true
  | CLoop sid :: r => if opt_is id sid then existsb centry_pending r else k1_at r id
  | CFrame sid _ :: r => if opt_is id sid then false else k1_at r id
  end.

(* K2 "continue-with-pending-defers": a continue while a block inside the loop
   has a pending defer (a continue to something that is not a loop in scope is
   also flagged) *)
Fixpoint k2_at (cx : list centry) (id : N) : bool :=
  match cx with
  | [] => true
  | CLoop sid :: r => if opt_is id sid then false else k2_at r id
  | CFrame sid p :: r => if opt_is id sid then true else p || k2_at r id
  end.

(* K3 "jump-to-block-with-later-defers": in the statement list of the block with
   scope id [id], a defer that comes after a statement containing a jump to [id]
   (statements after a direct break/continue are not compiled) *)
Fixpoint late_defer (id : N) (seen : bool) (hs : list hstmt) : bool :=
  match hs with
  | [] => false
  | HDefer _ :: r => seen || late_defer id seen r
  | h :: r => if is_jump_stmt h then false else late_defer id (seen || uses id h) r
  end.

Definition k3_block (sid : option N) (hs : list hstmt) : bool :=
  match sid with Some id => late_defer id false hs | None => false end.

Definition or3 (a b : bool * bool * bool) : bool * bool * bool :=
  let '(a1, a2, a3) := a in let '(b1, b2, b3) := b in (a1 || b1, a2 || b2, a3 || b3).

Definition kc_list (f : list centry -> hstmt -> bool * bool * bool) (sid : option N) (cx : list centry)
  : bool -> list hstmt -> bool * bool * bool :=
  fix go (pend : bool) (hs : list hstmt) {struct hs} :=
  match hs with
  | [] => (false, false, false)
  | h :: r =>
      match h with
      | HDefer cs => go (pend || negb (match cs with [] => true | _ => false end)) r
      | _ => let x := f (CFrame sid pend :: cx) h in
             if is_jump_stmt h then x else or3 x (go pend r)
      end
  end.

Fixpoint kc (cx : list centry) (h : hstmt) {struct h} : bool * bool * bool :=
  match h with
  | HPrint _ | HDefer _ => (false, false, false)
  | HBreak (Some l) | HTry _ (Some l) => (k1_at cx l, false, false)
  | HContinue (Some l) => (false, k2_at cx l, false)
  | HBreak None | HContinue None | HTry _ None => (false, false, false)
  | HBlock sid body =>
      or3 (false, false, k3_block sid body) (kc_list (fun c x => kc c x) sid cx false body)
  | HLoop sid _ body => kc_list (fun c x => kc c x) None (CLoop sid :: cx) false body
  | HIf a b => or3 (kc_list (fun c x => kc c x) None cx false a) (kc_list (fun c x => kc c x) None cx false b)
  end.

(* the three class flags of a lowered function body *)
Definition known_classes (h : hstmt) : bool * bool * bool := kc [] h.
Definition known_class_free (h : hstmt) : bool :=
  let '(a, b, c) := known_classes h in negb (a || b || c).
