(* C22 specification: what a correct token sequence for a text is.
   Shares with the model only the token kind type, the character classes and the
   literal tables of tokenizer.txt; the recognisers below are whole-token
   predicates written independently of the model's longest-prefix matchers. *)
From Capy Require Import Common.Util Model.UnicodeNd Model.Lexer.
Open Scope N_scope.

(* cut the code points lying in byte range [pos, stop) off the front of l;
   None if stop is not a character boundary of l (or lies before pos / past the end) *)
Fixpoint cut (pos stop : N) (l : list cp) : option (list cp * list cp) :=
  match l with
  | [] => if N.eqb pos stop then Some ([], []) else None
  | c :: r =>
      if N.eqb pos stop then Some ([], l)
      else if N.ltb stop pos then None
      else match cut (pos + utf8_len c) stop r with
           | Some (a, b) => Some (c :: a, b)
           | None => None
           end
  end.

(* split at the first element satisfying p *)
Fixpoint break_at (p : cp -> bool) (l : list cp) : list cp * option (list cp) :=
  match l with
  | [] => ([], None)
  | c :: r => if p c then ([], Some r)
              else let '(a, b) := break_at p r in (c :: a, b)
  end.

Definition digits_run (t : list cp) : bool :=
  match t with c :: r => andb (is_digit c) (forallb is_du r) | [] => false end.

(* rule Int *)
Definition int_ok (t : list cp) : bool :=
  match break_at is_e t with
  | (a, None) => digits_run a
  | (a, Some b) => andb (digits_run a) (digits_run b)
  end.

(* rule Float *)
Definition float_ok (t : list cp) : bool :=
  match break_at (N.eqb 46) t with
  | (_, None) => false
  | (a, Some b) =>
      andb (match a with [] => true | _ => digits_run a end)
           (match break_at is_e b with
            | (m, None) => digits_run m
            | (m, Some x) =>
                andb (digits_run m)
                     (match x with
                      | s :: y => if is_sign s then digits_run y else digits_run x
                      | [] => false
                      end)
            end)
  end.

Definition prefixed_ok (marker : cp) (p : cp -> bool) (t : list cp) : bool :=
  match t with
  | z :: x :: (d :: _) as r => andb (andb (N.eqb z 48) (N.eqb x marker)) (forallb p r)
  | _ => false
  end.

Definition first_chars (tbl : list (list cp)) : list cp :=
  flat_map (fun t => match t with c :: _ => [c] | [] => [] end) tbl.

(* a code point that starts at least one token of the grammar *)
Definition can_start (c : cp) : bool :=
  orb (is_ws c) (orb (N.eqb c 160) (orb (is_alpha_ c) (orb (is_digit c)
      (orb (existsb (N.eqb c) (first_chars puncts)) (orb (N.eqb c 34) (N.eqb c 39)))))).

Definition kind_ok (k : kind) (t : list cp) : bool :=
  match k with
  | KWhitespace => match t with [] => false | _ => forallb is_ws t end
  | KNbsp => list_eqb t [160]
  | KKeyword w => andb (list_eqb t w) (mem_list w keywords)
  | KBool => mem_list t bools
  | KIdent => match t with
              | c :: r => andb (andb (is_alpha_ c) (forallb is_ident_cont r))
                               (negb (orb (mem_list t keywords) (mem_list t bools)))
              | [] => false
              end
  | KFloat => float_ok t
  | KInt => int_ok t
  | KHex => prefixed_ok 120 is_hex t
  | KBin => prefixed_ok 98 is_bin t
  | KPunct w => andb (list_eqb t w) (mem_list w puncts)
  | KSingleQuote => list_eqb t [39]
  | KDoubleQuote => list_eqb t [34]
  | KEscape => match t with [b; c] => andb (N.eqb b 92) (negb (N.eqb c 10)) | _ => false end
  | KStringContents => match t with
                       | [] => false
                       | _ => forallb (fun c => andb (negb (N.eqb c 92)) (negb (N.eqb c 10))) t
                       end
  | KCommentLeader => list_eqb t [47; 47]
  | KCommentContents => forallb not_nl t
  | KError => match t with [c] => negb (can_start c) | _ => false end
  end.

(* tokens are contiguous from [pos], each boundary is a character boundary,
   each kind agrees with its text, and the last token ends at [endp] with
   nothing left over *)
Fixpoint toks_ok (pos : N) (l : list cp) (toks : list (kind * N)) (endp : N) : bool :=
  match toks with
  | [] => andb (N.eqb pos endp) (match l with [] => true | _ => false end)
  | (k, s) :: rest =>
      andb (N.eqb s pos)
           (let stop := match rest with (_, s') :: _ => s' | [] => endp end in
            match cut pos stop l with
            | Some (text, l') => andb (kind_ok k text) (toks_ok stop l' rest endp)
            | None => false
            end)
  end.

Definition lex_ok (txt : list cp) (toks : list (kind * N)) (endp : N) : bool :=
  andb (N.eqb endp (byte_len txt)) (toks_ok 0 txt toks endp).
