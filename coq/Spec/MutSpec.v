(* C14 specification: type-directed place mutability.

   [place pk p] classifies the storage an access path denotes:
     Mut    mutable storage: a `:=` local, or anything reached through a `^mut` pointer
     Immut  immutable data: a `::` local, a parameter, a global, or anything reached
            through a `^` pointer — the property says writes to these are always rejected
     Temp   not a place of the program's data (a call result, a cast, a literal, `^x`
            itself ...); whether such an assignment is accepted is outside the property.
   A dereference (explicit `p^`, or the auto-dereference of `p.f` / `p[i]` when p is a
   pointer) is decided by the pointer TYPE of p alone, never by how p was computed. *)
From Capy Require Import Common.Util Model.Mutability.

Inductive place_kind : Type := Mut | Immut | Temp.

Section Spec.
Variable pk : path -> option bool.
Variable deep : path -> list bool.   (* further pointer levels, auto-dereferenced by `.f` / `[i]` *)

(* the access path of p already went through an immutable pointer *)
Fixpoint via_immut (e : path) : bool :=
  match e with
  | PDeref p =>
      (match pk p with Some false => true | _ => false end) || via_immut p
  | PField p _ | PIndex p =>
      (match pk p with Some false => true | _ => false end) || deep_immut pk deep p || via_immut p
  | PParen p | PUnwrap p | PBlock p => via_immut p
  | _ => false
  end.

(* A write through a `^mut` pointer that was itself reached through a `^` pointer
   (`r : ^ ^mut i32;  r^^ = 1`) is left unspecified (Temp): the property statement both
   rejects "anything reached through an immutable pointer" and accepts writes "through
   ^mut pointers". *)
Definition through (p : path) (otherwise : place_kind) : place_kind :=
  match pk p with
  | Some true => if via_immut p then Temp else Mut
  | Some false => Immut
  | None => otherwise
  end.

(* `p.f` / `p[i]` auto-dereference every pointer level of p: one immutable level suffices *)
Definition through_auto (p : path) (otherwise : place_kind) : place_kind :=
  match pk p with
  | Some true => if deep_immut pk deep p then Immut else if via_immut p then Temp else Mut
  | Some false => Immut
  | None => otherwise
  end.

Fixpoint place (e : path) : place_kind :=
  match e with
  | PLocal _ mutable _ => if mutable then Mut else Immut
  | PParam _ => Immut
  | PGlobal _ => Immut
  | PDeref p => through p Temp                (* deref of a non-pointer is a type error *)
  | PField p _ => through_auto p (place p)
  | PIndex p => through_auto p (place p)
  | PParen p => place p
  | PUnwrap p => place p
  | PBlock p => place p
  | PRef _ _ | PCall _ | PCast _ | PLit | POther _ => Temp
  end.

(* ---- well-typedness facts about the oracle (hypothesis of the full statement) -------- *)
Definition same_pk (a b : option bool) : bool :=
  match a, b with
  | Some x, Some y => Bool.eqb x y
  | None, None => true
  | _, _ => false
  end.

(* only pointers are dereferenced, `^mut e` / `^e` has the pointer type it says, parens,
   blocks and unannotated locals have the type of what they contain *)
Fixpoint typed (e : path) : bool :=
  match e with
  | PLocal _ _ (Some v) => typed v
  | PLocal _ _ None => true
  | PDeref p => (match pk p with Some _ => true | None => false end) && typed p
  | PParen p | PBlock p => same_pk (pk e) (pk p) && typed p
  | PField p _ | PIndex p | PUnwrap p => typed p
  | PRef m p => same_pk (pk e) (Some m) && typed p
  | _ => true
  end.

(* ---- the class on which get_mutability is NOT type-directed ------------------------- *)
(* [suspect e d] = true when, walking like the code does with deref flag d, one of the
   arms is reached whose answer is not determined by the pointer type of e:
   - `p.f` / `p[i]` auto-dereferencing a pointer to an IMMUTABLE pointer (only the outermost level
     is looked at)
   - a second dereference, an index or an #unwrap under deref: the flag is handed to
     the container / outer pointer, whose pointer type is unrelated to the one of the
     element / inner pointer that is actually written through
   - `Expr::Call if deref => Mutable` although the call returns `^T`
   - `Expr::Local if deref`: the initialiser expression is inspected instead of the
     local's type (differs when an annotation weakens `^mut` to `^`; no initialiser)
   - a global, a literal or any other expression of pointer type under deref. *)
Fixpoint suspect (e : path) (deref : bool) {struct e} : bool :=
  match e with
  | PDeref p => if deref then true else suspect p true
  | PIndex p =>
      if deref then true
      else deep_immut pk deep p || suspect p (match pk p with Some _ => true | None => false end)
  | PUnwrap p => if deref then true else suspect p false
  | PBlock p | PParen p =>
      if deref then negb (same_pk (pk e) (pk p)) || suspect p true else suspect p false
  | PLocal _ _ init =>
      if deref then
        match init with
        | Some v => negb (same_pk (pk e) (pk v)) || suspect v true
        | None => true
        end
      else false
  | PField p _ =>
      if deref then (match pk e with None => true | Some _ => false end)
      else deep_immut pk deep p || suspect p (match pk p with Some _ => true | None => false end)
  | PCall _ | PLit => if deref then negb (same_pk (pk e) (Some true)) else false
  | PRef m _ => if deref then negb (same_pk (pk e) (Some m)) else false
  | PGlobal _ | POther _ => if deref then same_pk (pk e) (Some true) else false
  | PCast _ | PParam _ => false
  end.

(* [multilevel e]: on the way the code walks without the deref flag, a `.f` / `[i]` whose source is
   a `^mut` pointer to (a pointer to ...) an IMMUTABLE pointer: the class on which checking only the
   outermost level (/repo 1af504c) is not enough. *)
Fixpoint multilevel (e : path) : bool :=
  match e with
  | PField p _ | PIndex p =>
      deep_immut pk deep p || (match pk p with None => multilevel p | Some _ => false end)
  | PParen p | PUnwrap p | PBlock p => multilevel p
  | _ => false
  end.

End Spec.
