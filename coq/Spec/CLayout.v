(* Specification of type layouts, independent of layout.rs's algorithm and of
   u32 arithmetic: sizes are unbounded naturals, offsets are obtained by
   rounding up to the alignment (the C struct layout algorithm), a tagged union
   is "largest payload, then one tag byte".  The documented rules of C17 are
   proved about this specification in Proofs/LayoutSpecProofs.v, and layout.rs's
   model is proved to compute exactly this in Proofs/LayoutProofs.v. *)
From Capy Require Import Common.Util Common.LTy.
Local Open Scope N_scope.

(* smallest multiple of [a] that is >= [o] *)
Definition round_up (o a : N) : N := ((o + (a - 1)) / a) * a.

(* C struct layout: offsets of fields given (size, align), starting at [cur];
   returns (offsets, end of the last field). *)
Fixpoint c_offsets (fl : list (N * N)) (cur : N) : list N * N :=
  match fl with
  | [] => ([], cur)
  | f :: r =>
      let o := round_up cur (snd f) in
      let res := c_offsets r (o + fst f) in
      (o :: fst res, snd res)
  end.
Definition max_align (fl : list (N * N)) : N := fold_right (fun f m => N.max (snd f) m) 1 fl.
Definition max_size (fl : list (N * N)) : N := fold_right (fun f m => N.max (fst f) m) 0 fl.

(* what C calls sizeof / alignof / offsetof for a struct of such fields *)
Definition c_alignof (fl : list (N * N)) : N := max_align fl.
Definition c_offsetof (fl : list (N * N)) : list N := fst (c_offsets fl 0).
Definition c_sizeof (fl : list (N * N)) : N := round_up (snd (c_offsets fl 0)) (max_align fl).

Definition prim_int (pw w : N) : N := if w =? 255 then pw / 8 else if w =? 0 then 4 else w / 8.

(* (size, align) *)
Fixpoint ideal (pw : N) (t : lty) {struct t} : N * N :=
  let ptr := pw / 8 in
  let pa := N.min ptr 8 in
  match t with
  | LNotYetResolved | LUnknown | LNil | LVoid | LAlwaysJumps | LFile _ => (0, 1)
  | LIInt w | LUInt w => (prim_int pw w, N.min (prim_int pw w) 8)
  | LFloat w => (prim_int pw w, N.min (prim_int pw w) 8)
  | LBool | LChar => (1, 1)
  | LString | LPointer _ _ | LRawPtr _ | LPolyFn _ | LFn _ _ _ | LFnPtr _ _ => (ptr, pa)
  | LSlice _ | LRawSlice => (2 * ptr, pa)
  | LType => (4, 4)
  | LAny => (round_up 4 pa + ptr, N.max 4 pa)
  | LAnonArray n sub | LArray n sub =>
      let e := ideal pw sub in (n * round_up (fst e) (snd e), snd e)
  | LDistinct _ sub | LVariant _ _ _ _ sub => ideal pw sub
  | LAnonStruct ms | LStruct _ ms =>
      let fl := map (fun m => ideal pw (snd m)) ms in
      (snd (c_offsets fl 0), max_align fl)
  | LEnum _ vs =>
      let fl := map (ideal pw) vs in (max_size fl + 1, max_align fl)
  | LOptional sub =>
      let p := ideal pw sub in
      if is_non_zero sub then p else (fst p + 1, snd p)
  | LErrorUnion e p =>
      let le := ideal pw e in let lp := ideal pw p in
      (N.max (fst le) (fst lp) + 1, N.max (snd le) (snd lp))
  end.

Definition isize (pw : N) (t : lty) : N := fst (ideal pw t).
Definition ialign (pw : N) (t : lty) : N := snd (ideal pw t).
Definition istride (pw : N) (t : lty) : N := round_up (isize pw t) (ialign pw t).

Definition ideal_fields (pw : N) (ms : list (N * lty)) : list (N * N) :=
  map (fun m => ideal pw (snd m)) ms.

(* field offsets of (the struct underlying) t *)
Definition ioffsets (pw : N) (t : lty) : option (list N) :=
  match absolute_ty t with
  | LAnonStruct ms | LStruct _ ms => Some (c_offsetof (ideal_fields pw ms))
  | _ => None
  end.

(* tag offset of (the tagged union underlying) t *)
Definition idiscr (pw : N) (t : lty) : option N :=
  match absolute_ty t with
  | LEnum _ vs => Some (max_size (map (ideal pw) vs))
  | LOptional sub => if is_non_zero sub then None else Some (isize pw sub)
  | LErrorUnion e p => Some (N.max (isize pw e) (isize pw p))
  | _ => None
  end.

(* Well-formedness: the bit widths the front end can produce. Only the
   components that layout.rs looks at are constrained. *)
Definition wf_int (w : N) : bool :=
  (w =? 0) || (w =? 8) || (w =? 16) || (w =? 32) || (w =? 64) || (w =? 128) || (w =? 255).
Definition wf_float (w : N) : bool := (w =? 0) || (w =? 32) || (w =? 64).

Fixpoint wfb (t : lty) {struct t} : bool :=
  match t with
  | LIInt w | LUInt w => wf_int w
  | LFloat w => wf_float w
  | LAnonArray _ sub | LArray _ sub | LDistinct _ sub | LVariant _ _ _ _ sub | LOptional sub => wfb sub
  | LAnonStruct ms | LStruct _ ms => forallb (fun m => wfb (snd m)) ms
  | LEnum _ vs => forallb wfb vs
  | LErrorUnion e p => wfb e && wfb p
  | _ => true
  end.
Definition wf (t : lty) : Prop := wfb t = true.

(* No array length is cut by `as u32`. *)
Fixpoint lens32 (t : lty) {struct t} : bool :=
  match t with
  | LAnonArray n sub | LArray n sub => (n <? 4294967296) && lens32 sub
  | LDistinct _ sub | LVariant _ _ _ _ sub | LOptional sub => lens32 sub
  | LAnonStruct ms | LStruct _ ms => forallb (fun m => lens32 (snd m)) ms
  | LEnum _ vs => forallb lens32 vs
  | LErrorUnion e p => lens32 e && lens32 p
  | _ => true
  end.

(* Every size that layout.rs computes on the way fits in u32. *)
Definition fits1 (pw : N) (t : lty) : bool := istride pw t <=? 4294967295.
Fixpoint fits (pw : N) (t : lty) {struct t} : bool :=
  fits1 pw t &&
  match t with
  | LAnonArray n sub | LArray n sub => (n <? 4294967296) && fits pw sub
  | LDistinct _ sub | LVariant _ _ _ _ sub | LOptional sub => fits pw sub
  | LAnonStruct ms | LStruct _ ms => forallb (fun m => fits pw (snd m)) ms
  | LEnum _ vs => forallb (fits pw) vs
  | LErrorUnion e p => fits pw e && fits pw p
  | _ => true
  end.

Definition ptr_width (pw : N) : Prop := pw = 32 \/ pw = 64.

(* known finding C17-1: an array whose length does not fit in u32 *)
Definition known_class (t : lty) : option N := if lens32 t then None else Some 1.
