(* C02 specification of a store: every byte range written lies inside the
   destination object [0, size). *)
From Capy Require Import Common.Util Model.Footprint.
Open Scope N_scope.

Definition within (size : N) (fp : list range) : bool :=
  forallb (fun '(o, w) => o + w <=? size) fp.

(* exclusive end of the written bytes (0 for no write) *)
Definition hi (fp : list range) : N := fold_right (fun '(o, w) m => N.max (o + w) m) 0 fp.

(* the bytes written beyond the object: [size, hi) when hi > size *)
Definition overrun (size : N) (fp : list range) : N := hi fp - size.
