(* C23 specification side: what a well-formed parser output is, independent of
   how the parser machine and the sink compute it. *)
From Capy Require Import Common.Util Model.ParserCore Model.Sink.

(* bracket class of an event *)
Inductive cls := CO | CC | CN.
Definition ecls (e : event) : cls := match e with EStart _ => CO | EFinish => CC | EAdd => CN end.

(* depth walk: None when a FinishNode has no open StartNode *)
Fixpoint walk (d : nat) (cs : list cls) : option nat :=
  match cs with
  | [] => Some d
  | CO :: r => walk (S d) r
  | CC :: r => match d with 0 => None | S d' => walk d' r end
  | CN :: r => walk d r
  end.

(* the event list is a well-bracketed word *)
Definition balanced (l : list event) : bool :=
  match walk 0 (map ecls l) with Some 0 => true | _ => false end.

Definition count_add (l : list event) : nat := length (filter (fun e => match e with EAdd => true | _ => false end) l).
Definition count_nt (l : list tk) : nat := length (filter (fun k => negb (trivia k)) l).

(* the tree's tokens are exactly tokens 0 .. n-1 in order: its text is the
   concatenation of all token texts *)
Definition tree_lossless (t : stree) (ntoks : nat) : bool :=
  if list_eq_dec Nat.eq_dec (leaves t) (seq 0 ntoks) then true else false.

Definition err_ok (tot : nat) (e : errk) : bool :=
  match e with
  | Missing o => o <=? tot
  | UnexpectedTok lo hi | UnexpectedNode lo hi => (lo <=? hi) && (hi <=? tot)
  end.
Definition errs_ok (tot : nat) (l : list errk) : bool := forallb (err_ok tot) l.
