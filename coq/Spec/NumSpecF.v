(* C08 specification, float facets: int -> float is the nearest float of the
   integer's full VALUE (Floats.of_int32/64 = round-to-nearest-even, see
   Floats.of_int32_nearest); float -> int is truncation toward zero whenever the
   truncated value fits the target type (unspecified otherwise, and for NaN);
   f32 -> f64 is exact, f64 -> f32 rounds to nearest. *)
From Capy Require Import Common.Util Common.Bits Common.Floats Model.NumOps Spec.NumSpec.
From Flocq Require Import IEEE754.Bits.
Open Scope Z_scope.

Definition float_width (t : nty) : option Z :=
  match t with
  | TFloat w => if (w =? 32)%N then Some 32 else if (w =? 64)%N then Some 64 else None
  | _ => None
  end.

Definition spec_int_to_float (from to : nty) (a : Z) : option (Z * Z) :=
  match ty_sem from, float_width to with
  | Some (s, w), Some 32 => Some (32, canon32 (fb_of_int32 (decode s w a)))
  | Some (s, w), Some 64 => Some (64, canon64 (fb_of_int64 (decode s w a)))
  | _, _ => None
  end.

Definition spec_float_to_int (from to : nty) (x : Z) : option (Z * Z) :=
  match float_width from, ty_sem to with
  | Some wf, Some (s, w) =>
      match (if wf =? 32 then fb_trunc32 x else fb_trunc64 x) with
      | Some v => if fits s w v then Some (w, encode w v) else None
      | None => None
      end
  | _, _ => None
  end.

Definition spec_float_to_float (from to : nty) (x : Z) : option (Z * Z) :=
  match float_width from, float_width to with
  | Some 32, Some 64 => Some (64, canon64 (fb_promote x))
  | Some 64, Some 32 => Some (32, canon32 (fb_demote x))
  | Some 32, Some 32 => Some (32, canon32 x)
  | Some 64, Some 64 => Some (64, canon64 x)
  | _, _ => None
  end.

(* all casts, one entry point (used by the oracle) *)
Definition spec_cast_any (from to : nty) (a : Z) : option (Z * Z) :=
  match ty_sem from, ty_sem to with
  | Some _, Some _ => spec_cast from to a
  | Some _, None => spec_int_to_float from to a
  | None, Some _ => spec_float_to_int from to a
  | None, None => spec_float_to_float from to a
  end.

(* narrow classes of casts the unchanged code generator gets wrong:
   1 signed int -> strictly wider unsigned int              (zero-extends)
   2 int wider than the float target                        (ireduce before the conversion)
   3 float -> int wider than the float                      (saturates at the float's own width) *)
Definition known_class_any (from to : nty) : option N :=
  match ty_sem from, ty_sem to with
  | Some _, Some _ => known_cast_class from to
  | Some (_, w), None => match float_width to with Some wf => if wf <? w then Some 2%N else None | None => None end
  | None, Some (_, w) => match float_width from with Some wf => if wf <? w then Some 3%N else None | None => None end
  | None, None => None
  end.

(* binary operators, all operand types (used by the oracle): integer-like types as in
   NumSpec; `& | ~` on two floats of the same type act on the bit patterns *)
Definition spec_binary_any (l r : nty) (op : binop) (a b : Z) : option (Z * Z) :=
  match float_width l, float_width r, op with
  | Some w, Some w', OpBAnd => if w =? w' then Some (w, Z.land a b) else None
  | Some w, Some w', OpBOr => if w =? w' then Some (w, Z.lor a b) else None
  | Some w, Some w', OpXor => if w =? w' then Some (w, Z.lxor a b) else None
  | _, _, _ => spec_binary l r op a b
  end.

(* classes of binary operators the unchanged compiler gets wrong:
   4  / and % at i128/u128 do not compile (no Cranelift lowering)
   5  & | ~ on floats: accepted, the generated program dies with SIGSEGV *)
Definition known_binary_class (l r : nty) (op : binop) : option N :=
  match float_width l, float_width r, op with
  | Some _, Some _, (OpBAnd | OpBOr | OpXor) => Some 5%N
  | _, _, _ => match ty_max l r with Some m => known_binop_class m op | None => None end
  end.
