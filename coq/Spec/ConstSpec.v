(* C15 specification: the documented const rule (README "There are two requirements which
   determine if a variable is const": immutable, and contains a literal value, a reference
   to another const variable, a comptime block, or a reference to a comptime parameter),
   as an inductive predicate on expressions, plus the value an integer constant denotes. *)
From Capy Require Import Common.Util Model.Constness.

Inductive IsConst : cexpr -> Prop :=
| IC_lit k : IsConst (CLit k)                             (* every literal, `'c'` included *)
| IC_type : IsConst CTypeLit                              (* a type written out is a literal value *)
| IC_lambda : IsConst CLambda
| IC_import : IsConst CImport
| IC_comptime safe res : IsConst (CComptime safe res)
| IC_array items : (forall x, In x items -> IsConst x) -> IsConst (CArrayLit true items)
| IC_global body : IsConst body -> IsConst (CGlobal false true body)   (* another const variable *)
| IC_local v : IsConst v -> IsConst (CLocal false (Some v))            (* immutable binding *)
| IC_param d : IsConst (CComptimeParam d)
| IC_type_expr : IsConst (COther true).                   (* an expression denoting a type / file *)

(* the integer an expression denotes *)
Inductive denotes : cexpr -> N -> Prop :=
| D_lit n : denotes (CLit (LInt n)) n
| D_comptime safe n : denotes (CComptime safe (DInt n)) n
| D_param n : denotes (CComptimeParam (DInt n)) n
| D_local mu v n : denotes v n -> denotes (CLocal mu (Some v)) n
| D_global e f b n : denotes b n -> denotes (CGlobal e f b) n.

(* well-formedness of the inputs the theorems talk about: no error-recovery nodes, every
   referenced global has been inferred (anything else only arises after a cyclic-definition
   error), every local has a value *)
Fixpoint wf (e : cexpr) : bool :=
  match e with
  | CMissing => false
  | CArrayLit _ items => (fix all (l : list cexpr) := match l with [] => true | x :: r => wf x && all r end) items
  | CGlobal ext fin b => (ext || fin) && wf b
  | CLocal _ (Some v) => wf v
  | CLocal _ None => false
  | _ => true
  end.

(* the one literal kind get_const forgets *)
Fixpoint has_char (e : cexpr) : bool :=
  match e with
  | CLit LChar => true
  | CArrayLit _ items => (fix any (l : list cexpr) := match l with [] => false | x :: r => has_char x || any r end) items
  | CGlobal _ _ b => has_char b
  | CLocal _ (Some v) => has_char v
  | _ => false
  end.

(* const_data knows how to produce the value: integer / float literal, safe comptime block,
   comptime parameter, type; through immutable locals and globals *)
Fixpoint has_data (e : cexpr) : bool :=
  match e with
  | CLit (LInt _) | CLit LFloat | CComptime true _ | CComptimeParam _ | CTypeLit | COther true => true
  | CLocal _ (Some v) => has_data v
  | CGlobal _ _ b => has_data b
  | _ => false
  end.

(* ---- multi-file worlds: the integer an expression of file [cur] denotes.  A plain global name
   is looked up in the file the expression lives in; `file.name` in that file. *)
Inductive denotes_w (w : world) : N -> wexpr -> N -> Prop :=
| DW_int cur n : denotes_w w cur (WInt n) n
| DW_comptime cur safe n : denotes_w w cur (WComptime safe (DInt n)) n
| DW_param cur n : denotes_w w cur (WParam (DInt n)) n
| DW_local cur mu v n : denotes_w w cur v n -> denotes_w w cur (WLocal mu (Some v)) n
| DW_global cur g gd n :
    w cur g = Some gd -> denotes_w w cur (wg_body gd) n -> denotes_w w cur (WGlobal g) n
| DW_member cur f g gd n :
    w f g = Some gd -> denotes_w w f (wg_body gd) n -> denotes_w w cur (WMember f g) n.
