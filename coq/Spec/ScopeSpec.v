(* C05 specification: lexical scoping by environment passing.  No scope stack,
   no mutation: every construct receives the environment it is evaluated in and
   hands explicitly extended environments to its children.

   Lookup order (property statement): the header parameters of the lambda whose
   header we are in (innermost binder; comptime ones are usable, others are an
   error), then block locals / switch-arm arguments of enclosing blocks
   (innermost first), then the parameters of the enclosing lambda, then a global
   of the file, then a primitive type name, then `nil`, else undefined.

   Visibility:
   - a definition is visible in the statements after it in the same block (and
     in blocks nested there), not in its own type/initialiser, not after the block;
   - a switch argument is visible exactly in the body of its arm (not in the
     arm's variant expression, not in other arms, not after the switch);
   - a lambda body sees its own parameters (last one of a name wins) and
     globals only; parameter types see the earlier parameters of the same lambda,
     the return type sees all of them;
   - a comptime block sees no enclosing locals and no enclosing parameters. *)
From Capy Require Import Common.Util Model.Scope.

Record env : Type := mkenv {
  e_inline : list (N * pinfo);      (* innermost first *)
  e_locals : list (N * local);      (* innermost first *)
  e_params : list (N * pinfo) }.    (* last parameter first *)

Definition resolve (w : world) (en : env) (x : N) : res :=
  match assoc x (e_inline en) with
  | Some p => if p_ct p then RInline (p_lbl p) else RInlineNotCt (p_lbl p)
  | None =>
    match assoc x (e_locals en) with
    | Some (LDef l) => RLocal l
    | Some (LArm l) => RSwitchArg l
    | None =>
      match assoc x (e_params en) with
      | Some p => if p_ct p then RCtParam (p_lbl p) else RParam (p_lbl p)
      | None =>
        if memN x (globals w) then RGlobal x
        else if memN x (prims w) then RPrim
        else if N.eqb x (nil_name w) then RNil
        else RUndef
      end
    end
  end.

Definition add_local (x : N) (d : local) (en : env) : env :=
  mkenv (e_inline en) ((x, d) :: e_locals en) (e_params en).
Definition add_inline (x : N) (p : pinfo) (en : env) : env :=
  mkenv ((x, p) :: e_inline en) (e_locals en) (e_params en).

(* parameters bound on top of [acc]; a later parameter shadows an earlier one *)
Fixpoint bind_params (ps : params) (acc : list (N * pinfo)) : list (N * pinfo) :=
  match ps with
  | PNil => acc
  | PCons l x ct _ rest => bind_params rest ((x, mkp l ct) :: acc)
  end.

Section Spec.
Variable w : world.

Fixpoint spec_expr (e : expr) (en : env) {struct e} : list res :=
  match e with
  | Var x => [resolve w en x]
  | Node es => spec_exprs es en
  | Block ss => spec_stmts ss en
  | Switch arg scrut ars => spec_expr scrut en ++ spec_arms arg ars en
  | Lambda ps ret hasbody ss =>
      spec_params ps en
      ++ spec_expr ret (mkenv (bind_params ps (e_inline en)) (e_locals en) (e_params en))
      ++ (if hasbody then spec_stmts ss (mkenv [] [] (bind_params ps [])) else [])
  | Comptime b => spec_expr b (mkenv (e_inline en) [] [])
  end
with spec_exprs (es : exprs) (en : env) {struct es} : list res :=
  match es with
  | ENil => []
  | ECons e r => spec_expr e en ++ spec_exprs r en
  end
with spec_stmts (ss : stmts) (en : env) {struct ss} : list res :=
  match ss with
  | STail e => spec_expr e en
  | SDef l x ty v rest =>
      spec_expr ty en ++ spec_expr v en ++ spec_stmts rest (add_local x (LDef l) en)
  | SExpr e rest => spec_expr e en ++ spec_stmts rest en
  end
with spec_arms (arg : option N) (ars : arms) (en : env) {struct ars} : list res :=
  match ars with
  | ANil => []
  | ACons l variant body rest =>
      spec_expr variant en
      ++ spec_expr body (match arg with Some x => add_local x (LArm l) en | None => en end)
      ++ spec_arms arg rest en
  end
with spec_params (ps : params) (en : env) {struct ps} : list res :=
  match ps with
  | PNil => []
  | PCons l x ct ty rest => spec_expr ty en ++ spec_params rest (add_inline x (mkp l ct) en)
  end.

Definition empty_env : env := mkenv [] [] [].

Definition spec_global (g : gdef) : list res :=
  spec_expr (g_ty g) empty_env ++ (if g_extern g then [] else spec_expr (g_body g) empty_env).

Definition spec_program (gs : list gdef) : list res := concat (map spec_global gs).

End Spec.

(* ---- syntactic classes ---------------------------------------------------- *)

(* [wf fix inl e]: (1) unless [fix], no switch has an argument; (2) no lambda
   occurs where inline_header_params is non-empty ([inl] = "inside the header of
   a lambda, after at least one parameter"), i.e. no function-typed parameter /
   return type after a named parameter. *)
Section Wf.
Variable fix_ : bool.

Fixpoint wf_expr (inl : bool) (e : expr) {struct e} : bool :=
  match e with
  | Var _ => true
  | Node es => wf_exprs inl es
  | Block ss => wf_stmts inl ss
  | Switch arg scrut ars =>
      (fix_ || match arg with None => true | Some _ => false end)
      && wf_expr inl scrut && wf_arms inl ars
  | Lambda ps ret hasbody ss =>
      negb inl && wf_params false ps
      && wf_expr (match ps with PNil => false | _ => true end) ret
      && (if hasbody then wf_stmts false ss else true)
  | Comptime b => wf_expr inl b
  end
with wf_exprs (inl : bool) (es : exprs) {struct es} : bool :=
  match es with ENil => true | ECons e r => wf_expr inl e && wf_exprs inl r end
with wf_stmts (inl : bool) (ss : stmts) {struct ss} : bool :=
  match ss with
  | STail e => wf_expr inl e
  | SDef _ _ ty v rest => wf_expr inl ty && wf_expr inl v && wf_stmts inl rest
  | SExpr e rest => wf_expr inl e && wf_stmts inl rest
  end
with wf_arms (inl : bool) (ars : arms) {struct ars} : bool :=
  match ars with
  | ANil => true
  | ACons _ variant body rest => wf_expr inl variant && wf_expr inl body && wf_arms inl rest
  end
with wf_params (inl : bool) (ps : params) {struct ps} : bool :=
  match ps with
  | PNil => true
  | PCons _ _ _ ty rest => wf_expr inl ty && wf_params true rest
  end.

Definition wf_global (g : gdef) : bool :=
  wf_expr false (g_ty g) && (g_extern g || wf_expr false (g_body g)).

Definition wf_program (gs : list gdef) : bool := forallb wf_global gs.
End Wf.

(* [guarded b e]: every switch with an argument and at least one arm sits inside
   a block of the same body ([b] = "a block of this body encloses us"); the
   complement is the class `comptime switch x in e {..}` / a global whose body
   is... no: globals start with one scope, so only comptime bodies (and nothing
   else) start with an empty stack. *)
Fixpoint guarded (b : bool) (e : expr) {struct e} : bool :=
  match e with
  | Var _ => true
  | Node es => guarded_es b es
  | Block ss => guarded_ss true ss
  | Switch arg scrut ars =>
      (b || match arg, ars with Some _, ACons _ _ _ _ => false | _, _ => true end)
      && guarded b scrut && guarded_as b ars
  | Lambda ps ret hasbody ss => guarded_ps b ps && guarded b ret && guarded_ss true ss
  | Comptime c => guarded false c
  end
with guarded_es (b : bool) (es : exprs) {struct es} : bool :=
  match es with ENil => true | ECons e r => guarded b e && guarded_es b r end
with guarded_ss (b : bool) (ss : stmts) {struct ss} : bool :=
  match ss with
  | STail e => guarded b e
  | SDef _ _ ty v rest => guarded b ty && guarded b v && guarded_ss b rest
  | SExpr e rest => guarded b e && guarded_ss b rest
  end
with guarded_as (b : bool) (ars : arms) {struct ars} : bool :=
  match ars with
  | ANil => true
  | ACons _ variant body rest => guarded b variant && guarded b body && guarded_as b rest
  end
with guarded_ps (b : bool) (ps : params) {struct ps} : bool :=
  match ps with
  | PNil => true
  | PCons _ _ _ ty rest => guarded b ty && guarded_ps b rest
  end.

Definition guarded_program (gs : list gdef) : bool :=
  forallb (fun g => guarded true (g_ty g) && guarded true (g_body g)) gs.
