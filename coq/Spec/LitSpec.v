(* C09 specification: what a literal spells, independent of the lowering algorithm. *)
From Capy Require Import Common.Util Common.Bits.
Open Scope Z_scope.

(* positional value of a digit string, most significant digit first *)
Fixpoint digits_value (base : Z) (acc : Z) (ds : list Z) : Z :=
  match ds with [] => acc | d :: r => digits_value base (acc * base + d) r end.
Definition value_of (base : Z) (ds : list Z) : Z := digits_value base 0 ds.

(* decimal literal: mantissa times ten to the exponent *)
Definition dec_value (mant : list Z) (exp : option (list Z)) : Z :=
  match exp with None => value_of 10 mant | Some e => value_of 10 mant * 10 ^ value_of 10 e end.

(* the documented escape sequences *)
Definition escape_table : list (Z * Z) :=
  [(48, 0); (97, 7); (98, 8); (110, 10); (102, 12); (114, 13); (116, 9); (118, 11); (101, 27);
   (34, 34); (39, 39); (92, 92)].
Fixpoint assoc (c : Z) (l : list (Z * Z)) : option Z :=
  match l with [] => None | (k, v) :: r => if c =? k then Some v else assoc c r end.
Definition escape_spec (c : Z) : option Z := assoc c escape_table.

(* an n-bit integer type holds v *)
Definition fits_int (sg : bool) (w v : Z) : bool :=
  if sg then (- 2 ^ (w - 1) <=? v) && (v <=? 2 ^ (w - 1) - 1) else (0 <=? v) && (v <=? 2 ^ w - 1).
