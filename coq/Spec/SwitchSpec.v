(* C11 — specification of `switch`, independent of the checker's and the code
   generator's algorithms.

   A sum type is seen as the list of its members [variants_of sh] (enum: its
   variants; `?T`: T and nil; `E!T`: E and T).  An arm *names* the j-th member
   if it is the fully-qualified type of that member, or — for enums only — the
   shorthand `.Name` of that variant.  A switch is acceptable iff every arm
   names a member, no member is named twice, and either every member is named
   or there is a default arm.  When the switch runs on a value whose current
   variant is the j-th member, the first (= only) arm naming j runs with the
   argument bound to that member's payload; if there is none, the default arm
   runs. *)
From Capy Require Import Common.Util Model.Switch Model.SwitchFixed.

Definition is_enum_shape (sh : shape) : bool :=
  match sh with SEnum _ _ => true | _ => false end.

(* arm [a] names the j-th member of the sum type *)
Definition names (sh : shape) (a : arm) (j : nat) : Prop :=
  exists vt, nth_error (variants_of sh) j = Some vt /\
    (a = AFull vt \/
     (is_enum_shape sh = true /\ exists v, vt = TV v /\ a = AShort (v_name v))).

Definition accepted_spec (sh : shape) (arms : list arm) (dflt : bool) : Prop :=
  exists js : list nat,
    Forall2 (names sh) arms js /\                    (* names only variants of that type *)
    NoDup js /\                                      (* names each at most once *)
    (dflt = true \/                                  (* has a default arm, or *)
     forall j, j < length (variants_of sh) -> In j js).   (* names all of them *)

(* decidable version of [names], used to state which arm must run *)
Definition namesb (sh : shape) (a : arm) (j : nat) : bool :=
  match nth_error (variants_of sh) j with
  | None => false
  | Some vt =>
      match a with
      | AFull t => vty_eqb vt t
      | AShort n => match vt with
                    | TV v => is_enum_shape sh && N.eqb (v_name v) n
                    | TA _ => false
                    end
      | ANotType => false
      end
  end.

(* executable version of [accepted_spec] (equivalence proved in Proofs/SwitchCheck.v) *)
Definition named_by (sh : shape) (a : arm) : list nat :=
  filter (namesb sh a) (seq 0 (length (variants_of sh))).

Fixpoint nodupb (l : list nat) : bool :=
  match l with
  | [] => true
  | x :: r => negb (mem_nat x r) && nodupb r
  end.

Definition accepted_specb (sh : shape) (arms : list arm) (dflt : bool) : bool :=
  forallb (fun a => match named_by sh a with [] => false | _ => true end) arms &&
  nodupb (flat_map (named_by sh) arms) &&
  (dflt || forallb (fun j => existsb (fun a => namesb sh a j) arms) (seq 0 (length (variants_of sh)))).

Fixpoint arm_for (sh : shape) (arms : list arm) (j : nat) (i : nat) : option nat :=
  match arms with
  | [] => None
  | a :: r => if namesb sh a j then Some i else arm_for sh r j (S i)
  end.

(* how the argument must be bound in the arm of member j: to the payload *)
Definition expected_bind (sh : shape) (with_arg : bool) (j : nat) : option binding :=
  match nth_error (variants_of sh) j with
  | None => None
  | Some t =>
      if negb with_arg then Some BNoArg
      else if negb (is_tagged sh) then
        Some (if vty_eqb t (TA ANil) then BNone else BPointer)   (* the pointer itself / nothing for nil *)
      else Some (match repr_of t with
                 | RScalar | RPtr => BLoad                        (* the payload value at offset 0 *)
                 | RZero => BNone                                 (* zero-sized payload: nothing to bind *)
                 | RAggr => BAddr                                 (* the payload in place at offset 0 *)
                 end)
  end.

Definition spec_outcome (sh : shape) (arms : list arm) (with_arg : bool) (j : nat) : outcome :=
  match arm_for sh arms j 0 with
  | Some i => OArm i (expected_bind sh with_arg j)
  | None => ODefault
  end.

(* --------------------------------------------------------- well-formedness *)
(* What type checking of the declarations guarantees about a sum type:
   members are pairwise different types (ErrorUnionDecl rejects types it cannot
   differentiate; enum variants carry distinct names and uids), and the
   variants of an enum carry the uid of that enum. *)
Definition wf_shape (sh : shape) : Prop :=
  sh <> SNotSum /\ NoDup (variants_of sh) /\
  match sh with
  | SEnum uid vs => NoDup (map v_name vs) /\ Forall (fun v => v_euid v = uid) vs
  | _ => True
  end.

(* what the dispatch needs of the discriminants of an enum: pairwise distinct
   (proved of [assign_discriminants]) and representable in the i8 tag (NOT
   guaranteed by [assign_discriminants]: C11_discr_fit_refuted) *)
Definition wf_tags (sh : shape) : Prop :=
  match sh with
  | SEnum _ vs => NoDup (map v_discr vs) /\ Forall (fun v => (v_discr v < 256)%N) vs
  | _ => True
  end.

(* ------------------------------------------------------------ known classes *)
(* Narrow syntactic classes of inputs on which the unchanged compiler panics. *)
Inductive kclass : Type :=
| KWrappedScrutinee      (* K1: the scrutinee type is a distinct (or variant) wrapper of a sum type *)
| KNilLikeArm            (* K3: optional scrutinee, an arm names a type that is_nil() but is neither nil nor the payload type *)
| KNullableDefault       (* K4: `?^T` (nullable pointer) switch with a default arm *)
| KPointerPayloadArg.    (* K5: switch with an argument and an arm for a pointer payload of a tagged union *)

Definition is_sum_shape (sh : shape) : bool :=
  match sh with SNotSum => false | _ => true end.

Definition nil_like_arm (sh : shape) (a : arm) : bool :=
  match sh, a with
  | SOpt sub, AFull t => is_nil_vty t && negb (vty_eqb t (TA ANil)) && negb (vty_eqb t sub)
  | _, _ => false
  end.

Definition known_check_class (s : scrut) (arms : list arm) : option kclass :=
  if wrapped s && is_sum_shape (s_shape s) then Some KWrappedScrutinee
  else if existsb (nil_like_arm (s_shape s)) arms then Some KNilLikeArm
  else None.

Definition ptr_payload_arm (sh : shape) (a : arm) : bool :=
  match a with
  | AFull t => is_non_zero t
  | AShort n => match sh with
                | SEnum _ vs => existsb (fun v => N.eqb (v_name v) n && is_non_zero (TV v)) vs
                | _ => false
                end
  | ANotType => false
  end.

Definition known_codegen_class (sh : shape) (arms : list arm) (dflt with_arg : bool) : option kclass :=
  if negb (is_tagged sh) && dflt then Some KNullableDefault
  else if with_arg && is_tagged sh && existsb (ptr_payload_arm sh) arms then Some KPointerPayloadArg
  else None.

(* the known classes that are still open when the repairs [f] are present in the tree *)
Definition known_check_class_fx (f : fixes) (s : scrut) (arms : list arm) : option kclass :=
  if wrapped s && is_sum_shape (s_shape s) && negb (fx1 f) then Some KWrappedScrutinee
  else if existsb (nil_like_arm (s_shape s)) arms && negb (fx3 f) then Some KNilLikeArm
  else None.

Definition known_codegen_class_fx (f : fixes) (sh : shape) (arms : list arm) (dflt with_arg : bool)
  : option kclass :=
  if negb (is_tagged sh) && dflt && negb (fx4 f) then Some KNullableDefault
  else if with_arg && is_tagged sh && existsb (ptr_payload_arm sh) arms && negb (fx5 f)
       then Some KPointerPayloadArg
  else None.

(* ------------------------------------------------ discriminant specification *)
(* manual discriminants that survive the first pass are exactly the first
   occurrences; the bound that makes every discriminant fit the tag *)
Fixpoint manual_max_plus1 (ms : list (option N)) : N :=
  match ms with
  | [] => 0%N
  | None :: r => manual_max_plus1 r
  | Some d :: r => N.max (d + 1) (manual_max_plus1 r)
  end.

Fixpoint count_none (ms : list (option N)) : N :=
  match ms with
  | [] => 0%N
  | None :: r => (1 + count_none r)%N
  | Some _ :: r => count_none r
  end.
