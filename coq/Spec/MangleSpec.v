(* C27 — specification side: a decoder for the mangled format, the boolean
   [Safe] predicate under which decoding inverts mangling, the set of
   compiler-internal symbol names, entity identity, and the (extracted)
   classifier of collision mechanisms used by the run-time oracle. *)
From Capy Require Import Common.Util Model.Mangle.
From Coq Require Import Decimal DecimalN.

(* ---------- compiler-internal symbols ---------------------------------------- *)
(* program.rs: "main"; mangle_internal: "_CI<len><name>E";
   functions.rs: ".str_<n>", ".i128_<n>"; ty_info.rs: ".member_str<n>". *)
Definition s_main : str := [109; 97; 105; 110]%N.
Definition s_str_ : str := [46; 115; 116; 114; 95]%N.
Definition s_i128_ : str := [46; 105; 49; 50; 56; 95]%N.
Definition s_member_str : str := [46; 109; 101; 109; 98; 101; 114; 95; 115; 116; 114]%N.

Definition Internal (s : str) : Prop :=
  s = s_main \/ (exists name, s = mangle_internal name)
  \/ (exists n, s = s_str_ ++ dec n) \/ (exists n, s = s_i128_ ++ dec n)
  \/ (exists n, s = s_member_str ++ dec n).

(* ---------- entity identity ---------------------------------------------------- *)
(* A lambda that is the body of a global IS that global's function (by design
   it is given the global's symbol). *)
Definition entity (d : desc) : desc :=
  match d_base d with
  | BLambda _ _ (Some (gf, gn)) => {| d_base := BGlobal gf gn; d_generic := d_generic d; d_tail := d_tail d |}
  | _ => d
  end.

(* ---------- decoder ------------------------------------------------------------- *)
Definition digit_of (c : N) (u : uint) : uint :=
  if (c =? 48)%N then D0 u else if (c =? 49)%N then D1 u else if (c =? 50)%N then D2 u
  else if (c =? 51)%N then D3 u else if (c =? 52)%N then D4 u else if (c =? 53)%N then D5 u
  else if (c =? 54)%N then D6 u else if (c =? 55)%N then D7 u else if (c =? 56)%N then D8 u
  else D9 u.

(* maximal digit prefix *)
Fixpoint read_uint (s : str) : uint * str :=
  match s with
  | c :: r => if is_digit c then let (u, r') := read_uint r in (digit_of c u, r') else (Nil, s)
  | [] => (Nil, [])
  end.

(* a decimal text, completely *)
Definition parse_dec (s : str) : option N :=
  match read_uint s with
  | (Nil, _) => None
  | (u, []) => Some (N.of_uint u)
  | _ => None
  end.

Definition kind_of_code (c : N) : option kind :=
  if (c =? 77)%N then Some KModule else if (c =? 70)%N then Some KFile
  else if (c =? 78)%N then Some KName else if (c =? 71)%N then Some KGeneric
  else if (c =? 76)%N then Some KLambda else if (c =? 90)%N then Some KComptime
  else if (c =? 73)%N then Some KData else None.

(* table of contents = maximal prefix of kind letters *)
Fixpoint read_toc (s : str) : list kind * str :=
  match s with
  | c :: r => match kind_of_code c with
              | Some k => let (ks, r') := read_toc r in (k :: ks, r')
              | None => ([], s)
              end
  | [] => ([], [])
  end.

(* one length-prefixed part; undoes the digit escape *)
Definition read_part (k : kind) (s : str) : option (str * str) :=
  match read_uint s with
  | (Nil, _) => None
  | (u, r) =>
      let l := N.to_nat (N.of_uint u) in
      if (length r <? l)%nat then None else
      let body := firstn l r in
      let rest := skipn l r in
      match body with
      | c :: (c2 :: _) as t =>
          if (c =? to_ascii_lowercase (code k))%N && is_digit c2 then Some (t, rest) else Some (body, rest)
      | _ => Some (body, rest)
      end
  end.

Fixpoint read_parts (ks : list kind) (s : str) : option (list part * str) :=
  match ks with
  | [] => Some ([], s)
  | k :: ks' =>
      match read_part k s with
      | Some (t, r) => match read_parts ks' r with
                       | Some (ps, r') => Some ((k, t) :: ps, r')
                       | None => None
                       end
      | None => None
      end
  end.

Fixpoint split_files (ps : list part) : list str * list part :=
  match ps with
  | (KFile, t) :: r => let (fs, r') := split_files r in (t :: fs, r')
  | _ => ([], ps)
  end.

Fixpoint add_capy (l : list str) : option (list str) :=
  match l with
  | [] => None
  | [x] => Some [x ++ s_capy]
  | x :: r => match add_capy r with Some r' => Some (x :: r') | None => None end
  end.

Definition decode_tail (ps : list part) : option tail :=
  match ps with
  | [] => Some TNone
  | [(KComptime, t)] => match parse_dec t with Some i => Some (TComptime i) | None => None end
  | [(KComptime, t); (KData, nm)] =>
      match parse_dec t with Some i => Some (TData i nm) | None => None end
  | _ => None
  end.

Definition decode_parts (e : env) (ps : list part) : option desc :=
  let '(mod_name, ps1) := match ps with (KModule, m) :: r => (Some m, r) | _ => (None, ps) end in
  let '(files, ps2) := split_files ps1 in
  match add_capy files with
  | None => None
  | Some files' =>
      let file := match mod_name with
                  | Some m => mod_dir e ++ m :: s_src :: files'
                  | None => cur_dir e ++ files'
                  end in
      match ps2 with
      | (k, t) :: ps3 =>
          match (match k with
                 | KName => Some (BGlobal file t)
                 | KLambda => match parse_dec t with Some i => Some (BLambda file i None) | None => None end
                 | _ => None
                 end) with
          | None => None
          | Some b =>
              let '(g, ps4) := match ps3 with
                               | (KGeneric, t) :: r =>
                                   (match parse_dec t with Some n => Some (Some n) | None => None end, r)
                               | _ => (Some None, ps3)
                               end in
              match g, decode_tail ps4 with
              | Some g', Some tl => Some {| d_base := b; d_generic := g'; d_tail := tl |}
              | _, _ => None
              end
          end
      | [] => None
      end
  end.

Definition decode (e : env) (s : str) : option desc :=
  let (ks, r) := read_toc s in
  match read_parts ks r with
  | Some (ps, r') => if str_eqb r' [c_E] then decode_parts e ps else None
  | None => None
  end.

(* ---------- Safe ----------------------------------------------------------------- *)
(* a part text the digit escape cannot be confused on, and non-empty *)
Definition part_safe (p : part) : bool :=
  match snd p with
  | [] => false
  | [c] => true
  | c :: c2 :: _ => negb ((c =? to_ascii_lowercase (code (fst p)))%N && is_digit c2)
  end.

Definition no_dot (c : str) : bool := negb (contains_dot c).

(* directories without '.', last component "<stem>.capy" with a dot-free stem;
   every resulting F part escape-safe *)
Fixpoint files_ok (l : list str) : bool :=
  match l with
  | [] => false
  | [x] => match strip_capy x with
           | Some st => no_dot st && part_safe (KFile, st)
           | None => false
           end
  | x :: r => no_dot x && part_safe (KFile, x) && files_ok r
  end.

Definition safe_file (e : env) (f : list str) : bool :=
  match strip_prefix f (mod_dir e) with
  | Some rel =>
      (* module file: canonical layout <mod-dir>/<m>/src/... *)
      match rel with
      | m :: s :: rest => str_eqb s s_src && no_dot m && part_safe (KModule, m) && files_ok rest
      | _ => false
      end
  | None =>
      match strip_prefix f (cur_dir e) with
      | Some rel =>
          negb (match rel with _ :: c :: _ => str_eqb c s_src | _ => false end) && files_ok rel
      | None => false
      end
  end.

Definition Safe (e : env) (d : desc) : bool :=
  match d_base d with
  | BGlobal f n => safe_file e f && part_safe (KName, n)
  | BLambda f _ None => safe_file e f
  | BLambda _ _ (Some _) => false
  end
  && match d_tail d with TData _ nm => part_safe (KData, nm) | _ => true end.

(* ---------- collision mechanisms (run-time classifier, extracted) ---------------- *)
(* Given two descriptors with the same mangled name, name every mechanism that
   makes them differ.  Codes:
     1 digit-escape   a part text "<digit>.." against "<lower kind letter><digit>.."
     2 dot-dash       path components differing by '.' against '-'
     3 src-drop       the component dropped by the `src` rule differs (non-module file)
     4 mod-src-drop   module file with / without the dropped `src` component
     5 capy-strip     a ".capy" suffix stripped from one component only
     0 unexplained    anything else *)
Definition esc_rel (k : kind) (a b : str) : bool :=
  match a with
  | c :: _ => is_digit c && str_eqb b (to_ascii_lowercase (code k) :: a)
  | [] => false
  end.

Definition explain_text (k : kind) (a b : str) : list N :=
  if str_eqb a b then [] else if esc_rel k a b || esc_rel k b a then [1%N] else [0%N].

Fixpoint explain_parts (p q : list part) : list N :=
  match p, q with
  | [], [] => []
  | (k, a) :: p', (k', b) :: q' =>
      (if (code k =? code k')%N then explain_text k a b else [0%N]) ++ explain_parts p' q'
  | _, _ => [0%N]
  end.

Definition strip_of (c : str) : str :=
  if contains_dot c then match strip_capy c with Some r => r | None => c end else c.
Definition was_stripped (c : str) : bool :=
  contains_dot c && match strip_capy c with Some _ => true | None => false end.

(* raw components at the same position of the two paths *)
Definition esc_any (a b : str) : bool :=
  esc_rel KFile a b || esc_rel KFile b a || esc_rel KModule a b || esc_rel KModule b a.

Definition explain_comp (a b : str) : list N :=
  if str_eqb a b then [] else
  (if Bool.eqb (was_stripped a) (was_stripped b) then [] else [5%N])
  ++ (let a' := strip_of a in let b' := strip_of b in
      if str_eqb a' b' || esc_any a' b' then [] else
      if str_eqb (dashify a') (dashify b') || esc_any (dashify a') (dashify b')
      then [2%N] else [0%N]).

Fixpoint explain_comps (p q : list str) : list N :=
  match p, q with
  | [], [] => []
  | a :: p', b :: q' => explain_comp a b ++ explain_comps p' q'
  | _, _ => [0%N]
  end.

(* relative path and the component removed by the `src` rule *)
Definition rel_split (e : env) (f : list str) : option (bool * option str * list str) :=
  let is_mod := is_sub_dir_of f (mod_dir e) in
  match (if is_mod then strip_prefix f (mod_dir e) else strip_prefix f (cur_dir e)) with
  | None => None
  | Some rel =>
      let has_src := match rel with _ :: c :: _ => str_eqb c s_src | _ => false end in
      if has_src
      then match rel with
           | a :: b :: r => if is_mod then Some (is_mod, Some b, a :: r) else Some (is_mod, Some a, b :: r)
           | _ => None
           end
      else Some (is_mod, None, rel)
  end.

(* ---------- well-formed descriptors (what the compiler can create) -------------- *)
(* components are non-empty and contain no '/'; the file is a ".capy" file strictly
   below the module directory or the current directory (a file is never a
   directory of the configuration); no retained component is the bare name
   ".capy" (its mangled text would be empty); names are non-empty *)
Definition is_nil {A : Type} (l : list A) : bool := match l with [] => true | _ => false end.

Definition comp_ok (c : str) : bool :=
  negb (is_nil c) && negb (existsb (fun x => (x =? 47)%N) c).

Definition wf_file (e : env) (f : list str) : bool :=
  forallb comp_ok f
  && match rel_split e f with
     | Some (_, _, rest) =>
         negb (is_nil rest) && forallb (fun c => negb (is_nil (norm_component c))) rest
     | None => false
     end
  && match List.rev f with
     | x :: _ => match strip_capy x with Some _ => true | None => false end
     | [] => false
     end.

Definition WF (e : env) (d : desc) : bool :=
  match d_base d with
  | BGlobal f n => wf_file e f && negb (is_nil n)
  | BLambda f _ None => wf_file e f
  | BLambda f _ (Some (gf, gn)) => wf_file e f && wf_file e gf && negb (is_nil gn)
  end
  && match d_tail d with TData _ nm => negb (is_nil nm) | _ => true end.

Definition opt_str_eqb (a b : option str) : bool :=
  match a, b with
  | None, None => true
  | Some x, Some y => str_eqb x y
  | _, _ => false
  end.

Definition explain_files (e : env) (f g : list str) : list N :=
  match rel_split e f, rel_split e g with
  | Some (m1, d1, r1), Some (m2, d2, r2) =>
      if negb (Bool.eqb m1 m2) then [0%N] else
      (if opt_str_eqb d1 d2 then [] else [if m1 then 4%N else 3%N]) ++ explain_comps r1 r2
  | _, _ => [0%N]
  end.

Definition explain_collision (e : env) (d1 d2 : desc) : list N :=
  match parts_of e d1, parts_of e d2 with
  | Ok p1, Ok p2 =>
      explain_parts p1 p2
      ++ explain_files e (fst (base_file_part (d_base d1))) (fst (base_file_part (d_base d2)))
  | _, _ => [0%N]
  end.
