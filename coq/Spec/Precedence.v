(* Specification side of C24: printing of expression trees, the well-
   parenthesisation predicate derived from the documented precedence table,
   minimal and redundant parenthesisation.  Independent of the parser model's
   algorithm (only the tree/token types and the binding powers are shared). *)
From Coq Require Import List Arith Bool.
Import ListNotations.
From Capy Require Import Model.ExprGrammar.

(* the documented table: || < && < comparisons < + - | ~ < * / % & << >> *)
Definition level (o : binop) : nat :=
  match o with
  | OLOr => 1
  | OLAnd => 2
  | OLt | OLe | OGt | OGe | OEq | ONe => 3
  | OAdd | OSub | OBOr | OXor => 4
  | OMul | ODiv | OMod | OBAnd | OShl | OShr => 5
  end.

Definition atom_tok (a : atom) : tok :=
  match a with AInt => TInt | AFloat => TFloat | ABool => TBool | AVar => TIdent end.
Definition unop_tok (o : unop) : tok :=
  match o with UNeg => TOp OSub | UPos => TOp OAdd | UNot => TBang | UBNot => TOp OXor end.

Fixpoint join (ls : list (list tok)) : list tok :=
  match ls with
  | [] => []
  | a :: r => match r with [] => a | _ => a ++ TComma :: join r end
  end.

(* the token sequence of a tree; EParen is printed, nothing else adds parens *)
Fixpoint print (e : expr) : list tok :=
  match e with
  | EAtom a => [atom_tok a]
  | EParen x => TLParen :: print x ++ [TRParen]
  | EEmptyParen => [TLParen; TRParen]
  | EUnary o x => unop_tok o :: print x
  | ERef m x => TCaret :: (if m then [TMut] else []) ++ print x
  | EBin o l r => print l ++ TOp o :: print r
  | ECall f args => print f ++ TLParen :: join (map print args) ++ [TRParen]
  | EIndex a i => print a ++ TLBrack :: print i ++ [TRBrack]
  | EField x => print x ++ [TDot; TIdent]
  | ETry x => print x ++ [TDot; TTry]
  | ECast t v => print t ++ TDot :: TLParen :: match v with Some v => print v | None => [] end ++ [TRParen]
  | EDeref x => print x ++ [TCaret]
  end.

(* Position of a subexpression.  CB m: operand position of the binary-operator
   loop with minimum binding power m.  CC dd ddi: operand of a prefix operator;
   dd = dereference `x^` not allowed on the operand's postfix spine (all prefix
   operators), ddi = additionally `x.(v)` not allowed (only `^`/`^mut`). *)
Inductive ctx := CB (m : nat) | CC (dd ddi : bool).
Definition dd_of c := match c with CB _ => false | CC d _ => d end.
Definition ddi_of c := match c with CB _ => false | CC _ d => d end.
Definition chain c := match c with CB _ => CC false false | CC a b => CC a b end.

(* does a token sequence following a finished postfix chain in a position
   with flags (dd, ddi) leave that chain alone? *)
Definition cfollow (dd ddi : bool) (R : list tok) : bool :=
  match R with
  | TLBrack :: _ | TLParen :: _ | TBang :: _ | TLBrace :: _ => false
  | TCaret :: _ | TAs :: _ => dd
  | TDot :: TLParen :: _ | TDot :: TLBrace :: _ | TDot :: TLBrack :: _ => ddi
  | TDot :: _ => false
  | _ => true
  end.

(* ... and is it also left alone by the operands of the prefix operators on
   the right edge of x (x = -y, ^y, - ^y, ...)? *)
Fixpoint pfollow (x : expr) (R : list tok) : bool :=
  match x with
  | EUnary _ y => cfollow true false R && pfollow y R
  | ERef _ y => cfollow true true R && pfollow y R
  | _ => true
  end.

(* may follow an expression in binary position m *)
Definition bfollow (m : nat) (R : list tok) : bool :=
  cfollow false false R &&
  match R with TOp o :: _ => lbp o <? m | _ => true end.

(* [wf c e]: e, printed as it is, is correctly parenthesised for position c. *)
Fixpoint wf (c : ctx) (e : expr) : bool :=
  match e with
  | EAtom _ => true
  | EParen x => wf (CB 0) x
  | EEmptyParen => false
  | EUnary _ x => wf (CC true false) x
  | ERef _ x => wf (CC true true) x
  | EBin o l r =>
      match c with
      | CB m => (m <=? lbp o) && wf (CB (lbp o)) l && wf (CB (rbp o)) r
      | CC _ _ => false
      end
  | ECall f args => wf (chain c) f && pfollow f [TLParen] && forallb (wf (CB 0)) args
  | EIndex a i => wf (chain c) a && pfollow a [TLBrack] && wf (CB 0) i
  | EField x => wf (chain c) x && pfollow x [TDot; TIdent]
  | ETry x => wf (chain c) x && pfollow x [TDot; TTry]
  | ECast t v => negb (ddi_of c) && wf (chain c) t && pfollow t [TDot; TLParen]
                 && match v with Some v => wf (CB 0) v | None => true end
  | EDeref x => negb (dd_of c) && wf (chain c) x && pfollow x [TCaret]
  end.

(* ---- trees without parentheses, and the two printers ------------------- *)
Fixpoint paren_free (e : expr) : bool :=
  match e with
  | EAtom _ => true
  | EParen _ | EEmptyParen => false
  | EUnary _ x | ERef _ x | EField x | ETry x | EDeref x => paren_free x
  | EBin _ l r => paren_free l && paren_free r
  | ECall f args => paren_free f && forallb paren_free args
  | EIndex a i => paren_free a && paren_free i
  | ECast t v => paren_free t && match v with Some v => paren_free v | None => true end
  end.

Fixpoint strip (e : expr) : expr :=
  match e with
  | EAtom a => EAtom a
  | EParen x => strip x
  | EEmptyParen => EEmptyParen
  | EUnary o x => EUnary o (strip x)
  | ERef m x => ERef m (strip x)
  | EBin o l r => EBin o (strip l) (strip r)
  | ECall f args => ECall (strip f) (map strip args)
  | EIndex a i => EIndex (strip a) (strip i)
  | EField x => EField (strip x)
  | ETry x => ETry (strip x)
  | ECast t v => ECast (strip t) (option_map strip v)
  | EDeref x => EDeref (strip x)
  end.

(* operand of a postfix operator whose first tokens are hd *)
Definition guard (hd : list tok) (x : expr) : expr :=
  if pfollow x hd then x else EParen x.
(* chain position to use for the operand of a postfix operator that is
   (ok = true) / is not allowed in position c *)
Definition sub (c : ctx) (ok : bool) : ctx := if ok then chain c else CC false false.
Definition close (ok : bool) (e : expr) : expr := if ok then e else EParen e.

(* minimal parenthesisation for position c: a pair of parentheses is inserted
   exactly where wf would fail *)
Fixpoint pmin (c : ctx) (t : expr) : expr :=
  match t with
  | EAtom a => EAtom a
  | EParen x => EParen (pmin (CB 0) x)
  | EEmptyParen => EEmptyParen
  | EUnary o x => EUnary o (pmin (CC true false) x)
  | ERef m x => ERef m (pmin (CC true true) x)
  | EBin o l r =>
      let b := EBin o (pmin (CB (lbp o)) l) (pmin (CB (rbp o)) r) in
      match c with
      | CB m => if m <=? lbp o then b else EParen b
      | CC _ _ => EParen b
      end
  | ECall f args => ECall (guard [TLParen] (pmin (chain c) f)) (map (pmin (CB 0)) args)
  | EIndex a i => EIndex (guard [TLBrack] (pmin (chain c) a)) (pmin (CB 0) i)
  | EField x => EField (guard [TDot; TIdent] (pmin (chain c) x))
  | ETry x => ETry (guard [TDot; TTry] (pmin (chain c) x))
  | ECast t v =>
      let ok := negb (ddi_of c) in
      close ok (ECast (guard [TDot; TLParen] (pmin (sub c ok) t)) (option_map (pmin (CB 0)) v))
  | EDeref x =>
      let ok := negb (dd_of c) in
      close ok (EDeref (guard [TCaret] (pmin (sub c ok) x)))
  end.

Definition print_min (t : expr) : list tok := print (pmin (CB 0) t).

(* redundant parenthesisation: every operand is wrapped *)
Fixpoint pall (t : expr) : expr :=
  match t with
  | EAtom a => EAtom a
  | EParen x => EParen (pall x)
  | EEmptyParen => EEmptyParen
  | EUnary o x => EUnary o (EParen (pall x))
  | ERef m x => ERef m (EParen (pall x))
  | EBin o l r => EBin o (EParen (pall l)) (EParen (pall r))
  | ECall f args => ECall (EParen (pall f)) (map (fun a => EParen (pall a)) args)
  | EIndex a i => EIndex (EParen (pall a)) (EParen (pall i))
  | EField x => EField (EParen (pall x))
  | ETry x => ETry (EParen (pall x))
  | ECast t v => ECast (EParen (pall t)) (option_map (fun a => EParen (pall a)) v)
  | EDeref x => EDeref (EParen (pall x))
  end.

Definition print_redundant (t : expr) : list tok := print (pall t).

(* size (number of nodes, call arguments counted once more); every unit prints at least one token *)
Fixpoint size (e : expr) : nat :=
  match e with
  | EAtom _ | EEmptyParen => 1
  | EParen x | EUnary _ x | ERef _ x | EField x | ETry x | EDeref x => S (size x)
  | EBin _ l r => S (size l + size r)
  | ECall f args => S (size f + fold_right (fun a n => S (size a) + n) 0 args)
  | EIndex a i => S (size a + size i)
  | ECast t v => S (size t + match v with Some v => size v | None => 0 end)
  end.
