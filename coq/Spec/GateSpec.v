(* C07 -- the observable statement of the property as a predicate and as a boolean checker
   that is run (extracted) on what the REAL pipeline did for one input.

   Observation of one compilation:
     o_errors       number of error diagnostics reported (all stages)
     o_expr_errors  number of those attributed to an expression / to code: type errors whose
                    `TyDiagnostic.expr` is `Some`, and syntax / indexing / lowering errors (this is
                    exactly the set crates/hir_ty/src/tests.rs uses in its own assertion)
     o_unsafe       InferenceResult.any_were_unsafe_to_compile (tracking switched on)
     o_cg           what code generation did: not attempted / produced an object / failed
                    (Cranelift verifier error, Err from emit, panic)
     o_object       an object file was produced *)
From Capy Require Import Common.Util.

Inductive cg_obs := CgSkipped | CgProduced | CgFailed.

Record obs := {
  o_errors : N;
  o_expr_errors : N;
  o_unsafe : bool;
  o_cg : cg_obs;
  o_object : bool
}.

Definition cg_is (a b : cg_obs) : bool :=
  match a, b with
  | CgSkipped, CgSkipped | CgProduced, CgProduced | CgFailed, CgFailed => true
  | _, _ => false
  end.

(* the property, clause by clause *)
Definition built_iff_no_error (o : obs) : Prop := o_object o = true <-> o_errors o = 0%N.
Definition clean_is_safe_and_compiles (o : obs) : Prop :=
  o_errors o = 0%N -> o_unsafe o = false /\ o_cg o = CgProduced.
Definition error_flags_unsafe_nothing_generated (o : obs) : Prop :=
  (0 < o_expr_errors o)%N -> o_unsafe o = true /\ o_cg o = CgSkipped /\ o_object o = false.
Definition errors_never_generate (o : obs) : Prop :=
  (0 < o_errors o)%N -> o_cg o = CgSkipped.

Definition GateOk (o : obs) : Prop :=
  built_iff_no_error o /\ clean_is_safe_and_compiles o /\
  error_flags_unsafe_nothing_generated o /\ errors_never_generate o.

(* the checker; the verdict names the first clause that fails (0 = all hold) *)
Definition gate_verdict (o : obs) : N :=
  let noerr := N.eqb (o_errors o) 0 in
  if negb (Bool.eqb (o_object o) noerr) then 1%N
  else if noerr && o_unsafe o then 2%N
  else if noerr && negb (cg_is (o_cg o) CgProduced) then 3%N
  else if negb (N.eqb (o_expr_errors o) 0) && negb (o_unsafe o) then 4%N
  else if negb noerr && negb (cg_is (o_cg o) CgSkipped) then 5%N
  else 0%N.

Definition gate_ok (o : obs) : bool := N.eqb (gate_verdict o) 0.

(* observations are well formed when attributed errors are errors *)
Definition obs_wf (o : obs) : Prop := (o_expr_errors o <= o_errors o)%N.
