(* C20 — Results do not depend on the order of definitions or files.
   LEVEL: PARTIAL.  What is proved here is only the scheduler part: the round loop of
   InferenceCtx::finish (Model/SchedLoop.v, over the TopoSort model of Model/Topo.v) computes
   results that do not depend on the order in which the globals were seeded, for ACYCLIC
   dependency graphs, for ANY inference step satisfying the hypotheses spelled out below
   (the step is abstract: InferenceCtx::infer / globals.rs are NOT modelled).  Everything else
   (indexing order, imports, file splitting, cyclic programs, code generation, run time) is
   covered only by the end-to-end metamorphic test of lib/verif/props/c20.py.
   Termination of the MODELLED loop is proved under step-level hypotheses (acyclic real
   dependencies, requests are non-empty lists of unfinished real dependencies, finite reachable
   set) with the explicit bound |U| + |U|^2 + 1 rounds, and "the loop runs out of every fuel
   iff it reaches a round that changes nothing" is proved without those hypotheses; whether
   the real inference step satisfies them is tested (trace stream), not proved.
   Only statements, [exact]s and [Print Assumptions] live here. *)
From Capy Require Import Common.Util Model.Topo Spec.Sched Model.SchedLoop
  Proofs.TopoRefine Proofs.SchedLoopProofs.
From Coq Require Import Permutation.

Theorem C20_schedule_confluent :
  forall (R : Type) (infer : item -> list (item * R) -> step R) (cyc_order : list item -> list item)
         (deps : item -> list item) (rank : item -> nat),
  (* acyclic real dependencies *)
  (forall x d, In d (deps x) -> rank d < rank x) ->
  (* the step is a function of the results of the item's dependencies *)
  (forall x f1 f2, (forall d, In d (deps x) -> lookup R d f1 = lookup R d f2) -> infer x f1 = infer x f2) ->
  (* it completes only when all its dependencies are finished *)
  (forall x f r, infer x f = Done r -> forall d, In d (deps x) -> lookup R d f <> None) ->
  (* what it asks for are unfinished real dependencies *)
  (forall x f ds, infer x f = Needs ds -> forall d, In d ds -> In d (deps x) /\ lookup R d f = None) ->
  (* the client's sort of a cyclic list is a permutation *)
  (forall l, Permutation (cyc_order l) l) ->
  forall seed1 seed2 n1 n2 f1 f2,
    Permutation seed1 seed2 ->
    finish R infer cyc_order seed1 n1 = Ok f1 ->
    finish R infer cyc_order seed2 n2 = Ok f2 ->
    forall x, lookup R x f1 = lookup R x f2.
Proof. exact schedule_confluent. Qed.
Print Assumptions C20_schedule_confluent.

(* what gets a result is exactly what is reachable from the seed through real dependencies *)
Theorem C20_finish_domain :
  forall (R : Type) (infer : item -> list (item * R) -> step R) (cyc_order : list item -> list item)
         (deps : item -> list item),
  (forall x f r, infer x f = Done r -> forall d, In d (deps x) -> lookup R d f <> None) ->
  (forall x f ds, infer x f = Needs ds -> forall d, In d ds -> In d (deps x) /\ lookup R d f = None) ->
  (forall l, Permutation (cyc_order l) l) ->
  forall seed n f, finish R infer cyc_order seed n = Ok f ->
  forall x, lookup R x f <> None <-> Reach deps seed x.
Proof. exact finish_domain. Qed.
Print Assumptions C20_finish_domain.

(* under the same hypotheses the loop never reaches a panic site (TopoSort underflow,
   peek_all_cyclic().unwrap(), assert!(!leaves.is_empty())) *)
Theorem C20_finish_no_crash :
  forall (R : Type) (infer : item -> list (item * R) -> step R) (cyc_order : list item -> list item)
         (deps : item -> list item),
  (forall x f ds, infer x f = Needs ds -> forall d, In d ds -> In d (deps x) /\ lookup R d f = None) ->
  (forall l, Permutation (cyc_order l) l) ->
  forall seed n site, finish R infer cyc_order seed n <> Crash site.
Proof. exact finish_no_crash. Qed.
Print Assumptions C20_finish_no_crash.

Theorem C20_finish_fuel_mono :
  forall (R : Type) (infer : item -> list (item * R) -> step R) (cyc_order : list item -> list item)
         seed n m f,
  finish R infer cyc_order seed n = Ok f -> n <= m -> finish R infer cyc_order seed m = Ok f.
Proof. exact finish_fuel_mono. Qed.
Print Assumptions C20_finish_fuel_mono.

(* Termination with an explicit bound: every round completes an item or registers a new
   dependency edge (measure |done| + |waits| <= |U| + |U|^2). *)
Theorem C20_finish_terminates :
  forall (R : Type) (infer : item -> list (item * R) -> step R) (cyc_order : list item -> list item)
         (deps : item -> list item) (rank : item -> nat),
  (forall x d, In d (deps x) -> rank d < rank x) ->
  (forall x f ds, infer x f = Needs ds -> forall d, In d ds -> In d (deps x) /\ lookup R d f = None) ->
  (forall x f, infer x f <> Needs []) ->
  forall seed U, (forall x, Reach deps seed x -> In x U) ->
  exists f, finish R infer cyc_order seed (S (length U + length U * length U)) = Ok f.
Proof. exact finish_terminates. Qed.
Print Assumptions C20_finish_terminates.

(* Confluence with the fuel replaced by that bound. *)
Theorem C20_schedule_confluent_bounded :
  forall (R : Type) (infer : item -> list (item * R) -> step R) (cyc_order : list item -> list item)
         (deps : item -> list item) (rank : item -> nat),
  (forall x d, In d (deps x) -> rank d < rank x) ->
  (forall x f1 f2, (forall d, In d (deps x) -> lookup R d f1 = lookup R d f2) -> infer x f1 = infer x f2) ->
  (forall x f r, infer x f = Done r -> forall d, In d (deps x) -> lookup R d f <> None) ->
  (forall x f ds, infer x f = Needs ds -> forall d, In d ds -> In d (deps x) /\ lookup R d f = None) ->
  (forall l, Permutation (cyc_order l) l) ->
  (forall x f, infer x f <> Needs []) ->
  forall seed1 seed2 U,
    Permutation seed1 seed2 ->
    (forall x, Reach deps seed1 x -> In x U) ->
    exists f1 f2,
      finish R infer cyc_order seed1 (S (length U + length U * length U)) = Ok f1 /\
      finish R infer cyc_order seed2 (S (length U + length U * length U)) = Ok f2 /\
      forall x, lookup R x f1 = lookup R x f2.
Proof. exact schedule_confluent_bounded. Qed.
Print Assumptions C20_schedule_confluent_bounded.

(* The loop hangs (runs out of every fuel) iff it reaches a round that leaves its whole state
   -- worklist and finished results -- unchanged.  No acyclicity / progress hypothesis.
   (C26_round_unchanged_iff_stalled says what such a round looks like.) *)
Theorem C20_finish_hangs_iff_stuck_round :
  forall (R : Type) (infer : item -> list (item * R) -> step R) (cyc_order : list item -> list item)
         (deps : item -> list item),
  (forall x f ds, infer x f = Needs ds -> forall d, In d ds -> In d (deps x) /\ lookup R d f = None) ->
  (forall l, Permutation (cyc_order l) l) ->
  forall seed U, (forall x, Reach deps seed x -> In x U) ->
  is_empty (extend empty seed) = false ->
  ((forall n, finish R infer cyc_order seed n = OutOfFuel) <->
   exists st', Reaches R infer cyc_order (extend empty seed, []) st' /\ StuckRound R infer cyc_order st').
Proof. exact finish_hangs_iff_stuck_round. Qed.
Print Assumptions C20_finish_hangs_iff_stuck_round.

Theorem C20_stuck_round_diverges :
  forall (R : Type) (infer : item -> list (item * R) -> step R) cyc_order t f l,
  round_items cyc_order t = Ok l -> process_all R infer (t, f) l = Ok (t, f) -> is_empty t = false ->
  forall n, finish_loop R infer cyc_order n (t, f) = OutOfFuel.
Proof. exact stuck_round_diverges. Qed.
Print Assumptions C20_stuck_round_diverges.

(* The hypotheses are satisfiable for every dependency function: the canonical step. *)
Theorem C20_hypotheses_satisfiable :
  forall (R : Type) (deps : item -> list item) (comb : item -> list (option R) -> R),
  (forall x f1 f2, (forall d, In d (deps x) -> lookup R d f1 = lookup R d f2) ->
     canon_infer R deps comb x f1 = canon_infer R deps comb x f2) /\
  (forall x f r, canon_infer R deps comb x f = Done r -> forall d, In d (deps x) -> lookup R d f <> None) /\
  (forall x f ds, canon_infer R deps comb x f = Needs ds ->
     forall d, In d ds -> In d (deps x) /\ lookup R d f = None).
Proof. exact canon_ok. Qed.
Print Assumptions C20_hypotheses_satisfiable.

(* Non-vacuity: 0 needs 1 and 2, both need 3; result = 1 + sum of the dependencies' results.
   Two seed orders, same results; the second order needs more rounds. *)
Definition ex_deps (x : item) : list item :=
  if N.eqb x 0 then [1; 2]%N else if N.eqb x 1 then [3]%N else if N.eqb x 2 then [3]%N else [].
Definition ex_comb (x : item) (l : list (option N)) : N :=
  fold_left (fun a o => match o with Some v => a + v | None => a end)%N l 1%N.
Definition ex_finish seed := finish N (canon_infer N ex_deps ex_comb) (fun l => l) seed 10.
Example C20_example :
  (do f <- ex_finish [0;1;2;3]%N; Ok (map (fun x => lookup N x f) [0;1;2;3]%N))
    = Ok [Some 5; Some 2; Some 2; Some 1]%N /\
  (do f <- ex_finish [3;1;0;2]%N; Ok (map (fun x => lookup N x f) [0;1;2;3]%N))
    = Ok [Some 5; Some 2; Some 2; Some 1]%N /\
  ex_finish [0]%N = Ok [(0, 5); (2, 2); (1, 2); (3, 1)]%N.
Proof. vm_compute. repeat split; reflexivity. Qed.

Theorem C20_canonical_step_nonempty :
  forall (R : Type) (deps : item -> list item) (comb : item -> list (option R) -> R) x f,
  canon_infer R deps comb x f <> Needs [].
Proof. exact canon_nonempty. Qed.
Print Assumptions C20_canonical_step_nonempty.

(* the explicit bound suffices on the example (|U| = 4 -> 21 rounds allowed; 4 needed) *)
Example C20_example_bound :
  exists f, finish N (canon_infer N ex_deps ex_comb) (fun l => l) [3;1;0;2]%N (S (4 + 4 * 4)) = Ok f.
Proof. eexists. vm_compute. reflexivity. Qed.
