(* C20 — Results do not depend on the order of definitions or files.
   LEVEL: PARTIAL.  What is proved here is only the scheduler part: the round loop of
   InferenceCtx::finish (Model/SchedLoop.v, over the TopoSort model of Model/Topo.v) computes
   results that do not depend on the order in which the globals were seeded, for ACYCLIC
   dependency graphs, for ANY inference step satisfying the hypotheses spelled out below
   (the step is abstract: InferenceCtx::infer / globals.rs are NOT modelled).  Everything else
   (indexing order, imports, file splitting, cyclic programs, code generation, run time) is
   covered only by the end-to-end metamorphic test of lib/verif/props/c20.py.
   Termination of the loop is NOT proved (only: more fuel never changes a result, and no
   panic site is reachable); hangs are looked for by the end-to-end stream.
   Only statements, [exact]s and [Print Assumptions] live here. *)
From Capy Require Import Common.Util Model.Topo Spec.Sched Model.SchedLoop
  Proofs.TopoRefine Proofs.SchedLoopProofs.
From Coq Require Import Permutation.

Theorem C20_schedule_confluent :
  forall (R : Type) (infer : item -> list (item * R) -> step R) (cyc_order : list item -> list item)
         (deps : item -> list item) (rank : item -> nat),
  (* acyclic real dependencies *)
  (forall x d, In d (deps x) -> rank d < rank x) ->
  (* the step is a function of the results of the item's dependencies *)
  (forall x f1 f2, (forall d, In d (deps x) -> lookup R d f1 = lookup R d f2) -> infer x f1 = infer x f2) ->
  (* it completes only when all its dependencies are finished *)
  (forall x f r, infer x f = Done r -> forall d, In d (deps x) -> lookup R d f <> None) ->
  (* what it asks for are unfinished real dependencies *)
  (forall x f ds, infer x f = Needs ds -> forall d, In d ds -> In d (deps x) /\ lookup R d f = None) ->
  (* the client's sort of a cyclic list is a permutation *)
  (forall l, Permutation (cyc_order l) l) ->
  forall seed1 seed2 n1 n2 f1 f2,
    Permutation seed1 seed2 ->
    finish R infer cyc_order seed1 n1 = Ok f1 ->
    finish R infer cyc_order seed2 n2 = Ok f2 ->
    forall x, lookup R x f1 = lookup R x f2.
Proof. exact schedule_confluent. Qed.
Print Assumptions C20_schedule_confluent.

(* what gets a result is exactly what is reachable from the seed through real dependencies *)
Theorem C20_finish_domain :
  forall (R : Type) (infer : item -> list (item * R) -> step R) (cyc_order : list item -> list item)
         (deps : item -> list item),
  (forall x f r, infer x f = Done r -> forall d, In d (deps x) -> lookup R d f <> None) ->
  (forall x f ds, infer x f = Needs ds -> forall d, In d ds -> In d (deps x) /\ lookup R d f = None) ->
  (forall l, Permutation (cyc_order l) l) ->
  forall seed n f, finish R infer cyc_order seed n = Ok f ->
  forall x, lookup R x f <> None <-> Reach deps seed x.
Proof. exact finish_domain. Qed.
Print Assumptions C20_finish_domain.

(* under the same hypotheses the loop never reaches a panic site (TopoSort underflow,
   peek_all_cyclic().unwrap(), assert!(!leaves.is_empty())) *)
Theorem C20_finish_no_crash :
  forall (R : Type) (infer : item -> list (item * R) -> step R) (cyc_order : list item -> list item)
         (deps : item -> list item),
  (forall x f ds, infer x f = Needs ds -> forall d, In d ds -> In d (deps x) /\ lookup R d f = None) ->
  (forall l, Permutation (cyc_order l) l) ->
  forall seed n site, finish R infer cyc_order seed n <> Crash site.
Proof. exact finish_no_crash. Qed.
Print Assumptions C20_finish_no_crash.

Theorem C20_finish_fuel_mono :
  forall (R : Type) (infer : item -> list (item * R) -> step R) (cyc_order : list item -> list item)
         seed n m f,
  finish R infer cyc_order seed n = Ok f -> n <= m -> finish R infer cyc_order seed m = Ok f.
Proof. exact finish_fuel_mono. Qed.
Print Assumptions C20_finish_fuel_mono.

(* The hypotheses are satisfiable for every dependency function: the canonical step. *)
Theorem C20_hypotheses_satisfiable :
  forall (R : Type) (deps : item -> list item) (comb : item -> list (option R) -> R),
  (forall x f1 f2, (forall d, In d (deps x) -> lookup R d f1 = lookup R d f2) ->
     canon_infer R deps comb x f1 = canon_infer R deps comb x f2) /\
  (forall x f r, canon_infer R deps comb x f = Done r -> forall d, In d (deps x) -> lookup R d f <> None) /\
  (forall x f ds, canon_infer R deps comb x f = Needs ds ->
     forall d, In d ds -> In d (deps x) /\ lookup R d f = None).
Proof. exact canon_ok. Qed.
Print Assumptions C20_hypotheses_satisfiable.

(* Non-vacuity: 0 needs 1 and 2, both need 3; result = 1 + sum of the dependencies' results.
   Two seed orders, same results; the second order needs more rounds. *)
Definition ex_deps (x : item) : list item :=
  if N.eqb x 0 then [1; 2]%N else if N.eqb x 1 then [3]%N else if N.eqb x 2 then [3]%N else [].
Definition ex_comb (x : item) (l : list (option N)) : N :=
  fold_left (fun a o => match o with Some v => a + v | None => a end)%N l 1%N.
Definition ex_finish seed := finish N (canon_infer N ex_deps ex_comb) (fun l => l) seed 10.
Example C20_example :
  (do f <- ex_finish [0;1;2;3]%N; Ok (map (fun x => lookup N x f) [0;1;2;3]%N))
    = Ok [Some 5; Some 2; Some 2; Some 1]%N /\
  (do f <- ex_finish [3;1;0;2]%N; Ok (map (fun x => lookup N x f) [0;1;2;3]%N))
    = Ok [Some 5; Some 2; Some 2; Some 1]%N /\
  ex_finish [0]%N = Ok [(0, 5); (2, 2); (1, 2); (3, 1)]%N.
Proof. vm_compute. repeat split; reflexivity. Qed.
