(* C05 — Names resolve to the innermost visible binding; scopes end where they end.
   Only statements, [exact]s and [Print Assumptions] live here.

   Model  : Model/Scope.v   [lower_program fix w gs]  (fix = false: body.rs as it is;
            fix = true: lower_switch with one child scope per arm, the proposed repair)
   Spec   : Spec/ScopeSpec.v [spec_program w gs]      (environment passing, no stack) *)
From Capy Require Import Common.Util Model.Scope Spec.ScopeSpec Proofs.ScopeProofs.

(* The full-strength statement: for every program (distinct global names) the code
   resolves every identifier occurrence as lexical scoping prescribes and never panics. *)
Definition C05_full : Prop := forall w gs,
  NoDup (map g_name gs) -> lower_program false w gs = Ok (spec_program w gs).

(* It is FALSE of the code as it is: `b := ..; switch b in v { .X => b }  b` resolves the
   last `b` to the switch argument (inserted into the current scope, body.rs lower_switch). *)
Theorem C05_full_refuted : ~ C05_full.
Proof. exact full_refuted. Qed.
Print Assumptions C05_full_refuted.

Theorem C05_witness_switch_arg_leak :
  NoDup (map g_name leak_prog)
  /\ lower_program false w0 leak_prog = Ok [RSwitchArg 2; RSwitchArg 2]
  /\ spec_program w0 leak_prog = [RSwitchArg 2; RLocal 1]
  /\ lower_program true w0 leak_prog = Ok [RSwitchArg 2; RLocal 1].
Proof. exact leak_witness. Qed.
Print Assumptions C05_witness_switch_arg_leak.

(* `g :: switch b in .. {..};  h :: b;` : the argument even leaks into later globals. *)
Theorem C05_witness_switch_arg_leaks_across_globals :
  lower_program false w0 global_leak_prog = Ok [RSwitchArg 7]
  /\ spec_program w0 global_leak_prog = [RUndef].
Proof. exact global_leak_witness. Qed.
Print Assumptions C05_witness_switch_arg_leaks_across_globals.

(* `g :: comptime switch b in .. {..}` panics: unwrap on the empty scope stack. *)
Theorem C05_witness_comptime_switch_crash :
  NoDup (map g_name comptime_switch_prog)
  /\ lower_program false w0 comptime_switch_prog = Crash SITE_SCOPE
  /\ guarded_program comptime_switch_prog = false
  /\ lower_program true w0 comptime_switch_prog = Ok (spec_program w0 comptime_switch_prog).
Proof. exact comptime_switch_witness. Qed.
Print Assumptions C05_witness_comptime_switch_crash.

(* `g :: (b: i32, c: (d: i32) -> i32) {}` panics: assert!(inline_header_params.is_empty()). *)
Theorem C05_witness_header_lambda_crash :
  NoDup (map g_name header_lambda_prog)
  /\ lower_program false w0 header_lambda_prog = Crash SITE_ASSERT
  /\ lower_program true w0 header_lambda_prog = Crash SITE_ASSERT
  /\ wf_program true header_lambda_prog = false.
Proof. exact header_lambda_witness. Qed.
Print Assumptions C05_witness_header_lambda_crash.

(* The strongest true statement about the code as it is: every program without a switch
   argument and without a lambda inside a lambda header after a named parameter
   ([wf_program false]) is resolved exactly as the specification says, without a panic. *)
Theorem C05_except_switch_arg : forall w gs,
  wf_program false gs = true -> NoDup (map g_name gs) ->
  lower_program false w gs = Ok (spec_program w gs).
Proof. exact (lower_program_refines false). Qed.
Print Assumptions C05_except_switch_arg.

(* With the proposed repair of lower_switch (child scope per arm) the statement holds for
   all programs with switch arguments too ([wf_program true] only excludes the
   header-lambda assertion, which the repair does not touch). *)
Theorem C05_fixed_full : forall w gs,
  wf_program true gs = true -> NoDup (map g_name gs) ->
  lower_program true w gs = Ok (spec_program w gs).
Proof. exact (lower_program_refines true). Qed.
Print Assumptions C05_fixed_full.

(* insert_into_current_scope never finds an empty stack, for every program (switch
   arguments included) in which no switch with an argument sits directly in a comptime
   body outside any block ([guarded_program]). *)
Theorem C05_scope_stack_never_empty : forall w gs,
  guarded_program gs = true -> lower_program false w gs <> Crash SITE_SCOPE.
Proof. exact scope_stack_never_empty. Qed.
Print Assumptions C05_scope_stack_never_empty.

(* Abstraction used by the refinement: looking a name up in the stack of scopes is
   looking it up in the concatenation, innermost scope first. *)
Theorem C05_lookup_is_innermost_first : forall x sc,
  look_up_scopes x sc = assoc x (concat sc).
Proof. exact look_up_concat. Qed.
Print Assumptions C05_lookup_is_innermost_first.

(* Non-vacuity: a program with shadowing through every binder kind satisfies the
   hypothesis of C05_except_switch_arg. *)
Example C05_example :
  wf_program false example_prog = true
  /\ lower_program false (mkworld [0%N; 9%N] [4%N] 5%N) example_prog
     = Ok [RPrim; RInline 1; RInline 1; RCtParam 1; RCtParam 1; RLocal 3; RLocal 4; RLocal 3;
           RLocal 3; RGlobal 0; RParam 5; RGlobal 0; RUndef].
Proof. exact example_ok. Qed.
