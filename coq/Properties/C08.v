(* C08 — Integer and float operations and casts have exact two's-complement semantics.
   Only statements, [exact]s and [Print Assumptions] live here.

   [F : fsem] is an ARBITRARY semantics of the float instructions: every integer
   theorem holds whatever the float instructions do.  [ty_sem t = Some (s, w)]
   says t is one of i8..i128, u8..u128, isize, usize, bool, char with signedness s
   and width w; [in_bits w a] says a is a w-bit pattern.  All operand VALUES are
   universally quantified. *)
From Capy Require Import Common.Util Common.Bits Model.NumOps Spec.NumSpec Proofs.NumOpsProofs.
Open Scope Z_scope.

(* + - * wrap modulo 2^w; / % truncate toward zero (divisor non-zero, no MIN/-1);
   & | ^ bitwise; << >> and the comparisons follow the signedness -- for every
   integer-like type and ALL operand values on which the statement speaks
   ([spec_binop] = Some r). *)
Definition C08_binop_full : Prop := binop_full.

(* ... FALSE of the code as it is: `/` and `%` at i128/u128 do not compile at all *)
Theorem C08_binop_full_refuted : ~ C08_binop_full.
Proof. exact binop_full_refuted. Qed.
Print Assumptions C08_binop_full_refuted.

(* everything else holds: all 14 types, all operators, all operand values *)
Theorem C08_binop_except_known : forall F t op a b s w,
  ty_sem t = Some (s, w) -> in_bits w a -> in_bits w b ->
  (op = OpLAnd \/ op = OpLOr -> a < 2 /\ b < 2) ->
  known_binop_class t op = None ->
  forall r, spec_binop t op a b = Some r -> out_bits (model_binary F t t op a b) = Some r.
Proof. exact binop_except_known. Qed.
Print Assumptions C08_binop_except_known.

(* operands of different integer types: each is converted to Ty::max exactly as
   the cast specification says (the defective cast shape cannot arise there),
   then the operator is correct at the common type *)
Theorem C08_binop_mixed_correct : forall F l r op a b sl wl sr wr m,
  ty_sem l = Some (sl, wl) -> ty_sem r = Some (sr, wr) -> in_bits wl a -> in_bits wr b ->
  op <> OpLAnd -> op <> OpLOr ->
  ty_max l r = Some m -> known_binop_class m op = None ->
  forall a' b' res, spec_cast l m a = Some a' -> spec_cast r m b = Some b' ->
  spec_binop m op (snd a') (snd b') = Some res ->
  out_bits (model_binary F l r op a b) = Some res.
Proof. exact binop_mixed_correct. Qed.
Print Assumptions C08_binop_mixed_correct.

(* unary - ~ + ! *)
Theorem C08_unop_correct : forall F t op a s w,
  ty_sem t = Some (s, w) -> in_bits w a ->
  forall r, spec_unop t op a = Some r -> val_bits (model_unary F t op a) = Some r.
Proof. exact unop_correct. Qed.
Print Assumptions C08_unop_correct.

(* casts, full statement: the target's encoding of the source VALUE, for every pair of
   integer-like types and every value.  [v_cast_by_source F] names the variant of
   cast_num the model mirrors: true = the repaired code (fix candidate
   .cache/prompts/C08-1-fix.diff: extend by the SOURCE signedness), false = the code before it. *)
Theorem C08_cast_full_fixed : forall F from to a s1 w1,
  v_cast_by_source F = true ->
  ty_sem from = Some (s1, w1) -> in_bits w1 a ->
  forall r, spec_cast from to a = Some r -> val_bits (model_cast F from to a) = Some r.
Proof. exact cast_int_full_fixed. Qed.
Print Assumptions C08_cast_full_fixed.

(* HISTORY (finding C08-1): the same statement about the unrepaired variant ... *)
Definition C08_cast_full : Prop := cast_int_full.

(* ... is FALSE: u16.(i8 -1) = 0x00ff instead of 0xffff *)
Theorem C08_cast_full_refuted : ~ C08_cast_full.
Proof. exact cast_int_full_refuted. Qed.
Print Assumptions C08_cast_full_refuted.

(* the strongest true statement: the whole 14 x 14 matrix except the class
   "signed source, strictly wider unsigned target", value universally quantified *)
Theorem C08_cast_except_known : forall F from to a s1 w1,
  ty_sem from = Some (s1, w1) -> in_bits w1 a ->
  known_cast_class from to = None ->
  forall r, spec_cast from to a = Some r -> val_bits (model_cast F from to a) = Some r.
Proof. exact cast_int_except_known. Qed.
Print Assumptions C08_cast_except_known.

(* inside that class the unrepaired code zero-extends: wrong exactly for negative values *)
Theorem C08_cast_known_class_exact : forall F from to a s1 w1,
  v_cast_by_source F = false ->
  ty_sem from = Some (s1, w1) -> in_bits w1 a ->
  known_cast_class from to = Some 1%N ->
  forall r, spec_cast from to a = Some r ->
  exists w2, val_bits (model_cast F from to a) = Some (w2, a) /\
             (Some (w2, a) = Some r <-> 0 <= decode s1 w1 a).
Proof. exact cast_int_known_class_exact. Qed.
Print Assumptions C08_cast_known_class_exact.

(* an integer computed inside `comptime` is re-materialised unchanged *)
Theorem C08_comptime_remat_int : forall F c a, cl_is_int c = true -> in_bits (clbits c) a ->
  comptime_remat F (c, a) = (c, a).
Proof. exact comptime_remat_int. Qed.
Print Assumptions C08_comptime_remat_int.

(* non-vacuity *)
Example C08_example_div : spec_binop (TIInt 8) OpDiv 0xF9 2 = Some (8, 0xFD)   (* -7 / 2 = -3 *)
  /\ spec_binop (TIInt 8) OpMod 0xF9 2 = Some (8, 0xFF)                          (* -7 % 2 = -1 *)
  /\ spec_binop (TUInt 8) OpRShift 0x80 7 = Some (8, 1)
  /\ spec_binop (TIInt 8) OpRShift 0x80 7 = Some (8, 0xFF)
  /\ spec_binop (TIInt 128) OpMul (2^127) 3 = Some (128, 2^127)
  /\ known_cast_class (TIInt 8) (TUInt 16) = Some 1%N
  /\ known_cast_class (TUInt 8) (TIInt 16) = None.
Proof. repeat split; vm_compute; reflexivity. Qed.

(* ---- float facets (Flocq instance of the float semantics; classical axioms of
        Flocq's real-number layer, allow-listed in DESIGN.md section 3) ---------- *)
From Capy Require Import Common.Floats Model.NumOpsF Spec.NumSpecF Proofs.NumOpsFProofs.

(* all casts, full statement: int->float is the nearest float of the integer's full
   value, float->int truncates toward zero whenever the result fits *)
Definition C08_cast_float_full : Prop := cast_float_full.

(* FALSE of the code as it is: f32.(i64 2^32) = 0.0 *)
Theorem C08_cast_float_full_refuted : ~ C08_cast_float_full.
Proof. exact cast_float_full_refuted. Qed.
Print Assumptions C08_cast_float_full_refuted.

(* and i64.(f32 3e9) = 2147483647 *)
Theorem C08_cast_float_to_int_witness :
  spec_cast_any (TFloat 32) (TIInt 64) 0x4f32d05e = Some (64, 3000000000) /\
  val_bits (m_cast (TFloat 32) (TIInt 64) 0x4f32d05e) = Some (64, 2147483647).
Proof. exact cast_float_to_int_witness. Qed.
Print Assumptions C08_cast_float_to_int_witness.

(* int -> float outside class 2 (integer wider than the float), all values *)
Theorem C08_int_to_float_except_known : forall fx from to a s w,
  ty_sem from = Some (s, w) -> in_bits w a -> known_class_any from to = None ->
  forall r, spec_int_to_float from to a = Some r -> val_bits (m_cast_v fx from to a) = Some r.
Proof. exact int_to_float_except_known. Qed.
Print Assumptions C08_int_to_float_except_known.

(* float -> int outside class 3 (integer wider than the float), all bit patterns *)
Theorem C08_float_to_int_except_known : forall fx from to x,
  known_class_any from to = None ->
  forall r, spec_float_to_int from to x = Some r -> val_bits (m_cast_v fx from to x) = Some r.
Proof. exact float_to_int_except_known. Qed.
Print Assumptions C08_float_to_int_except_known.

(* what "nearest" means, from Flocq: round-to-nearest-even of the real value *)
From Coq Require Import Reals.
From Flocq Require Import Core.Core.
Theorem C08_of_int32_nearest : forall z,
  (Rabs (round radix2 (FLT_exp (-149) 24) (BinarySingleNaN.round_mode BinarySingleNaN.mode_NE) (IZR z)) < bpow radix2 128)%R ->
  Binary.B2R 24 128 (of_int32 z) = round radix2 (FLT_exp (-149) 24) (BinarySingleNaN.round_mode BinarySingleNaN.mode_NE) (IZR z)
  /\ Binary.is_finite 24 128 (of_int32 z) = true.
Proof. exact of_int32_nearest. Qed.
Print Assumptions C08_of_int32_nearest.

Theorem C08_of_int64_nearest : forall z,
  (Rabs (round radix2 (FLT_exp (-1074) 53) (BinarySingleNaN.round_mode BinarySingleNaN.mode_NE) (IZR z)) < bpow radix2 1024)%R ->
  Binary.B2R 53 1024 (of_int64 z) = round radix2 (FLT_exp (-1074) 53) (BinarySingleNaN.round_mode BinarySingleNaN.mode_NE) (IZR z)
  /\ Binary.is_finite 53 1024 (of_int64 z) = true.
Proof. exact of_int64_nearest. Qed.
Print Assumptions C08_of_int64_nearest.
