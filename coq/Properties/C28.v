(* C28 — Imports resolve to the right files and each file is compiled once.
   Only statements, [exact]s and [Print Assumptions] live here.
   Model: Model/Imports.v (lower_import for #import/#mod, path joining and
   path_clean::clean, SubDir::is_sub_dir_of (Model/Mangle.v), the work list of
   compile_file) against a file-system oracle. *)
From Capy Require Import Common.Util Model.Mangle Model.Imports Proofs.ImportsProofs.

(* `#import("p")`: the cleaned join of importer/../p is p walked (cd semantics:
   "" and "." stay, ".." to the parent, the root is its own parent) from the
   directory of the importing file; an absolute p is walked from the root. *)
Theorem C28_resolve_relative_to_importer : forall importer p,
  forallb normal importer = true ->
  resolve importer p =
    fold_left cd (pieces p) (if is_absolute p then [] else removelast importer).
Proof. exact resolve_relative_to_importer. Qed.
Print Assumptions C28_resolve_relative_to_importer.

Theorem C28_resolve_plain : forall importer p,
  forallb normal importer = true -> is_absolute p = false -> forallb normal (pieces p) = true ->
  resolve importer p = removelast importer ++ pieces p.
Proof. exact resolve_plain. Qed.
Print Assumptions C28_resolve_plain.

(* accepted iff ends in .capy, exists as a file, lies below the module directory or the cwd;
   and then it is the resolved path *)
Theorem C28_import_accept_iff : forall c f s p,
  lower_import c f (imp s) = Accept p <->
  ends_capy s = true /\ p = resolve f s /\ is_file (c_fs c) p = true /\ inside c p = true.
Proof. exact import_accept_iff. Qed.
Print Assumptions C28_import_accept_iff.

(* each rejection reason, exactly *)
Theorem C28_import_reject_iff : forall c f s,
  (lower_import c f (imp s) = Reject RNotCapy <-> ends_capy s = false)
  /\ (forall p, lower_import c f (imp s) = Reject (RNotFound p) <->
                ends_capy s = true /\ p = resolve f s /\ is_file (c_fs c) p = false)
  /\ (forall p, lower_import c f (imp s) = Reject (ROutside p) <->
                ends_capy s = true /\ p = resolve f s /\ is_file (c_fs c) p = true /\ inside c p = false).
Proof. exact import_reject_iff. Qed.
Print Assumptions C28_import_reject_iff.

Theorem C28_import_rejected_iff : forall c f s,
  (exists r, lower_import c f (imp s) = Reject r) <->
  ends_capy s = false \/ is_file (c_fs c) (resolve f s) = false \/ inside c (resolve f s) = false.
Proof. exact import_rejected_iff. Qed.
Print Assumptions C28_import_rejected_iff.

(* `#mod("m")`: every outcome, exactly *)
Theorem C28_mod_outcome_iff : forall c f s,
  (forall p, lower_import c f (modd s) = Accept p <->
     mod_name_ok c s = true /\ is_dir (c_fs c) (mod_folder c s) = true
     /\ p = clean (mod_folder c s ++ [s_mod_capy]) /\ is_file (c_fs c) p = true)
  /\ (lower_import c f (modd s) = Reject RModNotAlnum <-> mod_name_ok c s = false)
  /\ (lower_import c f (modd s) = Reject RModMissing <->
        mod_name_ok c s = true /\ is_dir (c_fs c) (mod_folder c s) = false)
  /\ (lower_import c f (modd s) = Reject RModNoFile <->
        mod_name_ok c s = true /\ is_dir (c_fs c) (mod_folder c s) = true
        /\ is_file (c_fs c) (clean (mod_folder c s ++ [s_mod_capy])) = false).
Proof. exact mod_outcome_iff. Qed.
Print Assumptions C28_mod_outcome_iff.

(* The full-strength reading: only NON-EMPTY alphanumeric names are accepted.
   The model has two variants selected by [c_fixed] (see Model/Imports.v):
   the repaired code (`file.is_empty() || !all alphanumeric`) satisfies it ... *)
Definition C28_mod_full (fixed : bool) : Prop := forall c f s p,
  c_fixed c = fixed ->
  lower_import c f (modd s) = Accept p -> s <> [] /\ forallb is_alnum s = true.
Theorem C28_mod_full_fixed : C28_mod_full true.
Proof. exact ImportsProofs.C28_mod_full_fixed. Qed.
Print Assumptions C28_mod_full_fixed.

(* ... HISTORY: the code of the pinned commit (before the repair of known finding
   C28-1) did not: `#mod("")` found <mod-dir>/src/mod.capy. *)
Theorem C28_mod_full_refuted_unfixed : ~ C28_mod_full false.
Proof. exact ImportsProofs.C28_mod_full_refuted_unfixed. Qed.
Print Assumptions C28_mod_full_refuted_unfixed.

(* what holds: accepted => alphanumeric, the target is a file, and for a non-empty
   name it is exactly <mod-dir>/m/src/mod.capy *)
Theorem C28_mod_accept_only_alnum : forall c f s p,
  lower_import c f (modd s) = Accept p ->
  forallb is_alnum s = true /\ is_file (c_fs c) p = true
  /\ (s <> [] -> forallb normal (c_mod_dir c) = true -> p = c_mod_dir c ++ [s; s_src; s_mod_capy]).
Proof. exact mod_accept_only_alnum. Qed.
Print Assumptions C28_mod_accept_only_alnum.

(* The work list: for ANY file system, program and main file (cycles and
   self-imports included, any number of files), if every file can be read the
   compile events are duplicate-free and are exactly the files reachable from
   main through accepted imports; the fuel |files|+2 never runs out. *)
Theorem C28_worklist_visits_reachable_once : forall c pr main,
  (forall p, is_file (c_fs c) p = true -> exists ds, prog_lookup pr p = Some ds) ->
  is_file (c_fs c) main = true ->
  exists evs, compile_all c pr main = Ok evs /\ NoDup evs /\ (forall f, In f evs <-> reach c pr main f).
Proof. exact worklist_visits_reachable_once. Qed.
Print Assumptions C28_worklist_visits_reachable_once.

(* Non-vacuity: /w/main.capy <-> /w/d/a.capy import each other, a.capy imports itself
   and a missing file; both are compiled once. *)
Example C28_example_cycle :
  let w := [119]%N in let d := [100]%N in
  let main := [w; [109;97;105;110;46;99;97;112;121]]%N in
  let a := [w; d; [97;46;99;97;112;121]]%N in
  let c := {| c_mod_dir := [[109]%N]; c_cwd := [w]; c_fs := [([w], Dir); ([w; d], Dir); (main, File); (a, File)]; c_fixed := true |} in
  let pr := [(main, [imp [100;47;97;46;99;97;112;121]%N]);
             (a, [imp [46;46;47;109;97;105;110;46;99;97;112;121]%N; imp [97;46;99;97;112;121]%N;
                  imp [120;46;99;97;112;121]%N])] in
  compile_all c pr main = Ok [main; a]
  /\ lower_import c a (imp [120;46;99;97;112;121]%N) = Reject (RNotFound [w; d; [120;46;99;97;112;121]%N]).
Proof. vm_compute. split; reflexivity. Qed.
