(* C06 -- The compiler never crashes or hangs, whatever it is given.
   Only statements, [exact]s and [Print Assumptions] live here.

   Level: partial.  C06 is a property of the running Rust program; what Coq carries are the
   no-crash / termination theorems of the components that are modelled with every panic site
   as an explicit [Crash]:
     * diagnostics rendering (Model/Diag.v, this file): exact conditions under which
       `Diagnostic::display` / `input_snippet` cannot panic, and witnesses for when they do;
     * LineIndex::line_col (C25) and the lexer (C22), re-exported below.
   No-crash theorems of components owned by other properties exist in compiled form and are
   part of the same argument; they are not imported here so that this file does not depend on
   files still in flux:  C05_scope_stack_never_empty (scope lowering), C11_assign_discriminants_total,
   C11_check_no_crash_except_known / _refuted (switch checking), C12_max_no_crash (type max),
   C15_*_no_crash* (const consumers), C20_finish_no_crash / C26_client_offer_no_crash
   (inference scheduling), C17_no_panic_when_sizes_fit (layout).
   Everything else -- Rust stack overflow, Cranelift verifier, allocator, wall time, and all
   code that is not modelled -- is explored by child-process fuzzing (lib/verif/props/c06.py). *)
From Capy Require Import Common.Util Model.LineIndex Spec.LineSpec Model.Diag Proofs.DiagProofs.
From Capy Require Properties.C25 Properties.C22.
From Capy Require Import Model.Lexer Spec.LexSpec.
Local Open Scope nat_scope.

(* Rendering never panics for a non-empty range inside the text whose ends are char boundaries
   and whose first and last byte are not newlines (texts without '\r'). *)
Theorem C06_display_no_crash : forall txt start end_ missing,
  NoCR txt -> start < end_ -> end_ <= length txt ->
  content txt start -> content txt (end_ - 1) ->
  tboundary txt start -> tboundary txt end_ ->
  exists r, display txt start end_ missing = Ok r.
Proof. exact display_no_crash. Qed.
Print Assumptions C06_display_no_crash.

(* The full statement (every range within the text renders) is FALSE of the code: *)
Definition C06_diag_full : Prop := diag_full.
Theorem C06_diag_full_refuted : ~ C06_diag_full.
Proof. exact diag_full_refuted. Qed.
Print Assumptions C06_diag_full_refuted.

(* exactly: an empty range at offset 0 underflows `range.end() - 1` for every text *)
Theorem C06_display_crash_end_zero : forall txt start missing, display txt start 0 missing = Crash 76.
Proof. exact display_crash_end_zero. Qed.
Print Assumptions C06_display_crash_end_zero.

(* a range whose last byte is a newline *)
Theorem C06_display_crash_range_ends_with_newline :
  display [97; 98; 10; 99; 100]%N 0 3 false = Crash 335.
Proof. exact display_crash_range_ends_with_newline. Qed.
Print Assumptions C06_display_crash_range_ends_with_newline.

(* a range ending inside a multi-byte character *)
Theorem C06_display_crash_range_ends_inside_char :
  display [97; 195; 169]%N 0 2 false = Crash 335.
Proof. exact display_crash_range_ends_inside_char. Qed.
Print Assumptions C06_display_crash_range_ends_inside_char.

(* a range starting on the '\n' of a "\r\n" line *)
Theorem C06_display_crash_start_on_crlf_newline :
  display [97; 13; 10; 98]%N 2 4 false = Crash 345.
Proof. exact display_crash_start_on_crlf_newline. Qed.
Print Assumptions C06_display_crash_start_on_crlf_newline.

(* re-exports: LineIndex::line_col has no reachable panic (C25) *)
Theorem C06_line_col_no_crash : forall txt off,
  position txt off = Ok (line_spec txt off, col_spec txt off).
Proof. exact Properties.C25.C25_line_col_correct. Qed.
Print Assumptions C06_line_col_no_crash.

(* re-exports: the lexer terminates on every input without crashing (C22) *)
Theorem C06_lex_total : forall txt,
  exists toks, lex txt = Ok (toks, byte_len txt) /\ lex_ok txt toks (byte_len txt) = true.
Proof. exact Properties.C22.C22_lex_total_and_ok. Qed.
Print Assumptions C06_lex_total.

(* Non-vacuity of the no-crash theorem: "ab\ncd\tef\n\ngh", range 4..6 ("d\t") *)
Example C06_example_render :
  display [97; 98; 10; 99; 100; 9; 101; 102; 10; 10; 103; 104]%N 4 6 false =
  Ok (1, [RLine 0 false [(false, [97; 98]%N)];
          RLine 1 true [(false, [99]%N); (true, [100; 32; 32; 32; 32]%N); (false, [101; 102]%N)];
          RLine 2 false [(false, [])];
          RLine 3 false [(false, [103; 104]%N)]]).
Proof. vm_compute. reflexivity. Qed.
