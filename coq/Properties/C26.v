(* C26 — Inference scheduling offers exactly the ready work and detects true cycles.
   Only statements, [exact]s and [Print Assumptions] live here.

   Model/Topo.v    : topo::TopoSort (crates/topo/src/lib.rs) + the TopoSort call skeleton of
                     InferenceCtx::finish; `num_children -= 1` on 0 is [Crash 258].
   Spec/Sched.v    : abstract scheduler (pending / done / waits), [ready], [offer], and the
                     usage protocol [usage_okb] (weak: what the proofs need) and [protocol_okb]
                     (strong: additionally the actors of a round are exactly the offered items).
   A history is a seed plus a list of rounds; a round is a list of events
   (x, Complete) | (x, Register deps), in processing order.  No bound on items or rounds. *)
From Capy Require Import Common.Util Model.Topo Spec.Sched Proofs.TopoMap Proofs.TopoProofs Proofs.TopoRefine.

(* 1. Refinement / no crash: every protocol history runs on the TopoSort model without
      reaching a panic site (no `num_children` underflow) and ends in a state representing
      the abstract scheduler's state. *)
Theorem C26_run_refines : forall seed h,
  usage_okb (a_seed seed) h = true ->
  exists t, run (extend empty seed) h = Ok t /\ Rep t (a_run (a_seed seed) h).
Proof. exact run_refines. Qed.
Print Assumptions C26_run_refines.

Theorem C26_protocol_implies_usage : forall h s, protocol_okb s h = true -> usage_okb s h = true.
Proof. exact protocol_usage. Qed.
Print Assumptions C26_protocol_implies_usage.

(* 2. Each round offers exactly the pending items all of whose registered dependencies have
      completed, in registration order; CycleErr iff something is pending and nothing is ready. *)
Theorem C26_peek_all_exact : forall t s, Rep t s ->
  peek_all t = if negb (is_nil (pending s)) && is_nil (ready s) then PeekCycle
               else PeekOk (ready s).
Proof. exact peek_all_exact. Qed.
Print Assumptions C26_peek_all_exact.

Theorem C26_peek_all_cyclic_exact : forall t s, Rep t s ->
  peek_all_cyclic t = if negb (is_nil (pending s)) && is_nil (ready s) then Some (pending s)
                      else None.
Proof. exact peek_all_cyclic_exact. Qed.
Print Assumptions C26_peek_all_cyclic_exact.

(* what `finish` processes in a round = the abstract offer (ready items, or all pending
   items in a cycle-breaking round); its unwrap / assert never fire *)
Theorem C26_client_offer_exact : forall t s, Rep t s -> pending s <> [] ->
  client_offer t = Ok (offer s).
Proof. exact client_offer_exact. Qed.
Print Assumptions C26_client_offer_exact.

Theorem C26_client_offer_no_crash : forall t, is_empty t = false ->
  exists l, client_offer t = Ok l /\ l <> [].
Proof. exact client_offer_no_crash. Qed.
Print Assumptions C26_client_offer_no_crash.

(* 3. A cycle is reported only when every pending item still waits on a pending item ... *)
Theorem C26_cycle_only_when_all_blocked : forall t s, Rep t s -> peek_all t = PeekCycle ->
  pending s <> [] /\
  forall x, In x (pending s) -> exists c, In (x, c) (waits s) /\ In c (pending s).
Proof. exact cycle_only_when_all_blocked. Qed.
Print Assumptions C26_cycle_only_when_all_blocked.

(* ... and is reported whenever nothing is ready *)
Theorem C26_cycle_iff_none_ready : forall t s, Rep t s ->
  (peek_all t = PeekCycle <-> pending s <> [] /\ ready s = []).
Proof. exact cycle_iff_none_ready. Qed.
Print Assumptions C26_cycle_iff_none_ready.

(* 4. An item is offered only while pending; a completed item is never offered again. *)
Theorem C26_offered_only_while_pending : forall seed h,
  usage_okb (a_seed seed) h = true ->
  exists t, run (extend empty seed) h = Ok t /\
    forall l x, client_offer t = Ok l -> In x l ->
      In x (pending (a_run (a_seed seed) h)) /\ ~ In x (completed_of h).
Proof. exact offered_only_while_pending. Qed.
Print Assumptions C26_offered_only_while_pending.

(* 5. The schedule empties once every seeded or registered item completed. *)
Theorem C26_empties_when_all_complete : forall seed h,
  usage_okb (a_seed seed) h = true ->
  (forall x, In x seed \/ In x (registered_of h) -> In x (completed_of h)) ->
  exists t, run (extend empty seed) h = Ok t /\ is_empty t = true.
Proof. exact empties_when_all_complete. Qed.
Print Assumptions C26_empties_when_all_complete.

(* 6. A round in which every item only re-registers dependencies it already registered
      leaves the worklist unchanged (the exact situation in which `finish` would spin). *)
Theorem C26_stalled_round_fixpoint : forall r t,
  (forall e, In e r -> stalled_event t e) -> run_round t r = Ok t.
Proof. exact stalled_round_fixpoint. Qed.
Print Assumptions C26_stalled_round_fixpoint.

(* 6b. Converse: under the protocol (every actor was pending when the round started, which
       [actors_okb] guarantees), a round that leaves the worklist unchanged made no progress:
       nothing completed and every registration was already registered.  Hence
       "the worklist is unchanged by a round  <->  every event of the round is stalled". *)
Theorem C26_unchanged_round_stalled : forall t s r,
  Rep t s -> round_okb s r = true ->
  (forall e, In e r -> In (fst e) (pending s)) ->
  run_round t r = Ok t ->
  forall e, In e r -> stalled_event t e.
Proof. exact unchanged_round_stalled. Qed.
Print Assumptions C26_unchanged_round_stalled.

Theorem C26_round_unchanged_iff_stalled : forall t s r,
  Rep t s -> round_okb s r = true ->
  (forall e, In e r -> In (fst e) (pending s)) ->
  (run_round t r = Ok t <-> forall e, In e r -> stalled_event t e).
Proof. exact round_unchanged_iff_stalled. Qed.
Print Assumptions C26_round_unchanged_iff_stalled.

Theorem C26_actors_ok_pending : forall s r, actors_okb s r = true ->
  forall e, In e r -> In (fst e) (pending s).
Proof. exact actors_ok_pending. Qed.
Print Assumptions C26_actors_ok_pending.

(* The protocol hypothesis is needed: outside it the model (like the crate, debug build)
   reaches the underflow panic.  insert_dep(1,2); remove(1); insert_dep(3,1); remove(2). *)
Lemma C26_underflow_reachable_outside_protocol :
  (do p <- remove (insert_dep empty 1 2) 1; remove (insert_dep (fst p) 3 1) 2)%N = Crash 258.
Proof. exact underflow_outside_protocol. Qed.
Print Assumptions C26_underflow_reachable_outside_protocol.

(* Non-vacuity 1: the crate's unit test (burger=1 patty=2 steak=3 flank=4 beef=5 meatballs=6 cow=7). *)
Definition burger : topo :=
  insert_dep (insert_dep (insert_dep (insert_dep (insert_dep (insert_dep empty 1 2) 3 4) 2 5) 6 5) 4 7) 5 7.
Example C26_example_burger :
  (do a <- pop_all burger; do b <- pop_all (fst a); do c <- pop_all (fst b);
   do d <- pop_all (fst c); do e <- pop_all (fst d);
   Ok [snd a; snd b; snd c; snd d; snd e])%N
  = Ok [PeekOk [7]; PeekOk [4; 5]; PeekOk [2; 3; 6]; PeekOk [1]; PeekOk []]%N.
Proof. vm_compute. reflexivity. Qed.

(* Non-vacuity 2: four items, 0 and 1 wait on each other, 3 waits on 0; the second round is
   cycle-breaking (all pending items are offered; 0 completes although 1 is still pending). *)
Definition hist4 : list round :=
  [ [(0, Register [1]); (1, Register [0]); (2, Complete); (3, Register [0])];
    [(0, Complete); (1, Complete); (3, Complete)] ]%N.
Example C26_example_cycle :
  protocol_okb (a_seed [0;1;2;3]%N) hist4 = true /\
  (do t <- run (extend empty [0;1;2;3]%N) [hd [] hist4]; Ok (peek_all t, peek_all_cyclic t))
    = Ok (PeekCycle, Some [0;1;3]%N) /\
  (do t <- run (extend empty [0;1;2;3]%N) hist4; Ok (is_empty t)) = Ok true.
Proof. vm_compute. repeat split; reflexivity. Qed.
