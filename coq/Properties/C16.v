(* C16 — Generic calls behave like calls to hand-substituted copies.
   Level "partial": what is PROVED here is the substitution lemma on the reference semantics
   (Common/CapyCore.v: comptime parameters are looked up in the comptime environment [senv])
   and the instantiation-table model; that the real compiler's instantiation machinery
   (hir_ty evaluate_comptime_args / init_new_concrete, mangle GenericID) agrees with this
   semantics is only TESTED end to end (lib/verif/props/c16.py).
   Only statements, [exact]s and [Print Assumptions] live here. *)
From Capy Require Import Common.CapyCore Model.Generics Proofs.GenericsProofs.
From Coq Require Import List ZArith.
Import ListNotations.

(* Evaluating code under the comptime environment s is evaluating the substituted code
   under the empty comptime environment (same table, fuel, run-time environment, output). *)
Theorem C16_subst_equiv : forall fs n s en out e,
  int_senv s -> eval fs n s en out e = eval fs n ([], []) en out (subst s e).
Proof. exact subst_equiv. Qed.
Print Assumptions C16_subst_equiv.

(* The body of a generic function under its comptime arguments runs exactly like the body
   of the hand-substituted copy. *)
Theorem C16_generic_body_like_copy : forall fs n fd s cenv out,
  int_senv s ->
  eval fs n s cenv out (f_body fd) = eval fs n ([], []) cenv out (f_body (subst_fun s fd)).
Proof. exact generic_call_equiv. Qed.
Print Assumptions C16_generic_body_like_copy.

(* Whole calls: calling generic f with comptime arguments (targs, cargs) behaves like calling
   the substituted copy appended to the function table with no comptime arguments; results are
   equal except for the function index recorded in a run-time fault raised by the callee
   (the copy has another index).  The non-stuck hypothesis excludes calls to functions
   outside the table, which the appended copy could otherwise resolve. *)
Theorem C16_generic_call_like_copy : forall fs n f fd s0 targs cargs cvs args en out,
  nth_error fs f = Some fd -> opt_all (map (cresolve s0) cargs) = Some cvs ->
  int_senv (map (tsubst (fst s0)) targs, cvs) ->
  eval fs (S n) s0 en out (ECall f targs cargs args) <> RStuck ->
  res_eq_upto_fn (eval fs (S n) s0 en out (ECall f targs cargs args))
                 (eval (fs ++ [subst_fun (map (tsubst (fst s0)) targs, cvs) fd]) (S n) s0 en out
                       (ECall (length fs) [] [] args)).
Proof. exact generic_call_like_copy. Qed.
Print Assumptions C16_generic_call_like_copy.

(* Calls with equal (resolved) comptime arguments behave identically. *)
Theorem C16_equal_args_same_behaviour : forall fs n s en out f ta1 ca1 ta2 ca2 args,
  map (tsubst (fst s)) ta1 = map (tsubst (fst s)) ta2 ->
  opt_all (map (cresolve s) ca1) = opt_all (map (cresolve s) ca2) ->
  eval fs n s en out (ECall f ta1 ca1 args) = eval fs n s en out (ECall f ta2 ca2 args).
Proof. exact equal_args_same_behaviour_eval. Qed.
Print Assumptions C16_equal_args_same_behaviour.

(* Instantiation table (one area per distinct key = function + comptime arguments; symbol =
   base name + G<index>): re-instantiating a key finds its area again, later instantiations
   never move it, two keys share an area / a symbol iff they are equal. *)
Theorem C16_instances_do_not_interfere : forall base tbl k1 i1 tbl1 l k2 i2 tbl2,
  find_or_add tbl k1 = (i1, tbl1) -> find_or_add (tbl1 ++ l) k2 = (i2, tbl2) ->
  find_or_add tbl2 k1 = (i1, tbl2) /\ nth_error tbl2 i1 = Some k1 /\ (i1 = i2 <-> k1 = k2) /\
  (inst_symbol base i1 = inst_symbol base i2 <-> k1 = k2).
Proof. exact instances_do_not_interfere. Qed.
Print Assumptions C16_instances_do_not_interfere.

(* The int_senv hypothesis cannot be dropped (comptime value parameters are integers). *)
Theorem C16_subst_needs_int_senv : exists s c, cresolve ([], []) (csubst s c) <> cresolve s c.
Proof. exact cresolve_csubst_needs_int. Qed.
Print Assumptions C16_subst_needs_int_senv.

(* Non-vacuity: add :: (comptime T, comptime k: T, x: T) -> T { x + k } instantiated at (u8, 250)
   and (i32, 250): 10 + 250 wraps to 4 for u8 and is 260 for i32; generic call = copy. *)
Definition ex_add : fundef :=
  mkFun 1 [TVar 0] [(0%nat, TVar 0)] (TVar 0) (EBin OAdd (EVar 0) (ECParam 0)).
Definition ex_u8 := mkI false W8.
Definition ex_i32 := mkI true W32.
Example C16_example :
  eval [ex_add] 5 ([], []) [] [] (ECall 0 [TInt ex_u8] [CLit (TInt ex_u8) 250] [EInt (TInt ex_u8) 10])
    = Res [] [] (CVal (VInt ex_u8 4)) /\
  eval [ex_add] 5 ([], []) [] [] (ECall 0 [TInt ex_i32] [CLit (TInt ex_i32) 250] [EInt (TInt ex_i32) 10])
    = Res [] [] (CVal (VInt ex_i32 260)) /\
  subst_fun ([TInt ex_u8], [VInt ex_u8 250]) ex_add
    = mkFun 0 [] [(0%nat, TInt ex_u8)] (TInt ex_u8) (EBin OAdd (EVar 0) (EInt (TInt ex_u8) 250)) /\
  eval ([ex_add] ++ [subst_fun ([TInt ex_u8], [VInt ex_u8 250]) ex_add]) 5 ([], []) [] []
       (ECall 1 [] [] [EInt (TInt ex_u8) 10]) = Res [] [] (CVal (VInt ex_u8 4)).
Proof. repeat split; vm_compute; reflexivity. Qed.
