(* C03 — Each executed defer runs exactly once, in LIFO order, on every exit path.
   Only statements, [exact]s and [Print Assumptions] live here.

   compile_fn     : model of the UNCHANGED defer-stack code generation (Model/Defer.v)
   compile_fn_fx  : the same with the proposed fix (Model/DeferFixed.v)
   trun_fn        : execution of the generated structured code under an oracle
   hexec_fn       : reference semantics (Spec/DeferSpec.v): leaving a block by any
                    path runs exactly the defers it has reached, last first, once
   fuel           : bound on the iterations of each loop activation, the same in
                    both (so the equations also say: same divergence behaviour). *)
From Capy Require Import Common.Util Model.Defer Model.DeferFixed Spec.DeferSpec
  Proofs.DeferSim Proofs.DeferFixedProofs Proofs.DeferProofs Proofs.DeferResolve Proofs.DeferSource.

(* model_fn fuel body o    = lower labels (hir) ; compile (codegen, UNCHANGED) ; run under oracle o
   model_fn_fx             = the same with the proposed fix in the code generator
   exec_fn fuel body o     = the specification on the source program (named labels)
   snd (lower_fn body) = false : the lowering reported no error (accepted program) *)

(* The full property: for EVERY accepted function body, every oracle and every
   loop bound, the compiled code prints exactly the specified trace. *)
Definition C03_full : Prop :=
  forall body fuel o, snd (lower_fn body) = false -> model_fn fuel body o = exec_fn fuel body o.

(* It is FALSE of the unchanged compiler (findings C03-1, C03-2, C03-3). *)
Theorem C03_full_refuted : ~ C03_full.
Proof. exact source_full_refuted. Qed.
Print Assumptions C03_full_refuted.

(* The same at the level of the code generator alone (all HIR bodies). *)
Definition C03_codegen_full : Prop :=
  forall h code fuel o, compile_fn h = Ok code -> trun_fn fuel code o = hexec_fn fuel h o.
Theorem C03_codegen_full_refuted : ~ C03_codegen_full.
Proof. exact defer_full_refuted. Qed.
Print Assumptions C03_codegen_full_refuted.

(* Witnesses, one per defect class, from source text to trace
   (spec trace, HIR-spec trace, unchanged compiler, fixed compiler, class flags). *)
Theorem C03_witness_break_out_of_loop :
  snd (lower_fn w_k1) = false /\ exec_fn 5 w_k1 [true; true] = Ok [65%N] /\
  hexec_fn 5 (fst (lower_fn w_k1)) [true; true] = Ok [65%N] /\
  model_fn 5 w_k1 [true; true] = Ok [65; 65]%N /\
  model_fn_fx 5 w_k1 [true; true] = Ok [65%N] /\
  known_classes (fst (lower_fn w_k1)) = (true, false, false).
Proof. exact w_k1_fails. Qed.
Print Assumptions C03_witness_break_out_of_loop.

Theorem C03_witness_continue_skips_defers :
  snd (lower_fn w_k2) = false /\ exec_fn 5 w_k2 [true; true; false] = Ok [76%N] /\
  hexec_fn 5 (fst (lower_fn w_k2)) [true; true; false] = Ok [76%N] /\
  model_fn 5 w_k2 [true; true; false] = Ok [] /\
  model_fn_fx 5 w_k2 [true; true; false] = Ok [76%N] /\
  known_classes (fst (lower_fn w_k2)) = (false, true, false).
Proof. exact w_k2_fails. Qed.
Print Assumptions C03_witness_continue_skips_defers.

Theorem C03_witness_unreached_defer_runs :
  snd (lower_fn w_k3) = false /\ exec_fn 5 w_k3 [true] = Ok [65%N] /\
  hexec_fn 5 (fst (lower_fn w_k3)) [true] = Ok [65%N] /\
  model_fn 5 w_k3 [true] = Ok [66; 65]%N /\
  model_fn_fx 5 w_k3 [true] = Ok [65%N] /\
  known_classes (fst (lower_fn w_k3)) = (false, false, true).
Proof. exact w_k3_fails. Qed.
Print Assumptions C03_witness_unreached_defer_runs.

(* The strongest true statement about the unchanged compiler: on every accepted
   function body whose HIR is outside the three syntactic defect classes
     K1 an exit jump to a loop while a block enclosing the loop has a pending defer,
     K2 a continue while a block inside the loop has a pending defer,
     K3 a defer placed, in the target block of a jump, after the statement containing the jump,
   the compiled code prints exactly the specified trace (all programs, all
   oracles, all loop bounds; structural induction, no size bound). *)
Theorem C03_except_known : forall body fuel o,
  snd (lower_fn body) = false -> known_class_free (fst (lower_fn body)) = true ->
  model_fn fuel body o = exec_fn fuel body o.
Proof. exact source_except_known. Qed.
Print Assumptions C03_except_known.

(* With the proposed fix the FULL property holds, for all accepted programs. *)
Theorem C03_fixed_full : forall body fuel o,
  snd (lower_fn body) = false -> model_fn_fx fuel body o = exec_fn fuel body o.
Proof. exact source_fixed_full. Qed.
Print Assumptions C03_fixed_full.

(* The three ingredients, each for ALL inputs of its stage. *)
(* label resolution: id-based HIR semantics of the lowered body = name-based spec *)
Theorem C03_label_resolution : forall body fuel o,
  snd (lower_fn body) = false ->
  hexec_fn fuel (fst (lower_fn body)) o = exec_fn fuel body o.
Proof. exact lower_fn_correct. Qed.
Print Assumptions C03_label_resolution.

(* code generation, unchanged compiler, any HIR body outside K1..K3 *)
Theorem C03_codegen_except_known : forall h code fuel o,
  known_class_free h = true -> compile_fn h = Ok code ->
  trun_fn fuel code o = hexec_fn fuel h o.
Proof. exact compile_fn_except_known. Qed.
Print Assumptions C03_codegen_except_known.

(* code generation with the fix, any HIR body *)
Theorem C03_codegen_fixed_full : forall h code fuel o,
  compile_fn_fx h = Ok code -> trun_fn fuel code o = hexec_fn fuel h o.
Proof. exact compile_fn_fx_correct. Qed.
Print Assumptions C03_codegen_fixed_full.

(* no panic site of the modelled code generators (unreachable!() on a missing
   label, `expect`s on the defer stack) is reachable on an accepted program *)
Theorem C03_accepted_programs_compile : forall body, snd (lower_fn body) = false ->
  (exists code, compile_fn (fst (lower_fn body)) = Ok code) /\ (exists code, compile_fn_fx (fst (lower_fn body)) = Ok code).
Proof. exact lowered_compiles. Qed.
Print Assumptions C03_accepted_programs_compile.

(* Non-vacuity: a function with nested loop, labelled block, defers, break,
   continue, return and .try that is outside the known classes, is compiled, and
   prints a non-trivial trace. *)
Definition ex_body : list stmt :=
  [SDefer 65;
   SPrint 97;
   SLoop (Some 1%N) true
     [SIf [SContinue None] [];
      SBlock (Some 2%N) [SDefer 88; SIf [SBreak (Some 2%N)] [SPrint 98]];
      STry;
      SDefer 76;
      SPrint 99];
   SPrint 100].
Example C03_example :
  snd (lower_fn ex_body) = false /\
  known_class_free (fst (lower_fn ex_body)) = true /\
  is_ok (compile_fn (fst (lower_fn ex_body))) = true /\
  model_fn 9 ex_body [true; false; true; false; true; false; false; false; false]
    = Ok [97; 88; 99; 76; 98; 88; 99; 76; 100; 65]%N /\
  exec_fn 9 ex_body [true; false; true; false; true; false; false; false; false]
    = Ok [97; 88; 99; 76; 98; 88; 99; 76; 100; 65]%N.
Proof. vm_compute. repeat split. Qed.
