(* C03 — Each executed defer runs exactly once, in LIFO order, on every exit path.
   Only statements, [exact]s and [Print Assumptions] live here.

   MODEL IN FORCE (since /repo c8af5e1 "fix: defers run exactly once on every
   exit path"): Model/DeferFixed.v.
     model_fn_fx fuel body o = lower labels (hir body.rs) ; compile (codegen
                               functions.rs, defers compiled at every leave site,
                               loops push a frame, continue unwinds) ; run the
                               generated structured code under oracle o
     exec_fn fuel body o     = the specification on the source program (named
                               labels; leaving a block by any path runs exactly the
                               defers it has reached, last first, once)
     snd (lower_fn body) = false : the lowering reported no error (accepted program)
     fuel                    = bound on the iterations of each loop activation, the
                               same on both sides (equal divergence behaviour)

   The second half of the file is HISTORY: the statements about the compiler as
   it was before c8af5e1 (Model/Defer.v), whose full theorem is refuted by the
   three witnesses that became findings C03-1..3 (now fixed). *)
From Capy Require Import Common.Util Model.Defer Model.DeferFixed Spec.DeferSpec
  Proofs.DeferSim Proofs.DeferFixedProofs Proofs.DeferProofs Proofs.DeferResolve Proofs.DeferSource.

(* ======================================================== model in force *)

(* The full property: for EVERY accepted function body, every oracle and every
   loop bound, the compiled code prints exactly the specified trace. *)
Definition C03_full : Prop :=
  forall body fuel o, snd (lower_fn body) = false -> model_fn_fx fuel body o = exec_fn fuel body o.

Theorem C03_full_holds : C03_full.
Proof. exact source_fixed_full. Qed.
Print Assumptions C03_full_holds.

(* the same, spelled out (name kept from before the fix was committed) *)
Theorem C03_fixed_full : forall body fuel o,
  snd (lower_fn body) = false -> model_fn_fx fuel body o = exec_fn fuel body o.
Proof. exact source_fixed_full. Qed.
Print Assumptions C03_fixed_full.

(* The ingredients, each for ALL inputs of its stage. *)
(* label resolution: id-based HIR semantics of the lowered body = name-based spec *)
Theorem C03_label_resolution : forall body fuel o,
  snd (lower_fn body) = false ->
  hexec_fn fuel (fst (lower_fn body)) o = exec_fn fuel body o.
Proof. exact lower_fn_correct. Qed.
Print Assumptions C03_label_resolution.

(* code generation, any HIR body (structural induction + induction on loop iterations) *)
Theorem C03_codegen_fixed_full : forall h code fuel o,
  compile_fn_fx h = Ok code -> trun_fn fuel code o = hexec_fn fuel h o.
Proof. exact compile_fn_fx_correct. Qed.
Print Assumptions C03_codegen_fixed_full.

(* no panic site of the modelled code generators (unreachable!() on a missing
   label, `expect`s on the defer stack) is reachable on an accepted program *)
Theorem C03_accepted_programs_compile : forall body, snd (lower_fn body) = false ->
  (exists code, compile_fn (fst (lower_fn body)) = Ok code) /\ (exists code, compile_fn_fx (fst (lower_fn body)) = Ok code).
Proof. exact lowered_compiles. Qed.
Print Assumptions C03_accepted_programs_compile.

(* Non-vacuity: nested loop, labelled block, defers (one of them a block with
   its own defers), break, continue, return, .try; the former witness programs
   now print the specified traces. *)
Definition ex_body : list stmt :=
  [SDefer (DBlock [72; 105]%N [DAtom 49; DBlock [50]%N [DAtom 51]]);
   SPrint 97;
   SLoop (Some 1%N) true
     [SDefer (DAtom 76);
      SIf [SContinue None] [];
      SBlock (Some 2%N) [SDefer (DAtom 88); SIf [SBreak (Some 2%N)] [SPrint 98]; SDefer (DAtom 89)];
      STry TryOptional;
      SIf [SBreak None] [];
      SPrint 99];
   SDefer (DAtom 65);
   SPrint 100].
Example C03_example :
  snd (lower_fn ex_body) = false /\
  model_fn_fx 9 ex_body [true; true; true; false; true; false; true]
    = Ok [97; 76; 88; 76; 100; 65; 72; 105; 50; 51; 49]%N /\
  exec_fn 9 ex_body [true; true; true; false; true; false; true]
    = Ok [97; 76; 88; 76; 100; 65; 72; 105; 50; 51; 49]%N /\
  model_fn_fx 5 w_k1 [true; true] = Ok [65%N] /\
  model_fn_fx 5 w_k2 [true; true; false] = Ok [76%N] /\
  model_fn_fx 5 w_k3 [true] = Ok [65%N].
Proof. vm_compute. repeat split. Qed.

(* ================================================================ HISTORY
   The compiler before /repo c8af5e1 (Model/Defer.v: defers compiled into exit
   blocks, no frame for loops, continue = bare jump). *)

Definition C03_full_pre_fix : Prop :=
  forall body fuel o, snd (lower_fn body) = false -> model_fn fuel body o = exec_fn fuel body o.

(* FALSE of the pre-fix compiler (findings C03-1, C03-2, C03-3, fixed by c8af5e1). *)
Theorem C03_full_pre_fix_refuted : ~ C03_full_pre_fix.
Proof. exact source_full_refuted. Qed.
Print Assumptions C03_full_pre_fix_refuted.

Definition C03_codegen_full_pre_fix : Prop :=
  forall h code fuel o, compile_fn h = Ok code -> trun_fn fuel code o = hexec_fn fuel h o.
Theorem C03_codegen_full_pre_fix_refuted : ~ C03_codegen_full_pre_fix.
Proof. exact defer_full_refuted. Qed.
Print Assumptions C03_codegen_full_pre_fix_refuted.

(* Witnesses, one per defect class (spec trace, HIR-spec trace, pre-fix compiler,
   fixed compiler, class flags). *)
Theorem C03_witness_break_out_of_loop :
  snd (lower_fn w_k1) = false /\ exec_fn 5 w_k1 [true; true] = Ok [65%N] /\
  hexec_fn 5 (fst (lower_fn w_k1)) [true; true] = Ok [65%N] /\
  model_fn 5 w_k1 [true; true] = Ok [65; 65]%N /\
  model_fn_fx 5 w_k1 [true; true] = Ok [65%N] /\
  known_classes (fst (lower_fn w_k1)) = (true, false, false).
Proof. exact w_k1_fails. Qed.
Print Assumptions C03_witness_break_out_of_loop.

Theorem C03_witness_continue_skips_defers :
  snd (lower_fn w_k2) = false /\ exec_fn 5 w_k2 [true; true; false] = Ok [76%N] /\
  hexec_fn 5 (fst (lower_fn w_k2)) [true; true; false] = Ok [76%N] /\
  model_fn 5 w_k2 [true; true; false] = Ok [] /\
  model_fn_fx 5 w_k2 [true; true; false] = Ok [76%N] /\
  known_classes (fst (lower_fn w_k2)) = (false, true, false).
Proof. exact w_k2_fails. Qed.
Print Assumptions C03_witness_continue_skips_defers.

Theorem C03_witness_unreached_defer_runs :
  snd (lower_fn w_k3) = false /\ exec_fn 5 w_k3 [true] = Ok [65%N] /\
  hexec_fn 5 (fst (lower_fn w_k3)) [true] = Ok [65%N] /\
  model_fn 5 w_k3 [true] = Ok [66; 65]%N /\
  model_fn_fx 5 w_k3 [true] = Ok [65%N] /\
  known_classes (fst (lower_fn w_k3)) = (false, false, true).
Proof. exact w_k3_fails. Qed.
Print Assumptions C03_witness_unreached_defer_runs.

(* The strongest true statement about the pre-fix compiler: correct on every
   accepted body whose HIR is outside the three syntactic defect classes
     K1 an exit jump to a loop while a block enclosing the loop has a pending defer,
     K2 a continue while a block inside the loop has a pending defer,
     K3 a defer placed, in the target block of a jump, after the statement containing the jump. *)
Theorem C03_except_known_pre_fix : forall body fuel o,
  snd (lower_fn body) = false -> known_class_free (fst (lower_fn body)) = true ->
  model_fn fuel body o = exec_fn fuel body o.
Proof. exact source_except_known. Qed.
Print Assumptions C03_except_known_pre_fix.

Theorem C03_codegen_except_known_pre_fix : forall h code fuel o,
  known_class_free h = true -> compile_fn h = Ok code ->
  trun_fn fuel code o = hexec_fn fuel h o.
Proof. exact compile_fn_except_known. Qed.
Print Assumptions C03_codegen_except_known_pre_fix.
