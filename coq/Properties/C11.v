(* C11 — Switches are exhaustive, non-redundant, and dispatch on the runtime variant.
   Only statements, [exact]s and [Print Assumptions] live here. *)
From Capy Require Import Common.Util Model.Switch Model.SwitchFixed Spec.SwitchSpec
  Proofs.SwitchDiscr Proofs.SwitchCheck Proofs.SwitchDispatch Proofs.SwitchSpecb Proofs.SwitchFixed Proofs.SwitchWitness.

Local Open Scope N_scope.

(* ---------------------------------------------------------------- discriminants *)
(* The two-pass assignment of an enum declaration gives pairwise distinct
   discriminants, one per variant (so the tag identifies the variant). *)
Theorem C11_discriminants_distinct : forall ms ds,
  assign_discriminants ms = Ok ds -> NoDup ds /\ length ds = length ms.
Proof. exact discriminants_distinct. Qed.
Print Assumptions C11_discriminants_distinct.

(* Pairwise distinct manual discriminants are kept, position by position. *)
Theorem C11_manual_discriminants_kept : forall ms ds,
  NoDup (somes ms) -> assign_discriminants ms = Ok ds ->
  Forall2 (fun m d => forall x, m = Some x -> d = x) ms ds.
Proof. exact manual_discriminants_kept. Qed.
Print Assumptions C11_manual_discriminants_kept.

(* The assignment neither overflows u64 nor loops. *)
Theorem C11_assign_discriminants_total : forall ms,
  manual_max_plus1 ms + N.of_nat (length ms) <= u64_max ->
  exists ds, assign_discriminants ms = Ok ds.
Proof. exact assign_discriminants_total. Qed.
Print Assumptions C11_assign_discriminants_total.

(* FULL statement about the tag (false of the unchanged compiler). *)
Definition C11_discr_fit_full : Prop := discr_fit_full.

Theorem C11_discr_fit_refuted : ~ C11_discr_fit_full.
Proof. exact discr_fit_refuted. Qed.
Print Assumptions C11_discr_fit_refuted.

(* Strongest true version: every discriminant is below
   (largest manual discriminant + 1) + (number of auto-numbered variants);
   so they fit the i8 tag whenever that sum is <= 256. *)
Theorem C11_discriminants_bound : forall ms ds,
  assign_discriminants ms = Ok ds ->
  Forall (fun d => d < manual_max_plus1 ms + count_none (fst (pass1 [] ms))) ds.
Proof. exact discriminants_bound. Qed.
Print Assumptions C11_discriminants_bound.

(* No manual discriminants: variant i gets discriminant i. *)
Theorem C11_discriminants_auto : forall n : nat,
  N.of_nat n <= u64_max ->
  assign_discriminants (repeat None n) = Ok (map N.of_nat (seq 0 n)).
Proof. exact discriminants_auto. Qed.
Print Assumptions C11_discriminants_auto.

(* ------------------------------------------------------------ the checker *)
(* For a sum type that is not hidden behind a distinct / variant wrapper, the
   checker accepts a switch (no diagnostic, no panic) exactly when every arm
   names a member of the sum type (fully qualified, or by shorthand for enums),
   no member is named twice, and all members are named or there is a default. *)
Theorem C11_check_accepts_iff : forall sh arms dflt,
  wf_shape sh ->
  (check_switch (mkScrut [] sh) arms dflt = Ok [] <-> accepted_spec sh arms dflt).
Proof. exact check_accepts_iff. Qed.
Print Assumptions C11_check_accepts_iff.

(* The executable specification used as the oracle of the correspondence
   streams decides the declarative one, and the model's acceptance equals it. *)
Theorem C11_accepted_specb_iff : forall sh arms dflt,
  wf_shape sh -> (accepted_specb sh arms dflt = true <-> accepted_spec sh arms dflt).
Proof. exact accepted_specb_iff. Qed.
Print Assumptions C11_accepted_specb_iff.

Theorem C11_accepted_eq_specb : forall sh arms dflt,
  wf_shape sh -> accepted (mkScrut [] sh) arms dflt = accepted_specb sh arms dflt.
Proof. exact accepted_eq_specb. Qed.
Print Assumptions C11_accepted_eq_specb.

(* Outside the two known classes (wrapped scrutinee; nil-like arm on an
   optional) the checker never panics, for any scrutinee, arms and default. *)
Theorem C11_check_no_crash_except_known : forall s arms dflt,
  known_check_class s arms = None ->
  exists ds, check_switch s arms dflt = Ok ds.
Proof. exact check_total_except_known. Qed.
Print Assumptions C11_check_no_crash_except_known.

(* ------------------------------------------------------ the checker panics *)
Definition C11_check_no_crash_full : Prop := check_no_crash_full.

Theorem C11_check_no_crash_refuted : ~ C11_check_no_crash_full.
Proof. exact check_no_crash_refuted. Qed.
Print Assumptions C11_check_no_crash_refuted.

Theorem C11_witness_distinct_optional :
  check_switch w_distinct_opt [AFull t_i32; AFull (TA ANil)] false = Crash 2053.
Proof. exact witness_distinct_optional. Qed.
Print Assumptions C11_witness_distinct_optional.

Theorem C11_witness_distinct_enum_shorthand :
  check_switch (mkScrut [WDistinct 9] (SEnum 5 [vA; vB])) [AShort 10; AShort 11] false = Crash 1981.
Proof. exact witness_distinct_enum_shorthand. Qed.
Print Assumptions C11_witness_distinct_enum_shorthand.

Theorem C11_witness_nil_like_arm :
  check_switch (mkScrut [] (SOpt t_i32)) [AFull t_i32; AFull (TA (ADistinctNil 4))] false = Crash 2068.
Proof. exact witness_nil_like_arm. Qed.
Print Assumptions C11_witness_nil_like_arm.

(* ------------------------------------------------------------- the dispatch *)
(* For every accepted switch over a well-formed sum type whose discriminants are
   pairwise distinct and fit the tag, outside the two known code-generation
   classes (nullable-pointer optional with a default arm; argument bound to a
   pointer payload of a tagged union): the generated dispatch neither panics
   nor traps, and for a value whose current variant is the j-th member exactly
   the arm naming j runs, with the argument bound to that member's payload
   (loaded / in place / the pointer itself / nothing for zero-sized payloads);
   if no arm names j, the default arm runs. *)
Theorem C11_dispatch_exact_except_known : forall sh arms dflt with_arg,
  wf_shape sh -> wf_tags sh ->
  check_switch (mkScrut [] sh) arms dflt = Ok [] ->
  known_codegen_class sh arms dflt with_arg = None ->
  forall j, (j < length (variants_of sh))%nat ->
    dispatch sh arms dflt with_arg j = Ok (spec_outcome sh arms with_arg j).
Proof. exact dispatch_exact. Qed.
Print Assumptions C11_dispatch_exact_except_known.

(* The hypothesis [wf_tags] of the dispatch theorem holds for every enum whose
   discriminants come from the declaration algorithm and stay within the bound. *)
Theorem C11_enum_wf_tags : forall uid vs ms ds,
  assign_discriminants ms = Ok ds -> map v_discr vs = ds ->
  manual_max_plus1 ms + count_none (fst (pass1 [] ms)) <= 256 ->
  wf_tags (SEnum uid vs).
Proof. exact enum_wf_tags. Qed.
Print Assumptions C11_enum_wf_tags.

(* ----------------------------------------------- the code generator panics *)
Definition C11_dispatch_full : Prop := dispatch_full.

Theorem C11_dispatch_full_refuted : ~ C11_dispatch_full.
Proof. exact dispatch_full_refuted. Qed.
Print Assumptions C11_dispatch_full_refuted.

Theorem C11_witness_nullable_default :
  check_switch (mkScrut [] (SOpt t_pi32)) [AFull (TA ANil)] true = Ok [] /\
  compile_switch (SOpt t_pi32) [AFull (TA ANil)] true false = Crash 1729.
Proof. exact witness_nullable_default. Qed.
Print Assumptions C11_witness_nullable_default.

Theorem C11_witness_pointer_payload_arg :
  check_switch (mkScrut [] (SEnum 5 [vA; vG])) [AShort 10; AShort 13] false = Ok [] /\
  compile_switch (SEnum 5 [vA; vG]) [AShort 10; AShort 13] false true = Crash 1679.
Proof. exact witness_pointer_payload_arg. Qed.
Print Assumptions C11_witness_pointer_payload_arg.

Theorem C11_witness_discriminant_too_big :
  check_switch (mkScrut [] (SEnum 5 [vA255; vB256; vC257])) [AShort 10; AShort 11; AShort 12] false = Ok [] /\
  compile_switch (SEnum 5 [vA255; vB256; vC257]) [AShort 10; AShort 11; AShort 12] false false = Crash 273.
Proof. exact witness_discriminant_too_big. Qed.
Print Assumptions C11_witness_discriminant_too_big.

(* ------------------------------------------------- the repaired model *)
(* Model/SwitchFixed.v is the model with the candidate repairs of K1..K5, each
   switchable by [f : fixes]; the check drives it with the repairs it detects
   in the tree.  The refutations above are about the faithful model
   (= the repaired model with no repair, next three theorems) and stay as the
   record of what the unrepaired compiler does. *)
Theorem C11_fx_check_no_fixes : forall s arms dflt,
  check_switch_fx no_fixes s arms dflt = check_switch s arms dflt.
Proof. exact check_fx_no_fixes. Qed.
Print Assumptions C11_fx_check_no_fixes.

Theorem C11_fx_dispatch_no_fixes : forall sh arms dflt w j,
  dispatch_fx no_fixes sh arms dflt w j = dispatch sh arms dflt w j.
Proof. exact dispatch_fx_no_fixes. Qed.
Print Assumptions C11_fx_dispatch_no_fixes.

Theorem C11_fx_assign_no_fixes : forall ms,
  assign_discriminants_fx no_fixes ms = (do ds <- assign_discriminants ms; Ok (ds, [])).
Proof. exact assign_fx_no_fixes. Qed.
Print Assumptions C11_fx_assign_no_fixes.

(* Whatever repairs are present: no panic outside the classes still open. *)
Theorem C11_fx_check_no_crash_except_known : forall f s arms dflt,
  known_check_class_fx f s arms = None ->
  exists ds, check_switch_fx f s arms dflt = Ok ds.
Proof. exact check_fx_total_except_known. Qed.
Print Assumptions C11_fx_check_no_crash_except_known.

(* K1 and K3 repaired: the FULL statement — the checker never panics. *)
Theorem C11_fx_check_no_crash_full : forall f, fx1 f = true -> fx3 f = true ->
  forall s arms dflt, exists ds, check_switch_fx f s arms dflt = Ok ds.
Proof. exact check_no_crash_fx_full. Qed.
Print Assumptions C11_fx_check_no_crash_full.

(* K1 repaired: acceptance is exactly the specification for EVERY scrutinee,
   distinct / variant wrappers included (without the repair: unwrapped ones). *)
Theorem C11_fx_check_accepts_iff : forall f s arms dflt,
  (fx1 f = true \/ wrapped s = false) ->
  wf_shape (s_shape s) ->
  (check_switch_fx f s arms dflt = Ok [] <-> accepted_spec (s_shape s) arms dflt).
Proof. exact check_fx_accepts_iff. Qed.
Print Assumptions C11_fx_check_accepts_iff.

(* K2 repaired: a declaration that is not reported has discriminants that fit the tag
   (manual discriminants are u8 values: expect_match reports larger literals). *)
Theorem C11_fx_discr_fit : forall f ms ds,
  fx2 f = true ->
  (forall x, In x (somes ms) -> x < 256) ->
  assign_discriminants_fx f ms = Ok (ds, []) ->
  Forall (fun d => d < 256) ds.
Proof. exact discr_fit_fx. Qed.
Print Assumptions C11_fx_discr_fit.

(* Whatever repairs are present: exact dispatch outside the classes still open. *)
Theorem C11_fx_dispatch_exact_except_known : forall f sh arms dflt with_arg,
  wf_shape sh -> wf_tags sh ->
  accepted_spec sh arms dflt ->
  known_codegen_class_fx f sh arms dflt with_arg = None ->
  forall j, (j < length (variants_of sh))%nat ->
    dispatch_fx f sh arms dflt with_arg j = Ok (spec_outcome sh arms with_arg j).
Proof. exact dispatch_fx_exact. Qed.
Print Assumptions C11_fx_dispatch_exact_except_known.

(* K4 and K5 repaired: the FULL dispatch statement. *)
Theorem C11_fx_dispatch_full : forall f, fx4 f = true -> fx5 f = true ->
  forall sh arms dflt with_arg,
    wf_shape sh -> wf_tags sh -> accepted_spec sh arms dflt ->
    forall j, (j < length (variants_of sh))%nat ->
      dispatch_fx f sh arms dflt with_arg j = Ok (spec_outcome sh arms with_arg j).
Proof. exact dispatch_fx_full. Qed.
Print Assumptions C11_fx_dispatch_full.

(* ------------------------------------------------------------ non-vacuity *)
Example C11_example_check :
  check_switch (mkScrut [] ex_enum) [AShort 11; AFull (TV vA)] true = Ok [] /\
  check_switch (mkScrut [] ex_enum) [AShort 11; AFull (TV vA)] false = Ok [DMissing 2] /\
  check_switch (mkScrut [] ex_enum) [AShort 11; AFull (TV vB); AShort 99] true = Ok [DNotShorthand 2] /\
  check_switch (mkScrut [] ex_enum) [AShort 11; AFull (TV vB)] true = Ok [DAlready 1].
Proof. exact example_check. Qed.

Example C11_example_dispatch :
  dispatch ex_enum [AShort 11; AFull (TV vA)] true true 0 = Ok (OArm 1 (Some BNone)) /\
  dispatch ex_enum [AShort 11; AFull (TV vA)] true true 1 = Ok (OArm 0 (Some BLoad)) /\
  dispatch ex_enum [AShort 11; AFull (TV vA)] true true 2 = Ok ODefault /\
  dispatch (SOpt t_pi32) [AFull (TA ANil); AFull t_pi32] false true 0 = Ok (OArm 1 (Some BPointer)) /\
  dispatch (SOpt t_pi32) [AFull (TA ANil); AFull t_pi32] false true 1 = Ok (OArm 0 (Some BNone)).
Proof. exact example_dispatch. Qed.

Example C11_example_discriminants :
  assign_discriminants [None; None; Some 7; None; Some 1; Some 7; None] = Ok [0; 2; 7; 8; 1; 9; 10].
Proof. exact example_discriminants. Qed.
