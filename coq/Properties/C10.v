(* C10 — Out-of-range indexing and wrong #unwrap always abort before touching memory.
   Only statements, [exact]s and [Print Assumptions] live here.

   Setting of the index theorems: [s] is the source expression of `s[i]`, already known to
   evaluate (with trace t1) to the value v0 of type st;  [arr_view rd st v0 = Some (td, th,
   len, base, m, et)] is what the generated code extracts from it: the auto-deref loads td,
   the slice-descriptor loads th (none for fixed arrays), the length it compares against,
   the base address, the failure message and the element type.  [it]/[iv] are the index's
   integer type and bit pattern, [mk] its optional side effect, [nl] the no_load flag. *)
From Capy Require Import Common.Util Model.IndexCheck Model.IndexCheckFixed Spec.IndexCheckSpec
  Proofs.IndexCheckProofs Proofs.IndexCheckFixedProofs.
Open Scope Z_scope.

(* An index >= length (any unsigned index type of at most 64 bits, element not zero-sized):
   the trace is exactly source ; derefs ; index ; descriptor loads ; puts msg ; exit 1 --
   no Load/Store of any element, and the process is gone. *)
Theorem C10_oob_no_access : forall rd s it mk iv nl st t1 v0 td th len base m et,
  type_of s = Some st ->
  comp rd s false = Ok (t1, Val (Some v0)) ->
  arr_view rd st v0 = Some (td, th, len, base, m, et) ->
  is_zero_sized et = false ->
  isigned it = false -> ibits it <= 64 -> 0 <= iv < 2 ^ ibits it ->
  len <= ival it iv ->
  comp rd (EIndex s it mk iv) nl = Ok (t1 ++ td ++ marker mk ++ th ++ fail_block m, Aborted).
Proof. exact oob_no_access. Qed.
Print Assumptions C10_oob_no_access.

(* The only memory the check itself reads is the slice descriptor (nothing for arrays). *)
Theorem C10_check_reads_only_descriptor : forall rd st v0 td th len base m et,
  arr_view rd st v0 = Some (td, th, len, base, m, et) ->
  (th = [] /\ m = MArrayOob /\ exists n, len = wrap64 n /\ snd (strip_ptrs st) = TArr n et) \/
  (exists hdr, th = [Load hdr 8; Load (hdr + 8) 8] /\ len = rd hdr /\ base = rd (hdr + 8) /\
               m = MSliceOob /\ snd (strip_ptrs st) = TSlice et).
Proof. exact arr_view_shape. Qed.
Print Assumptions C10_check_reads_only_descriptor.

(* An index in range (any index type): exactly one access, of the element's width, at
   base + i * stride, inside [base, base + len * stride); no access at all when only the
   address is wanted (no_load / aggregate element). *)
Theorem C10_inbounds_exact_elem : forall rd s it mk iv nl st t1 v0 td th len base m et,
  type_of s = Some st ->
  comp rd s false = Ok (t1, Val (Some v0)) ->
  arr_view rd st v0 = Some (td, th, len, base, m, et) ->
  is_zero_sized et = false ->
  0 <= iv < 2 ^ ibits it ->
  0 <= ival it iv < len ->
  0 <= base -> 0 < stride et -> base + len * stride et <= two64 ->
  let addr := base + ival it iv * stride et in
  base <= addr /\ addr + stride et <= base + len * stride et /\
  comp rd (EIndex s it mk iv) nl =
    (if nl || is_aggregate et
     then Ok (t1 ++ td ++ marker mk ++ th, Val (Some addr))
     else Ok (t1 ++ td ++ marker mk ++ th ++ [Load addr (stride et)], Val (Some (rd addr)))).
Proof. exact inbounds_exact_elem. Qed.
Print Assumptions C10_inbounds_exact_elem.

(* Assignment `s[i] = v`: out of range -> abort before the value is evaluated and before
   any store; in range -> exactly one store, to that element. *)
Theorem C10_write_oob_no_store : forall rd rd8 s it mk iv vm st t1 v0 td th len base m et,
  type_of s = Some st ->
  comp rd s false = Ok (t1, Val (Some v0)) ->
  arr_view rd st v0 = Some (td, th, len, base, m, et) ->
  is_zero_sized et = false ->
  isigned it = false -> ibits it <= 64 -> 0 <= iv < 2 ^ ibits it ->
  len <= ival it iv ->
  stmt_run rd rd8 (SWrite (EIndex s it mk iv) vm) =
    Ok (t1 ++ td ++ marker mk ++ th ++ fail_block m, true).
Proof. exact write_oob_no_store. Qed.
Print Assumptions C10_write_oob_no_store.

Theorem C10_write_exact_elem : forall rd rd8 s it mk iv vm st t1 v0 td th len base m et,
  type_of s = Some st ->
  comp rd s false = Ok (t1, Val (Some v0)) ->
  arr_view rd st v0 = Some (td, th, len, base, m, et) ->
  is_zero_sized et = false ->
  0 <= iv < 2 ^ ibits it ->
  0 <= ival it iv < len ->
  0 <= base -> 0 < stride et -> base + len * stride et <= two64 ->
  stmt_run rd rd8 (SWrite (EIndex s it mk iv) vm) =
    Ok (t1 ++ td ++ marker mk ++ th ++ marker vm ++
        [Store (base + ival it iv * stride et) (stride et)], false).
Proof. exact write_exact_elem. Qed.
Print Assumptions C10_write_exact_elem.

(* Nested indexing `a[i1]..[ik]` on nested fixed arrays, any depth: every level is checked
   against its own length, outermost first; the first failing level aborts (after the
   side effects of the indexes up to it), otherwise the element at
   base + sum i_j * stride_j is accessed -- as computed by the reference walk. *)
Theorem C10_nested_levels : forall rd ix t a nl,
  ix <> [] -> is_zero_sized t = false -> shape_ok t ix ->
  0 <= a -> a + stride t <= two64 ->
  comp rd (chain (ERoot t a) ix) nl = Ok (walk_result rd nl (walk t a ix)).
Proof. exact nested_levels. Qed.
Print Assumptions C10_nested_levels.

(* Nothing runs after an abort: the program's trace ends with the fail block. *)
Theorem C10_abort_is_final : forall rd rd8 p1 s p2 t1 t,
  exec rd rd8 p1 = Ok (t1, false) ->
  stmt_run rd rd8 s = Ok (t, true) ->
  exec rd rd8 (p1 ++ s :: p2) = Ok (t1 ++ t, true).
Proof. exact exec_abort_stops. Qed.
Print Assumptions C10_abort_is_final.

(* #unwrap on tagged unions (enums, ?T, error unions): a different variant aborts right
   after the 1-byte tag load, before the payload is touched -- for discriminants < 256. *)
Theorem C10_unwrap_wrong_variant_aborts : forall rd8 off pb v have want_,
  rd8 (v + off) = tag8 have ->
  0 <= have < 256 -> 0 <= want_ < 256 -> have <> want_ ->
  unwrap rd8 (KTagged off pb) v (WVariant want_) =
    ([Load (v + off) 1] ++ fail_block MUnwrap, Aborted).
Proof. exact unwrap_tagged_wrong_aborts. Qed.
Print Assumptions C10_unwrap_wrong_variant_aborts.

Theorem C10_unwrap_right_variant_payload : forall rd8 off pb v d,
  rd8 (v + off) = tag8 d ->
  unwrap rd8 (KTagged off pb) v (WVariant d) =
    ([Load (v + off) 1] ++ (if pb =? 0 then [] else [Load v pb]), Val (Some v)).
Proof. exact unwrap_tagged_right_payload. Qed.
Print Assumptions C10_unwrap_right_variant_payload.

(* nullable pointers: nil is 0; the wrong request aborts without any memory access *)
Theorem C10_unwrap_nullable_wrong_aborts : forall rd8 v,
  (v = 0 -> forall d, unwrap rd8 KNullable v (WVariant d) = (fail_block MUnwrap, Aborted)) /\
  (v <> 0 -> unwrap rd8 KNullable v WNil = (fail_block MUnwrap, Aborted)).
Proof. exact unwrap_nullable_wrong_aborts. Qed.
Print Assumptions C10_unwrap_nullable_wrong_aborts.

(* compile-time check of literal indexes, through any number of pointers *)
Theorem C10_lit_oob_rejected_iff : forall k n u idx,
  lit_index_rejected (ptrs k (TArr n u)) idx = true <-> n <= idx.
Proof. exact lit_oob_rejected_iff. Qed.
Print Assumptions C10_lit_oob_rejected_iff.

Theorem C10_lit_slice_never_rejected : forall k u idx,
  lit_index_rejected (ptrs k (TSlice u)) idx = false.
Proof. exact lit_slice_never_rejected. Qed.
Print Assumptions C10_lit_slice_never_rejected.

(* enum discriminants as hir_ty assigns them are pairwise distinct (as numbers) *)
Theorem C10_discrims_distinct : forall vs,
  NoDup (manual_of vs) -> exists ds, assign_discrims vs = Ok ds /\ NoDup ds /\ length ds = length vs.
Proof. exact assign_discrims_nodup. Qed.
Print Assumptions C10_discrims_distinct.

(* ---- the full-strength statements are FALSE of the code as it is ---- *)

(* every accepted index type (the checker accepts u128), every element type *)
Definition C10_full : Prop := C10_index_full.

Theorem C10_full_refuted : ~ C10_full.                 (* u128 index 2^64+1 into [4]i32 reads element 1 *)
Proof. exact C10_index_full_refuted. Qed.
Print Assumptions C10_full_refuted.

Theorem C10_full_refuted_zero_sized : ~ C10_full.      (* index 7 into [2]struct{}: no check, index not even evaluated *)
Proof. exact C10_index_full_refuted_zst. Qed.
Print Assumptions C10_full_refuted_zero_sized.

Theorem C10_except_known : forall rd s it mk iv nl st t1 v0 td th len base m et,
  type_of s = Some st ->
  comp rd s false = Ok (t1, Val (Some v0)) ->
  arr_view rd st v0 = Some (td, th, len, base, m, et) ->
  idx_ty_accepted it = true -> 0 <= iv < 2 ^ ibits it ->
  known_class it et = None ->
  len <= ival it iv ->
  comp rd (EIndex s it mk iv) nl = Ok (t1 ++ td ++ marker mk ++ th ++ fail_block m, Aborted).
Proof. exact C10_index_except_known. Qed.
Print Assumptions C10_except_known.

(* any two different discriminants: false, because the tag is 8 bits wide while automatic
   discriminants are not bounded (enum { Z, A | 255, B }: B = 256 has Z's tag) *)
Definition C10_unwrap_any_discriminant_full : Prop := C10_unwrap_full.

Theorem C10_unwrap_full_refuted_by_wide_discriminant : ~ C10_unwrap_any_discriminant_full.
Proof. exact C10_unwrap_full_refuted. Qed.
Print Assumptions C10_unwrap_full_refuted_by_wide_discriminant.

Theorem C10_discriminants_fit_in_tag_refuted : ~ C10_discrims_fit_full.
Proof. exact C10_discrims_fit_full_refuted. Qed.
Print Assumptions C10_discriminants_fit_in_tag_refuted.

(* ---- the lowering with the fix candidates applied (Model/IndexCheckFixed.v) ----
   [compf fw fz]: fw = C10-1-fix.diff (a wider-than-usize index is compared in its own width),
   fz = C10-2-fix.diff (zero-sized elements: source and index evaluated, index checked, nothing
   accessed; a zero-sized array source no longer panics the compiler, finding C10-4).  The check
   selects the flags by probing the built compiler; the refutations above stay as the history of
   the unrepaired code, which is [compf false false]. *)

Theorem C10_fixed_model_conservative : forall rd e nl, compf false false rd e nl = comp rd e nl.
Proof. exact compf_ff. Qed.
Print Assumptions C10_fixed_model_conservative.

(* out of range => exact abort trace, for every class the applied fixes leave open *)
Theorem C10_fixed_except_known : forall fw fz rd s it mk iv nl st t1 ov v0 td th len base m et,
  type_of s = Some st ->
  compf fw fz rd s false = Ok (t1, Val ov) ->
  src_val fz ov = Some v0 ->
  arr_view rd st v0 = Some (td, th, len, base, m, et) ->
  idx_ty_accepted it = true -> 0 <= iv < 2 ^ ibits it ->
  known_class_f fw fz it et = None ->
  len <= ival it iv ->
  compf fw fz rd (EIndex s it mk iv) nl = Ok (t1 ++ td ++ marker mk ++ th ++ fail_block m, Aborted).
Proof. exact oob_no_access_f. Qed.
Print Assumptions C10_fixed_except_known.

(* both fixes applied: the FULL statement (C10_full's shape), no class excluded:
   every accepted index type (u128 included), every element type (zero-sized included) *)
Theorem C10_fixed_full : forall rd s it mk iv nl st t1 ov v0 td th len base m et,
  type_of s = Some st ->
  compf true true rd s false = Ok (t1, Val ov) ->
  src_val true ov = Some v0 ->
  arr_view rd st v0 = Some (td, th, len, base, m, et) ->
  idx_ty_accepted it = true -> 0 <= iv < 2 ^ ibits it ->
  len <= ival it iv ->
  compf true true rd (EIndex s it mk iv) nl =
    Ok (t1 ++ td ++ marker mk ++ th ++ fail_block m, Aborted).
Proof. exact oob_no_access_fixed_full. Qed.
Print Assumptions C10_fixed_full.

Theorem C10_fixed_inbounds_exact_elem : forall fw fz rd s it mk iv nl st t1 ov v0 td th len base m et,
  type_of s = Some st ->
  compf fw fz rd s false = Ok (t1, Val ov) ->
  src_val fz ov = Some v0 ->
  arr_view rd st v0 = Some (td, th, len, base, m, et) ->
  is_zero_sized et = false ->
  0 <= iv < 2 ^ ibits it ->
  0 <= ival it iv < len ->
  0 <= base -> 0 < stride et -> base + len * stride et <= two64 ->
  let addr := base + ival it iv * stride et in
  base <= addr /\ addr + stride et <= base + len * stride et /\
  compf fw fz rd (EIndex s it mk iv) nl =
    (if nl || is_aggregate et
     then Ok (t1 ++ td ++ marker mk ++ th, Val (Some addr))
     else Ok (t1 ++ td ++ marker mk ++ th ++ [Load addr (stride et)], Val (Some (rd addr)))).
Proof. exact inbounds_exact_elem_f. Qed.
Print Assumptions C10_fixed_inbounds_exact_elem.

(* fz: an in-range index into zero-sized elements is evaluated and checked and touches nothing *)
Theorem C10_fixed_zero_sized_inbounds_no_access : forall fw rd s it mk iv nl st t1 ov v0 td th len base m et,
  type_of s = Some st ->
  compf fw true rd s false = Ok (t1, Val ov) ->
  src_val true ov = Some v0 ->
  arr_view rd st v0 = Some (td, th, len, base, m, et) ->
  is_zero_sized et = true ->
  0 <= iv < len -> len <= two64 ->
  compf fw true rd (EIndex s it mk iv) nl = Ok (t1 ++ td ++ marker mk ++ th, Val None).
Proof. exact inbounds_zero_sized_f. Qed.
Print Assumptions C10_fixed_zero_sized_inbounds_no_access.

Theorem C10_fixed_write_oob_no_store : forall fw fz rd rd8 s it mk iv vm st t1 ov v0 td th len base m et,
  type_of s = Some st ->
  compf fw fz rd s false = Ok (t1, Val ov) ->
  src_val fz ov = Some v0 ->
  arr_view rd st v0 = Some (td, th, len, base, m, et) ->
  idx_ty_accepted it = true -> 0 <= iv < 2 ^ ibits it ->
  known_class_f fw fz it et = None ->
  len <= ival it iv ->
  stmt_runf fw fz rd rd8 (SWrite (EIndex s it mk iv) vm) =
    Ok (t1 ++ td ++ marker mk ++ th ++ fail_block m, true).
Proof. exact write_oob_no_store_f. Qed.
Print Assumptions C10_fixed_write_oob_no_store.

Theorem C10_fixed_write_exact_elem : forall fw fz rd rd8 s it mk iv vm st t1 ov v0 td th len base m et,
  type_of s = Some st ->
  compf fw fz rd s false = Ok (t1, Val ov) ->
  src_val fz ov = Some v0 ->
  arr_view rd st v0 = Some (td, th, len, base, m, et) ->
  is_zero_sized et = false ->
  0 <= iv < 2 ^ ibits it ->
  0 <= ival it iv < len ->
  0 <= base -> 0 < stride et -> base + len * stride et <= two64 ->
  stmt_runf fw fz rd rd8 (SWrite (EIndex s it mk iv) vm) =
    Ok (t1 ++ td ++ marker mk ++ th ++ marker vm ++
        [Store (base + ival it iv * stride et) (stride et)], false).
Proof. exact write_exact_elem_f. Qed.
Print Assumptions C10_fixed_write_exact_elem.

Theorem C10_fixed_nested_levels : forall fw fz rd ix t a nl,
  ix <> [] -> is_zero_sized t = false -> shape_ok t ix ->
  0 <= a -> a + stride t <= two64 ->
  compf fw fz rd (chain (ERoot t a) ix) nl = Ok (walk_result rd nl (walk t a ix)).
Proof. exact nested_levels_f. Qed.
Print Assumptions C10_fixed_nested_levels.

Theorem C10_fixed_abort_is_final : forall fw fz rd rd8 p1 s p2 t1 t,
  execf fw fz rd rd8 p1 = Ok (t1, false) ->
  stmt_runf fw fz rd rd8 s = Ok (t, true) ->
  execf fw fz rd rd8 (p1 ++ s :: p2) = Ok (t1 ++ t, true).
Proof. exact execf_abort_stops. Qed.
Print Assumptions C10_fixed_abort_is_final.

(* The wide compare branch (index type wider than usize: icmp ult index, uextend(len), in the index's own
   width): an index EQUAL to the length aborts, for every wide unsigned type and every length.  (The narrow
   branch is the same statement with ibits <= 64; both are instances of C10_fixed_full.) *)
Theorem C10_fixed_wide_index_eq_len_aborts : forall rd s it mk nl st t1 ov v0 td th len base m et,
  type_of s = Some st ->
  compf true true rd s false = Ok (t1, Val ov) ->
  src_val true ov = Some v0 ->
  arr_view rd st v0 = Some (td, th, len, base, m, et) ->
  isigned it = false -> 64 < ibits it -> 0 <= len < 2 ^ ibits it ->
  compf true true rd (EIndex s it mk len) nl =
    Ok (t1 ++ td ++ marker mk ++ th ++ fail_block m, Aborted).
Proof. exact wide_index_eq_len_aborts. Qed.
Print Assumptions C10_fixed_wide_index_eq_len_aborts.

(* u128 indexes on [4]i32 at 4096: 3 reads the last element, 4 (= len) and 2^64+3 abort; a slice of
   length 4 indexed with u128 4 aborts after the descriptor loads *)
Example C10_fixed_wide_boundary :
  compf true true (fun _ => 0) (EIndex (ERoot (TArr 4 (TInt 4)) 4096) u128 None 3) false
    = Ok ([Load 4108 4], Val (Some 0)) /\
  compf true true (fun _ => 0) (EIndex (ERoot (TArr 4 (TInt 4)) 4096) u128 None 4) false
    = Ok ([Print MArrayOob; Exit 1], Aborted) /\
  compf true true (fun _ => 0) (EIndex (ERoot (TArr 4 (TInt 4)) 4096) u128 None (two64 + 3)) false
    = Ok ([Print MArrayOob; Exit 1], Aborted) /\
  compf true true (fun a => if a =? 512 then 4 else if a =? 520 then 8192 else 0)
        (EIndex (ERoot (TSlice (TInt 2)) 512) u128 None 4) true
    = Ok ([Load 512 8; Load 520 8; Print MSliceOob; Exit 1], Aborted).
Proof. repeat split; vm_compute; reflexivity. Qed.

(* the witnesses of C10-1, C10-2 and C10-4 on the repaired lowering *)
Example C10_fixed_witnesses :
  compf true false (fun _ => 0) (EIndex (ERoot (TArr 4 (TInt 4)) 4096) u128 None (two64 + 1)) false
    = Ok ([Print MArrayOob; Exit 1], Aborted) /\
  compf false true (fun _ => 0) (EIndex (ERoot (TArr 2 TZst) 4096) usize (Some 5%N) 7) false
    = Ok ([Print (MMarker 5); Print MArrayOob; Exit 1], Aborted) /\
  compf false true (fun a => if a =? 8192 then 2 else if a =? 8200 then 12288 else 0)
        (EIndex (EIndex (ERoot (TSlice (TArr 0 (TInt 4))) 8192) usize None 1) usize None 0) false
    = Ok ([Load 8192 8; Load 8200 8; Print MArrayOob; Exit 1], Aborted).
Proof. repeat split; vm_compute; reflexivity. Qed.

(* ---- non-vacuity ---- *)
(* [3][4]i32 at 4096, a[1][2] reads 4 bytes at 4096 + 1*16 + 2*4; a[1][4] aborts;
   a slice whose descriptor {len = 4, ptr = 8192} sits at address 512. *)
Example C10_example :
  comp (fun _ => 0)
       (EIndex (EIndex (ERoot (TArr 3 (TArr 4 (TInt 4))) 4096) usize None 1) usize None 2) false
    = Ok ([Load 4120 4], Val (Some 0)) /\
  comp (fun _ => 0)
       (EIndex (EIndex (ERoot (TArr 3 (TArr 4 (TInt 4))) 4096) usize None 1) usize (Some 7%N) 4) false
    = Ok ([Print (MMarker 7); Print MArrayOob; Exit 1], Aborted) /\
  comp (fun a => if a =? 512 then 4 else if a =? 520 then 8192 else 0)
       (EIndex (ERoot (TPtr (TSlice (TInt 2))) 512) usize None 4) false
    = Ok ([Load 512 8; Load 520 8; Print MSliceOob; Exit 1], Aborted) /\
  comp (fun a => if a =? 512 then 4 else if a =? 520 then 8192 else 0)
       (EIndex (ERoot (TPtr (TSlice (TInt 2))) 512) usize None 3) false
    = Ok ([Load 512 8; Load 520 8; Load 8198 2], Val (Some 0)) /\
  unwrap (fun _ => 20) (KTagged 8 4) 4096 (WVariant 1) =
    ([Load 4104 1; Print MUnwrap; Exit 1], Aborted).
Proof. repeat split; vm_compute; reflexivity. Qed.
