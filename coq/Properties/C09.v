(* C09 — Literals denote exactly their written values or are rejected.
   Only statements, [exact]s and [Print Assumptions] live here. *)
From Capy Require Import Common.Util Common.Bits Model.Literals Spec.LitSpec Proofs.LiteralsProofs.
Open Scope Z_scope.

(* checked left-to-right parsing (str::parse / from_str_radix) returns the positional
   value of the digits exactly when it fits, for every radix, bound and digit string *)
Theorem C09_parse_radix_correct : forall base max ds,
  1 <= base -> 0 <= max -> digits_ok ds -> ds <> [] ->
  parse_radix base max ds = if value_of base ds <=? max then Some (value_of base ds) else None.
Proof. exact parse_radix_correct. Qed.
Print Assumptions C09_parse_radix_correct.

Theorem C09_lower_hex_correct : forall ds, digits_ok ds -> ds <> [] ->
  lower_hex ds = if value_of 16 ds <=? u64_max then Some (value_of 16 ds) else None.
Proof. exact lower_hex_correct. Qed.
Print Assumptions C09_lower_hex_correct.

Theorem C09_lower_bin_correct : forall ds, digits_ok ds -> ds <> [] ->
  lower_bin ds = if value_of 2 ds <=? u64_max then Some (value_of 2 ds) else None.
Proof. exact lower_bin_correct. Qed.
Print Assumptions C09_lower_bin_correct.

(* decimal literals with `_` and `e`: full statement (denotes mantissa * 10^exponent iff that
   is below 2^64, rejected otherwise) *)
(* [V : variant] names the code variant the model mirrors (false = before the repair, true = after;
   fix candidates .cache/prompts/C09-{2,3,4}-fix.diff).  For the repaired lowering the FULL statement holds: *)
Theorem C09_lower_dec_full_fixed : forall V mant exp, fx_zero V = true -> dec_wf mant exp ->
  lower_dec V mant exp = dec_spec mant exp.
Proof. exact lower_dec_full_fixed. Qed.
Print Assumptions C09_lower_dec_full_fixed.

(* HISTORY (finding C09-4): the same statement about the unrepaired variant ... *)
Definition C09_lower_dec_full : Prop := lower_dec_full.
(* ... is FALSE: 0e20 spells 0 and is rejected *)
Theorem C09_lower_dec_full_refuted : ~ C09_lower_dec_full.
Proof. exact lower_dec_full_refuted. Qed.
Print Assumptions C09_lower_dec_full_refuted.
(* true for every other spelling *)
Theorem C09_lower_dec_except_known : forall V mant exp, dec_wf mant exp -> dec_known_class V mant exp = false ->
  lower_dec V mant exp = dec_spec mant exp.
Proof. exact lower_dec_except_known. Qed.
Print Assumptions C09_lower_dec_except_known.

(* the oracle runs this executable form of the specification *)
Theorem C09_dec_spec_exec_correct : forall mant exp, dec_wf mant exp -> dec_spec_exec mant exp = dec_spec mant exp.
Proof. exact dec_spec_exec_correct. Qed.
Print Assumptions C09_dec_spec_exec_correct.

(* escapes: the lowering's table is the documented one, for every character *)
Theorem C09_escape_char_correct : forall c, escape_char c = escape_spec c.
Proof. exact escape_char_correct. Qed.
Print Assumptions C09_escape_char_correct.

(* a string literal denotes the concatenation of what its components spell, and gets an
   InvalidEscape diagnostic iff some escape is not in the table *)
Theorem C09_lower_string_correct : forall l,
  match string_spec l with
  | Some t => lower_string l = (t, O)
  | None => snd (lower_string l) <> O
  end.
Proof. exact lower_string_correct. Qed.
Print Assumptions C09_lower_string_correct.

Theorem C09_lower_char_escape : forall c v, escape_spec c = Some v -> v <= 255 -> lower_char [Esc c] = (v, []).
Proof. exact lower_char_escape. Qed.
Print Assumptions C09_lower_char_escape.
Theorem C09_lower_char_plain : forall ch, ch <= 255 -> lower_char [Lit [ch]] = (ch, []).
Proof. exact lower_char_plain. Qed.
Print Assumptions C09_lower_char_plain.

(* acceptance: full statement "accepted iff the value fits the type", for the repaired get_max_int_size *)
Theorem C09_accept_full_fixed : forall V t n, fx_i128 V = true -> fx_isize V = true ->
  ity_wf t -> 0 <= n <= u64_max -> accepted V t n = fits_ty t n.
Proof. exact accept_full_fixed. Qed.
Print Assumptions C09_accept_full_fixed.

(* HISTORY (findings C09-2, C09-3): the same statement about the unrepaired variant ... *)
Definition C09_accept_full : Prop := accept_full.
(* ... is FALSE: i128 rejects 2^63 *)
Theorem C09_accept_full_refuted : ~ C09_accept_full.
Proof. exact accept_full_refuted. Qed.
Print Assumptions C09_accept_full_refuted.
(* and isize accepts 2^64-1 *)
Theorem C09_accept_isize_witness : accepted v_orig (IT true 255) u64_max = true /\ fits_ty (IT true 255) u64_max = false.
Proof. exact accept_isize_witness. Qed.
Print Assumptions C09_accept_isize_witness.
(* true outside those two classes, for all twelve integer types and all n < 2^64 *)
Theorem C09_accept_iff_fits_except_known : forall V t n, ity_wf t -> 0 <= n <= u64_max ->
  accept_known_class V t n = None -> accepted V t n = fits_ty t n.
Proof. exact accept_iff_fits_except_known. Qed.
Print Assumptions C09_accept_iff_fits_except_known.

(* an accepted annotated literal keeps its written value *)
Theorem C09_accepted_keeps_value_except_known : forall V t n, ity_wf t -> 0 <= n <= u64_max ->
  accept_known_class V t n = None -> accepted V t n = true -> observed t n = n.
Proof. exact accepted_keeps_value_except_known. Qed.
Print Assumptions C09_accepted_keeps_value_except_known.

(* unannotated literals: full statement *)
Definition C09_default_full : Prop := default_full.
(* FALSE: x := 3000000000 becomes -1294967296 *)
Theorem C09_default_full_refuted : ~ C09_default_full.
Proof. exact default_full_refuted. Qed.
Print Assumptions C09_default_full_refuted.
Theorem C09_default_keeps_value_except_known : forall n, 0 <= n <= u64_max ->
  default_known_class n = false -> observed (default_ity n) n = n.
Proof. exact default_keeps_value_except_known. Qed.
Print Assumptions C09_default_keeps_value_except_known.

(* non-vacuity *)
Example C09_example :
  lower_dec v_orig [Dg 1; Us; Dg 0] (Some [Dg 1; Us; Dg 0]) = Some 100000000000 /\
  lower_dec v_orig [Dg 1; Dg 8; Dg 4; Dg 4; Dg 6; Dg 7; Dg 4; Dg 4; Dg 0; Dg 7; Dg 3; Dg 7; Dg 0; Dg 9; Dg 5; Dg 5; Dg 1; Dg 6; Dg 1; Dg 6] None = None /\
  lower_hex [15; 15] = Some 255 /\
  lower_string [Lit [97]; Esc 110; Lit [98]] = ([97; 10; 98], O) /\
  accepted v_orig (IT false 8) 255 = true /\ accepted v_fixed (IT false 8) 256 = false /\
  lower_dec v_fixed [Dg 0] (Some [Dg 2; Dg 0]) = Some 0 /\ accepted v_fixed (IT true 128) (2 ^ 63) = true /\
  accepted v_fixed (IT true 255) (2 ^ 63) = false.
Proof. repeat split; vm_compute; reflexivity. Qed.
