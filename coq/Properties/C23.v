(* C23 — Parsing is total, terminating and lossless.
   Only statements, [exact]s and [Print Assumptions] live here.

   Models: Model/ParserCore.v (parser.rs, parser/marker.rs), Model/Sink.v
   (sink.rs), Model/Grammar.v (grammar.rs, grammar/stmt.rs, grammar/expr.rs:
   all 31 grammar functions plus the two entry points, in both variants --
   before / after the proposed fixes -- selected by [cfg]).
   Spec: Spec/ParseSpec.v.  Termination of the whole grammar is still
   [_partial]: see C23_parse_terminates_partial below. *)
From Coq Require Import List Arith Bool.
Import ListNotations.
From Capy Require Import Common.Util Model.ParserCore Model.Sink Spec.ParseSpec
  Proofs.ParserCoreProofs Proofs.ParserSinkProofs
  Model.ExprGrammar Spec.Precedence Proofs.PrattCorollaries
  Model.Grammar Proofs.GrammarProofs Proofs.GrammarCorollaries.

(* core_well_bracketed: ANY sequence of Parser::start / Marker::complete /
   CompletedMarker::precede / Parser::bump that hits no panic site, started on
   an empty event list and ending with every placeholder completed (the assert
   in Parser::parse), yields a well-bracketed event list. *)
Theorem C23_core_well_bracketed : forall ts ops s l,
  run_ops (mkP ts 0 [] []) ops = Ok s -> all_some (evs s) = Some l -> balanced l = true.
Proof. exact core_well_bracketed. Qed.
Print Assumptions C23_core_well_bracketed.

(* one AddToken per bump, and the cursor advances by exactly the bumps *)
Theorem C23_bumps_are_addtokens : forall ops s s', run_ops s ops = Ok s' ->
  count_oadd (evs s') = count_oadd (evs s) + count_bumps ops /\ idx s' = idx s + count_bumps ops.
Proof. exact bumps_are_addtokens. Qed.
Print Assumptions C23_bumps_are_addtokens.

(* sink_lossless: whenever Sink::finish returns a tree, its tokens are tokens
   0..j-1 in order (the tree text is a prefix of the input made of whole
   tokens), and it is the whole input iff there is one AddToken per non-trivia
   token. *)
Theorem C23_sink_lossless : forall evs ts t, finish evs ts = Ok t ->
  exists j, leaves t = seq 0 j /\ j <= length ts /\
            (count_add evs = count_nt (map fst ts) -> j = length ts).
Proof. exact sink_lossless. Qed.
Print Assumptions C23_sink_lossless.

(* more AddTokens than non-trivia tokens: Sink::finish cannot return (it
   panics in add_token -- the observed failure mode of finding C23-1) *)
Theorem C23_sink_needs_enough_tokens : forall evs ts t, finish evs ts = Ok t ->
  count_add evs <= count_nt (map fst ts).
Proof. exact sink_needs_enough_tokens. Qed.
Print Assumptions C23_sink_needs_enough_tokens.

(* errors_in_range: every error the machine records lies within the input *)
Theorem C23_error_in_range : forall s rs s' m, errs_in s -> error_no_default s rs = Ok (s', m) ->
  errs_in s' /\ toks s' = toks s.
Proof. exact error_in_range. Qed.
Print Assumptions C23_error_in_range.
Theorem C23_expect_in_range : forall s k rs s', errs_in s -> expect s k rs = Ok s' -> errs_in s' /\ toks s' = toks s.
Proof. exact expect_in_range. Qed.
Print Assumptions C23_expect_in_range.
Theorem C23_mark_old_in_range : forall s a b s',
  errs_in s -> (mark_old_missing s a = Ok s' \/ mark_old_unexpected s a b = Ok s') -> errs_in s' /\ toks s' = toks s.
Proof. exact mark_old_in_range. Qed.
Print Assumptions C23_mark_old_in_range.

(* previous_token_range indexes out of bounds exactly when the cursor is at the
   end of the token list and only trivia precedes it *)
Theorem C23_previous_token_range_safe : forall s, idx s <= length (toks s) ->
  (is_ok (previous_token_range s) = false <->
   idx s = length (toks s) /\ all_trivia (firstn (idx s) (toks s)) = true).
Proof. exact previous_token_range_safe. Qed.
Print Assumptions C23_previous_token_range_safe.

(* Parser::bump does not skip trivia: "look at the next two tokens with
   at()/at_ahead(), then bump twice" (expr.rs `.try`, parse_cast,
   parse_struct_literal; stmt.rs quick assignment) does NOT consume those two
   tokens when trivia separates them.  Full statement, refuted by `. try ;`
   with a space after the dot (finding C23-1 / C24-1). *)
Definition C23_double_bump_full : Prop := bump_lands_on_token_full.
Theorem C23_double_bump_full_refuted : ~ C23_double_bump_full.
Proof. exact bump_lands_on_token_refuted. Qed.
Print Assumptions C23_double_bump_full_refuted.

(* ---- whole grammar (Model/Grammar.v), every input, both variants ------------------ *)

(* every syntax error the grammar records lies within the input *)
Theorem C23_grammar_errors_in_range : forall c tx repl fuel ts s,
  parse_top c tx repl fuel ts = Ok s -> toks s = ts /\ errs_ok (total ts) (errs s) = true.
Proof. exact grammar_errors_in_range. Qed.
Print Assumptions C23_grammar_errors_in_range.

(* the event list handed to the sink is well bracketed *)
Theorem C23_grammar_well_bracketed : forall c tx repl fuel ts s l,
  parse_top c tx repl fuel ts = Ok s -> all_some (evs s) = Some l -> balanced l = true.
Proof. exact grammar_well_bracketed. Qed.
Print Assumptions C23_grammar_well_bracketed.

(* no grammar function changes the tokens or moves the cursor backwards, keeps
   errors in range and keeps the marker invariant (31 functions, one mutual
   induction): the first half of every progress argument *)
Theorem C23_grammar_cursor_monotone : forall c tx f, AllM c tx f.
Proof. exact grammar_cursor_monotone. Qed.
Print Assumptions C23_grammar_cursor_monotone.

(* the repaired bump (C23-1-fix.diff): "look one token ahead, then bump" lands
   on the token that was seen -- the statement refuted above for the raw bump *)
Theorem C23_bump_fixed_lands : forall s k2,
  at_ahead s 1 (tk_eqb k2) = true -> snd (at_kind (bump_fixed s) k2) = true.
Proof. exact bump_fixed_lands. Qed.
Print Assumptions C23_bump_fixed_lands.

(* Termination, PARTIAL: proved only for printed expressions (linear fuel
   6*(n+1), n = number of tokens).  For the whole grammar the cursor never moves
   backwards (C23_grammar_cursor_monotone) and, in the repaired variant, the three
   list loops of C23-2/3/4 leave as soon as an iteration consumed nothing; that
   every other loop consumes a token per iteration is NOT proved: it is observed
   (the model, run with the linear fuel 40*(n+2), predicts the real event list,
   and runs out of fuel exactly where the real parser does not terminate). *)
Theorem C23_parse_terminates_partial : forall e, wf (CB 0) e = true ->
  parse_bp (6 * (length (print e) + 1)) 0 false (print e) = POk e [].
Proof. exact roundtrip. Qed.
Print Assumptions C23_parse_terminates_partial.

(* Non-vacuity: `a + 1 // c` as a REPL line.
   events of the real parser: Root ExprStmt BinaryExpr VarRef A F A IntLiteral A F F F F *)
Example C23_example :
  let ts := [(KTok 5, 1); (KWs, 1); (KTok 6, 1); (KWs, 1); (KTok 7, 1); (KWs, 1); (KCLead, 2); (KCCont, 2)] in
  let evs := [EStart 2; EStart 3; EStart 4; EStart 5; EAdd; EFinish; EAdd; EStart 6; EAdd; EFinish; EFinish; EFinish; EFinish] in
  balanced evs = true /\
  match finish evs ts with Ok t => leaves t = seq 0 8 | _ => False end.
Proof. vm_compute. split; reflexivity. Qed.
