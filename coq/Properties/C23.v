(* C23 — Parsing is total, terminating and lossless.
   Only statements, [exact]s and [Print Assumptions] live here.

   Models: Model/ParserCore.v (parser.rs, parser/marker.rs), Model/Sink.v
   (sink.rs).  Spec: Spec/ParseSpec.v.  The grammar functions themselves are
   modelled only for expressions (Model/ExprGrammar.v, property C24); the
   termination statement for the whole grammar is therefore [_partial]. *)
From Coq Require Import List Arith Bool.
Import ListNotations.
From Capy Require Import Common.Util Model.ParserCore Model.Sink Spec.ParseSpec
  Proofs.ParserCoreProofs Proofs.ParserSinkProofs
  Model.ExprGrammar Spec.Precedence Proofs.PrattCorollaries.

(* core_well_bracketed: ANY sequence of Parser::start / Marker::complete /
   CompletedMarker::precede / Parser::bump that hits no panic site, started on
   an empty event list and ending with every placeholder completed (the assert
   in Parser::parse), yields a well-bracketed event list. *)
Theorem C23_core_well_bracketed : forall ts ops s l,
  run_ops (mkP ts 0 [] []) ops = Ok s -> all_some (evs s) = Some l -> balanced l = true.
Proof. exact core_well_bracketed. Qed.
Print Assumptions C23_core_well_bracketed.

(* one AddToken per bump, and the cursor advances by exactly the bumps *)
Theorem C23_bumps_are_addtokens : forall ops s s', run_ops s ops = Ok s' ->
  count_oadd (evs s') = count_oadd (evs s) + count_bumps ops /\ idx s' = idx s + count_bumps ops.
Proof. exact bumps_are_addtokens. Qed.
Print Assumptions C23_bumps_are_addtokens.

(* sink_lossless: whenever Sink::finish returns a tree, its tokens are tokens
   0..j-1 in order (the tree text is a prefix of the input made of whole
   tokens), and it is the whole input iff there is one AddToken per non-trivia
   token. *)
Theorem C23_sink_lossless : forall evs ts t, finish evs ts = Ok t ->
  exists j, leaves t = seq 0 j /\ j <= length ts /\
            (count_add evs = count_nt (map fst ts) -> j = length ts).
Proof. exact sink_lossless. Qed.
Print Assumptions C23_sink_lossless.

(* more AddTokens than non-trivia tokens: Sink::finish cannot return (it
   panics in add_token -- the observed failure mode of finding C23-1) *)
Theorem C23_sink_needs_enough_tokens : forall evs ts t, finish evs ts = Ok t ->
  count_add evs <= count_nt (map fst ts).
Proof. exact sink_needs_enough_tokens. Qed.
Print Assumptions C23_sink_needs_enough_tokens.

(* errors_in_range: every error the machine records lies within the input *)
Theorem C23_error_in_range : forall s rs s' m, errs_in s -> error_no_default s rs = Ok (s', m) ->
  errs_in s' /\ toks s' = toks s.
Proof. exact error_in_range. Qed.
Print Assumptions C23_error_in_range.
Theorem C23_expect_in_range : forall s k rs s', errs_in s -> expect s k rs = Ok s' -> errs_in s' /\ toks s' = toks s.
Proof. exact expect_in_range. Qed.
Print Assumptions C23_expect_in_range.
Theorem C23_mark_old_in_range : forall s a b s',
  errs_in s -> (mark_old_missing s a = Ok s' \/ mark_old_unexpected s a b = Ok s') -> errs_in s' /\ toks s' = toks s.
Proof. exact mark_old_in_range. Qed.
Print Assumptions C23_mark_old_in_range.

(* previous_token_range indexes out of bounds exactly when the cursor is at the
   end of the token list and only trivia precedes it *)
Theorem C23_previous_token_range_safe : forall s, idx s <= length (toks s) ->
  (is_ok (previous_token_range s) = false <->
   idx s = length (toks s) /\ all_trivia (firstn (idx s) (toks s)) = true).
Proof. exact previous_token_range_safe. Qed.
Print Assumptions C23_previous_token_range_safe.

(* Parser::bump does not skip trivia: "look at the next two tokens with
   at()/at_ahead(), then bump twice" (expr.rs `.try`, parse_cast,
   parse_struct_literal; stmt.rs quick assignment) does NOT consume those two
   tokens when trivia separates them.  Full statement, refuted by `. try ;`
   with a space after the dot (finding C23-1 / C24-1). *)
Definition C23_double_bump_full : Prop := bump_lands_on_token_full.
Theorem C23_double_bump_full_refuted : ~ C23_double_bump_full.
Proof. exact bump_lands_on_token_refuted. Qed.
Print Assumptions C23_double_bump_full_refuted.

(* Termination, partial: only the expression grammar is transcribed; for every
   printed expression the linear fuel 6*(n+1) suffices (n = number of tokens). *)
Theorem C23_parse_terminates_partial : forall e, wf (CB 0) e = true ->
  parse_bp (6 * (length (print e) + 1)) 0 false (print e) = POk e [].
Proof. exact roundtrip. Qed.
Print Assumptions C23_parse_terminates_partial.

(* Non-vacuity: `a + 1 // c` as a REPL line.
   events of the real parser: Root ExprStmt BinaryExpr VarRef A F A IntLiteral A F F F F *)
Example C23_example :
  let ts := [(KTok 5, 1); (KWs, 1); (KTok 6, 1); (KWs, 1); (KTok 7, 1); (KWs, 1); (KCLead, 2); (KCCont, 2)] in
  let evs := [EStart 2; EStart 3; EStart 4; EStart 5; EAdd; EFinish; EAdd; EStart 6; EAdd; EFinish; EFinish; EFinish; EFinish] in
  balanced evs = true /\
  match finish evs ts with Ok t => leaves t = seq 0 8 | _ => False end.
Proof. vm_compute. split; reflexivity. Qed.
