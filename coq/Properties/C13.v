(* C13 — Distinct types, variants and named structs are nominal.
   Model: Model/TyRel.v ([fit] = can_fit_into, [cast] = can_cast_to); the classifier of
   targets [ntarget] is in Spec/TyLaws.v.  All theorems quantify over ALL types. *)
From Capy Require Import Common.Util Common.Ty Model.TyRel Model.ExpectMatch Spec.TyLaws.
From Capy Require Import Proofs.TyRelBasics Proofs.TyRelNominal Proofs.TyRelWitness.

(* full statement: a nominal value is only accepted at the same nominal type, any/unknown,
   its own enum, sums of those, or (named struct) an anonymous struct type of the same shape *)
Definition C13_full : Prop :=
  forall a e, WfTy a -> WfTy e -> is_nominal a = true -> fit a e = true -> strictly_nominal a e = true.
Theorem C13_full_refuted : ~ C13_full.
Proof. exact nominal_full_refuted_wrapper. Qed.
Print Assumptions C13_full_refuted.

(* second, independent class of exceptions: named struct -> variant with a same-shape payload *)
Definition C13_no_payload_crossing : Prop :=
  forall a e, WfTy a -> WfTy e -> is_nominal a = true -> fit a e = true ->
              match ntarget a e with NT_payload => false | _ => true end = true.
Theorem C13_no_payload_crossing_refuted : ~ C13_no_payload_crossing.
Proof. exact nominal_full_refuted_payload. Qed.
Print Assumptions C13_no_payload_crossing_refuted.

(* strongest true statement: outside the two known classes (NT_wrapper, NT_payload) a nominal
   value never reaches a different nominal type, nor its own underlying type *)
Theorem C13_except_known : forall e a,
  is_nominal a = true -> fit a e = true -> ntarget a e <> NT_cross.
Proof. exact nominal_never_crosses_lem. Qed.
Print Assumptions C13_except_known.

Theorem C13_distinct_not_into_underlying : forall u t,
  is_nominal t = false ->
  (match t with TAny | Unknown | Optional _ | ErrorUnion _ _ => false | _ => true end) = true ->
  fit (Distinct u t) t = false.
Proof. exact distinct_not_into_underlying. Qed.
Print Assumptions C13_distinct_not_into_underlying.

Theorem C13_variant_not_into_payload : forall eu nm u t d,
  is_nominal t = false ->
  (match t with TAny | Unknown | Optional _ | ErrorUnion _ _ | Enum _ _ => false | _ => true end) = true ->
  fit (Variant eu nm u t d) t = false.
Proof. exact variant_not_into_payload. Qed.
Print Assumptions C13_variant_not_into_payload.

(* explicit casts between a distinct type and its underlying type are accepted, both ways *)
Theorem C13_cast_from_distinct : forall t u, cast (Distinct u t) t = true.
Proof. exact cast_from_distinct. Qed.
Print Assumptions C13_cast_from_distinct.

Theorem C13_cast_to_distinct : forall t u, cast t (Distinct u t) = true.
Proof. exact cast_to_distinct. Qed.
Print Assumptions C13_cast_to_distinct.

Example C13_ex_cross_rejected :
  fit (Distinct 1 (IInt 32)) (Distinct 2 (IInt 32)) = false /\
  fit (Distinct 1 (IInt 32)) (IInt 32) = false /\
  fit (IInt 0) (Distinct 1 (IInt 32)) = true /\
  fit (Variant 1 0 10 (IInt 32) 0) (Enum 1 [Variant 1 0 10 (IInt 32) 0]) = true.
Proof. vm_compute. auto. Qed.
