(* C13 — Distinct types, variants and named structs are nominal.
   Model: Model/TyRel.v ([fit] = can_fit_into, [cast] = can_cast_to), parametrised by [fixes]
   ([no_fixes] = pinned commit); the classifier of targets [ntarget] is in Spec/TyLaws.v.
   All theorems quantify over ALL types and every combination of fixes. *)
From Capy Require Import Common.Util Common.Ty Model.TyRel Model.ExpectMatch Spec.TyLaws.
From Capy Require Import Proofs.TyRelBasics Proofs.TyRelNominal Proofs.TyRelWitness.

(* full statement: a nominal value is only accepted at the same nominal type, any/unknown,
   its own enum, sums of those, or (named struct) an anonymous struct type of the same shape *)
Definition C13_full (fx : fixes) : Prop :=
  forall a e, is_nominal a = true -> fit fx a e = true -> strictly_nominal fx a e = true.
(* false for every variant: C13-1 (`s : S` into `distinct S`) is not touched by the fixes *)
Theorem C13_full_refuted : forall fx, ~ C13_full fx.
Proof. exact nominal_full_refuted_wrapper. Qed.
Print Assumptions C13_full_refuted.

(* second class of exceptions: named struct -> variant with a same-shape payload *)
Definition C13_no_payload_crossing (fx : fixes) : Prop :=
  forall a e, is_nominal a = true -> fit fx a e = true ->
              match ntarget fx a e with NT_payload => false | _ => true end = true.
(* history: false of the pinned code (finding C13-2) *)
Theorem C13_no_payload_crossing_refuted : ~ C13_no_payload_crossing no_fixes.
Proof. exact nominal_full_refuted_payload. Qed.
Print Assumptions C13_no_payload_crossing_refuted.

(* with the C13-2 fix the payload class is empty, for all types *)
Theorem C13_no_payload_crossing_fixed :
  forall fx, fx_feq_uid fx = true -> forall e a, ntarget fx a e <> NT_payload.
Proof. exact ntarget_no_payload_fixed. Qed.
Print Assumptions C13_no_payload_crossing_fixed.

(* for every variant: outside the known classes (NT_wrapper, NT_payload) a nominal value never
   reaches a different nominal type, nor its own underlying type *)
Theorem C13_except_known : forall fx e a,
  is_nominal a = true -> fit fx a e = true -> ntarget fx a e <> NT_cross.
Proof. exact nominal_never_crosses_lem. Qed.
Print Assumptions C13_except_known.

Theorem C13_distinct_not_into_underlying : forall fx u t,
  is_nominal t = false ->
  (match t with TAny | Unknown | Optional _ | ErrorUnion _ _ => false | _ => true end) = true ->
  fit fx (Distinct u t) t = false.
Proof. exact distinct_not_into_underlying. Qed.
Print Assumptions C13_distinct_not_into_underlying.

Theorem C13_variant_not_into_payload : forall fx eu nm u t d,
  is_nominal t = false ->
  (match t with TAny | Unknown | Optional _ | ErrorUnion _ _ | Enum _ _ => false | _ => true end) = true ->
  fit fx (Variant eu nm u t d) t = false.
Proof. exact variant_not_into_payload. Qed.
Print Assumptions C13_variant_not_into_payload.

(* explicit casts between a distinct type and its underlying type are accepted, both ways *)
Theorem C13_cast_from_distinct : forall fx t u, cast fx (Distinct u t) t = true.
Proof. exact cast_from_distinct. Qed.
Print Assumptions C13_cast_from_distinct.

Theorem C13_cast_to_distinct : forall fx t u, cast fx t (Distinct u t) = true.
Proof. exact cast_to_distinct. Qed.
Print Assumptions C13_cast_to_distinct.

(* the plain-assignment position (`dest = value`) does NOT satisfy the law, for any variant:
   finding C13-4 (is_weak_replaceable_by shortcut of the assignment statement) *)
Definition C13_assignment_law (fx : fixes) : Prop :=
  forall value dest, is_nominal value = true -> assign_outcome fx value dest = Ok Accept ->
                     ntarget fx value dest <> NT_cross.
Theorem C13_assignment_law_refuted : forall fx, ~ C13_assignment_law fx.
Proof. exact assignment_law_refuted. Qed.
Print Assumptions C13_assignment_law_refuted.

Example C13_ex_cross_rejected :
  fit no_fixes (Distinct 1 (IInt 32)) (Distinct 2 (IInt 32)) = false /\
  fit no_fixes (Distinct 1 (IInt 32)) (IInt 32) = false /\
  fit no_fixes (IInt 0) (Distinct 1 (IInt 32)) = true /\
  fit no_fixes (Variant 1 0 10 (IInt 32) 0) (Enum 1 [Variant 1 0 10 (IInt 32) 0]) = true.
Proof. vm_compute. auto. Qed.
Example C13_ex_payload_fixed :
  fit no_fixes (Struct 1 [(0%N, IInt 32)]) (Variant 7 0 8 (Struct 2 [(0%N, IInt 32)]) 0) = true /\
  fit all_fixes (Struct 1 [(0%N, IInt 32)]) (Variant 7 0 8 (Struct 2 [(0%N, IInt 32)]) 0) = false.
Proof. vm_compute. auto. Qed.
