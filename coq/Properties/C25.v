(* C25 — Reported line and column are exactly right.
   Only statements, [exact]s and [Print Assumptions] live here. *)
From Capy Require Import Common.Util Model.LineIndex Spec.LineSpec Proofs.LineIndexProofs.
From Coq Require Import Sorted.

(* For every text and every byte offset (also past the end), the model of
   LineIndex::line_col returns (number of newlines before the offset,
   offset - start of that line) and none of its panic sites fires. *)
Theorem C25_line_col_correct : forall txt off,
  position txt off = Ok (line_spec txt off, col_spec txt off).
Proof. exact line_col_correct. Qed.
Print Assumptions C25_line_col_correct.

(* Precondition under which std's partition_point is specified. *)
Theorem C25_line_starts_sorted : forall txt, StronglySorted lt (line_starts txt).
Proof. exact line_starts_sorted. Qed.
Print Assumptions C25_line_starts_sorted.

(* The rendered header is the 1-based version of that position. *)
Theorem C25_rendered_position : forall txt off,
  rendered_position txt off = Ok (line_spec txt off + 1, col_spec txt off + 1).
Proof. exact rendered_position_correct. Qed.
Print Assumptions C25_rendered_position.

(* The functional spec of "start of the line" means what it should. *)
Theorem C25_line_start_declarative : forall txt off,
  off <= length txt -> IsLineStart txt off (line_start_spec txt off).
Proof. exact line_start_spec_declarative. Qed.
Print Assumptions C25_line_start_declarative.

(* Non-vacuity: "a\nbc\n\nd", offset 6 (the 'd' after an empty line). *)
Example C25_example :
  position [97;10;98;99;10;10;100]%N 6 = Ok (3, 0) /\
  position [97;10;98;99;10;10;100]%N 3 = Ok (1, 1).
Proof. split; vm_compute; reflexivity. Qed.
