(* C15 — Only const values are used as types, sizes, discriminants and comptime args.
   Only statements, [exact]s and [Print Assumptions] live here.

   Model : Model/Constness.v  get_const (worklist), const_data, consumers
   Spec  : Spec/ConstSpec.v   IsConst (README const rule), denotes *)
From Capy Require Import Common.Util Model.Constness Spec.ConstSpec Proofs.ConstnessProofs.

(* Full-strength statements. *)
Definition C15_full_iff : Prop := forall e, wf e = true ->
  exists v, get_const e = Ok v /\ (v = Const <-> IsConst e).
Definition C15_full_no_crash : Prop := forall e, wf e = true -> exists o, comptime_arg e = Ok o.

(* FALSE of the code as it is: a character literal is a literal value, get_const calls it Runtime. *)
Theorem C15_full_iff_refuted : ~ C15_full_iff.
Proof. exact full_iff_refuted. Qed.
Print Assumptions C15_full_iff_refuted.

(* FALSE: `f(.[1,2])`, `f(true)`, `f("s")`, `b :: true; f(b)`, `f(lambda)` for a comptime
   parameter: get_const says Const, const_data has no value, the compiler panics. *)
Theorem C15_full_no_crash_refuted : ~ C15_full_no_crash.
Proof. exact full_no_crash_refuted. Qed.
Print Assumptions C15_full_no_crash_refuted.

Theorem C15_witness_comptime_arg_crashes :
  comptime_arg (CArrayLit true [CLit (LInt 1); CLit (LInt 2)]) = Crash SITE_COMPTIME_ARG
  /\ comptime_arg (CLit LBool) = Crash SITE_COMPTIME_ARG
  /\ comptime_arg (CLit LString) = Crash SITE_COMPTIME_ARG
  /\ comptime_arg (CLocal false (Some (CLit LBool))) = Crash SITE_COMPTIME_ARG
  /\ comptime_arg CLambda = Crash SITE_COMPTIME_ARG.
Proof. exact crash_witnesses. Qed.
Print Assumptions C15_witness_comptime_arg_crashes.

(* get_const terminates with |e| fuel and answers Const exactly for the expressions that are
   const by the documented rule — for every expression without a character literal. *)
Theorem C15_get_const_iff_IsConst_except_char : forall e,
  wf e = true -> has_char e = false ->
  exists v, get_const e = Ok v /\ (v = Const <-> IsConst e).
Proof. exact get_const_iff_IsConst. Qed.
Print Assumptions C15_get_const_iff_IsConst_except_char.

(* Soundness needs no exclusion: nothing that is not const by the rule is ever accepted. *)
Theorem C15_get_const_sound : forall e,
  wf e = true -> get_const e = Ok Const -> IsConst e.
Proof. exact get_const_sound. Qed.
Print Assumptions C15_get_const_sound.

(* An accepted array length / discriminant is exactly the value the expression denotes. *)
Theorem C15_accepted_array_len_denotes : forall e n,
  wf e = true -> array_len e = Ok (Accepted (DInt n)) -> denotes e n /\ IsConst e.
Proof. exact accepted_array_len_denotes. Qed.
Print Assumptions C15_accepted_array_len_denotes.

Theorem C15_accepted_discriminant_denotes : forall e n,
  wf e = true -> discriminant e = Ok (Accepted (DInt n)) -> denotes e n /\ IsConst e.
Proof. exact accepted_discriminant_denotes. Qed.
Print Assumptions C15_accepted_discriminant_denotes.

(* Anything else is reported (or silently dropped after an earlier error), never evaluated. *)
Theorem C15_not_const_is_reported : forall e site w,
  wf e = true -> has_char e = false -> ~ IsConst e ->
  consume site w e = Ok NotConst \/ consume site w e = Ok Silent.
Proof. exact not_const_is_reported. Qed.
Print Assumptions C15_not_const_is_reported.

(* Consumers do not crash on the expression kinds const_data supports. *)
Theorem C15_int_consumer_no_crash : forall site e,
  int_valued e = true -> exists o, consume site true e = Ok o.
Proof. exact int_consumer_no_crash. Qed.
Print Assumptions C15_int_consumer_no_crash.

Theorem C15_comptime_arg_no_crash_except_known : forall e,
  has_data e = true -> exists o, comptime_arg e = Ok o.
Proof. exact comptime_arg_no_crash. Qed.
Print Assumptions C15_comptime_arg_no_crash_except_known.

Theorem C15_global_body_no_crash : forall e, exists o, global_body e = Ok o.
Proof. exact global_body_no_crash. Qed.
Print Assumptions C15_global_body_no_crash.

(* ---- multi-file worlds: references stay symbolic, the model transcribes the file lookup of
   get_const (worklist of (file, expr)) and const_data (`Fqn { file: loc.file(), name }`). -------- *)
(* An accepted array length / discriminant / integer comptime argument is exactly the value the
   expression denotes, where a plain global name is a global of the file the expression lives in
   and `file.name` a global of that file — for every world, file, expression and fuel. *)
Theorem C15_world_accepted_array_len_denotes : forall w fuel cur e n,
  array_len_w w fuel cur e = Ok (Accepted (DInt n)) -> denotes_w w cur e n.
Proof. exact world_accepted_array_len_denotes. Qed.
Print Assumptions C15_world_accepted_array_len_denotes.

Theorem C15_world_accepted_discriminant_denotes : forall w fuel cur e n,
  discriminant_w w fuel cur e = Ok (Accepted (DInt n)) -> denotes_w w cur e n.
Proof. exact world_accepted_discriminant_denotes. Qed.
Print Assumptions C15_world_accepted_discriminant_denotes.

Theorem C15_world_accepted_comptime_arg_denotes : forall w fuel cur e n,
  comptime_arg_w w fuel cur e = Ok (Accepted (DInt n)) -> denotes_w w cur e n.
Proof. exact world_accepted_comptime_arg_denotes. Qed.
Print Assumptions C15_world_accepted_comptime_arg_denotes.

(* the denoted value is unique *)
Theorem C15_world_denotes_unique : forall w cur e n,
  denotes_w w cur e n -> forall m, denotes_w w cur e m -> n = m.
Proof. exact denotes_w_fun. Qed.
Print Assumptions C15_world_denotes_unique.

(* Non-vacuity: main has size = 3, other has size = 5 and buf_len :: size; `other.buf_len` used in
   main is 5 and not 3. *)
Example C15_world_example :
  array_len_w demo_world 10 0 (WMember 1 8) = Ok (Accepted (DInt 5))
  /\ denotes_w demo_world 0 (WMember 1 8) 5
  /\ ~ denotes_w demo_world 0 (WMember 1 8) 3.
Proof. exact demo_world_ok. Qed.

(* Sensitivity of the statement to the file lookup: resolving the plain global name in the file
   being inferred yields 3 for `other.buf_len`, a value the expression does not denote. *)
Theorem C15_world_lookup_in_inferring_file_is_wrong :
  const_data_w_selfish demo_world 0 10 0 (WMember 1 8) = Ok (Some (DInt 3))
  /\ const_data_w demo_world 10 0 (WMember 1 8) = Ok (Some (DInt 5))
  /\ ~ denotes_w demo_world 0 (WMember 1 8) 3.
Proof. exact selfish_lookup_is_wrong. Qed.
Print Assumptions C15_world_lookup_in_inferring_file_is_wrong.

Example C15_example :
  let e := CLocal false (Some (CGlobal false true (CLocal false (Some (CLit (LInt 3)))))) in
  wf e = true /\ has_char e = false /\ array_len e = Ok (Accepted (DInt 3))
  /\ array_len (CLocal true (Some (CLit (LInt 3)))) = Ok NotConst
  /\ array_len (CLocal false (Some (COther false))) = Ok NotConst
  /\ comptime_arg (CGlobal true true (CLit (LInt 3))) = Ok NotConst.
Proof. exact example_ok. Qed.
