(* C17 — Type layouts obey the documented representation rules.
   Only statements, [exact]s and [Print Assumptions] live here.

   [layout_info pw t] is the model of what crates/codegen/src/layout.rs computes
   for type [t] at pointer bit width [pw] (size, align, stride, struct field
   offsets, tag offset; Common/Layout.v), [Crash] where the Rust code panics.
   [wf] restricts int/float bit widths to those the front end produces;
   [lens32 t = true] (= [known_class t = None]) says no array length in [t]
   exceeds u32::MAX — the code truncates such lengths (finding C17-1). *)
From Capy Require Import Common.Util Common.LTy Common.Layout Spec.CLayout
  Proofs.LayoutSpecProofs Proofs.LayoutProofs Proofs.LayoutRules.
Local Open Scope N_scope.

(* 1. Alignment is a power of two no larger than 8. *)
Theorem C17_align_pow2_le8 : forall pw, ptr_width pw -> forall t i,
  wf t -> known_class t = None -> layout_info pw t = Ok i ->
  i_align i = 1 \/ i_align i = 2 \/ i_align i = 4 \/ i_align i = 8.
Proof. exact C17_align_lemma. Qed.
Print Assumptions C17_align_pow2_le8.

(* 2. Struct fields (also through distinct / variant wrappers): one offset per
   member, every offset a multiple of the member's alignment, members in
   declaration order, each starting at or after the end of the previous one,
   the last one ending within the struct's size.  [fl] are the model's own
   (size, align) of the members. *)
Theorem C17_struct_fields : forall pw, ptr_width pw -> forall t ms i,
  wf t -> known_class t = None ->
  (absolute_ty t = LAnonStruct ms \/ exists u, absolute_ty t = LStruct u ms) ->
  layout_info pw t = Ok i ->
  exists fl offs, fields pw ms = Ok fl /\ i_offsets i = Some offs /\
    length offs = length ms /\
    Forall2 (fun f o => (snd f | o)) fl offs /\
    chain 0 fl offs (i_size i).
Proof. exact C17_struct_lemma. Qed.
Print Assumptions C17_struct_fields.

(* what [chain] means pointwise: field i ends before any later field j starts,
   and every field ends within the size *)
Theorem C17_chain_disjoint : forall cur fl offs fin, chain cur fl offs fin ->
  forall i j fi oi oj, (i < j)%nat ->
    nth_error fl i = Some fi -> nth_error offs i = Some oi -> nth_error offs j = Some oj ->
    oi + fst fi <= oj.
Proof. exact chain_disjoint. Qed.
Print Assumptions C17_chain_disjoint.
Theorem C17_chain_within : forall cur fl offs fin, chain cur fl offs fin ->
  forall i f o, nth_error fl i = Some f -> nth_error offs i = Some o ->
    cur <= o /\ o + fst f <= fin.
Proof. exact chain_nth. Qed.
Print Assumptions C17_chain_within.

(* 3. An array's size is length times element stride, its alignment the
   element's (for lengths that fit in u32). *)
Theorem C17_array_size : forall pw, ptr_width pw -> forall n sub i,
  wf sub -> known_class (LArray n sub) = None ->
  (layout_info pw (LArray n sub) = Ok i \/ layout_info pw (LAnonArray n sub) = Ok i) ->
  exists st, stride pw sub = Ok st /\ i_size i = n * st /\ align_of pw sub = Ok (i_align i).
Proof. exact C17_array_lemma. Qed.
Print Assumptions C17_array_size.

(* 3'. The unrestricted array rule is false of the code: `[4294967296]u8` has size 0. *)
Theorem C17_full_refuted : ~ array_rule_full.
Proof. exact array_rule_full_refuted. Qed.
Print Assumptions C17_full_refuted.

(* 4. Distinct types and enum variants have exactly the underlying size and alignment. *)
Theorem C17_distinct_variant_transparent : forall pw, ptr_width pw -> forall t sub i,
  wf t -> known_class t = None ->
  ((exists u, t = LDistinct u sub) \/ (exists e n u d, t = LVariant e n u d sub)) ->
  layout_info pw t = Ok i -> lay pw sub = Ok (i_size i, i_align i).
Proof. exact C17_transparent_lemma. Qed.
Print Assumptions C17_distinct_variant_transparent.

(* 5. An optional of a pointer (raw or typed, also behind distinct / variant)
   is exactly pointer sized and has no tag.  No side condition at all. *)
Theorem C17_optional_pointer_sized : forall pw sub i, is_non_zero sub = true ->
  layout_info pw (LOptional sub) = Ok i -> i_size i = pw / 8 /\ i_discr i = None.
Proof. exact model_optional_pointer. Qed.
Print Assumptions C17_optional_pointer_sized.

(* 6. Every other optional, every error union and every enum keeps a one-byte
   tag right after the largest payload. *)
Theorem C17_tag_enum : forall pw, ptr_width pw -> forall u vs i,
  wf (LEnum u vs) -> known_class (LEnum u vs) = None ->
  layout_info pw (LEnum u vs) = Ok i ->
  exists d, i_discr i = Some d /\ i_size i = d + 1 /\
    (forall v r, In v vs -> lay pw v = Ok r -> fst r <= d) /\
    (vs <> [] -> exists v r, In v vs /\ lay pw v = Ok r /\ fst r = d) /\
    (vs = [] -> d = 0).
Proof. exact C17_tag_enum_lemma. Qed.
Print Assumptions C17_tag_enum.

Theorem C17_tag_optional : forall pw, ptr_width pw -> forall sub i,
  wf sub -> known_class sub = None -> is_non_zero sub = false ->
  layout_info pw (LOptional sub) = Ok i ->
  exists d, i_discr i = Some d /\ i_size i = d + 1 /\ size_of pw sub = Ok d.
Proof. exact C17_tag_optional_lemma. Qed.
Print Assumptions C17_tag_optional.

Theorem C17_tag_error_union : forall pw, ptr_width pw -> forall e p i,
  wf (LErrorUnion e p) -> known_class (LErrorUnion e p) = None ->
  layout_info pw (LErrorUnion e p) = Ok i ->
  exists d se sp, i_discr i = Some d /\ i_size i = d + 1 /\
    size_of pw e = Ok se /\ size_of pw p = Ok sp /\ d = N.max se sp.
Proof. exact C17_tag_eu_lemma. Qed.
Print Assumptions C17_tag_error_union.

(* 7. Stride is the size rounded up to the alignment. *)
Theorem C17_stride : forall pw, ptr_width pw -> forall t i,
  wf t -> known_class t = None -> layout_info pw t = Ok i ->
  (i_align i | i_stride i) /\ i_size i <= i_stride i < i_size i + i_align i.
Proof. exact C17_stride_lemma. Qed.
Print Assumptions C17_stride.

(* 8. The model of layout.rs computes the specification (Spec/CLayout.v: C's
   struct layout algorithm, "largest payload + 1 tag byte" unions) whenever it
   returns; and it returns (no panic site fires) whenever all sizes fit in u32. *)
Theorem C17_model_meets_spec : forall pw, ptr_width pw -> forall t, wf t -> known_class t = None ->
  forall i, layout_info pw t = Ok i ->
    i_size i = isize pw t /\ i_align i = ialign pw t /\ i_stride i = istride pw t /\
    i_offsets i = ioffsets pw t /\ i_discr i = idiscr pw t.
Proof. exact C17_refines_lemma. Qed.
Print Assumptions C17_model_meets_spec.

Theorem C17_no_panic_when_sizes_fit : forall pw, ptr_width pw -> forall t, wf t ->
  fits pw t = true -> lay pw t = Ok (ideal pw t).
Proof. exact lay_total_when_fits. Qed.
Print Assumptions C17_no_panic_when_sizes_fit.

(* 9. For structs the specification is C's: offsetof = our offsets,
   sizeof = our stride (C pads the tail, capy's size does not), alignof = align. *)
Theorem C17_c_offsets_agree : forall pw u ms,
  c_offsetof (ideal_fields pw ms) = match ioffsets pw (LStruct u ms) with Some o => o | None => [] end /\
  c_sizeof (ideal_fields pw ms) = istride pw (LStruct u ms) /\
  c_alignof (ideal_fields pw ms) = ialign pw (LStruct u ms).
Proof. exact c_layout_agrees. Qed.
Print Assumptions C17_c_offsets_agree.

(* Non-vacuity: struct { a: u8, b: i64, c: bool, d: ?^i32, e: [3]u16 } and an
   enum over it, at both pointer widths. *)
Example C17_example :
  let s := LStruct 1 [(0, LUInt 8); (1, LIInt 64); (2, LBool);
                      (3, LOptional (LPointer false (LIInt 32))); (4, LArray 3 (LUInt 16))] in
  let e := LEnum 2 [LVariant 2 0 3 0 s; LVariant 2 1 4 1 LVoid] in
  layout_info 64 s = Ok {| i_size := 38; i_align := 8; i_stride := 40;
                           i_offsets := Some [0; 8; 16; 24; 32]; i_discr := None |} /\
  layout_info 32 s = Ok {| i_size := 30; i_align := 8; i_stride := 32;
                           i_offsets := Some [0; 8; 16; 20; 24]; i_discr := None |} /\
  layout_info 64 e = Ok {| i_size := 39; i_align := 8; i_stride := 40;
                           i_offsets := None; i_discr := Some 38 |} /\
  wf e /\ known_class e = None /\ fits 64 e = true.
Proof. repeat split; vm_compute; reflexivity. Qed.
