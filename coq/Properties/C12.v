(* C12 — Implicit conversion is consistent, order-independent and weaker than casting.
   Model: Model/TyRel.v (transcription of hir::common::Ty's relations), parametrised by the
   record [fixes]: [no_fixes] is the code of the pinned commit, a flag that is on mirrors
   the corresponding `fix:` patch.  Every theorem quantifies over ALL types of the nested
   inductive [ty] and over every combination of fixes; no pool, no size bound. *)
From Capy Require Import Common.Util Common.Ty Model.TyRel Model.ExpectMatch Spec.TyLaws.
From Capy Require Import Proofs.TyRelBasics Proofs.TyRelWeak Proofs.TyRelMax Proofs.TyRelMaxAccepts
  Proofs.TyRelMaxOrder Proofs.TyRelWitness.

(* a value of type A is accepted where A is expected *)
Theorem C12_fit_refl : forall fx a, fit fx a a = true.
Proof. exact fit_refl. Qed.
Print Assumptions C12_fit_refl.

(* implicitly accepted => explicit cast accepted *)
Theorem C12_fit_implies_cast : forall fx a b, fit fx a b = true -> cast fx a b = true.
Proof. exact fit_implies_cast. Qed.
Print Assumptions C12_fit_implies_cast.

(* weak-replaceable => implicitly accepted *)
Definition C12_weak_implies_fit_full (fx : fixes) : Prop :=
  forall a e, nodup_names e = true -> weak fx a e = true -> fit fx a e = true.

(* history: false of the pinned code (finding C12-1) *)
Theorem C12_weak_implies_fit_full_refuted : ~ C12_weak_implies_fit_full no_fixes.
Proof. exact weak_implies_fit_refuted. Qed.
Print Assumptions C12_weak_implies_fit_full_refuted.

(* for every variant: it holds outside the known class (empty when the C12-1 fix is on) *)
Theorem C12_weak_implies_fit_except_known :
  forall fx e a, known_weak_fit fx a = false -> nodup_names e = true ->
                 weak fx a e = true -> fit fx a e = true.
Proof. exact weak_implies_fit_except_lem. Qed.
Print Assumptions C12_weak_implies_fit_except_known.

(* with the C12-1 fix: in full *)
Theorem C12_weak_implies_fit_full_fixed :
  forall fx, fx_weak_nominal fx = true -> C12_weak_implies_fit_full fx.
Proof. exact weak_implies_fit_fixed. Qed.
Print Assumptions C12_weak_implies_fit_full_fixed.

(* the struct arm of is_weak_replaceable_by (a call on the same pair) was unfolded in the
   model; this is the statement that the unfolding is the call *)
Theorem C12_weak_struct_arm_is_fit : forall fx a u ems,
  (match a with Struct _ _ | AnonStruct _ => true | _ => false end) = true ->
  weak fx a (Struct u ems) = fit fx a (Struct u ems).
Proof. exact weak_struct_is_fit. Qed.
Print Assumptions C12_weak_struct_arm_is_fit.

(* max never panics when the enums of compared variants are registered *)
Theorem C12_max_no_crash :
  forall fx m a, registered m a = true -> forall b, no_crash (tmax fx m a b).
Proof. exact max_no_crash_lem. Qed.
Print Assumptions C12_max_no_crash.

(* the common type accepts both operands *)
Definition C12_max_accepts_both_full (fx : fixes) : Prop :=
  forall m a b c, wf_enum_map m -> tmax fx m a b = Ok (Some c) -> max_accepts fx false a b c = true.

(* history: false of the pinned code (finding C12-2, max's distinct arms) *)
Theorem C12_max_accepts_both_full_refuted : ~ C12_max_accepts_both_full no_fixes.
Proof. exact max_accepts_both_refuted. Qed.
Print Assumptions C12_max_accepts_both_full_refuted.

(* still false with every fix candidate applied (finding C12-3 stays open) *)
Theorem C12_max_accepts_both_full_refuted_all_fixes : ~ C12_max_accepts_both_full all_fixes.
Proof. exact max_accepts_both_refuted_all_fixes. Qed.
Print Assumptions C12_max_accepts_both_full_refuted_all_fixes.

(* for every variant: outside the exact classes of [known_max] the common type accepts both
   operands ([max_accepts]: can_fit_into below a sum, expect_match's acceptance at the top) *)
Theorem C12_max_accepts_both_except_known :
  forall fx m, wf_enum_map m -> forall a depth b c,
    known_max fx depth a b = 0%N -> tmax fx m a b = Ok (Some c) -> max_accepts fx depth a b c = true.
Proof. exact max_accepts_lem. Qed.
Print Assumptions C12_max_accepts_both_except_known.

(* with the C12-2 fix, class 1 (the distinct arms) is empty: only class 2 (C12-3) remains *)
Theorem C12_max_distinct_class_empty_fixed :
  forall fx, fx_max_distinct fx = true -> forall a b, known_max_distinct fx a b = false.
Proof. exact known_max_distinct_fixed. Qed.
Print Assumptions C12_max_distinct_class_empty_fixed.

(* the common type does not depend on the order of the operands, outside [known_order] *)
Theorem C12_max_order_independent_except_known :
  forall fx m a b, known_order a b = false -> tmax fx m a b = tmax fx m b a.
Proof. exact max_order_lem. Qed.
Print Assumptions C12_max_order_independent_except_known.

(* order independence fails only through the placeholder types Unknown / AlwaysJumps *)
Definition C12_max_order_full (fx : fixes) : Prop := forall m a b, tmax fx m a b = tmax fx m b a.
Theorem C12_max_order_full_refuted : forall fx, ~ C12_max_order_full fx.
Proof. exact max_order_refuted. Qed.
Print Assumptions C12_max_order_full_refuted.

(* hypotheses are satisfiable on non-trivial inputs *)
Example C12_ex_weak_fit :
  let a := AnonArray 2 (IInt 0) in let e := Array 2 (Distinct 7 (IInt 32)) in
  known_weak_fit no_fixes a = false /\ weak no_fixes a e = true /\ fit no_fixes a e = true
  /\ cast no_fixes a e = true.
Proof. vm_compute. auto. Qed.
Example C12_ex_max :
  tmax no_fixes [] (Optional (IInt 16)) (IInt 0) = Ok (Some (Optional (IInt 16))).
Proof. vm_compute. reflexivity. Qed.
Example C12_ex_max_hyps :
  let a := Optional (Distinct 1 (IInt 32)) in let b := Optional (IInt 0) in
  known_max no_fixes false a b = 0%N /\ known_order a b = false /\
  tmax no_fixes [] a b = Ok (Some (Optional (Distinct 1 (IInt 32)))).
Proof. vm_compute. auto. Qed.
Example C12_ex_known_max :
  known_max no_fixes false (Optional (Distinct 1 (IInt 32))) (Distinct 1 (IInt 32)) = 1%N /\
  known_max all_fixes false (Optional (Distinct 1 (IInt 32))) (Distinct 1 (IInt 32)) = 0%N /\
  tmax all_fixes [] (Optional (Distinct 1 (IInt 32))) (Distinct 1 (IInt 32))
    = Ok (Some (Optional (Distinct 1 (IInt 32)))).
Proof. vm_compute. auto. Qed.
