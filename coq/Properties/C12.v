(* C12 — Implicit conversion is consistent, order-independent and weaker than casting.
   Model: Model/TyRel.v (transcription of hir::common::Ty's relations).  Every theorem
   quantifies over ALL types of the nested inductive [ty]; no pool, no size bound. *)
From Capy Require Import Common.Util Common.Ty Model.TyRel Model.ExpectMatch Spec.TyLaws.
From Capy Require Import Proofs.TyRelBasics Proofs.TyRelWeak Proofs.TyRelMax Proofs.TyRelMaxAccepts
  Proofs.TyRelMaxOrder Proofs.TyRelWitness.

(* a value of type A is accepted where A is expected *)
Theorem C12_fit_refl : forall a, fit a a = true.
Proof. exact fit_refl. Qed.
Print Assumptions C12_fit_refl.

(* implicitly accepted => explicit cast accepted *)
Theorem C12_fit_implies_cast : forall a b, fit a b = true -> cast a b = true.
Proof. exact fit_implies_cast. Qed.
Print Assumptions C12_fit_implies_cast.

(* weak-replaceable => implicitly accepted: full statement, refuted on the faithful model *)
Definition C12_weak_implies_fit_full : Prop :=
  forall a e, WfTy a -> WfTy e -> nodup_names a = true -> nodup_names e = true ->
              weak a e = true -> fit a e = true.
Theorem C12_weak_implies_fit_full_refuted : ~ C12_weak_implies_fit_full.
Proof. exact weak_implies_fit_refuted. Qed.
Print Assumptions C12_weak_implies_fit_full_refuted.

(* ... and the strongest true statement: it holds for every pair whose found type is
   outside the known class (an anonymous array whose element type mentions a nominal type) *)
Theorem C12_weak_implies_fit_except_known :
  forall e a, known_weak_fit a = false -> nodup_names e = true ->
              weak a e = true -> fit a e = true.
Proof. exact weak_implies_fit_except_lem. Qed.
Print Assumptions C12_weak_implies_fit_except_known.

(* the struct arm of is_weak_replaceable_by (a call on the same pair) was unfolded in the
   model; this is the statement that the unfolding is the call *)
Theorem C12_weak_struct_arm_is_fit : forall a u ems,
  (match a with Struct _ _ | AnonStruct _ => true | _ => false end) = true ->
  weak a (Struct u ems) = fit a (Struct u ems).
Proof. exact weak_struct_is_fit. Qed.
Print Assumptions C12_weak_struct_arm_is_fit.

(* max never panics when the enums of compared variants are registered *)
Theorem C12_max_no_crash : forall m a, registered m a = true -> forall b, no_crash (tmax m a b).
Proof. exact max_no_crash_lem. Qed.
Print Assumptions C12_max_no_crash.

(* the common type accepts both operands: full statement, refuted (max's distinct arms) *)
Definition C12_max_accepts_both_full : Prop :=
  forall m a b c, WfTy a -> WfTy b -> value_ty a = true -> value_ty b = true ->
                  tmax m a b = Ok (Some c) -> accepts a c && accepts b c = true.
Theorem C12_max_accepts_both_full_refuted : ~ C12_max_accepts_both_full.
Proof. exact max_accepts_both_refuted. Qed.
Print Assumptions C12_max_accepts_both_full_refuted.

(* ... and the strongest true statement: outside the exact classes of [known_max] the common
   type accepts both operands ([max_accepts]: can_fit_into below a sum, expect_match's
   acceptance at the top level), for all types and every well-formed ENUM_MAP *)
Theorem C12_max_accepts_both_except_known :
  forall m, wf_enum_map m -> forall a depth b c,
    known_max depth a b = 0%N -> tmax m a b = Ok (Some c) -> max_accepts depth a b c = true.
Proof. exact max_accepts_lem. Qed.
Print Assumptions C12_max_accepts_both_except_known.

(* the common type does not depend on the order of the operands, outside [known_order] *)
Theorem C12_max_order_independent_except_known :
  forall m a b, known_order a b = false -> tmax m a b = tmax m b a.
Proof. exact max_order_lem. Qed.
Print Assumptions C12_max_order_independent_except_known.

(* order independence fails only through the placeholder types Unknown / AlwaysJumps *)
Definition C12_max_order_full : Prop := forall m a b, tmax m a b = tmax m b a.
Theorem C12_max_order_full_refuted : ~ C12_max_order_full.
Proof. exact max_order_refuted. Qed.
Print Assumptions C12_max_order_full_refuted.

(* hypotheses are satisfiable on non-trivial inputs *)
Example C12_ex_weak_fit :
  let a := AnonArray 2 (IInt 0) in let e := Array 2 (Distinct 7 (IInt 32)) in
  known_weak_fit a = false /\ weak a e = true /\ fit a e = true /\ cast a e = true.
Proof. vm_compute. auto. Qed.
Example C12_ex_max :
  tmax [] (Optional (IInt 16)) (IInt 0) = Ok (Some (Optional (IInt 16))).
Proof. vm_compute. reflexivity. Qed.
Example C12_ex_max_hyps :
  let a := Optional (Distinct 1 (IInt 32)) in let b := Optional (IInt 0) in
  known_max false a b = 0%N /\ known_order a b = false /\
  tmax [] a b = Ok (Some (Optional (Distinct 1 (IInt 32)))).
Proof. vm_compute. auto. Qed.
Example C12_ex_known_max :
  known_max false (Optional (Distinct 1 (IInt 32))) (Distinct 1 (IInt 32)) = 1%N.
Proof. vm_compute. reflexivity. Qed.
