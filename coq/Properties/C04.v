(* C04 - A comptime block yields what the same code yields at runtime.
   Only statements, [exact]s and [Print Assumptions] live here.

   Model (Model/Comptime.v): the value [v] a block's body yields is followed through the
   Simplified ABI return convention ([run_jit]), the capture in eval_comptime_blocks
   ([capture] -> ComptimeResult), and the code the final binary gets for the comptime
   expression ([materialise_local]: iconst / f32const / f64const / data symbol / type id;
   [materialise_global]: into_bytes + the load compile_global emits).  [observe_runtime] is
   what ordinary run-time code for the same expression evaluates to.  What the JIT-compiled
   body computes is NOT modelled (trusted; exercised end to end by the check).
   [g : garbage] = everything the capture code cannot control (upper register bits, contents
   of the freshly allocated result buffer); the theorems hold for every [g]. *)
From Capy Require Import Common.Util Model.Comptime Proofs.ComptimeFloat Proofs.ComptimeProofs.
Local Open Scope Z_scope.

(* Scalars: every integer width and signedness (8..128, usize/isize, weak), bool, char, f32,
   f64, also behind `distinct`: both re-materialisation paths give back the bit pattern.
   f32 results travel through an f64 ([promote]/[demote] are bit-level definitions of the
   two conversions, round-to-nearest-even); NaN patterns are excluded explicitly
   ([float_ok]): a signalling NaN is quietened on the way (Example below). *)
Theorem C04_roundtrip_scalar : forall ids tid t c z g,
  scalar_kind t = Some c -> 0 <= z < 2 ^ cl_bits c -> float_ok c z ->
  pipeline_local ids tid t (VNum z) g = Ok (ONum c z) /\
  pipeline_global ids tid t (VNum z) g = Ok (ONum c z).
Proof. exact roundtrip_scalar. Qed.
Print Assumptions C04_roundtrip_scalar.

(* the lemma behind the f32 case *)
Theorem C04_f32_via_f64_exact : forall b,
  0 <= b < 2 ^ 32 -> is_nan32 b = false -> demote (promote b) = b.
Proof. exact demote_promote. Qed.
Print Assumptions C04_f32_via_f64_exact.

(* Data objects: for every type represented by a pointer (arrays, structs, enums, optionals,
   error unions ...) that holds no address, the data object emitted into the final binary
   has exactly the bytes the block stored, bit for bit, padding included. *)
Theorem C04_roundtrip_data : forall ids tid t b g,
  get_final_ty t = Ok FPointer -> contains_ptr t = false -> layout_ok t ->
  length b = N.to_nat (size_of t) ->
  pipeline_local ids tid t (VAgg b) g = Ok (OAddr b) /\
  pipeline_global ids tid t (VAgg b) g = Ok (OAddr b) /\
  observe_runtime t (VAgg b) = Ok (OAddr b).
Proof. exact roundtrip_data. Qed.
Print Assumptions C04_roundtrip_data.

(* [layout_ok] (the Invalid-layout panic does not fire) holds for all types with the
   language's number widths *)
Theorem C04_layout_ok : forall t, wf_ty t = true -> layout_ok t.
Proof. exact wf_layout_ok. Qed.
Print Assumptions C04_layout_ok.

(* `type` results: the recorded Ty is re-encoded with the final binary's id table; an id the
   JIT instance's table does not know is the panic `meta_tys[&ty_id]`. *)
Theorem C04_roundtrip_type : forall ids tid id t' g,
  0 <= id < 2 ^ 32 -> lookup_id id ids = Some t' ->
  pipeline_local ids tid TType (VNum id) g = Ok (ONum I32 (tid t' mod 2 ^ 32)).
Proof. exact roundtrip_type. Qed.
Print Assumptions C04_roundtrip_type.

(* Everything that holds no address, of any shape: comptime copy = run-time copy. *)
Theorem C04_roundtrip_no_ptr : forall ids tid t v g,
  contains_ptr t = false -> is_type t = false -> layout_ok t ->
  value_ok t v -> value_float_ok t v ->
  pipeline_local ids tid t v g = observe_runtime t v /\
  pipeline_global ids tid t v g = observe_runtime t v.
Proof. exact roundtrip_no_ptr. Qed.
Print Assumptions C04_roundtrip_no_ptr.

(* ---- the checker's guard (globals.rs: top-level is_pointer || is_function only) ---- *)

(* full-strength statement: FALSE of the unchanged code *)
Definition C04_guard_complete_full : Prop :=
  forall t, guard t = true -> contains_ptr t = false.

Theorem C04_guard_complete_full_refuted : ~ C04_guard_complete_full.
Proof. exact guard_complete_full_refuted. Qed.
Print Assumptions C04_guard_complete_full_refuted.

(* strongest true statement: outside the narrow classes of [known_class] (str result; slice /
   rawslice / any result; optional pointer; aggregate with an address-holding member) every
   accepted result type is address free *)
Theorem C04_guard_complete_except_known : forall t,
  guard t = true -> known_class t = None -> contains_ptr t = false.
Proof. exact guard_complete_except_known. Qed.
Print Assumptions C04_guard_complete_except_known.

(* the classes contain nothing harmless *)
Theorem C04_known_class_sound : forall t k, known_class t = Some k -> contains_ptr t = true.
Proof. exact known_class_sound. Qed.
Print Assumptions C04_known_class_sound.

(* the property itself over all accepted types: refuted (witness: a `str` block), and true
   outside the known classes *)
Definition C04_roundtrip_accepted_full : Prop :=
  forall ids tid t v g, guard t = true -> is_type t = false -> layout_ok t ->
    value_ok t v -> value_float_ok t v ->
    pipeline_local ids tid t v g = observe_runtime t v.

Theorem C04_roundtrip_accepted_full_refuted : ~ C04_roundtrip_accepted_full.
Proof. exact roundtrip_accepted_full_refuted. Qed.
Print Assumptions C04_roundtrip_accepted_full_refuted.

Theorem C04_roundtrip_accepted_except_known : forall ids tid t v g,
  guard t = true -> known_class t = None -> is_type t = false -> layout_ok t ->
  value_ok t v -> value_float_ok t v ->
  pipeline_local ids tid t v g = observe_runtime t v /\
  pipeline_global ids tid t v g = observe_runtime t v.
Proof. exact roundtrip_accepted_except_known. Qed.
Print Assumptions C04_roundtrip_accepted_except_known.

(* what the witness class does: a `str` block hands the program the address of the
   uninitialised result buffer (the direct return never touches it) *)
Theorem C04_str_result_is_scratch_buffer : forall ids tid addr g,
  pipeline_local ids tid TStr (VNum addr) g = Ok (OAddr (g_uninit g)).
Proof. exact str_result_is_scratch_buffer. Qed.
Print Assumptions C04_str_result_is_scratch_buffer.

(* ---- side effects ---- *)

(* One evaluation round of eval_comptime_blocks (the blocks JIT-run are the requested blocks
   without a recorded result; each result is inserted): afterwards a second round runs none of
   them, recorded blocks were not re-run, and each requested block lowers to a constant whose
   code contains nothing of the body - the side effects cannot recur in the built program. *)
Theorem C04_side_effects_once : forall (B : Type) tid results to_eval new res',
  map fst new = to_run results to_eval ->
  insert_all results new = Ok res' ->
  to_run res' to_eval = [] /\
  (forall c, In c to_eval -> lookup_result c results <> None -> ~ In c (map fst new)) /\
  (forall c t nl (body : B) l, In c to_eval ->
     lower_comptime tid res' c t nl body = Ok l -> runs_body l = false).
Proof. exact @side_effects_once. Qed.
Print Assumptions C04_side_effects_once.

Theorem C04_recorded_lowers_to_constant : forall (B : Type) tid results ctc t nl (body : B) r l,
  lookup_result ctc results = Some r ->
  lower_comptime tid results ctc t nl body = Ok l -> runs_body l = false.
Proof. exact @lower_recorded_is_constant. Qed.
Print Assumptions C04_recorded_lowers_to_constant.

(* ---- non-vacuity ---- *)

Definition ex_garbage : garbage := {| g_upper := 12345; g_fupper := 77; g_uninit := [9; 9; 9; 9; 9; 9; 9; 9] |}.
Definition ex_struct : ty := TStruct [TInt true 8; TArray false 2 (TInt false 16); TOptional (TInt true 32)].

(* i8 -1 (pattern 255) with dirty upper register bits; u128; f32 1.5; a struct with padding *)
Example C04_example_scalars :
  pipeline_local [] (fun _ => 0) (TInt true 8) (VNum 255) ex_garbage = Ok (ONum I8 255) /\
  pipeline_global [] (fun _ => 0) (TDistinct (TInt false 128)) (VNum (2 ^ 127 + 5)) ex_garbage
    = Ok (ONum I128 (2 ^ 127 + 5)) /\
  pipeline_local [] (fun _ => 0) (TFloat 32) (VNum 1069547520) ex_garbage = Ok (ONum F32 1069547520) /\
  promote 1069547520 = 4609434218613702656 /\
  pipeline_local [] (fun _ => 0) (TInt false 255) (VNum (2 ^ 64 - 1)) ex_garbage = Ok (ONum I64 (2 ^ 64 - 1)).
Proof. repeat split; vm_compute; reflexivity. Qed.

Example C04_example_data :
  size_of ex_struct = 13%N /\ contains_ptr ex_struct = false /\ guard ex_struct = true /\
  known_class ex_struct = None /\ wf_ty ex_struct = true /\
  pipeline_local [] (fun _ => 0) ex_struct (VAgg [1; 0; 2; 0; 3; 0; 0; 0; 4; 0; 0; 0; 1]) ex_garbage
    = Ok (OAddr [1; 0; 2; 0; 3; 0; 0; 0; 4; 0; 0; 0; 1]).
Proof. repeat split; vm_compute; reflexivity. Qed.

(* the witnesses replayed on the real compiler by the check *)
Example C04_witnesses :
  guard TStr = true /\ known_class TStr = Some KStr /\
  guard (TStruct [TInt true 32; TStr]) = true /\
  known_class (TStruct [TInt true 32; TStr]) = Some KAggregateWithPointer /\
  known_class (TArray false 2 TStr) = Some KAggregateWithPointer /\
  known_class (TSlice (TInt true 32)) = Some KFatPointer /\
  guard (TPtr (TInt true 32)) = false /\ guard TFn = false /\ guard (TDistinct TRawPtr) = false /\
  pipeline_local [] (fun _ => 0) TStr (VNum 4198400) ex_garbage = Ok (OAddr [9; 9; 9; 9; 9; 9; 9; 9]) /\
  observe_runtime TStr (VNum 4198400) = Ok (ONum I64 4198400).
Proof. repeat split; vm_compute; reflexivity. Qed.

Example C04_example_type :
  pipeline_local [(7, TBool); (1207959552, TStruct [TBool])] (fun t => match t with TBool => 7 | _ => 1207959555 end)
                 TType (VNum 1207959552) ex_garbage = Ok (ONum I32 1207959555) /\
  pipeline_local [(7, TBool)] (fun _ => 0) TType (VNum 8) ex_garbage = Crash site_meta_tys_index.
Proof. split; vm_compute; reflexivity. Qed.

Example C04_example_side_effects :
  to_run [(3%N, CVoid)] [1; 3; 5]%N = [1; 5]%N /\
  insert_all [(3%N, CVoid)] [(1%N, CInteger 7 8); (5%N, CVoid)]
    = Ok [(5%N, CVoid); (1%N, CInteger 7 8); (3%N, CVoid)] /\
  lower_comptime (fun _ => 0) [(1%N, CInteger 7 8)] 1%N (TInt false 8) false tt = Ok (LConst (ONum I8 7)) /\
  lower_comptime (fun _ => 0) [(1%N, CInteger 7 8)] 2%N (TInt false 8) false tt = Ok (LLazy tt).
Proof. repeat split; vm_compute; reflexivity. Qed.
