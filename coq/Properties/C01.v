(* C01 — Well-typed programs are accepted and run exactly as the semantics prescribe.
   The semantics is the definitional interpreter [eval_prog] of Common/CapyCore.v (the
   independent oracle the real compiler is validated against on every run); this file
   states its meta-theory.  Only statements, [exact]s and [Print Assumptions] live here. *)
From Capy Require Import Common.CapyCore Proofs.CapyCoreMono Proofs.CapyCoreSafety.
From Coq Require Import List ZArith.
Import ListNotations.

(* The semantics is a function of the program: two runs with enough fuel to finish give
   the same outcome (output events, exit status / fault / trap). *)
Theorem C01_eval_deterministic : forall p n m,
  eval_prog n p <> OutOfFuel -> eval_prog m p <> OutOfFuel -> eval_prog n p = eval_prog m p.
Proof. exact eval_prog_deterministic. Qed.
Print Assumptions C01_eval_deterministic.

(* More fuel never changes a finished outcome. *)
Theorem C01_eval_fuel_monotone : forall p n m,
  (n <= m)%nat -> eval_prog n p <> OutOfFuel -> eval_prog m p = eval_prog n p.
Proof. exact eval_prog_fuel_monotone. Qed.
Print Assumptions C01_eval_fuel_monotone.

(* The same, for every expression under every environment. *)
Theorem C01_eval_expr_fuel_monotone : forall fs n m s en out e,
  (n <= m)%nat -> eval fs n s en out e <> RFuel -> eval fs m s en out e = eval fs n s en out e.
Proof. exact eval_fuel_monotone. Qed.
Print Assumptions C01_eval_expr_fuel_monotone.

(* Type safety (partial: every construct of CapyCore that [well_typed] accepts —
   integers of every width with all operators and casts, bool, void, immutable and
   mutable locals, assignment to places x / p.f / p[i], if/else, while / loop with
   labelled break / continue, (labelled) blocks with values, calls incl. recursion,
   return, arrays with bounds-checked indexing, structs, printing, [defer] (run exactly
   once, LIFO, when the rest of its block is left normally or by break / continue /
   return), enums with payloads and variant injection, optionals, error unions, [switch]
   with argument and default arm, #is_variant, #unwrap (abort fault), .try;
   NOT covered: generic functions / comptime parameters, which [well_typed] rejects, and
   the parts of the C01 fragment that CapyCore does not have: char, slices, pointers,
   lambdas, varargs, floats).  A well-typed program never gets stuck: whatever the fuel,
   the outcome is Done, a defined Fault (index out of bounds, #unwrap of another variant:
   message + exit 1), a machine Trap (division by zero, MIN / -1) or OutOfFuel. *)
Theorem C01_type_safety_partial : forall p,
  well_typed p = true -> forall fuel, eval_prog fuel p <> Stuck.
Proof. exact type_safety_partial. Qed.
Print Assumptions C01_type_safety_partial.

(* Preservation form: a typed expression evaluates, under an environment matching its
   context, to a result matching its type (values, break / continue / return signals). *)
Theorem C01_eval_sound : forall fs, funs_ok fs -> forall n s L ret G e t en out,
  check fs L ret G e = Some t -> env_ok G en -> res_ok G L ret t (eval fs n s en out e).
Proof. exact eval_sound. Qed.
Print Assumptions C01_eval_sound.

(* Non-vacuity: main :: () -> i32 { a : [3]u8 = u8.[250, 3, 9]; i : usize = 0; s : u8 = 0;
     `1: while i < 3 { s = s + a[i]; print(s); i = i + 1; }  a[i] (out of bounds -> fault) }
   and a variant returning 300 (exit status 44). *)
Definition u8 := mkI false W8.
Definition i32 := mkI true W32.
Definition ex_body (tail : expr) : expr :=
  EBlock None (TInt i32)
    [ ELet 0 (TArr 3 (TInt u8)) true (EArr (TInt u8) [EInt (TInt u8) 250; EInt (TInt u8) 3; EInt (TInt u8) 9]);
      ELet 1 (TInt usize) true (EInt (TInt usize) 0);
      ELet 2 (TInt u8) true (EInt (TInt u8) 0);
      EWhile 1 (ECmp CLt (EVar 1) (EInt (TInt usize) 3))
        (EBlock None TVoid
           [ EAssign (EVar 2) (EBin OAdd (EVar 2) (EIndex (EVar 0) (EVar 1)));
             EPrint (EVar 2);
             EAssign (EVar 1) (EBin OAdd (EVar 1) (EInt (TInt usize) 1)) ] EUnit) ]
    tail.
Definition ex_prog (tail : expr) : prog := mkProg [mkFun 0 [] [] (TInt i32) (ex_body tail)] 0.

Example C01_example_fault :
  well_typed (ex_prog (ECast (TInt i32) (EIndex (EVar 0) (EVar 1)))) = true /\
  eval_prog 50 (ex_prog (ECast (TInt i32) (EIndex (EVar 0) (EVar 1)))) =
    Fault [EvInt u8 250; EvInt u8 253; EvInt u8 6] FAULT_INDEX 0.
Proof. split; vm_compute; reflexivity. Qed.

Example C01_example_done :
  well_typed (ex_prog (EInt (TInt i32) 300)) = true /\
  eval_prog 50 (ex_prog (EInt (TInt i32) 300)) = Done [EvInt u8 250; EvInt u8 253; EvInt u8 6] 44 /\
  eval_prog 3 (ex_prog (EInt (TInt i32) 300)) = OutOfFuel.
Proof. repeat split; vm_compute; reflexivity. Qed.

(* Non-vacuity for defer / sum types: f :: (o: ?i32) -> ?i32 { defer print(1); x := o.try; defer print(2); x + 1 }
   main prints switch over f(5) and f(nil), then #unwraps nil: defers run LIFO and also on the .try return. *)
Definition ex_oi : ty := TOpt (TInt i32).
Definition ex_f : fundef :=
  mkFun 0 [] [(0%nat, ex_oi)] ex_oi
    (EBlock None ex_oi
       [EDefer (EPrint (EInt (TInt i32) 1));
        ELet 1 (TInt i32) false (ETry (EVar 0));
        EDefer (EPrint (EInt (TInt i32) 2))]
       (EInject ex_oi 1 (EBin OAdd (EVar 1) (EInt (TInt i32) 1)))).
Definition ex_show (e : expr) : expr :=
  EPrint (ESwitch (TInt i32) e 5 [EInt (TInt i32) (-1); EVar 5] None).
Definition ex_prog2 : prog :=
  mkProg [ex_f;
          mkFun 0 [] [] TVoid
            (EBlock None TVoid
               [ex_show (ECall 0 [] [] [EInject ex_oi 1 (EInt (TInt i32) 5)]);
                ex_show (ECall 0 [] [] [EInject ex_oi 0 EUnit]);
                EPrint (EUnwrap (EInject ex_oi 0 EUnit) 1)] EUnit)] 1.
Example C01_example_defer_sum :
  well_typed ex_prog2 = true /\
  eval_prog 50 ex_prog2 =
    Fault [EvInt i32 2; EvInt i32 1; EvInt i32 6; EvInt i32 1; EvInt i32 (-1)] FAULT_UNWRAP 1.
Proof. split; vm_compute; reflexivity. Qed.
