(* C07 -- A program is built if and only if no error was reported.
   Only statements, [exact]s and [Print Assumptions] live here.
   Level: partial.  Proved: the gate of main.rs as a decision table, the unsafe-tracking
   traversal (is_safe_to_compile + the tracking loop of finish) over a small HIR, and the
   correctness of the boolean checker [gate_ok] that is run on the real pipeline's outcome.
   NOT proved (tested per input by the extracted checker): "no diagnostic => nothing is
   unknown/unsafe" and "no diagnostic => Cranelift accepts the program" (hypotheses H2, H3 of
   [C07_gate_meets_spec]). *)
From Capy Require Import Common.Util Model.Gate Spec.GateSpec Proofs.GateProofs.

(* the extracted checker decides exactly the four clauses of the property *)
Theorem C07_gate_ok_decides_spec : forall o, obs_wf o -> (gate_ok o = true <-> GateOk o).
Proof. exact gate_ok_correct. Qed.
Print Assumptions C07_gate_ok_decides_spec.

(* gate_table: an object is written iff no errors, nothing unsafe, one main, codegen ok *)
Theorem C07_gate_table_object : forall i,
  gate i = Ok Object <->
  g_errors i = false /\ any_unsafe i = false /\ g_mains i = 1%N /\ g_cg i = CgOk.
Proof. exact gate_object_iff. Qed.
Print Assumptions C07_gate_table_object.

Theorem C07_gate_table_errors : forall i, g_errors i = true -> gate i = Ok NotCompiled.
Proof. exact gate_errors_never_compile. Qed.
Print Assumptions C07_gate_table_errors.

(* the assert of main.rs fires exactly when there is no error, tracking is on, something is unsafe *)
Theorem C07_gate_table_assert : forall i,
  gate i = Crash site_assert <-> g_errors i = false /\ g_track i = true /\ g_found_unsafe i = true.
Proof. exact gate_assert_iff. Qed.
Print Assumptions C07_gate_table_assert.

(* ... and is dead code in a default build (tracking only runs with --verbose-types) *)
Theorem C07_gate_assert_dead_without_tracking : forall i,
  g_track i = false -> gate i <> Crash site_assert.
Proof. exact gate_assert_dead_without_tracking. Qed.
Print Assumptions C07_gate_assert_dead_without_tracking.

(* the gate meets the specification under the stated facts about the rest of the compiler *)
Theorem C07_gate_meets_spec : forall i errs xerrs,
  (g_errors i = true <-> (0 < errs)%N) -> (xerrs <= errs)%N -> g_track i = true ->
  ((0 < xerrs)%N -> g_found_unsafe i = true) ->
  (errs = 0%N -> g_found_unsafe i = false) ->
  (errs = 0%N -> g_mains i = 1%N /\ g_cg i = CgOk) ->
  GateOk {| o_errors := errs; o_expr_errors := xerrs; o_unsafe := any_unsafe i;
            o_cg := out_cg (gate i); o_object := out_object (gate i) |}.
Proof. exact gate_meets_spec. Qed.
Print Assumptions C07_gate_meets_spec.

(* every sub-expression of a tree is among its descendants (tree induction, no size bound) *)
Theorem C07_sub_in_desc : forall e n, Sub e n -> In e (desc n).
Proof. exact sub_in_desc. Qed.
Print Assumptions C07_sub_in_desc.

(* an error attributed to any sub-expression makes is_safe_to_compile answer something else
   than "safe", for every world, every tree and every amount of fuel *)
Theorem C07_error_in_body_flags_unsafe : forall w fuel l root e,
  Sub e root -> is_expr e = true -> err w (nid e) = true ->
  is_safe fuel w l root <> Ok Safe.
Proof. exact error_in_body_flags_unsafe. Qed.
Print Assumptions C07_error_in_body_flags_unsafe.

(* ... also when the erroneous expression sits in a body that was pushed on the stack later *)
Theorem C07_pending_error_never_safe : forall w fuel st ck,
  HasErr w st -> run fuel w st ck <> Ok Safe.
Proof. exact run_with_error_not_safe. Qed.
Print Assumptions C07_pending_error_never_safe.

(* the tracking loop of finish never yields any_were_unsafe_to_compile = false then *)
Theorem C07_track_flags_error : forall w fuel roots skip locs l r e,
  In l locs -> skip l = false -> In r (roots l) -> Sub e r ->
  is_expr e = true -> err w (nid e) = true ->
  track fuel w roots skip locs <> Ok false.
Proof. exact track_flags_error. Qed.
Print Assumptions C07_track_flags_error.

(* "unsafe" is answered only at a marked node (error, unknown/missing type, Missing expression,
   bodiless lambda without return type, undefined member, jump without label) *)
Theorem C07_unsafe_only_if_marked : forall w fuel l root,
  is_safe fuel w l root = Ok Unsafe ->
  exists m, (In m (desc root) \/ InWorld w m) /\ marked w m = true.
Proof. exact unsafe_only_if_marked. Qed.
Print Assumptions C07_unsafe_only_if_marked.

Theorem C07_track_unsafe_only_if_marked : forall w fuel roots skip locs,
  track fuel w roots skip locs = Ok true ->
  exists m, ((exists l r, In l locs /\ In r (roots l) /\ In m (desc r)) \/ InWorld w m)
            /\ marked w m = true.
Proof. exact track_unsafe_only_if_marked. Qed.
Print Assumptions C07_track_unsafe_only_if_marked.

Theorem C07_run_fuel_mono : forall w fuel st ck r,
  run fuel w st ck = r -> r <> OutOfFuel -> run (S fuel) w st ck = r.
Proof. exact run_fuel_mono. Qed.
Print Assumptions C07_run_fuel_mono.

Local Open Scope N_scope.
(* Non-vacuity.  World: global 1 has body  call( g2 , lambda#3 );  global 2 has body `7` (plain);
   lambda 3 has a block containing an expression with an error diagnostic (id 33). *)
Definition ex_body1 : node :=
  Node 10 (KCall false) TOther
    [Node 11 (KLocalGlobal 2 false) TOther []; Node 12 KPlain (TConcreteFn 3) []].
Definition ex_w (bad : N) : world := {|
  lam_of := fun l => if N.eqb l 3 then
      Some {| l_body := LBlock (Node 30 KPlain TOther [Node 31 (KStmt false) TOther [Node 33 KPlain TOther []]]);
              l_has_ret := false |} else None;
  glob_body := fun l => if N.eqb l 1 then Some ex_body1 else if N.eqb l 2 then Some (Node 20 KPlain TOther []) else None;
  is_extern := fun _ => false; finished := fun _ => true; naive_found := fun _ => true;
  defined := fun _ => true; err := fun i => N.eqb i bad |}.
Example C07_example_traversal :
  is_safe 50%nat (ex_w 99) 1 ex_body1 = Ok Safe /\          (* no error anywhere *)
  is_safe 50%nat (ex_w 33) 1 ex_body1 = Ok Unsafe /\        (* error inside the lambda's block *)
  is_safe 50%nat (ex_w 11) 1 ex_body1 = Ok Unsafe /\        (* error at a direct sub-expression *)
  track 50%nat (ex_w 33) (fun l => if N.eqb l 1 then [ex_body1] else []) (fun _ => false) [2%N; 1%N] = Ok true.
Proof. repeat split; vm_compute; reflexivity. Qed.

Example C07_example_gate :
  gate {| g_errors := false; g_track := true; g_found_unsafe := false; g_mains := 1; g_cg := CgOk |} = Ok Object /\
  gate {| g_errors := false; g_track := true; g_found_unsafe := true; g_mains := 1; g_cg := CgOk |} = Crash site_assert /\
  gate {| g_errors := false; g_track := false; g_found_unsafe := true; g_mains := 1; g_cg := CgOk |} = Ok Object /\
  gate_ok {| o_errors := 0; o_expr_errors := 0; o_unsafe := false; o_cg := CgProduced; o_object := true |} = true /\
  gate_verdict {| o_errors := 0; o_expr_errors := 0; o_unsafe := false; o_cg := CgFailed; o_object := false |} = 1%N /\
  gate_verdict {| o_errors := 2; o_expr_errors := 1; o_unsafe := false; o_cg := CgSkipped; o_object := false |} = 4%N.
Proof. repeat split; vm_compute; reflexivity. Qed.
