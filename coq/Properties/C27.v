(* C27 — Distinct compiled entities get distinct symbol names.
   Only statements, [exact]s and [Print Assumptions] live here.
   Model: Model/Mangle.v (mangle.rs completely + FileName::get_components);
   decoder / Safe / Internal / classifier: Spec/MangleSpec.v. *)
From Capy Require Import Common.Util Model.Mangle Spec.MangleSpec Proofs.MangleProofs Proofs.MangleCollide Proofs.MangleExcept.

(* The full-strength statement: two well-formed descriptors of different
   entities never get the same symbol.  FALSE of the unchanged code. *)
Definition C27_full : Prop := forall e d1 d2 s,
  WF e d1 = true -> WF e d2 = true -> entity d1 <> entity d2 ->
  mangle e d1 = Ok s -> mangle e d2 <> Ok s.

Theorem C27_full_refuted : ~ C27_full.
Proof. exact MangleProofs.C27_full_refuted. Qed.
Print Assumptions C27_full_refuted.

(* one witness per collision mechanism (paths relative to the working directory):
   1/x.capy::foo vs f1/x.capy::foo (both "FFN2f11x3fooE"), a.b/x.capy vs a-b/x.capy,
   a/src/x.capy vs b/src/x.capy *)
Theorem C27_collision_digit_escape :
  WF w_env (g_in [[49]%N]) = true /\ WF w_env (g_in [[102; 49]%N]) = true
  /\ entity (g_in [[49]%N]) <> entity (g_in [[102; 49]%N])
  /\ mangle w_env (g_in [[49]%N]) = mangle w_env (g_in [[102; 49]%N])
  /\ mangle w_env (g_in [[49]%N]) = Ok [70;70;78;50;102;49;49;120;51;102;111;111;69]%N.
Proof. exact collide_digit_escape. Qed.
Print Assumptions C27_collision_digit_escape.

Theorem C27_collision_dot_dash :
  WF w_env (g_in [[97;46;98]%N]) = true /\ WF w_env (g_in [[97;45;98]%N]) = true
  /\ entity (g_in [[97;46;98]%N]) <> entity (g_in [[97;45;98]%N])
  /\ mangle w_env (g_in [[97;46;98]%N]) = mangle w_env (g_in [[97;45;98]%N])
  /\ is_ok (mangle w_env (g_in [[97;46;98]%N])) = true.
Proof. exact collide_dot_dash. Qed.
Print Assumptions C27_collision_dot_dash.

Theorem C27_collision_src_drop :
  WF w_env (g_in [[97]%N; s_src]) = true /\ WF w_env (g_in [[98]%N; s_src]) = true
  /\ entity (g_in [[97]%N; s_src]) <> entity (g_in [[98]%N; s_src])
  /\ mangle w_env (g_in [[97]%N; s_src]) = mangle w_env (g_in [[98]%N; s_src])
  /\ is_ok (mangle w_env (g_in [[97]%N; s_src])) = true.
Proof. exact collide_src_drop. Qed.
Print Assumptions C27_collision_src_drop.

(* The strongest true statement: on Safe descriptors (boolean predicate; no
   bound on path length, name length, indices or generic ids) the decoder
   inverts mangling ... *)
Theorem C27_decode_mangle : forall e d, Safe e d = true ->
  exists s, mangle e d = Ok s /\ decode e s = Some d.
Proof. exact decode_mangle. Qed.
Print Assumptions C27_decode_mangle.

(* ... hence mangling is injective on Safe descriptors. *)
Theorem C27_mangle_injective_on_safe : forall e d1 d2,
  Safe e d1 = true -> Safe e d2 = true -> mangle e d1 = mangle e d2 -> d1 = d2.
Proof. exact mangle_injective_on_safe. Qed.
Print Assumptions C27_mangle_injective_on_safe.

(* A lambda that is the body of a global shares the global's symbol by design
   (it is the same entity). *)
Theorem C27_mangle_entity : forall e d, mangle e (entity d) = mangle e d.
Proof. exact mangle_entity. Qed.
Print Assumptions C27_mangle_entity.

(* Unconditionally: a mangled name is never `main`, `_CI<n><name>E`,
   `.str_<n>`, `.i128_<n>` or `.member_str<n>`. *)
Theorem C27_mangle_not_internal : forall e d s, mangle e d = Ok s -> ~ Internal s.
Proof. exact mangle_not_internal. Qed.
Print Assumptions C27_mangle_not_internal.

(* every part list whose parts are escape-safe decodes to itself: collisions
   between such part lists are impossible whatever the kinds are *)
Theorem C27_decode_parts : forall e ps, forallb part_safe ps = true ->
  decode e (mangle_parts ps) = decode_parts e ps.
Proof. exact decode_mangle_parts. Qed.
Print Assumptions C27_decode_parts.

(* For ARBITRARY part lists with non-empty texts (Safe or not): two equal mangled
   strings have the same kinds and, position by position, texts that are equal
   or related by the digit escape.  So on the string level the digit escape is
   the only collision mechanism; all the others arise in get_components. *)
Theorem C27_collision_only_by_escape : forall ps qs, Forall nonempty ps -> Forall nonempty qs ->
  mangle_parts ps = mangle_parts qs -> Forall2 part_rel ps qs.
Proof. exact collision_only_by_escape. Qed.
Print Assumptions C27_collision_only_by_escape.

Theorem C27_collision_parts : forall e d1 d2 p1 p2 s,
  parts_of e d1 = Ok p1 -> parts_of e d2 = Ok p2 ->
  Forall nonempty p1 -> Forall nonempty p2 ->
  mangle e d1 = Ok s -> mangle e d2 = Ok s -> Forall2 part_rel p1 p2.
Proof. exact collision_parts. Qed.
Print Assumptions C27_collision_parts.

(* EXCEPT-KNOWN: every collision of the model between well-formed descriptors of
   different entities (any paths, names, indices) is explained by the known
   mechanisms: the extracted classifier returns a non-empty list without the
   code 0 ("unexplained"), i.e. only 1 digit-escape, 2 dot-dash, 3 src-drop,
   4 mod-src-drop, 5 capy-strip. *)
Theorem C27_except_known : forall e d1 d2 s,
  WF e d1 = true -> WF e d2 = true ->
  mangle e d1 = Ok s -> mangle e d2 = Ok s ->
  entity d1 <> entity d2 ->
  explain_collision e d1 d2 <> [] /\ ~ In 0%N (explain_collision e d1 d2).
Proof. exact collision_explained. Qed.
Print Assumptions C27_except_known.

(* the same in "known_class = None -> ok" form *)
Theorem C27_no_known_class_no_collision : forall e d1 d2 s,
  WF e d1 = true -> WF e d2 = true -> entity d1 <> entity d2 ->
  explain_collision e d1 d2 = [] -> mangle e d1 = Ok s -> mangle e d2 <> Ok s.
Proof. exact no_known_class_no_collision. Qed.
Print Assumptions C27_no_known_class_no_collision.

(* the extracted classifier names exactly one mechanism on each witness *)
Theorem C27_classifier_on_witnesses :
  explain_collision w_env (g_in [[49]%N]) (g_in [[102; 49]%N]) = [1%N]
  /\ explain_collision w_env (g_in [[97;46;98]%N]) (g_in [[97;45;98]%N]) = [2%N]
  /\ explain_collision w_env (g_in [[97]%N; s_src]) (g_in [[98]%N; s_src]) = [3%N].
Proof. exact classifier_on_witnesses. Qed.
Print Assumptions C27_classifier_on_witnesses.

(* Non-vacuity: Safe is inhabited by a module file, a generic lambda and
   comptime data with large indices; the mangled names are as expected. *)
Example C27_example_safe :
  let e := {| mod_dir := [[114;101;112;111]]; cur_dir := [[119]] |}%N in
  let d := {| d_base := BLambda [[114;101;112;111]; [99;111;114;101]; s_src; [109;111;100;46;99;97;112;121]]%N 123456 None;
              d_generic := Some 4000000000%N; d_tail := TData 7 [118;97;108;117;101]%N |} in
  Safe e d = true /\ WF e d = true /\ decode e (match mangle e d with Ok s => s | _ => [] end) = Some d.
Proof. vm_compute. repeat split; reflexivity. Qed.
