(* C14 — Immutable data can never be modified.
   Only statements, [exact]s and [Print Assumptions] live here.

   Model : Model/Mutability.v  [get_mutability fix pk e a d] and its consumers Stmt::Assign / Expr::Ref
           (fix = false: globals.rs as it is; fix = true: the proposed `through_pointer` repair)
   Spec  : Spec/MutSpec.v      [place pk e] in {Mut, Immut, Temp}: type-directed place mutability
   [pk] is the typing oracle (pointer kind of an expression's type). *)
From Capy Require Import Common.Util Model.Mutability Spec.MutSpec Proofs.MutabilityProofs.

(* Full-strength statements: for every consistently typed access path, an accepted
   assignment never targets immutable data, and a write to mutable data is accepted. *)
Definition C14_full_sound : Prop := forall pk e,
  typed pk e = true -> assign_accepted false pk e = true -> place pk e <> Immut.
Definition C14_full_complete : Prop := forall pk e,
  typed pk e = true -> place pk e = Mut -> assign_accepted false pk e = true.

(* FALSE of the code as it is: `x :: 5; p := get(^x); p^ = 10` is accepted. *)
Theorem C14_full_sound_refuted : ~ C14_full_sound.
Proof. exact full_sound_refuted. Qed.
Print Assumptions C14_full_sound_refuted.

Theorem C14_witness_call_result_deref :
  typed imm_pk call_path = true /\ assign_accepted false imm_pk call_path = true
  /\ place imm_pk call_path = Immut /\ suspect imm_pk call_path false = true.
Proof. exact call_witness. Qed.
Print Assumptions C14_witness_call_result_deref.

(* `x :: 5; arr := .[^x]; arr[0]^ = 10` is accepted. *)
Theorem C14_witness_index_then_deref :
  typed index_pk index_path = true /\ assign_accepted false index_pk index_path = true
  /\ place index_pk index_path = Immut /\ suspect index_pk index_path false = true.
Proof. exact index_witness. Qed.
Print Assumptions C14_witness_index_then_deref.

(* `x :: 5; q := ^x; p := ^mut q; p^^ = 10` is accepted. *)
Theorem C14_witness_double_deref :
  typed deref2_pk deref2_path = true /\ assign_accepted false deref2_pk deref2_path = true
  /\ place deref2_pk deref2_path = Immut /\ suspect deref2_pk deref2_path false = true.
Proof. exact deref2_witness. Qed.
Print Assumptions C14_witness_double_deref.

(* `(arr: [2]^mut i32) { arr[0]^ = 1 }` is rejected although it writes through `^mut`. *)
Theorem C14_full_complete_refuted : ~ C14_full_complete.
Proof. exact full_complete_refuted. Qed.
Print Assumptions C14_full_complete_refuted.

(* The strongest true statements: outside the class [suspect] (the arms of get_mutability
   that do not look at the pointer type: second deref / index / #unwrap under deref, call
   results of type `^T`, locals whose initialiser has another pointer kind than the local,
   globals and other expressions of type `^mut` under deref) the checks are sound and
   complete, for EVERY typing oracle. *)
Theorem C14_assign_sound_except_known : forall pk e,
  suspect pk e false = false -> assign_accepted false pk e = true -> place pk e <> Immut.
Proof. exact assign_sound. Qed.
Print Assumptions C14_assign_sound_except_known.

Theorem C14_assign_complete_except_known : forall pk e,
  suspect pk e false = false -> place pk e = Mut -> assign_accepted false pk e = true.
Proof. exact assign_complete. Qed.
Print Assumptions C14_assign_complete_except_known.

Theorem C14_ref_mut_sound_except_known : forall pk e,
  suspect pk e false = false -> ref_mut_accepted false pk e = true -> place pk e <> Immut.
Proof. exact ref_mut_sound. Qed.
Print Assumptions C14_ref_mut_sound_except_known.

Theorem C14_ref_mut_complete_except_known : forall pk e,
  suspect pk e false = false -> place pk e = Mut -> ref_mut_accepted false pk e = true.
Proof. exact ref_mut_complete. Qed.
Print Assumptions C14_ref_mut_complete_except_known.

(* Under the deref flag the code's answer is exactly "the pointer type is ^mut". *)
Theorem C14_deref_is_type_directed : forall pk e a,
  suspect pk e true = false ->
  (is_mutable (get_mutability false pk e a true) = true <-> pk e = Some true).
Proof. exact deref_type_directed. Qed.
Print Assumptions C14_deref_is_type_directed.

(* ---- the repaired variant ([get_mutability true]: `through_pointer`, C14-fix.diff) --------
   FULL soundness, no exclusion, for every typing oracle and every access path: an accepted
   assignment / `^mut` never targets immutable data. *)
Theorem C14_fixed_full_sound : forall pk e,
  assign_accepted true pk e = true -> place pk e <> Immut.
Proof. exact fixed_assign_sound. Qed.
Print Assumptions C14_fixed_full_sound.

Theorem C14_fixed_ref_mut_full_sound : forall pk e,
  ref_mut_accepted true pk e = true -> place pk e <> Immut.
Proof. exact fixed_ref_mut_sound. Qed.
Print Assumptions C14_fixed_ref_mut_full_sound.

(* The repair changes nothing outside the suspect class, so completeness carries over
   (the completeness findings C14-5 are not addressed by the repair). *)
Theorem C14_fixed_assign_complete_except_known : forall pk e,
  suspect pk e false = false -> place pk e = Mut -> assign_accepted true pk e = true.
Proof. exact fixed_assign_complete. Qed.
Print Assumptions C14_fixed_assign_complete_except_known.

Theorem C14_fixed_ref_mut_complete_except_known : forall pk e,
  suspect pk e false = false -> place pk e = Mut -> ref_mut_accepted true pk e = true.
Proof. exact fixed_ref_mut_complete. Qed.
Print Assumptions C14_fixed_ref_mut_complete_except_known.

Theorem C14_fixed_rejects_witnesses :
  assign_accepted true imm_pk call_path = false
  /\ assign_accepted true index_pk index_path = false
  /\ assign_accepted true deref2_pk deref2_path = false.
Proof. exact fixed_rejects_witnesses. Qed.
Print Assumptions C14_fixed_rejects_witnesses.

(* Non-vacuity: `s.r.v = 1` through r : ^mut T (accepted, Mut) and r : ^T (rejected, Immut). *)
Example C14_example :
  suspect (field_pk true) field_path false = false
  /\ assign_accepted false (field_pk true) field_path = true /\ place (field_pk true) field_path = Mut
  /\ suspect (field_pk false) field_path false = false
  /\ assign_accepted false (field_pk false) field_path = false /\ place (field_pk false) field_path = Immut.
Proof. exact example_ok. Qed.
