(* C14 — Immutable data can never be modified.
   Only statements, [exact]s and [Print Assumptions] live here.

   Model : Model/Mutability.v  [get_mutability fix fix2 pk deep e a d] and its consumers
           Stmt::Assign / Expr::Ref.   Variants of the code:
             fix = false               globals.rs before /repo 1af504c
             fix = true, fix2 = false  /repo 1af504c: `through_pointer` looks at the outermost pointer level
             fix = true, fix2 = true   proposed (C14-2-fix.diff): Index / Member look at every
                                       auto-dereferenced pointer level
   Spec  : Spec/MutSpec.v      [place pk deep e] in {Mut, Immut, Temp}: type-directed place mutability
   Typing oracles: [pk e] = pointer kind of the type of e (outermost level), [deep e] = kinds of the
   further pointer levels that `.f` / `[i]` auto-dereference (`^mut ^[3]i32` -> [false]). *)
From Capy Require Import Common.Util Model.Mutability Spec.MutSpec Proofs.MutabilityProofs.

(* ================= the code as it is now (/repo 1af504c): fix = true, fix2 = false ============ *)

(* Full-strength soundness: an accepted assignment never targets immutable data. *)
Definition C14_full_sound : Prop := forall pk deep e,
  typed pk e = true -> assign_accepted true false pk deep e = true -> place pk deep e <> Immut.

(* FALSE: `arr :: i32.[1,2,3]; q := ^arr; ptr := ^mut q; ptr[1] = 50` (ptr : ^mut ^[3]i32) and
   `pp := ^mut qs; pp.v = 60` (pp : ^mut ^S) are accepted: only the outermost level is checked. *)
Theorem C14_full_sound_refuted : ~ C14_full_sound.
Proof. exact fix1_full_sound_refuted. Qed.
Print Assumptions C14_full_sound_refuted.

Theorem C14_witness_multilevel_auto_deref :
  typed ml_pk ml_index_path = true
  /\ assign_accepted true false ml_pk ml_deep ml_index_path = true
  /\ place ml_pk ml_deep ml_index_path = Immut
  /\ multilevel ml_pk ml_deep ml_index_path = true
  /\ assign_accepted true false ml_pk ml_deep ml_field_path = true
  /\ place ml_pk ml_deep ml_field_path = Immut
  /\ assign_accepted true true ml_pk ml_deep ml_index_path = false
  /\ assign_accepted true true ml_pk ml_deep ml_field_path = false.
Proof. exact multilevel_witness. Qed.
Print Assumptions C14_witness_multilevel_auto_deref.

(* The strongest true statement about the code as it is: sound for EVERY oracle and every path
   outside the narrow class [multilevel] (a `.f` / `[i]` on a `^mut` pointer to an immutable pointer). *)
Theorem C14_assign_sound_except_multilevel : forall pk deep e,
  multilevel pk deep e = false -> assign_accepted true false pk deep e = true -> place pk deep e <> Immut.
Proof. exact fix1_assign_sound. Qed.
Print Assumptions C14_assign_sound_except_multilevel.

Theorem C14_ref_mut_sound_except_multilevel : forall pk deep e,
  multilevel pk deep e = false -> ref_mut_accepted true false pk deep e = true -> place pk deep e <> Immut.
Proof. exact fix1_ref_mut_sound. Qed.
Print Assumptions C14_ref_mut_sound_except_multilevel.

(* Completeness outside [suspect] (unchanged by the repairs; the completeness findings C14-5 remain). *)
Theorem C14_assign_complete_except_known : forall f2 pk deep e,
  suspect pk deep e false = false -> place pk deep e = Mut -> assign_accepted true f2 pk deep e = true.
Proof. exact fixed_assign_complete_all. Qed.
Print Assumptions C14_assign_complete_except_known.

Theorem C14_ref_mut_complete_except_known : forall f2 pk deep e,
  suspect pk deep e false = false -> place pk deep e = Mut -> ref_mut_accepted true f2 pk deep e = true.
Proof. exact fixed_ref_mut_complete_all. Qed.
Print Assumptions C14_ref_mut_complete_except_known.

(* ================= proposed repair (C14-2-fix.diff): fix = true, fix2 = true =================== *)
(* FULL soundness, no exclusion, for every pair of typing oracles and every access path. *)
Theorem C14_fix2_full_sound : forall pk deep e,
  assign_accepted true true pk deep e = true -> place pk deep e <> Immut.
Proof. exact fix2_assign_sound. Qed.
Print Assumptions C14_fix2_full_sound.

Theorem C14_fix2_ref_mut_full_sound : forall pk deep e,
  ref_mut_accepted true true pk deep e = true -> place pk deep e <> Immut.
Proof. exact fix2_ref_mut_sound. Qed.
Print Assumptions C14_fix2_ref_mut_full_sound.

(* ================= the code before /repo 1af504c (fix = false), kept for the record ============ *)
Definition C14_old_full_sound : Prop := forall pk deep e,
  typed pk e = true -> assign_accepted false false pk deep e = true -> place pk deep e <> Immut.
Definition C14_full_complete : Prop := forall pk deep e,
  typed pk e = true -> place pk deep e = Mut -> assign_accepted false false pk deep e = true.

Theorem C14_old_full_sound_refuted : ~ C14_old_full_sound.
Proof. exact full_sound_refuted. Qed.
Print Assumptions C14_old_full_sound_refuted.

(* `x :: 5; p := get(^x); p^ = 10`, `arr := .[^x]; arr[0]^ = 10`, `p := ^mut q; p^^ = 10` were accepted
   and are rejected by both repaired variants. *)
Theorem C14_witness_call_result_deref :
  typed imm_pk call_path = true /\ assign_accepted false false imm_pk no_deep call_path = true
  /\ place imm_pk no_deep call_path = Immut /\ suspect imm_pk no_deep call_path false = true.
Proof. exact call_witness. Qed.
Print Assumptions C14_witness_call_result_deref.

Theorem C14_witness_index_then_deref :
  typed index_pk index_path = true /\ assign_accepted false false index_pk no_deep index_path = true
  /\ place index_pk no_deep index_path = Immut /\ suspect index_pk no_deep index_path false = true.
Proof. exact index_witness. Qed.
Print Assumptions C14_witness_index_then_deref.

Theorem C14_witness_double_deref :
  typed deref2_pk deref2_path = true /\ assign_accepted false false deref2_pk no_deep deref2_path = true
  /\ place deref2_pk no_deep deref2_path = Immut /\ suspect deref2_pk no_deep deref2_path false = true.
Proof. exact deref2_witness. Qed.
Print Assumptions C14_witness_double_deref.

Theorem C14_fixed_rejects_witnesses :
  assign_accepted true false imm_pk no_deep call_path = false
  /\ assign_accepted true false index_pk no_deep index_path = false
  /\ assign_accepted true false deref2_pk no_deep deref2_path = false.
Proof. exact fixed_rejects_witnesses. Qed.
Print Assumptions C14_fixed_rejects_witnesses.

(* `(arr: [2]^mut i32) { arr[0]^ = 1 }` is rejected although it writes through `^mut` (all variants). *)
Theorem C14_full_complete_refuted : ~ C14_full_complete.
Proof. exact full_complete_refuted. Qed.
Print Assumptions C14_full_complete_refuted.

Theorem C14_old_assign_sound_except_known : forall pk deep e,
  suspect pk deep e false = false -> assign_accepted false false pk deep e = true -> place pk deep e <> Immut.
Proof. exact assign_sound. Qed.
Print Assumptions C14_old_assign_sound_except_known.

(* Under the deref flag the walk's answer is exactly "the pointer type is ^mut" (outside suspect). *)
Theorem C14_deref_is_type_directed : forall pk deep e a,
  suspect pk deep e true = false ->
  (is_mutable (get_mutability false false pk deep e a true) = true <-> pk e = Some true).
Proof. exact deref_type_directed. Qed.
Print Assumptions C14_deref_is_type_directed.

(* Non-vacuity: `s.r.v = 1` through r : ^mut T (accepted, Mut) and r : ^T (rejected, Immut). *)
Example C14_example :
  suspect (field_pk true) no_deep field_path false = false
  /\ assign_accepted false false (field_pk true) no_deep field_path = true /\ place (field_pk true) no_deep field_path = Mut
  /\ suspect (field_pk false) no_deep field_path false = false
  /\ assign_accepted false false (field_pk false) no_deep field_path = false /\ place (field_pk false) no_deep field_path = Immut.
Proof. exact example_ok. Qed.
