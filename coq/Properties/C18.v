(* C18 — Runtime reflection and type values describe the code actually generated.
   Only statements, [exact]s and [Print Assumptions] live here.

   Modelled (Model/TypeId.v): the type-id encoding of convert.rs (`simple_id*`,
   `to_type_id` with its table and per-kind counters) and the bit-field readers
   of core/src/meta.capy.  Proved here: the encoding/decoding facts and id
   injectivity for simple (bit-packed) ids, the arithmetic of compound ids, and
   the table invariant of the to_type_id walk for ANY sequence of requests (a type
   keeps its id; different compound types never share one; id equality = type
   equality outside the known isize/i64 class).
   NOT proved (exercised by the correspondence streams only): that the layout /
   info arrays which ty_info.rs emits are in the order of the per-kind counters
   (so that index i of a kind's array describes the type numbered i), the
   member/variant/offset tables, and the `any` / `type` casts. *)
From Capy Require Import Common.Util Common.LTy Common.Layout Spec.CLayout Model.TypeId
  Proofs.LayoutSpecProofs Proofs.TypeIdProofs Proofs.TypeIdInvariant.
Local Open Scope N_scope.

(* 1. meta.capy's readers recover discriminant, size, align and flag bit from every
   id built by simple_id_with_align (whenever its three asserts pass). *)
Theorem C18_simple_id_decode : forall d s a sg id, simple_id_with_align d s a sg = Ok id ->
  id_discr id = d /\ id_size id = s /\ id_align id = a /\ id_flag id = b2n sg /\ id < 4294967296.
Proof. exact simple_id_decode. Qed.
Print Assumptions C18_simple_id_decode.

(* 2. For every well-formed bit-packed type the three asserts never fire, and
   meta.size_of / meta.align_of applied to its id give exactly the size and
   alignment of the layout specification of C17 (hence the stride too). *)
Theorem C18_simple_ids_reflect_layout : forall pw t r, ptr_width pw -> wf t -> is_polyfn t = false ->
  simple_type_id pw t = Some r ->
  exists id, r = Ok id /\ id_size id = isize pw t /\ id_align id = ialign pw t /\
             id_discr id < 16 /\ id < 4294967296.
Proof. exact simple_ids_reflect_layout. Qed.
Print Assumptions C18_simple_ids_reflect_layout.

(* 3. get_type_info reports the bit width and signedness of integer types and the
   mutability of raw pointers. *)
Theorem C18_int_info : forall pw w (sg : bool), ptr_width pw -> wf_int w = true -> w <> 0 ->
  forall r, simple_type_id pw (if sg then LIInt w else LUInt w) = Some r ->
  exists id, r = Ok id /\ id_discr id = INT_D /\
             info_int_bits id = int_bits pw w /\ info_int_signed id = sg.
Proof. exact int_info_reflects. Qed.
Print Assumptions C18_int_info.

Theorem C18_rawptr_info : forall pw m, ptr_width pw ->
  exists id, simple_type_id pw (LRawPtr m) = Some (Ok id) /\ id_discr id = RAW_PTR_D /\
             (id_flag id =? 1) = m.
Proof. exact rawptr_info_reflects. Qed.
Print Assumptions C18_rawptr_info.

(* 4. Type-id injectivity on bit-packed run-time types.  The full statement is
   false of the code ... *)
Theorem C18_full_refuted : ~ type_id_injective_full.
Proof. exact type_id_injective_full_refuted. Qed.
Print Assumptions C18_full_refuted.

(* ... and holds outside the known class (isize/usize vs. the fixed-width integer of
   pointer size) and the `file` types, which all share one id. *)
Theorem C18_except_known : forall pw a b id, ptr_width pw -> wf a -> wf b ->
  runtime_simple a = true -> runtime_simple b = true ->
  simple_ok_id pw a = Some id -> simple_ok_id pw b = Some id ->
  a = b \/ known_pair pw a b = true \/ file_pair a b = true.
Proof. exact simple_ids_injective_except_known. Qed.
Print Assumptions C18_except_known.

(* 5. Compound ids (kind << 26 | per-kind counter): meta.capy recovers the kind;
   different (kind, counter) give different ids, none equal to a bit-packed id,
   as long as a counter stays below 2^26 (the code does not check that). *)
Theorem C18_compound_id_decode : forall k c, c < 2 ^ 26 ->
  id_discr (compound_id k c) = kind_discr k /\ kind_of_discr (id_discr (compound_id k c)) = Some k /\
  compound_id k c < 4294967296.
Proof. exact compound_id_decode. Qed.
Print Assumptions C18_compound_id_decode.

Theorem C18_compound_id_injective : forall k1 c1 k2 c2, c1 < 2 ^ 26 -> c2 < 2 ^ 26 ->
  compound_id k1 c1 = compound_id k2 c2 -> k1 = k2 /\ c1 = c2.
Proof. exact compound_id_injective. Qed.
Print Assumptions C18_compound_id_injective.

Theorem C18_compound_id_not_simple : forall k c pw t r id, c < 2 ^ 26 -> ptr_width pw -> wf t ->
  is_polyfn t = false -> simple_type_id pw t = Some r -> r = Ok id -> id <> compound_id k c.
Proof. exact compound_id_not_simple. Qed.
Print Assumptions C18_compound_id_not_simple.

(* 6. The table walk, for ANY sequence of requests [ts] on one MetaTyData
   ([tid_seq] = successive `to_type_id` calls; [rs] the returned ids).
   (a) The id of a type is a function of the type: two requests for the same type
   return the same id, whatever was requested in between and whatever the
   starting table.  No side condition. *)
Theorem C18_same_type_same_id : forall pw ts st rs st' i j t id1 id2,
  tid_seq pw ts st = (rs, st') ->
  nth_error ts i = Some t -> nth_error rs i = Some (Ok id1) ->
  nth_error ts j = Some t -> nth_error rs j = Some (Ok id2) ->
  id1 = id2.
Proof. exact same_type_same_id. Qed.
Print Assumptions C18_same_type_same_id.

(* (b) Starting from the empty table, two requests that return the same id asked for
   the same type - except for the known class (isize/usize vs the fixed-width int
   of pointer size) and `file` types.  [bounded st'] : every per-kind counter of the
   final table is <= 2^26 (not checked by the code); [runtime_ok t] : a bit-packed
   type is well-formed and can exist at run time (no weak/unresolved types). *)
Theorem C18_same_id_same_type_except_known : forall pw ts rs st' i j t1 t2 id, ptr_width pw ->
  tid_seq pw ts meta0 = (rs, st') -> bounded st' ->
  nth_error ts i = Some t1 -> nth_error rs i = Some (Ok id) ->
  nth_error ts j = Some t2 -> nth_error rs j = Some (Ok id) ->
  runtime_ok t1 -> runtime_ok t2 ->
  t1 = t2 \/ known_pair pw t1 t2 = true \/ file_pair t1 t2 = true.
Proof. exact same_id_same_type. Qed.
Print Assumptions C18_same_id_same_type_except_known.

(* The invariant behind (a) and (b), per request: the table only grows (by types no
   larger than the requested one), counters only grow, the requested type is found
   with the returned id afterwards, and [Inv] (every compound entry has index <
   its kind's counter, compound entries have pairwise different ids, every
   bit-packed entry has its simple id) is preserved. *)
Theorem C18_request_preserves_invariant : forall pw t st id st', tid pw t st = Ok (id, st') ->
  extends st st' (lsize t) /\ mono st st' /\ find_id t (ids st') = Some id /\
  (Inv pw st -> bounded st' -> Inv pw st').
Proof. exact tid_invariant. Qed.
Print Assumptions C18_request_preserves_invariant.

(* the table lookup compares types structurally *)
Theorem C18_lty_eqb_sound : forall a b, lty_eqb a b = true -> a = b.
Proof. exact lty_eqb_sound. Qed.
Print Assumptions C18_lty_eqb_sound.
Theorem C18_lty_eqb_refl : forall a, lty_eqb a a = true.
Proof. exact lty_eqb_refl. Qed.
Print Assumptions C18_lty_eqb_refl.

(* Non-vacuity: a call sequence on one table; the second `[2]i8` is found again,
   the nested array is numbered after its element type, isize collides with i64. *)
Example C18_example :
  fst (tid_seq 64 [LIInt 64; LIInt 255; LArray 3 (LArray 2 (LIInt 8)); LArray 2 (LIInt 8);
                   LStruct 1 [(0, LUInt 8); (1, LOptional (LPointer false LBool))]] meta0)
  = [Ok 134218504; Ok 134218504; Ok 1207959553; Ok 1207959552; Ok 1073741824].
Proof. vm_compute. reflexivity. Qed.
