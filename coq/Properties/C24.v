(* C24 — Expressions parse by the documented precedence and associativity.
   Only statements, [exact]s and [Print Assumptions] live here.

   Model: Model/ExprGrammar.v (transcription of grammar/expr.rs over non-trivia
   token kinds).  Spec: Spec/Precedence.v (trees, the table [level], printers,
   the parenthesisation predicate [wf]). *)
From Coq Require Import List Arith Bool.
Import ListNotations.
From Capy Require Import Model.ExprGrammar Spec.Precedence Proofs.PrattBasics Proofs.PrattLoops
  Proofs.PrattProofs Proofs.PrattCorollaries.

(* Main theorem: every correctly parenthesised tree (minimal, redundant or
   anything in between) printed to tokens parses back to exactly that tree,
   with all tokens consumed, no error, no unsupported construct, and with the
   model's own fuel 6*(n+1) for n tokens. *)
Theorem C24_roundtrip : forall e, wf (CB 0) e = true -> parse_expr (print e) = POk e [].
Proof. exact roundtrip. Qed.
Print Assumptions C24_roundtrip.

(* General form: any binary position, any admissible continuation, any fuel
   >= 6 * size e. *)
Theorem C24_parse_bp_print : forall e m R F, wf (CB m) e = true -> bfollow m R = true ->
  pfollow (redge e) R = true -> 6 * size e <= F -> parse_bp F m false (print e ++ R) = POk e R.
Proof. exact parse_bp_print. Qed.
Print Assumptions C24_parse_bp_print.

(* As the value of a binding `x :: e;` (a `;` follows). *)
Theorem C24_roundtrip_semi : forall e R, wf (CB 0) e = true ->
  parse_bp (expr_fuel (print e ++ TSemi :: R)) 0 false (print e ++ TSemi :: R) = POk e (TSemi :: R).
Proof. exact roundtrip_semi. Qed.
Print Assumptions C24_roundtrip_semi.

(* The minimal printer produces correctly parenthesised trees for every
   position, only adds ParenExpr nodes, and adds none where none is needed. *)
Theorem C24_pmin_wf : forall t, paren_free t = true -> forall c, wf c (pmin c t) = true.
Proof. exact pmin_wf. Qed.
Print Assumptions C24_pmin_wf.
Theorem C24_pmin_strip : forall t, paren_free t = true -> forall c, strip (pmin c t) = t.
Proof. exact pmin_strip. Qed.
Print Assumptions C24_pmin_strip.
Theorem C24_pmin_adds_nothing_to_wf : forall t c, wf c t = true -> pmin c t = t.
Proof. exact pmin_id. Qed.
Print Assumptions C24_pmin_adds_nothing_to_wf.

(* pratt_roundtrip: for ALL expression trees t, parsing print_min t yields t
   (up to the ParenExpr nodes the printer inserted, which are exactly pmin t). *)
Theorem C24_pratt_roundtrip : forall t, paren_free t = true ->
  exists e, parse_expr (print_min t) = POk e [] /\ strip e = t /\ e = pmin (CB 0) t.
Proof. exact print_min_roundtrip. Qed.
Print Assumptions C24_pratt_roundtrip.

Theorem C24_redundant_roundtrip : forall t, paren_free t = true ->
  exists e, parse_expr (print_redundant t) = POk e [] /\ strip e = t.
Proof. exact print_redundant_roundtrip. Qed.
Print Assumptions C24_redundant_roundtrip.

Theorem C24_print_parse_print : forall e, wf (CB 0) e = true ->
  exists e', parse_expr (print e) = POk e' [] /\ print e' = print e.
Proof. exact print_parse_print. Qed.
Print Assumptions C24_print_parse_print.

(* The code's binding powers are the documented table. *)
Theorem C24_lbp_is_table : forall o, lbp o = 2 * level o - 1.
Proof. exact lbp_level. Qed.
Print Assumptions C24_lbp_is_table.
Theorem C24_rbp_is_table : forall o, rbp o = 2 * level o.
Proof. exact rbp_level. Qed.
Print Assumptions C24_rbp_is_table.

(* left associativity (equal levels) and level order *)
Theorem C24_groups_left : forall o1 o2 x y z,
  level o2 <= level o1 ->
  wf (CB (lbp o1)) x = true -> wf (CB (rbp o1)) y = true -> wf (CB (rbp o2)) z = true ->
  parse_expr (print x ++ TOp o1 :: print y ++ TOp o2 :: print z) = POk (EBin o2 (EBin o1 x y) z) [].
Proof. exact groups_left. Qed.
Print Assumptions C24_groups_left.
Theorem C24_groups_right : forall o1 o2 x y z,
  level o1 < level o2 ->
  wf (CB (lbp o1)) x = true -> wf (CB (lbp o2)) y = true -> wf (CB (rbp o2)) z = true ->
  parse_expr (print x ++ TOp o1 :: print y ++ TOp o2 :: print z) = POk (EBin o1 x (EBin o2 y z)) [].
Proof. exact groups_right. Qed.
Print Assumptions C24_groups_right.

(* prefix and postfix operators bind tighter than every binary operator *)
Theorem C24_prefix_tighter : forall u o x y,
  wf (CC true false) x = true -> wf (CB (rbp o)) y = true ->
  parse_expr (unop_tok u :: print x ++ TOp o :: print y) = POk (EBin o (EUnary u x) y) [].
Proof. exact prefix_tighter_than_binary. Qed.
Print Assumptions C24_prefix_tighter.
Theorem C24_ref_tighter : forall m o x y,
  wf (CC true true) x = true -> wf (CB (rbp o)) y = true ->
  parse_expr (print (ERef m x) ++ TOp o :: print y) = POk (EBin o (ERef m x) y) [].
Proof. exact ref_tighter_than_binary. Qed.
Print Assumptions C24_ref_tighter.
Theorem C24_postfix_tighter : forall o x y,
  wf (CB (lbp o)) x = true -> wf (CC false false) y = true -> is_bin y = false ->
  pfollow y [TCaret] = true -> pfollow y [TDot; TIdent] = true ->
  parse_expr (print x ++ TOp o :: print y ++ [TCaret]) = POk (EBin o x (EDeref y)) [] /\
  parse_expr (print x ++ TOp o :: print y ++ [TDot; TIdent]) = POk (EBin o x (EField y)) [].
Proof. exact postfix_tighter_than_binary. Qed.
Print Assumptions C24_postfix_tighter.

(* The exact, code-derived relation between prefix and postfix operators:
   `-x^` is `(-x)^` but `-x.f` is `-(x.f)` and `-t.(v)` is `-(t.(v))`;
   `^t.(v)` is `(^t).(v)` and `^x^` is `(^x)^`. *)
Theorem C24_prefix_vs_deref : forall u x, wf (CC true false) x = true ->
  parse_expr (unop_tok u :: print x ++ [TCaret]) = POk (EDeref (EUnary u x)) [].
Proof. exact prefix_vs_deref. Qed.
Print Assumptions C24_prefix_vs_deref.
Theorem C24_ref_vs_deref : forall m x, wf (CC true true) x = true ->
  parse_expr (print (ERef m x) ++ [TCaret]) = POk (EDeref (ERef m x)) [].
Proof. exact ref_vs_deref. Qed.
Print Assumptions C24_ref_vs_deref.
Theorem C24_prefix_vs_field : forall u x, wf (CC true false) x = true -> pfollow x [TDot; TIdent] = true ->
  parse_expr (unop_tok u :: print x ++ [TDot; TIdent]) = POk (EUnary u (EField x)) [].
Proof. exact prefix_vs_field. Qed.
Print Assumptions C24_prefix_vs_field.
Theorem C24_prefix_vs_cast : forall u x v, wf (CC true false) x = true -> pfollow x [TDot; TLParen] = true ->
  wf (CB 0) v = true ->
  parse_expr (unop_tok u :: print x ++ TDot :: TLParen :: print v ++ [TRParen]) = POk (EUnary u (ECast x (Some v))) [].
Proof. exact prefix_vs_cast. Qed.
Print Assumptions C24_prefix_vs_cast.
Theorem C24_ref_vs_cast : forall m x v, wf (CC true true) x = true -> pfollow x [TDot; TLParen] = true ->
  wf (CB 0) v = true ->
  parse_expr (print (ERef m x) ++ TDot :: TLParen :: print v ++ [TRParen]) = POk (ECast (ERef m x) (Some v)) [].
Proof. exact ref_vs_cast. Qed.
Print Assumptions C24_ref_vs_cast.

(* `( e )` is never mistaken for a lambda by parse_lambda's look-ahead. *)
Theorem C24_paren_not_lambda : forall e R, lambda_scan 1 false false (print e ++ TRParen :: R) = true.
Proof. exact scan_paren. Qed.
Print Assumptions C24_paren_not_lambda.

(* Non-vacuity: (a + 1) * -(a^) ; f(a, 1)[a].x.try^ ; ^mut a.(1) || -a^ *)
Example C24_example_1 :
  parse_expr (print_min (EBin OMul (EBin OAdd (EAtom AVar) (EAtom AInt)) (EUnary UNeg (EDeref (EAtom AVar)))))
  = POk (EBin OMul (EParen (EBin OAdd (EAtom AVar) (EAtom AInt))) (EUnary UNeg (EParen (EDeref (EAtom AVar))))) [].
Proof. vm_compute. reflexivity. Qed.
Example C24_example_2 :
  let t := EDeref (ETry (EField (EIndex (ECall (EAtom AVar) [EAtom AVar; EAtom AInt]) (EAtom AVar)))) in
  wf (CB 0) t = true /\ parse_expr (print t) = POk t [].
Proof. vm_compute. split; reflexivity. Qed.
Example C24_example_3 :
  let t := EBin OLOr (ECast (ERef true (EAtom AVar)) (Some (EAtom AInt))) (EDeref (EUnary UNeg (EAtom AVar))) in
  wf (CB 0) t = true /\ print t = [TCaret; TMut; TIdent; TDot; TLParen; TInt; TRParen; TOp OLOr; TOp OSub; TIdent; TCaret]
  /\ parse_expr (print t) = POk t [].
Proof. vm_compute. repeat split; reflexivity. Qed.
