(* C19 — Calls across the C boundary pass values intact.
   Only statements, [exact]s and [Print Assumptions] live here.

   Model:  Model/Abi.v  (x86_64.rs classify_arg / reg_component / split_aggregate /
           fn_ty_to_abi, abi/mod.rs to_cl and word offsets, layout.rs size/align/offsets)
   Spec:   Spec/SysV.v  (C layout + System V classification and register assignment)
   Proved below for ALL structs whose fields are scalars or (nested) fixed arrays of
   scalars, with any number of fields: the compiler's classification equals the System V
   classification, and the words of a register-passed struct start at offsets 0 and 8,
   have the register class of their eightbyte and cover the object with a precisely
   stated excess.  The whole-signature statement (register budget, stack spill, sret) is
   the executable checker [SysV.abi_ok]; it is NOT proved here, it is evaluated on the
   model's and on the real compiler's pass modes for every generated signature. *)
From Capy Require Import Common.Util Common.CAbiTy Model.Abi Spec.SysV Proofs.AbiProofs.
Open Scope N_scope.

(* the eightbyte merge of the code is the merge of the ABI document *)
Theorem C19_merge_agrees : forall a b a' b',
  to_sclass a = Some a' -> to_sclass b = Some b' ->
  to_sclass (merge a b) = Some (smerge a' b').
Proof. exact merge_smerge. Qed.
Print Assumptions C19_merge_agrees.

(* layout.rs computes C's alignment and sizeof for fields (stride = size there) *)
Theorem C19_layout_matches_c : forall t,
  falign t = c_align_f t /\ fsize t = c_sizeof_f t /\ fstride t = c_sizeof_f t.
Proof. exact layout_matches_c. Qed.
Print Assumptions C19_layout_matches_c.

(* classify_arg = System V classification: MEMORY iff MEMORY, otherwise the 8-entry
   class array equals the SysV classes of the eightbytes followed by NO_CLASS; no panic
   site of the model fires *)
Theorem C19_classify_agrees : forall t, wf_aty t ->
  match sysv_classify t with
  | None => classify_arg t = Ok None
  | Some scls => exists cls, classify_arg t = Ok (Some cls) /\ classes_match cls scls
  end.
Proof. exact classify_agrees. Qed.
Print Assumptions C19_classify_agrees.

(* a register-class struct has one or two eightbytes, none of them empty *)
Theorem C19_small_struct_classes : forall fs scls,
  wf_aty (AStruct fs) -> sysv_classify (AStruct fs) = Some scls ->
  (exists c0, scls = [c0] /\ c0 <> NO_CLASS /\ asize (AStruct fs) <= 8 /\ 0 < asize (AStruct fs)) \/
  (exists c0 c1, scls = [c0; c1] /\ c0 <> NO_CLASS /\ c1 <> NO_CLASS /\ 8 < asize (AStruct fs) <= 16).
Proof. exact sysv_small_struct_classes. Qed.
Print Assumptions C19_small_struct_classes.

(* split_aggregate never panics on such a struct; its words have the SysV register class
   of their eightbyte, sit at offsets 0 and 8, and cover size + rem_over bytes *)
Theorem C19_cast_words_cover : forall fs scls,
  wf_aty (AStruct fs) -> sysv_classify (AStruct fs) = Some scls ->
  exists cls tys,
    classify_arg (AStruct fs) = Ok (Some cls) /\ classes_match cls scls /\
    split_aggregate (asize (AStruct fs)) cls = Ok tys /\
    words_spec (asize (AStruct fs)) scls tys.
Proof. exact cast_words_cover. Qed.
Print Assumptions C19_cast_words_cover.

(* "the words cover exactly the object": false of the code as it is ({[3]u8} -> one i32) ... *)
Definition C19_words_exact_full : Prop := words_exact.
Theorem C19_words_exact_full_refuted : ~ C19_words_exact_full.
Proof. exact words_exact_refuted. Qed.
Print Assumptions C19_words_exact_full_refuted.

(* ... and true whenever the data of the last eightbyte is 1, 2, 4 or 8 bytes (INTEGER)
   resp. 4 or 8 bytes (SSE) *)
Theorem C19_words_exact_except_known : forall fs scls,
  wf_aty (AStruct fs) -> sysv_classify (AStruct fs) = Some scls ->
  rem_over (asize (AStruct fs) - 8 * N.of_nat (length scls - 1)) (last scls NO_CLASS) = 0 ->
  exists cls tys, classify_arg (AStruct fs) = Ok (Some cls) /\
    split_aggregate (asize (AStruct fs)) cls = Ok tys /\ covered tys = asize (AStruct fs).
Proof. exact words_exact_except_known. Qed.
Print Assumptions C19_words_exact_except_known.

(* Non-vacuity / tests of the whole-signature checker (vm_compute = test, not theorem) *)
Example C19_example_classes :
  sysv_classify (AStruct [FS F32; FS F32; FS F32]) = Some [SSE; SSE] /\
  sysv_classify (AStruct [FS I32; FS F32]) = Some [INTEGER] /\
  sysv_classify (AStruct [FS F64; FS I8]) = Some [SSE; INTEGER] /\
  sysv_classify (AStruct [FS I64; FS I64; FS I8]) = None /\
  classify_arg (AStruct [FA 3 (FS F32)]) = Ok (Some [Sse; Sse; NoClass; NoClass; NoClass; NoClass; NoClass; NoClass]).
Proof. repeat split; vm_compute; reflexivity. Qed.

Example C19_example_signature :
  let ts := [AS I64; AS I64; AS I64; AS I64; AS I64; AStruct [FS I64; FS I64]; AS I32; AStruct [FS F32; FS I8]] in
  let ret := RT (AStruct [FS I64; FS F64; FS I32]) in
  match fn_ty_to_abi ts ret with Ok a => abi_ok ts ret a | _ => false end = true.
Proof. vm_compute; reflexivity. Qed.
