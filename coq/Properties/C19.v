(* C19 — Calls across the C boundary pass values intact.
   Only statements, [exact]s and [Print Assumptions] live here.

   Model:  Model/Abi.v  (x86_64.rs classify_arg / reg_component / split_aggregate /
           fn_ty_to_abi, abi/mod.rs to_cl and word offsets, layout.rs size/align/offsets)
   Spec:   Spec/SysV.v  (C layout + System V classification and register assignment)
   Proved below for ALL structs whose fields are scalars or (nested) fixed arrays of
   scalars, with any number of fields: the compiler's classification equals the System V
   classification, and the words of a register-passed struct start at offsets 0 and 8,
   have the register class of their eightbyte and cover the object with a precisely
   stated excess; and for EVERY signature (any number of parameters, any return type of
   the fragment) the pass modes chosen by the model of fn_ty_to_abi, pushed through
   to_cl and the (assumed) sequential register assignment of Cranelift, place every
   argument and the return value where System V says: [C19_passmode_agrees].  The same
   executable checker [SysV.abi_ok] is evaluated on the real compiler's pass modes for
   every generated signature (direct oracle). *)
From Capy Require Import Common.Util Common.CAbiTy Model.Abi Spec.SysV Proofs.AbiProofs Proofs.AbiSigProofs.
Open Scope N_scope.

(* the eightbyte merge of the code is the merge of the ABI document *)
Theorem C19_merge_agrees : forall a b a' b',
  to_sclass a = Some a' -> to_sclass b = Some b' ->
  to_sclass (merge a b) = Some (smerge a' b').
Proof. exact merge_smerge. Qed.
Print Assumptions C19_merge_agrees.

(* layout.rs computes C's alignment and sizeof for fields (stride = size there) *)
Theorem C19_layout_matches_c : forall t,
  falign t = c_align_f t /\ fsize t = c_sizeof_f t /\ fstride t = c_sizeof_f t.
Proof. exact layout_matches_c. Qed.
Print Assumptions C19_layout_matches_c.

(* classify_arg = System V classification: MEMORY iff MEMORY, otherwise the 8-entry
   class array equals the SysV classes of the eightbytes followed by NO_CLASS; no panic
   site of the model fires *)
Theorem C19_classify_agrees : forall t, wf_aty t ->
  match sysv_classify t with
  | None => classify_arg t = Ok None
  | Some scls => exists cls, classify_arg t = Ok (Some cls) /\ classes_match cls scls
  end.
Proof. exact classify_agrees. Qed.
Print Assumptions C19_classify_agrees.

(* a register-class struct has one or two eightbytes, none of them empty *)
Theorem C19_small_struct_classes : forall fs scls,
  wf_aty (AStruct fs) -> sysv_classify (AStruct fs) = Some scls ->
  (exists c0, scls = [c0] /\ c0 <> NO_CLASS /\ asize (AStruct fs) <= 8 /\ 0 < asize (AStruct fs)) \/
  (exists c0 c1, scls = [c0; c1] /\ c0 <> NO_CLASS /\ c1 <> NO_CLASS /\ 8 < asize (AStruct fs) <= 16).
Proof. exact sysv_small_struct_classes. Qed.
Print Assumptions C19_small_struct_classes.

(* split_aggregate never panics on such a struct; its words have the SysV register class
   of their eightbyte, sit at offsets 0 and 8, and cover size + rem_over bytes *)
Theorem C19_cast_words_cover : forall fs scls,
  wf_aty (AStruct fs) -> sysv_classify (AStruct fs) = Some scls ->
  exists cls tys,
    classify_arg (AStruct fs) = Ok (Some cls) /\ classes_match cls scls /\
    split_aggregate (asize (AStruct fs)) cls = Ok tys /\
    words_spec (asize (AStruct fs)) scls tys.
Proof. exact cast_words_cover. Qed.
Print Assumptions C19_cast_words_cover.

(* "the words cover exactly the object": false of the code as it is ({[3]u8} -> one i32) ... *)
Definition C19_words_exact_full : Prop := words_exact.
Theorem C19_words_exact_full_refuted : ~ C19_words_exact_full.
Proof. exact words_exact_refuted. Qed.
Print Assumptions C19_words_exact_full_refuted.

(* ... and true whenever the data of the last eightbyte is 1, 2, 4 or 8 bytes (INTEGER)
   resp. 4 or 8 bytes (SSE) *)
Theorem C19_words_exact_except_known : forall fs scls,
  wf_aty (AStruct fs) -> sysv_classify (AStruct fs) = Some scls ->
  rem_over (asize (AStruct fs) - 8 * N.of_nat (length scls - 1)) (last scls NO_CLASS) = 0 ->
  exists cls tys, classify_arg (AStruct fs) = Ok (Some cls) /\
    split_aggregate (asize (AStruct fs)) cls = Ok tys /\ covered tys = asize (AStruct fs).
Proof. exact words_exact_except_known. Qed.
Print Assumptions C19_words_exact_except_known.

(* THE WHOLE-SIGNATURE STATEMENT.  For every parameter list and return type of the
   C-compatible fragment (up to the u16 parameter index of the code), the model of
   fn_ty_to_abi does not panic and satisfies the System V checker: 6 INTEGER / 8 SSE
   argument registers assigned left to right per eightbyte, an argument whose eightbytes
   do not ALL fit goes to the stack as a whole (8-byte rounded C size, registers stay
   available for later arguments), MEMORY-class arguments on the stack, MEMORY-class
   returns through a hidden pointer that consumes %rdi, register returns in rax/rdx and
   xmm0/xmm1; every register word starts at its eightbyte's offset and is at least as wide
   as the data of that eightbyte.  Induction over the parameter list with the register
   counters and the stack offset as invariant (Proofs/AbiSigProofs.v: args_sim). *)
Theorem C19_passmode_agrees : forall ts ret,
  Forall wf_aty ts -> wf_rty ret -> N.of_nat (length ts) <= 65536 ->
  exists a, fn_ty_to_abi ts ret = Ok a /\ abi_ok ts ret a = true.
Proof. exact passmode_agrees. Qed.
Print Assumptions C19_passmode_agrees.

(* Bytes READ from the argument object by the caller (get_arg_list).  "No pass mode reads
   past the object" is false of the code as it is ({[3]u8}: a 4-byte load of a 3-byte
   object; findings C19-1 / C19-2): a register-passed struct is over-read by exactly
   rem_over bytes, a stack-passed one is read up to its 8-rounded C size. *)
Definition C19_reads_within_full : Prop := reads_within_full.
Theorem C19_reads_within_full_refuted : ~ C19_reads_within_full.
Proof. exact reads_within_full_refuted. Qed.
Print Assumptions C19_reads_within_full_refuted.

Theorem C19_caller_read_cast : forall fs scls,
  wf_aty (AStruct fs) -> sysv_classify (AStruct fs) = Some scls ->
  exists cls tys, classify_arg (AStruct fs) = Ok (Some cls) /\
    split_aggregate (asize (AStruct fs)) cls = Ok tys /\
    caller_read (Cast tys) = asize (AStruct fs)
      + rem_over (asize (AStruct fs) - 8 * N.of_nat (length scls - 1)) (last scls NO_CLASS).
Proof. exact caller_read_cast. Qed.
Print Assumptions C19_caller_read_cast.

Theorem C19_caller_read_byval : forall fs,
  caller_read (Indirect (Some (next_multiple_of_8 (astride (AStruct fs)))))
  = align_up (c_sizeof (AStruct fs)) 8
  /\ asize (AStruct fs) <= align_up (c_sizeof (AStruct fs)) 8.
Proof. exact caller_read_byval. Qed.
Print Assumptions C19_caller_read_byval.

(* fix candidate C19-1/2 (padded temporary when a read would exceed the object): no pass
   mode reads past the object any more; registers and stack placement are unchanged, so
   C19_passmode_agrees carries over *)
Theorem C19_caller_read_fixed_within : forall pm size, caller_read_fixed pm size <= size.
Proof. exact caller_read_fixed_within. Qed.
Print Assumptions C19_caller_read_fixed_within.

(* Non-vacuity / tests of the whole-signature checker (vm_compute = test, not theorem) *)
Example C19_example_classes :
  sysv_classify (AStruct [FS F32; FS F32; FS F32]) = Some [SSE; SSE] /\
  sysv_classify (AStruct [FS I32; FS F32]) = Some [INTEGER] /\
  sysv_classify (AStruct [FS F64; FS I8]) = Some [SSE; INTEGER] /\
  sysv_classify (AStruct [FS I64; FS I64; FS I8]) = None /\
  classify_arg (AStruct [FA 3 (FS F32)]) = Ok (Some [Sse; Sse; NoClass; NoClass; NoClass; NoClass; NoClass; NoClass]).
Proof. repeat split; vm_compute; reflexivity. Qed.

Example C19_example_signature :
  let ts := [AS I64; AS I64; AS I64; AS I64; AS I64; AStruct [FS I64; FS I64]; AS I32; AStruct [FS F32; FS I8]] in
  let ret := RT (AStruct [FS I64; FS F64; FS I32]) in
  match fn_ty_to_abi ts ret with Ok a => abi_ok ts ret a | _ => false end = true.
Proof. vm_compute; reflexivity. Qed.
