(* C02 — Writing one value never changes any other value.
   Only statements, [exact]s and [Print Assumptions] live here.

   Model: Model/Footprint.v (byte ranges written by every store-emitting operation,
   relative to the destination, as a function of layout numbers);
   Spec:  Spec/FootprintSpec.v ([within size fp]: all written bytes inside the object).
   The statements quantify over ALL layout numbers satisfying the layout invariants
   (wf_op) with strides up to 4096 bytes (the copy loops are swept exhaustively up to
   that bound; the statement's struct sizes are 1..64). *)
From Capy Require Import Common.Util Model.Footprint Spec.FootprintSpec Proofs.FootprintProofs.
Open Scope N_scope.

(* the property at full strength: every operation writes inside its destination *)
Definition C02_full : Prop := full ptr_bytes.

(* FALSE of the code as it is: variant->enum stores the 1-byte tag with pointer width *)
Theorem C02_full_refuted : ~ C02_full.
Proof. exact full_refuted. Qed.
Print Assumptions C02_full_refuted.

(* ... and would still be false with the tag-width fix alone (stride-sized copies) *)
Theorem C02_full_refuted_after_tag_fix : ~ full 1.
Proof. exact full_refuted_after_tag_fix. Qed.
Print Assumptions C02_full_refuted_after_tag_fix.

(* strongest true statement: outside the narrow known classes
   (1 pointer-width tag store, 2 aggregate copy with stride > size, 3 aggregate payload
   copy with stride > size of the sum type, 4 stack memset with 8-byte stores,
   5 ABI cast words wider than the object) every operation stays inside its destination *)
Theorem C02_except_known : forall tag_width o,
  wf_op o -> known_class tag_width o = None ->
  within (dest_size o) (footprint tag_width o) = true.
Proof. exact except_known. Qed.
Print Assumptions C02_except_known.

(* the classes 1-4 are exact: every operation in them does write outside its destination *)
Theorem C02_known_are_violations : forall tag_width o c,
  wf_op o -> known_class tag_width o = Some c -> c <> 5 -> tag_width <= 8 ->
  within (dest_size o) (footprint tag_width o) = false.
Proof. exact known_are_violations. Qed.
Print Assumptions C02_known_are_violations.

(* what the proposed fix (tag stored with its own width) establishes *)
Theorem C02_fixed_tag_variant_to_enum : forall size d p s,
  wf_op (OpVariantToEnum size d p s) -> payload_over p size = false ->
  within size (footprint 1 (OpVariantToEnum size d p s)) = true.
Proof. exact fixed_tag_variant_to_enum. Qed.
Print Assumptions C02_fixed_tag_variant_to_enum.

(* exact extent of the writes of an aggregate copy and of the copy loops *)
Theorem C02_write_all_extent : forall t s, wf_vlay t ->
  hi (write_all t s) = if v_agg t then v_stride t else v_bytes t.
Proof. exact hi_write_all. Qed.
Print Assumptions C02_write_all_extent.

Example C02_example_tag :
  footprint ptr_bytes (OpVariantToEnum 5 4 (Some {| v_size := 4; v_stride := 4; v_agg := false; v_bytes := 4 |}) false)
  = [(0, 4); (4, 8)] /\
  hi (memset {| v_size := 7; v_stride := 7; v_agg := true; v_bytes := 8 |} true) = 14.
Proof. split; vm_compute; reflexivity. Qed.
