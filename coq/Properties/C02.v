(* C02 — Writing one value never changes any other value.
   Only statements, [exact]s and [Print Assumptions] live here.

   Model: Model/Footprint.v (byte ranges written by every store-emitting operation,
   relative to the destination, as a function of layout numbers);
   Spec:  Spec/FootprintSpec.v ([within size fp]: all written bytes inside the object).
   The statements quantify over ALL layout numbers satisfying the layout invariants
   (wf_op) with strides up to 4096 bytes (the copy loops are swept exhaustively up to
   that bound; the statement's struct sizes are 1..64). *)
From Capy Require Import Common.Util Common.LTy Common.Layout Spec.CLayout
  Model.Footprint Spec.FootprintSpec Proofs.FootprintProofs Model.FootprintTy Proofs.FootprintTyProofs.
Open Scope N_scope.

(* the property at full strength: every operation writes inside its destination *)
Definition C02_full : Prop := full ptr_bytes.

(* FALSE of the code as it is: variant->enum stores the 1-byte tag with pointer width *)
Theorem C02_full_refuted : ~ C02_full.
Proof. exact full_refuted. Qed.
Print Assumptions C02_full_refuted.

(* ... and would still be false with the tag-width fix alone (stride-sized copies) *)
Theorem C02_full_refuted_after_tag_fix : ~ full 1.
Proof. exact full_refuted_after_tag_fix. Qed.
Print Assumptions C02_full_refuted_after_tag_fix.

(* strongest true statement: outside the narrow known classes
   (1 pointer-width tag store, 2 aggregate copy with stride > size, 3 aggregate payload
   copy with stride > size of the sum type, 4 stack memset with 8-byte stores,
   5 ABI cast words wider than the object) every operation stays inside its destination *)
Theorem C02_except_known : forall tag_width o,
  wf_op o -> known_class tag_width o = None ->
  within (dest_size o) (footprint tag_width o) = true.
Proof. exact except_known. Qed.
Print Assumptions C02_except_known.

(* the classes 1-4 are exact: every operation in them does write outside its destination *)
Theorem C02_known_are_violations : forall tag_width o c,
  wf_op o -> known_class tag_width o = Some c -> c <> 5 -> tag_width <= 8 ->
  within (dest_size o) (footprint tag_width o) = false.
Proof. exact known_are_violations. Qed.
Print Assumptions C02_known_are_violations.

(* what the proposed fix (tag stored with its own width) establishes *)
Theorem C02_fixed_tag_variant_to_enum : forall size d p s,
  wf_op (OpVariantToEnum size d p s) -> payload_over p size = false ->
  within size (footprint 1 (OpVariantToEnum size d p s)) = true.
Proof. exact fixed_tag_variant_to_enum. Qed.
Print Assumptions C02_fixed_tag_variant_to_enum.

(* exact extent of the writes of an aggregate copy and of the copy loops *)
Theorem C02_write_all_extent : forall t s, wf_vlay t ->
  hi (write_all t s) = if v_agg t then v_stride t else v_bytes t.
Proof. exact hi_write_all. Qed.
Print Assumptions C02_write_all_extent.

Example C02_example_tag :
  footprint ptr_bytes (OpVariantToEnum 5 4 (Some {| v_size := 4; v_stride := 4; v_agg := false; v_bytes := 4 |}) false)
  = [(0, 4); (4, 8)] /\
  hi (memset {| v_size := 7; v_stride := 7; v_agg := true; v_bytes := 8 |} true) = 14.
Proof. split; vm_compute; reflexivity. Qed.

(* ======================================================================================
   Typed layer.  The layout numbers are no longer abstract: Model/FootprintTy.v obtains
   them from TYPES (Common/LTy.v) through the model of layout.rs (Common/Layout.v), the
   way write_all / cast_into_memory / cast_payload_into_tagged_union / create_nil_value /
   memset / store_struct_fields / store_array_items ask for them.  [top] is the syntax
   of a typed operation, [top_dest] its destination type, [top_fp tw pw c on_stack] the
   model's (size of the destination, byte ranges written), [top_op] the same numbers
   packed as an [op] of the abstract layer.  [wf] / [CLayout.known_class] / [ptr_width] /
   [layout_info] are those of C17 (unqualified [known_class] is the C02 classifier of
   over-wide operations).  LIMIT = 4096 is the bound up to which the copy loops were
   swept exhaustively. *)

(* the typed footprints of the model are the footprints of the typed [op]s *)
Theorem C02_typed_op_is_model : forall tw pw c s o, top_op pw c s = Ok o ->
  top_fp tw pw c s = Ok (dest_size o, footprint tw o).
Proof. exact top_op_fp. Qed.
Print Assumptions C02_typed_op_is_model.

Theorem C02_typed_model_has_op : forall tw pw c s x, top_fp tw pw c s = Ok x ->
  exists o, top_op pw c s = Ok o.
Proof. exact top_fp_op. Qed.
Print Assumptions C02_typed_model_has_op.

(* the numbers layout.rs computes satisfy the layout invariants the abstract theorems
   assume, for every destination type whose layout is computed without a panic and
   whose stride is at most LIMIT *)
Theorem C02_typed_wf_op : forall pw, ptr_width pw -> forall c s i o,
  wf (top_dest c) -> CLayout.known_class (top_dest c) = None ->
  layout_info pw (top_dest c) = Ok i -> i_stride i <= LIMIT ->
  top_op pw c s = Ok o -> wf_op o /\ dest_size o = i_size i.
Proof. exact typed_wf_op. Qed.
Print Assumptions C02_typed_wf_op.

Theorem C02_typed_except_known : forall pw, ptr_width pw -> forall tw c s i o,
  wf (top_dest c) -> CLayout.known_class (top_dest c) = None ->
  layout_info pw (top_dest c) = Ok i -> i_stride i <= LIMIT ->
  top_op pw c s = Ok o -> known_class tw o = None ->
  within (i_size i) (footprint tw o) = true.
Proof. exact typed_except_known. Qed.
Print Assumptions C02_typed_except_known.

Theorem C02_typed_known_are_violations : forall pw, ptr_width pw -> forall tw c s i o k,
  wf (top_dest c) -> CLayout.known_class (top_dest c) = None ->
  layout_info pw (top_dest c) = Ok i -> i_stride i <= LIMIT ->
  top_op pw c s = Ok o -> known_class tw o = Some k -> tw <= 8 ->
  within (i_size i) (footprint tw o) = false.
Proof. exact typed_known_are_violations. Qed.
Print Assumptions C02_typed_known_are_violations.

(* write_all of a t value into a t object stays inside it exactly when t is not an
   aggregate or its stride equals its size *)
Theorem C02_typed_copy_within_iff : forall pw, ptr_width pw -> forall tw t s i o,
  wf t -> CLayout.known_class t = None -> layout_info pw t = Ok i -> i_stride i <= LIMIT ->
  op_copy pw t s = Ok o ->
  (within (i_size i) (footprint tw o) = true <-> (is_aggregate t = false \/ i_stride i = i_size i)).
Proof. exact copy_within_iff. Qed.
Print Assumptions C02_typed_copy_within_iff.

(* [op_nil] packs the nil store of a nullable pointer as the copy of a pointer value;
   at pw = 64 that is the abstract layer's OpNil (width ptr_bytes = 8) *)
Theorem C02_typed_nil_pointer_64 : forall tw sub i o, is_non_zero sub = true ->
  layout_info 64 (LOptional sub) = Ok i -> op_nil 64 sub = Ok o ->
  wf_op (OpNil (i_size i) 0 true) /\ dest_size o = i_size i /\
  footprint tw o = footprint tw (OpNil (i_size i) 0 true).
Proof. exact nil_pointer_64. Qed.
Print Assumptions C02_typed_nil_pointer_64.

(* ---- field-wise literal stores (store_struct_fields / store_array_items) ------------
   [lit] is a literal tree (computed values at the leaves), [lit_footprint pw on_stack l t]
   the ranges written when it is stored into an object of expected type t, [lit_wt] what
   the type checker guarantees (member names exist, array literals have the array's
   length), [lit_leaves_narrow] says no computed leaf is an aggregate with stride > size. *)

(* the slot of every struct member lies inside the struct, slots of different names
   are disjoint; [offsets()[idx]] never goes out of bounds *)
Theorem C02_literal_parts_in_place : forall pw, ptr_width pw -> forall t ms i,
  wf t -> CLayout.known_class t = None -> as_struct t = Some ms -> layout_info pw t = Ok i ->
  exists offs, i_offsets i = Some offs /\ length offs = length ms /\
    (forall name idx ty, find_member name ms 0 = Some (idx, ty) ->
       exists off sz, nth_error offs idx = Some off /\ size_of pw ty = Ok sz /\
                      off + sz <= i_size i) /\
    (forall n1 n2 i1 i2 t1 t2 o1 o2 s1 s2, n1 <> n2 ->
       find_member n1 ms 0 = Some (i1, t1) -> find_member n2 ms 0 = Some (i2, t2) ->
       nth_error offs i1 = Some o1 -> nth_error offs i2 = Some o2 ->
       size_of pw t1 = Ok s1 -> size_of pw t2 = Ok s2 ->
       o1 + s1 <= o2 \/ o2 + s2 <= o1).
Proof. exact lit_struct_parts_in_place. Qed.
Print Assumptions C02_literal_parts_in_place.

(* array items: item k at k * stride, inside [0, n * stride) = [0, size), pairwise disjoint *)
Theorem C02_literal_array_parts_in_place : forall pw, ptr_width pw -> forall t n sub i,
  wf t -> CLayout.known_class t = None -> as_array t = Some (n, sub) -> layout_info pw t = Ok i ->
  exists st sz, stride pw sub = Ok st /\ size_of pw sub = Ok sz /\
    i_size i = n * st /\ sz <= st /\
    (forall k, k < n -> k * st + sz <= i_size i) /\
    (forall k1 k2, k1 < k2 -> k1 * st + sz <= k2 * st).
Proof. exact lit_array_parts_in_place. Qed.
Print Assumptions C02_literal_array_parts_in_place.

(* a literal all of whose computed leaves are copied narrowly is stored inside its object *)
Theorem C02_literal_within : forall pw, ptr_width pw -> forall s l t i fp,
  wf t -> CLayout.known_class t = None -> layout_info pw t = Ok i -> i_size i <= LIMIT ->
  lit_wt l t = true -> lit_leaves_narrow pw l t = true ->
  lit_footprint pw s l t = Ok fp -> within (i_size i) fp = true.
Proof. exact lit_within. Qed.
Print Assumptions C02_literal_within.

(* what a struct literal writes: its members' footprints at their offsets *)
Theorem C02_literal_struct_footprint : forall pw s fs t fp,
  lit_footprint pw s (LitStruct fs) t = Ok fp ->
  exists ms offs parts, as_struct t = Some ms /\ struct_offsets pw t = Ok (Some offs) /\
    fp = store_parts parts /\
    Forall2 (fun f p => exists idx ty, find_member (fst f) ms 0 = Some (idx, ty) /\
               nth_error offs idx = Some (fst p) /\
               lit_footprint pw s (snd f) ty = Ok (snd p)) fs parts.
Proof. exact lit_struct_footprint. Qed.
Print Assumptions C02_literal_struct_footprint.

(* ... and under the same hypothesis the writes of two differently named members have
   no byte in common *)
Theorem C02_literal_fields_disjoint : forall pw, ptr_width pw -> forall s t ms i offs fs,
  wf t -> CLayout.known_class t = None -> layout_info pw t = Ok i -> i_size i <= LIMIT ->
  as_struct t = Some ms -> i_offsets i = Some offs ->
  lit_wt (LitStruct fs) t = true -> lit_leaves_narrow pw (LitStruct fs) t = true ->
  forall f1 f2, In f1 fs -> In f2 fs -> fst f1 <> fst f2 ->
  forall i1 t1 o1 fp1 i2 t2 o2 fp2,
    find_member (fst f1) ms 0 = Some (i1, t1) -> nth_error offs i1 = Some o1 ->
    lit_footprint pw s (snd f1) t1 = Ok fp1 ->
    find_member (fst f2) ms 0 = Some (i2, t2) -> nth_error offs i2 = Some o2 ->
    lit_footprint pw s (snd f2) t2 = Ok fp2 ->
    forall r1 r2, In r1 (shift o1 fp1) -> In r2 (shift o2 fp2) -> ranges_disjoint r1 r2.
Proof. exact lit_fields_disjoint. Qed.
Print Assumptions C02_literal_fields_disjoint.

(* the same for the items of an array literal *)
Theorem C02_literal_items_disjoint : forall pw, ptr_width pw -> forall s t n sub i st items,
  wf t -> CLayout.known_class t = None -> layout_info pw t = Ok i -> i_size i <= LIMIT ->
  as_array t = Some (n, sub) -> stride pw sub = Ok st ->
  lit_wt (LitArray items) t = true -> lit_leaves_narrow pw (LitArray items) t = true ->
  forall j1 j2 v1 v2 fp1 fp2, j1 <> j2 ->
    nth_error items j1 = Some v1 -> nth_error items j2 = Some v2 ->
    lit_footprint pw s v1 sub = Ok fp1 -> lit_footprint pw s v2 sub = Ok fp2 ->
    forall r1 r2, In r1 (shift (N.of_nat j1 * st) fp1) -> In r2 (shift (N.of_nat j2 * st) fp2) ->
      ranges_disjoint r1 r2.
Proof. exact lit_items_disjoint. Qed.
Print Assumptions C02_literal_items_disjoint.

(* storing a well-typed literal hits none of the unwrap / expect / slice-index / overflow
   sites of store_struct_fields / store_array_items (the model returns Ok) *)
Theorem C02_literal_no_panic : forall pw, ptr_width pw -> forall s l t i,
  wf t -> CLayout.known_class t = None -> layout_info pw t = Ok i -> i_size i <= LIMIT ->
  lit_wt l t = true -> exists fp, lit_footprint pw s l t = Ok fp.
Proof. exact lit_footprint_ok. Qed.
Print Assumptions C02_literal_no_panic.

(* without the leaf condition the statement is FALSE of the code as it is:
   struct { p: struct { a: i64, b: i8 }, g: u8 } with a computed p: the copy of p is
   stride (16) bytes wide, the struct has 10 bytes and g sits at offset 9 *)
Definition C02_literal_full : Prop := lit_full.
Theorem C02_literal_full_refuted : ~ C02_literal_full.
Proof. exact lit_parts_full_refuted. Qed.
Print Assumptions C02_literal_full_refuted.

(* typed operations on enum { A: struct { i64, i8 }, B: u8 } at pw = 64 (size 10, tag at 9):
   B -> enum writes payload and one tag byte (8 with the pointer-width tag store);
   A -> enum copies stride(A) = 16 bytes (known class 3); nil of a ?^enum at pw = 32 is a
   4-byte store; the literal { g = .., p = { b = .., a = .. } } is stored field by field *)
Example C02_example_typed :
  let S := LStruct 7 [(0, LIInt 64); (1, LIInt 8)] in
  let E := LEnum 5 [LVariant 5 0 6 0 S; LVariant 5 1 8 1 (LUInt 8)] in
  layout_info 64 E = Ok {| i_size := 10; i_align := 8; i_stride := 16;
                           i_offsets := None; i_discr := Some 9 |} /\
  top_op 64 (TVariantToEnum E 1) false
    = Ok (OpVariantToEnum 10 9 (Some {| v_size := 1; v_stride := 1; v_agg := false; v_bytes := 1 |}) false) /\
  top_fp 1 64 (TVariantToEnum E 1) true = Ok (10, [(0, 1); (9, 1)]) /\
  top_fp ptr_bytes 64 (TVariantToEnum E 1) true = Ok (10, [(0, 1); (9, 8)]) /\
  top_fp 1 64 (TVariantToEnum E 0) false = Ok (10, [(0, 16); (9, 1)]) /\
  top_fp 1 64 (TVariantToEnum E 2) false = Crash 103 /\
  top_fp 1 64 (TPayloadToOptional E) false = Ok (11, [(0, 16); (10, 1)]) /\
  top_fp 1 64 (TNil E) false = Ok (11, [(10, 1)]) /\
  top_fp 1 32 (TNil (LPointer false E)) false = Ok (4, [(0, 4)]) /\
  top_fp 1 64 (TPayloadToErrorUnion (LUInt 8) S false) false = Ok (10, [(0, 1); (9, 1)]) /\
  top_fp 1 64 (TMemset (LOptional (LUInt 32))) true = Ok (5, [(0, 8)]) /\
  (wf E /\ CLayout.known_class E = None) /\
  let T := LStruct 3 [(0, S); (1, LUInt 8)] in
  let l := LitStruct [(1, LitVal); (0, LitStruct [(1, LitVal); (0, LitVal)])] in
  lit_wt l T = true /\ lit_leaves_narrow 64 l T = true /\
  lit_footprint 64 true l T = Ok [(9, 1); (8, 1); (0, 8)] /\
  lit_footprint 64 false wit_lit T = Ok [(0, 16); (9, 1)] /\
  lit_leaves_narrow 64 wit_lit T = false /\ ~ ranges_disjoint (0, 16) (9, 1).
Proof.
  cbv zeta. repeat match goal with |- _ /\ _ => split end; try (vm_compute; reflexivity).
  exact wit_overlap.
Qed.

(* ---- fix candidate C02-2 / C02-3 (aggregates copied with `size` bytes, tag one byte) ----
   For ALL layout numbers satisfying the layout invariants: every operation except the
   stack memset (class 4) and the ABI cast words (class 5), which never reach a live value,
   writes inside its destination. *)
Theorem C02_sizecopy_except_known : forall o,
  wf_op o -> known_class_sz o = None -> within (dest_size o) (footprint_sz 1 o) = true.
Proof. exact except_known_sz. Qed.
Print Assumptions C02_sizecopy_except_known.

Theorem C02_sizecopy_classes_1_2_3_gone :
  (forall size t s, wf_op (OpCopy size t s) -> within size (footprint_sz 1 (OpCopy size t s)) = true) /\
  (forall size d p s, wf_op (OpVariantToEnum size d p s) ->
     within size (footprint_sz 1 (OpVariantToEnum size d p s)) = true) /\
  (forall size d p s, wf_op (OpPayloadToUnion size d p s) ->
     within size (footprint_sz 1 (OpPayloadToUnion size d p s)) = true).
Proof. exact copies_within_sz. Qed.
Print Assumptions C02_sizecopy_classes_1_2_3_gone.
