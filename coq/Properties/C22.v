(* C22 — Lexing is total and lossless.
   Only statements, [exact]s and [Print Assumptions] live here. *)
From Capy Require Import Common.Util Model.UnicodeNd Model.Lexer Spec.LexSpec Proofs.LexerProofs Proofs.LexerMain.
Open Scope N_scope.

(* For every input text the model lexer terminates (never OutOfFuel, never Crash),
   its final offset is the byte length of the input, and its token sequence satisfies
   the specification lex_ok: tokens start at 0, are contiguous and in order, end at the
   input length, every boundary is a character boundary, and every token's kind agrees
   with its text (identifiers, keywords, numbers, quotes, escapes, comments,
   whitespace, errors). *)
Theorem C22_lex_total_and_ok : forall txt,
  exists toks, lex txt = Ok (toks, byte_len txt) /\ lex_ok txt toks (byte_len txt) = true.
Proof. exact lex_total_and_ok. Qed.
Print Assumptions C22_lex_total_and_ok.

(* Losslessness, spelled out: whenever a token sequence satisfies the specification,
   the texts cut out by consecutive token boundaries concatenate to the input, one
   text per token. *)
Theorem C22_ok_is_lossless : forall toks pos l endp,
  toks_ok pos l toks endp = true ->
  exists ts, token_texts pos l toks endp = Some ts /\ concat ts = l /\ length ts = length toks.
Proof. exact toks_ok_lossless. Qed.
Print Assumptions C22_ok_is_lossless.

(* An Error token is exactly one code point that cannot start any token. *)
Theorem C22_error_is_unstartable : forall c r,
  (forall x, In x (candidates (c :: r)) -> fst x = 0%nat) -> can_start c = false.
Proof. exact all_zero_cannot_start. Qed.
Print Assumptions C22_error_is_unstartable.

(* Non-vacuity: `if x1 := 0x1F + 1.5e3 // c` followed by a newline and `"a\n"` *)
Example C22_example :
  lex [105;102;32;120;49;32;58;61;32;48;120;49;70;32;43;32;49;46;53;101;51;32;47;47;32;99;10;34;97;92;110;34]
  = Ok ([(KKeyword [105;102], 0); (KWhitespace, 2); (KIdent, 3); (KWhitespace, 5); (KPunct [58], 6);
         (KPunct [61], 7); (KWhitespace, 8); (KHex, 9); (KWhitespace, 13); (KPunct [43], 14);
         (KWhitespace, 15); (KFloat, 16); (KWhitespace, 21); (KCommentLeader, 22); (KCommentContents, 24);
         (KWhitespace, 26); (KDoubleQuote, 27); (KStringContents, 28); (KEscape, 29); (KDoubleQuote, 31)], 32).
Proof. vm_compute. reflexivity. Qed.
