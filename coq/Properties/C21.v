(* C21 -- Builds are reproducible.
   Only statements, [exact]s and [Print Assumptions] live here.
   Level: partial.  Address-dependent hashing, ASLR and time cannot be exhibited by deterministic
   Gallina functions; what is proved is the ORDER facet: wherever the code iterates an unordered
   container and the result reaches an output, it either sorts first or folds commutatively --
   with one exception (diagnostic print order / main-file choice in main.rs), for which the
   permutation-invariance statement is refuted and reproducibility rests on FxHashMap's
   deterministic iteration (tested by the run-time stream of lib/verif/props/c21.py). *)
From Capy Require Import Common.Util Model.Numbering Model.Gate Proofs.NumberingProofs.
From Coq Require Import Permutation.

(* `definitions().sorted()` in InferenceCtx::finish: the worklist seed of a file does not depend on
   the order in which the index stores the file's names *)
Theorem C21_sorted_iteration_invariant : forall l l', Permutation l l' -> isort l = isort l'.
Proof. exact isort_perm_invariant. Qed.
Print Assumptions C21_sorted_iteration_invariant.

(* has_errors / any-folds over source_files *)
Theorem C21_any_fold_invariant : forall {A} (f : A -> bool) l l',
  Permutation l l' -> existsb f l = existsb f l'.
Proof. exact @existsb_perm_invariant. Qed.
Print Assumptions C21_any_fold_invariant.

(* numbering_invariant_under_set_iteration, instance 1: the unsafe-tracking loop over the hash set
   all_finished_locations -- whenever it completes, the flag is the same for every iteration order *)
Theorem C21_tracking_loop_order_invariant : forall w fuel roots skip locs locs' b,
  Permutation locs locs' ->
  track fuel w roots skip locs = Ok b -> track fuel w roots skip locs' = Ok b.
Proof. exact track_perm_invariant. Qed.
Print Assumptions C21_tracking_loop_order_invariant.

(* ... and if it panics for one order it does not complete for any other *)
Theorem C21_tracking_loop_crash_invariant : forall w fuel roots skip locs locs',
  Permutation locs locs' ->
  (forall b, track fuel w roots skip locs <> Ok b) -> forall b, track fuel w roots skip locs' <> Ok b.
Proof. exact track_perm_crash. Qed.
Print Assumptions C21_tracking_loop_crash_invariant.

(* with exactly one file defining the entry point, `main_files.first()` is order independent *)
Theorem C21_main_file_invariant_when_unique : forall files files',
  Permutation files files' -> length (filter snd files) = 1 ->
  pick_main files = pick_main files'.
Proof. exact pick_main_unique_perm_invariant. Qed.
Print Assumptions C21_main_file_invariant_when_unique.

(* diagnostic print order: the full statement is FALSE (the iteration order of `source_files`
   reaches stdout); only the multiset of diagnostics is invariant *)
Definition C21_print_order_full : Prop := print_order_full.
Theorem C21_print_order_full_refuted : ~ C21_print_order_full.
Proof. exact print_order_full_refuted. Qed.
Print Assumptions C21_print_order_full_refuted.

Theorem C21_printed_multiset_invariant : forall {D} (files files' : list (N * list D)),
  Permutation files files' -> Permutation (print_all files) (print_all files').
Proof. exact @print_all_perm. Qed.
Print Assumptions C21_printed_multiset_invariant.

(* first-use numbering (type ids, .str_N): ids never change once handed out ... *)
Theorem C21_type_ids_prefix_stable : forall reqs later k v,
  lookup (number reqs) k = Some v -> lookup (number (reqs ++ later)) k = Some v.
Proof. exact number_prefix_stable. Qed.
Print Assumptions C21_type_ids_prefix_stable.

(* ... distinct types of a kind get distinct ids ... *)
Theorem C21_type_ids_injective : forall reqs k1 k2 kd i,
  lookup (number reqs) k1 = Some (kd, i) -> lookup (number reqs) k2 = Some (kd, i) -> k1 = k2.
Proof. exact number_ids_injective. Qed.
Print Assumptions C21_type_ids_injective.

(* ... but the ids are a function of the request ORDER: not permutation invariant *)
Definition C21_numbering_order_full : Prop := number_order_full.
Theorem C21_numbering_order_full_refuted : ~ C21_numbering_order_full.
Proof. exact number_order_full_refuted. Qed.
Print Assumptions C21_numbering_order_full_refuted.

Example C21_example_numbering :
  number [(7, 100); (3, 200); (7, 100); (7, 300)]%N =
    [(100, (7, 0)); (200, (3, 0)); (300, (7, 1))]%N /\
  isort [5; 2; 9; 2]%N = [2; 2; 5; 9]%N /\ isort [2; 9; 2; 5]%N = [2; 2; 5; 9]%N.
Proof. repeat split; vm_compute; reflexivity. Qed.
