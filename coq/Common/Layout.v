(* Model of crates/codegen/src/layout.rs: calc_single (size and align of every
   type), StructLayout::new, EnumLayout, padding_needed_for and the accessors
   GetLayoutInfo::{size, align, stride, struct_layout, enum_layout}.

   The Rust code computes in u32 with overflow checks on (the harness and capy
   are built with the dev profile): every `+`/`*` that can overflow is an
   explicit [Crash site]; `*size as u32` (array length, u64 -> u32) is the
   silent truncation [trunc32], exactly as in the code.  The process-global
   memo table LAYOUTS only caches results of this pure function (one pointer
   width per process), so it is not part of the model.

   Crash sites:
     1  padding_needed_for: `offset % align` with align = 0
     2  stride: `align - 1` with align = 0
     3  stride: `size + mask` overflows
     4  array: `stride * len` overflows
     5  StructLayout::new: `current_offset += padding` overflows
     6  StructLayout::new: `current_offset += field.size()` overflows
     7  enum: `max_variant_size + 1` overflows
     8  optional: `payload_size + 1` overflows
     9  error union: `inner_size + 1` overflows
     10 `assert!(align <= 8)`
     11 any: offset arithmetic overflows
     12 slice / raw slice: `pointer_bit_width / 8 * 2` overflows *)
From Capy Require Import Common.Util Common.LTy.
Local Open Scope N_scope.

Definition U32MAX : N := 4294967295.
Definition trunc32 (n : N) : N := n mod 4294967296.
Definition add32 (site a b : N) : result N :=
  if a + b <=? U32MAX then Ok (a + b) else Crash site.
Definition mul32 (site a b : N) : result N :=
  if a * b <=? U32MAX then Ok (a * b) else Crash site.

(* padding_needed_for(offset, align) *)
Definition padding_needed_for (offset align : N) : result N :=
  if align =? 0 then Crash 1
  else let misalign := offset mod align in
       Ok (if 0 <? misalign then align - misalign else 0).

(* GetLayoutInfo::stride from the cached size and align:
   mask = align - 1; (size + mask) & !mask *)
Definition stride_of (size align : N) : result N :=
  if align =? 0 then Crash 2
  else let mask := align - 1 in
       do x <- add32 3 size mask;
       Ok (N.ldiff x mask).

(* StructLayout::new over the (size, align) of the fields:
   result (size, align, offsets) *)
Fixpoint struct_go (fl : list (N * N)) (cur maxa : N) : result (N * N * list N) :=
  match fl with
  | [] => Ok (cur, maxa, [])
  | (fs, fa) :: r =>
      let maxa' := if maxa <? fa then fa else maxa in
      do p <- padding_needed_for cur fa;
      do o <- add32 5 cur p;
      do c <- add32 6 o fs;
      do res <- struct_go r c maxa';
      Ok (fst (fst res), snd (fst res), o :: snd res)
  end.
Definition struct_new (fl : list (N * N)) := struct_go fl 0 1.

Definition int_size (pw w : N) : N :=
  if w =? 255 then pw / 8 else if w =? 0 then 32 / 8 else w / 8.
Definition float_size (w : N) : N := if w =? 0 then 32 / 8 else w / 8.

(* Ty::Any arm of calc_single *)
Definition any_size (pw : N) : result N :=
  let typeid_size := 32 / 8 in
  let rawptr_size := pw / 8 in
  let rawptr_align := N.min rawptr_size 8 in
  do p <- padding_needed_for typeid_size rawptr_align;
  do c <- add32 11 typeid_size p;
  add32 11 c rawptr_size.
Definition any_align (pw : N) : N :=
  N.max (N.min (32 / 8) 8) (N.min (pw / 8) 8).

Definition assert_align (r : N * N) : result (N * N) :=
  if snd r <=? 8 then Ok r else Crash 10.

(* calc_single: (size, align) of a type for pointer bit width [pw]. *)
Fixpoint lay (pw : N) (t : lty) {struct t} : result (N * N) :=
  let ptr := pw / 8 in
  do r <-
    match t with
    | LNotYetResolved | LUnknown => Ok (0, 1)
    | LIInt w | LUInt w => let s := int_size pw w in Ok (s, N.min s 8)
    | LFloat w => let s := float_size w in Ok (s, N.min s 8)
    | LBool | LChar => Ok (1, 1)
    | LString => Ok (ptr, N.min ptr 8)
    | LAnonArray n sub | LArray n sub =>
        do e <- lay pw sub;
        do st <- stride_of (fst e) (snd e);
        do s <- mul32 4 st (trunc32 n);
        Ok (s, snd e)
    | LSlice _ | LRawSlice =>
        do s <- mul32 12 ptr 2;
        Ok (s, N.min (s / 2) 8)
    | LPointer _ _ | LRawPtr _ => Ok (ptr, N.min ptr 8)
    | LDistinct _ sub => lay pw sub
    | LPolyFn _ | LFn _ _ _ | LFnPtr _ _ => Ok (ptr, N.min ptr 8)
    | LAnonStruct ms | LStruct _ ms =>
        do fl <- (fix fields (ms : list (N * lty)) : result (list (N * N)) :=
                    match ms with
                    | [] => Ok []
                    | m :: r => do a <- lay pw (snd m); do b <- fields r; Ok (a :: b)
                    end) ms;
        do sl <- struct_new fl;
        Ok (fst sl)
    | LEnum _ vs =>
        do m <- (fix variants (vs : list lty) (ms ma : N) : result (N * N) :=
                   match vs with
                   | [] => Ok (ms, ma)
                   | v :: r =>
                       do a <- lay pw v;
                       variants r (if ms <? fst a then fst a else ms)
                                  (if ma <? snd a then snd a else ma)
                   end) vs 0 1;
        do s <- add32 7 (fst m) 1;
        Ok (s, snd m)
    | LVariant _ _ _ _ sub => lay pw sub
    | LNil => Ok (0, 1)
    | LOptional sub =>
        do p <- lay pw sub;
        if is_non_zero sub then Ok p
        else do s <- add32 8 (fst p) 1; Ok (s, snd p)
    | LErrorUnion e p =>
        do le <- lay pw e;
        do lp <- lay pw p;
        do s <- add32 9 (N.max (fst le) (fst lp)) 1;
        Ok (s, N.max (snd le) (snd lp))
    | LType => Ok (32 / 8, 32 / 8)
    | LAny => do s <- any_size pw; Ok (s, any_align pw)
    | LVoid | LAlwaysJumps | LFile _ => Ok (0, 1)
    end;
  assert_align r.

(* The same member / variant loops as top-level functions (shown equal to the
   inner loops of [lay] in Proofs/LayoutProofs.v). *)
Fixpoint fields (pw : N) (ms : list (N * lty)) : result (list (N * N)) :=
  match ms with
  | [] => Ok []
  | m :: r => do a <- lay pw (snd m); do b <- fields pw r; Ok (a :: b)
  end.
Fixpoint variants (pw : N) (vs : list lty) (ms ma : N) : result (N * N) :=
  match vs with
  | [] => Ok (ms, ma)
  | v :: r =>
      do a <- lay pw v;
      variants pw r (if ms <? fst a then fst a else ms) (if ma <? snd a then snd a else ma)
  end.

(* GetLayoutInfo accessors *)
Definition size_of (pw : N) (t : lty) : result N := do r <- lay pw t; Ok (fst r).
Definition align_of (pw : N) (t : lty) : result N := do r <- lay pw t; Ok (snd r).
Definition stride (pw : N) (t : lty) : result N := do r <- lay pw t; stride_of (fst r) (snd r).

(* struct_layout(): looked up under absolute_intern_ty(true) *)
Definition struct_offsets (pw : N) (t : lty) : result (option (list N)) :=
  do u0 <- lay pw t;
  match absolute_ty t with
  | LAnonStruct ms | LStruct _ ms =>
      do fl <- fields pw ms; do sl <- struct_new fl; Ok (Some (snd sl))
  | _ => Ok None
  end.

(* enum_layout().discriminant_offset(): looked up under absolute_intern_ty(true) *)
Definition discr_offset (pw : N) (t : lty) : result (option N) :=
  do u0 <- lay pw t;
  match absolute_ty t with
  | LEnum _ vs => do m <- variants pw vs 0 1; Ok (Some (fst m))
  | LOptional sub =>
      if is_non_zero sub then Ok None else do p <- lay pw sub; Ok (Some (fst p))
  | LErrorUnion e p =>
      do le <- lay pw e; do lp <- lay pw p; Ok (Some (N.max (fst le) (fst lp)))
  | _ => Ok None
  end.

(* Everything the harness prints for one type. *)
Record info := { i_size : N; i_align : N; i_stride : N;
                 i_offsets : option (list N); i_discr : option N }.
Definition layout_info (pw : N) (t : lty) : result info :=
  do r <- lay pw t;
  do st <- stride_of (fst r) (snd r);
  do o <- struct_offsets pw t;
  do d <- discr_offset pw t;
  Ok {| i_size := fst r; i_align := snd r; i_stride := st; i_offsets := o; i_discr := d |}.
