(* CapyCore — abstract syntax, boolean type checker and fuelled definitional
   interpreter for the core fragment of Capy used by C01 (independent oracle),
   C04 and C16.

   Fragment: integers of every width (wrap-around arithmetic, truncating signed /
   unsigned division, comparisons, masked shifts, casts between integer widths),
   bool, void, immutable / mutable locals, assignment to places (x, p.f, p[i]),
   if/else, while / loop with labelled break / continue, (labelled) blocks with
   values, functions and calls (recursion, fuel bounded), return, arrays with
   run-time bounds-checked indexing (fault), structs, defer, enums with payloads,
   optionals, error unions (one value form [VSum]), switch with argument and default arm,
   #is_variant, #unwrap (fault), .try, printing of integers and booleans (output events).  Comptime parameters of generic functions
   (type parameters [TVar], integer parameters [ECParam]) are part of the syntax
   and of the interpreter (environment [senv]); the type checker only accepts
   non-generic code, C16 (Model/Generics.v) relates both.

   Numbers are mathematical integers kept in the canonical range of their type
   (numerics are defined here so that this file depends on nothing else). *)
From Coq Require Import List ZArith Lia Bool Arith.
Import ListNotations.
Open Scope Z_scope.

(* ------------------------------------------------------------------ types *)
Inductive iwidth := W8 | W16 | W32 | W64 | W128 | WPtr.
Record ity := mkI { isg : bool; iw : iwidth }.

Definition bits (w : iwidth) : Z :=
  match w with W8 => 8 | W16 => 16 | W32 => 32 | W64 => 64 | W128 => 128 | WPtr => 64 end.

(* canonical representative of z modulo 2^bits: two's complement *)
Definition norm (i : ity) (z : Z) : Z :=
  let m := 2 ^ bits (iw i) in
  let r := z mod m in
  if isg i then (if r <? m / 2 then r else r - m) else r.

Definition imin (i : ity) : Z := if isg i then - 2 ^ (bits (iw i) - 1) else 0.

Inductive ty :=
| TInt (i : ity)
| TBool
| TVoid
| TArr (n : nat) (t : ty)
| TStruct (id : nat) (fs : list ty)
| TVar (n : nat)                     (* comptime type parameter *)
| TEnum (id : nat) (vs : list ty)    (* payload type of every variant (TVoid = none) *)
| TOpt (t : ty)                      (* ?t : variant 0 = nil, variant 1 = t *)
| TErr (e t : ty).                   (* e!t : variant 0 = error e, variant 1 = t *)

Definition usize : ity := mkI false WPtr.

Definition iwidth_eqb (a b : iwidth) : bool :=
  match a, b with
  | W8, W8 | W16, W16 | W32, W32 | W64, W64 | W128, W128 | WPtr, WPtr => true
  | _, _ => false
  end.
Definition ity_eqb (a b : ity) : bool := Bool.eqb (isg a) (isg b) && iwidth_eqb (iw a) (iw b).

Section ListEqb.
  Context {A : Type} (eqb : A -> A -> bool).
  Fixpoint list_eqb (l1 l2 : list A) : bool :=
    match l1, l2 with
    | [], [] => true
    | a :: r1, b :: r2 => eqb a b && list_eqb r1 r2
    | _, _ => false
    end.
End ListEqb.

Fixpoint ty_eqb (a b : ty) {struct a} : bool :=
  match a, b with
  | TInt i, TInt j => ity_eqb i j
  | TBool, TBool => true
  | TVoid, TVoid => true
  | TArr n t, TArr m u => Nat.eqb n m && ty_eqb t u
  | TStruct i fs, TStruct j gs => Nat.eqb i j && list_eqb ty_eqb fs gs
  | TVar n, TVar m => Nat.eqb n m
  | TEnum i fs, TEnum j gs => Nat.eqb i j && list_eqb ty_eqb fs gs
  | TOpt t, TOpt u => ty_eqb t u
  | TErr e t, TErr f u => ty_eqb e f && ty_eqb t u
  | _, _ => false
  end.

(* the sum types: enums, optionals and error unions, as lists of payload types *)
Definition variants (t : ty) : option (list ty) :=
  match t with
  | TEnum _ vs => Some vs
  | TOpt u => Some [TVoid; u]
  | TErr e u => Some [e; u]
  | _ => None
  end.

(* ----------------------------------------------------------------- syntax *)
Inductive binop := OAdd | OSub | OMul | ODiv | ORem | OShl | OShr | OAnd | OOr | OXor.
Inductive cmpop := CEq | CNe | CLt | CLe | CGt | CGe.
Inductive unop := UNeg | UNot | UBNot.   (* -x, ~x (bitwise), !b *)

(* comptime integer argument of a generic call *)
Inductive cval := CLit (t : ty) (z : Z) | CRef (n : nat).

Inductive expr :=
| EInt (t : ty) (z : Z)
| EBool (b : bool)
| EUnit
| ECParam (n : nat)                          (* comptime integer parameter *)
| EVar (x : nat)
| EBin (op : binop) (a b : expr)
| ECmp (op : cmpop) (a b : expr)
| EUn (op : unop) (a : expr)
| EAnd (a b : expr)                          (* short circuit *)
| EOr (a b : expr)
| ECast (t : ty) (a : expr)
| EIf (c a b : expr)
| EWhile (l : nat) (c body : expr)
| ELoop (l : nat) (body : expr)
| EBlock (l : option nat) (t : ty) (ss : list expr) (tail : expr)
| EBreak (l : nat) (v : expr)
| EContinue (l : nat)
| EReturn (v : expr)
| ECall (f : nat) (targs : list ty) (cargs : list cval) (args : list expr)
| EArr (t : ty) (es : list expr)
| EIndex (a i : expr)
| EStruct (t : ty) (es : list expr)
| EField (a : expr) (k : nat)
| ELet (x : nat) (t : ty) (m : bool) (e : expr)   (* only as a block statement *)
| EAssign (lhs rhs : expr)
| EPrint (a : expr)
| EDefer (e : expr)                                (* only as a block statement *)
| EInject (t : ty) (k : nat) (e : expr)            (* value of sum type t: variant k with payload e *)
| ESwitch (t : ty) (e : expr) (x : nat) (arms : list expr) (dflt : option expr)
      (* arms for variants 0.. in order, x bound to the payload; dflt covers the rest *)
| EIsVariant (e : expr) (k : nat)
| EUnwrap (e : expr) (k : nat)                     (* fault when the variant differs *)
| ETry (e : expr).                                 (* .try : return nil / the error from the function *)

Record fundef := mkFun {
  f_tparams : nat;                  (* number of comptime type parameters *)
  f_cparams : list ty;              (* types of the comptime integer parameters *)
  f_params : list (nat * ty);       (* run-time parameters (immutable) *)
  f_ret : ty;
  f_body : expr }.

Record prog := mkProg { funs : list fundef; main : nat }.

(* ----------------------------------------------------------------- values *)
Inductive value :=
| VInt (i : ity) (z : Z)
| VBool (b : bool)
| VUnit
| VArr (vs : list value)
| VStruct (vs : list value)
| VSum (k : nat) (v : value).

Inductive event := EvInt (i : ity) (z : Z) | EvBool (b : bool).

Definition binding := (nat * bool * value)%type.     (* name, mutable, value *)
Definition env := list binding.
Definition senv := (list ty * list value)%type.      (* comptime arguments in force *)

Inductive ctl :=
| CVal (v : value)
| CBrk (l : nat) (v : value)
| CCont (l : nat)
| CRet (v : value).

Inductive res :=
| Res (en : env) (out : list event) (c : ctl)
| RFault (out : list event) (kind : nat) (fn : option nat)   (* defined run-time fault: message + exit 1 *)
| RTrap (out : list event)                                   (* machine trap: division by zero / MIN / -1 *)
| RStuck
| RFuel.

Definition evaluator := senv -> env -> list event -> expr -> res.

Definition FAULT_INDEX : nat := 0%nat.
Definition FAULT_UNWRAP : nat := 1%nat.

(* --------------------------------------------------------------- numerics *)
Inductive nres := NOk (z : Z) | NTrap.

Definition shamt (i : ity) (z : Z) : Z := z mod bits (iw i).

Definition binop_sem (op : binop) (i : ity) (a b : Z) : nres :=
  match op with
  | OAdd => NOk (norm i (a + b))
  | OSub => NOk (norm i (a - b))
  | OMul => NOk (norm i (a * b))
  | ODiv => if b =? 0 then NTrap
            else if isg i && (a =? imin i) && (b =? -1) then NTrap
            else NOk (norm i (Z.quot a b))
  | ORem => if b =? 0 then NTrap
            else if isg i && (a =? imin i) && (b =? -1) then NTrap
            else NOk (norm i (Z.rem a b))
  | OShl => NOk (norm i (a * 2 ^ shamt i b))
  | OShr => NOk (norm i (a / 2 ^ shamt i b))
  | OAnd => NOk (norm i (Z.land a b))
  | OOr => NOk (norm i (Z.lor a b))
  | OXor => NOk (norm i (Z.lxor a b))
  end.

Definition cmp_sem (op : cmpop) (a b : Z) : bool :=
  match op with
  | CEq => a =? b | CNe => negb (a =? b)
  | CLt => a <? b | CLe => a <=? b | CGt => b <? a | CGe => b <=? a
  end.

(* ------------------------------------------------------- type substitution *)
Fixpoint tsubst (ts : list ty) (t : ty) {struct t} : ty :=
  match t with
  | TArr n u => TArr n (tsubst ts u)
  | TStruct id fs => TStruct id (map (tsubst ts) fs)
  | TVar n => match nth_error ts n with Some u => u | None => TVar n end
  | TEnum id vs => TEnum id (map (tsubst ts) vs)
  | TOpt u => TOpt (tsubst ts u)
  | TErr e u => TErr (tsubst ts e) (tsubst ts u)
  | _ => t
  end.

Definition cresolve (s : senv) (c : cval) : option value :=
  match c with
  | CLit t z => match tsubst (fst s) t with TInt i => Some (VInt i z) | _ => None end
  | CRef n => nth_error (snd s) n
  end.

Fixpoint opt_all {A} (l : list (option A)) : option (list A) :=
  match l with
  | [] => Some []
  | Some a :: r => match opt_all r with Some r' => Some (a :: r') | None => None end
  | None :: _ => None
  end.

(* ------------------------------------------------------------ environment *)
Fixpoint lookup (en : env) (x : nat) : option (bool * value) :=
  match en with
  | [] => None
  | (y, m, v) :: r => if Nat.eqb x y then Some (m, v) else lookup r x
  end.

Inductive sel := SelF (k : nat) | SelI (n : nat).

Fixpoint get_path (v : value) (p : list sel) : option value :=
  match p with
  | [] => Some v
  | SelF k :: r => match v with VStruct vs => match nth_error vs k with Some u => get_path u r | None => None end
                                | _ => None end
  | SelI n :: r => match v with VArr vs => match nth_error vs n with Some u => get_path u r | None => None end
                                | _ => None end
  end.

Fixpoint set_nth {A} (l : list A) (n : nat) (f : A -> option A) : option (list A) :=
  match l, n with
  | a :: r, O => match f a with Some a' => Some (a' :: r) | None => None end
  | a :: r, S n' => match set_nth r n' f with Some r' => Some (a :: r') | None => None end
  | [], _ => None
  end.

Fixpoint set_path (v : value) (p : list sel) (nv : value) : option value :=
  match p with
  | [] => Some nv
  | SelF k :: r => match v with
                   | VStruct vs => match set_nth vs k (fun u => set_path u r nv) with
                                   | Some vs' => Some (VStruct vs') | None => None end
                   | _ => None end
  | SelI n :: r => match v with
                   | VArr vs => match set_nth vs n (fun u => set_path u r nv) with
                                | Some vs' => Some (VArr vs') | None => None end
                   | _ => None end
  end.

(* assignment: the innermost binding of x must be mutable *)
Fixpoint update (en : env) (x : nat) (p : list sel) (nv : value) : option env :=
  match en with
  | [] => None
  | (y, m, v) :: r =>
      if Nat.eqb x y then
        (if m then match set_path v p nv with Some v' => Some ((y, m, v') :: r) | None => None end
         else None)
      else match update r x p nv with Some r' => Some ((y, m, v) :: r') | None => None end
  end.

Fixpoint bind_params (ps : list (nat * ty)) (vs : list value) : option env :=
  match ps, vs with
  | [], [] => Some []
  | (x, _) :: ps', v :: vs' =>
      match bind_params ps' vs' with Some r => Some ((x, false, v) :: r) | None => None end
  | _, _ => None
  end.

(* ---------------------------------------------------- list-shaped helpers *)
Inductive lres :=
| LOk (en : env) (out : list event) (vs : list value)
| LAbort (r : res).

Section WithEv.
  Variable ev : env -> list event -> expr -> res.

  Fixpoint eval_list (en : env) (out : list event) (es : list expr) : lres :=
    match es with
    | [] => LOk en out []
    | e :: es' =>
        match ev en out e with
        | Res en1 out1 (CVal v) =>
            match eval_list en1 out1 es' with
            | LOk en2 out2 vs => LOk en2 out2 (v :: vs)
            | a => a
            end
        | r => LAbort r
        end
    end.

  (* statements of a block; every [ELet] pops its own binding when the rest of
     the block is left, whether normally or by break / continue / return *)
  Fixpoint eval_stmts (en : env) (out : list event) (ss : list expr) (tail : expr) : res :=
    match ss with
    | [] => ev en out tail
    | s :: ss' =>
        match s with
        | ELet x _ m e =>
            match ev en out e with
            | Res en1 out1 (CVal v) =>
                match eval_stmts ((x, m, v) :: en1) out1 ss' tail with
                | Res (_ :: en3) out2 c => Res en3 out2 c
                | Res [] _ _ => RStuck
                | r => r
                end
            | r => r
            end
        | EDefer d =>
            (* the deferred expression runs when the rest of the block is left, normally or by
               break / continue / return; not after a fault *)
            match eval_stmts en out ss' tail with
            | Res en1 out1 c =>
                match ev en1 out1 d with
                | Res en2 out2 (CVal _) => Res en2 out2 c
                | r => r
                end
            | r => r
            end
        | _ =>
            match ev en out s with
            | Res en1 out1 (CVal _) => eval_stmts en1 out1 ss' tail
            | r => r
            end
        end
    end.

  (* places: root variable and selector path; index expressions are evaluated
     and bounds-checked left to right, before the right-hand side *)
  Inductive pres :=
  | POk (en : env) (out : list event) (x : nat) (p : list sel)
  | PAbort (r : res).

  Fixpoint eval_place (en : env) (out : list event) (e : expr) {struct e} : pres :=
    match e with
    | EVar x => POk en out x []
    | EField a k =>
        match eval_place en out a with
        | POk en1 out1 x p => POk en1 out1 x (p ++ [SelF k])
        | a' => a'
        end
    | EIndex a i =>
        match eval_place en out a with
        | POk en1 out1 x p =>
            match ev en1 out1 i with
            | Res en2 out2 (CVal (VInt _ z)) =>
                match lookup en2 x with
                | Some (_, v) =>
                    match get_path v p with
                    | Some (VArr vs) =>
                        if (0 <=? z) && (z <? Z.of_nat (length vs))
                        then POk en2 out2 x (p ++ [SelI (Z.to_nat z)])
                        else PAbort (RFault out2 FAULT_INDEX None)
                    | _ => PAbort RStuck
                    end
                | None => PAbort RStuck
                end
            | Res _ _ (CVal _) => PAbort RStuck
            | r => PAbort r
            end
        | a' => a'
        end
    | _ => PAbort RStuck
    end.
End WithEv.

(* ------------------------------------------------------------ interpreter *)
Section Step.
  Variable fs : list fundef.
  Variable rec : evaluator.

  Definition step : evaluator := fun s en out e =>
    let ev := rec s in
    match e with
    | EInt t z => match tsubst (fst s) t with TInt i => Res en out (CVal (VInt i z)) | _ => RStuck end
    | EBool b => Res en out (CVal (VBool b))
    | EUnit => Res en out (CVal VUnit)
    | ECParam n => match nth_error (snd s) n with Some v => Res en out (CVal v) | None => RStuck end
    | EVar x => match lookup en x with Some (_, v) => Res en out (CVal v) | None => RStuck end
    | EBin op a b =>
        match ev en out a with
        | Res en1 out1 (CVal (VInt i x)) =>
            match ev en1 out1 b with
            | Res en2 out2 (CVal (VInt j y)) =>
                if ity_eqb i j then
                  match binop_sem op i x y with
                  | NOk z => Res en2 out2 (CVal (VInt i z))
                  | NTrap => RTrap out2
                  end
                else RStuck
            | Res _ _ (CVal _) => RStuck
            | r => r
            end
        | Res _ _ (CVal _) => RStuck
        | r => r
        end
    | ECmp op a b =>
        match ev en out a with
        | Res en1 out1 (CVal (VInt i x)) =>
            match ev en1 out1 b with
            | Res en2 out2 (CVal (VInt j y)) =>
                if ity_eqb i j then Res en2 out2 (CVal (VBool (cmp_sem op x y))) else RStuck
            | Res _ _ (CVal _) => RStuck
            | r => r
            end
        | Res _ _ (CVal _) => RStuck
        | r => r
        end
    | EUn op a =>
        match ev en out a with
        | Res en1 out1 (CVal v) =>
            match op, v with
            | UNeg, VInt i x => Res en1 out1 (CVal (VInt i (norm i (- x))))
            | UNot, VInt i x => Res en1 out1 (CVal (VInt i (norm i (Z.lnot x))))
            | UBNot, VBool b => Res en1 out1 (CVal (VBool (negb b)))
            | _, _ => RStuck
            end
        | r => r
        end
    | EAnd a b =>
        match ev en out a with
        | Res en1 out1 (CVal (VBool true)) =>
            match ev en1 out1 b with
            | Res en2 out2 (CVal (VBool y)) => Res en2 out2 (CVal (VBool y))
            | Res _ _ (CVal _) => RStuck
            | r => r
            end
        | Res en1 out1 (CVal (VBool false)) => Res en1 out1 (CVal (VBool false))
        | Res _ _ (CVal _) => RStuck
        | r => r
        end
    | EOr a b =>
        match ev en out a with
        | Res en1 out1 (CVal (VBool false)) =>
            match ev en1 out1 b with
            | Res en2 out2 (CVal (VBool y)) => Res en2 out2 (CVal (VBool y))
            | Res _ _ (CVal _) => RStuck
            | r => r
            end
        | Res en1 out1 (CVal (VBool true)) => Res en1 out1 (CVal (VBool true))
        | Res _ _ (CVal _) => RStuck
        | r => r
        end
    | ECast t a =>
        match tsubst (fst s) t with
        | TInt i =>
            match ev en out a with
            | Res en1 out1 (CVal (VInt _ x)) => Res en1 out1 (CVal (VInt i (norm i x)))
            | Res _ _ (CVal _) => RStuck
            | r => r
            end
        | _ => RStuck
        end
    | EIf c a b =>
        match ev en out c with
        | Res en1 out1 (CVal (VBool true)) => ev en1 out1 a
        | Res en1 out1 (CVal (VBool false)) => ev en1 out1 b
        | Res _ _ (CVal _) => RStuck
        | r => r
        end
    | EWhile l c body =>
        match ev en out c with
        | Res en1 out1 (CVal (VBool true)) =>
            match ev en1 out1 body with
            | Res en2 out2 (CVal _) => ev en2 out2 (EWhile l c body)
            | Res en2 out2 (CCont l') =>
                if Nat.eqb l' l then ev en2 out2 (EWhile l c body) else Res en2 out2 (CCont l')
            | Res en2 out2 (CBrk l' v) =>
                if Nat.eqb l' l then Res en2 out2 (CVal VUnit) else Res en2 out2 (CBrk l' v)
            | r => r
            end
        | Res en1 out1 (CVal (VBool false)) => Res en1 out1 (CVal VUnit)
        | Res _ _ (CVal _) => RStuck
        | r => r
        end
    | ELoop l body =>
        match ev en out body with
        | Res en2 out2 (CVal _) => ev en2 out2 (ELoop l body)
        | Res en2 out2 (CCont l') =>
            if Nat.eqb l' l then ev en2 out2 (ELoop l body) else Res en2 out2 (CCont l')
        | Res en2 out2 (CBrk l' v) =>
            if Nat.eqb l' l then Res en2 out2 (CVal VUnit) else Res en2 out2 (CBrk l' v)
        | r => r
        end
    | EBlock lab _ ss tail =>
        match eval_stmts ev en out ss tail with
        | Res en1 out1 (CBrk l' v) =>
            match lab with
            | Some l => if Nat.eqb l' l then Res en1 out1 (CVal v) else Res en1 out1 (CBrk l' v)
            | None => Res en1 out1 (CBrk l' v)
            end
        | r => r
        end
    | EBreak l v =>
        match ev en out v with
        | Res en1 out1 (CVal x) => Res en1 out1 (CBrk l x)
        | r => r
        end
    | EContinue l => Res en out (CCont l)
    | EReturn v =>
        match ev en out v with
        | Res en1 out1 (CVal x) => Res en1 out1 (CRet x)
        | r => r
        end
    | ECall f targs cargs args =>
        match nth_error fs f with
        | None => RStuck
        | Some fd =>
            match eval_list ev en out args with
            | LOk en1 out1 vs =>
                match bind_params (f_params fd) vs, opt_all (map (cresolve s) cargs) with
                | Some cenv, Some cvs =>
                    match rec (map (tsubst (fst s)) targs, cvs) cenv out1 (f_body fd) with
                    | Res _ out2 (CVal v) => Res en1 out2 (CVal v)
                    | Res _ out2 (CRet v) => Res en1 out2 (CVal v)
                    | Res _ _ _ => RStuck
                    | RFault out2 k None => RFault out2 k (Some f)
                    | r => r
                    end
                | _, _ => RStuck
                end
            | LAbort r => r
            end
        end
    | EArr _ es =>
        match eval_list ev en out es with
        | LOk en1 out1 vs => Res en1 out1 (CVal (VArr vs))
        | LAbort r => r
        end
    | EIndex a i =>
        match ev en out a with
        | Res en1 out1 (CVal (VArr vs)) =>
            match ev en1 out1 i with
            | Res en2 out2 (CVal (VInt _ z)) =>
                if (0 <=? z) && (z <? Z.of_nat (length vs)) then
                  match nth_error vs (Z.to_nat z) with
                  | Some v => Res en2 out2 (CVal v)
                  | None => RStuck
                  end
                else RFault out2 FAULT_INDEX None
            | Res _ _ (CVal _) => RStuck
            | r => r
            end
        | Res _ _ (CVal _) => RStuck
        | r => r
        end
    | EStruct _ es =>
        match eval_list ev en out es with
        | LOk en1 out1 vs => Res en1 out1 (CVal (VStruct vs))
        | LAbort r => r
        end
    | EField a k =>
        match ev en out a with
        | Res en1 out1 (CVal (VStruct vs)) =>
            match nth_error vs k with
            | Some v => Res en1 out1 (CVal v)
            | None => RStuck
            end
        | Res _ _ (CVal _) => RStuck
        | r => r
        end
    | ELet _ _ _ _ => RStuck
    | EAssign lhs rhs =>
        match eval_place ev en out lhs with
        | POk en1 out1 x p =>
            match ev en1 out1 rhs with
            | Res en2 out2 (CVal v) =>
                match update en2 x p v with
                | Some en3 => Res en3 out2 (CVal VUnit)
                | None => RStuck
                end
            | r => r
            end
        | PAbort r => r
        end
    | EPrint a =>
        match ev en out a with
        | Res en1 out1 (CVal (VInt i z)) => Res en1 (EvInt i z :: out1) (CVal VUnit)
        | Res en1 out1 (CVal (VBool b)) => Res en1 (EvBool b :: out1) (CVal VUnit)
        | Res _ _ (CVal _) => RStuck
        | r => r
        end
    | EDefer _ => RStuck
    | EInject _ k a =>
        match ev en out a with
        | Res en1 out1 (CVal v) => Res en1 out1 (CVal (VSum k v))
        | r => r
        end
    | ESwitch _ a x arms dflt =>
        match ev en out a with
        | Res en1 out1 (CVal (VSum k v)) =>
            match nth_error arms k with
            | Some arm =>
                match ev ((x, false, v) :: en1) out1 arm with
                | Res (_ :: en3) out2 c => Res en3 out2 c
                | Res [] _ _ => RStuck
                | r => r
                end
            | None =>
                match dflt with
                | Some d => ev en1 out1 d
                | None => RStuck
                end
            end
        | Res _ _ (CVal _) => RStuck
        | r => r
        end
    | EIsVariant a k =>
        match ev en out a with
        | Res en1 out1 (CVal (VSum k' _)) => Res en1 out1 (CVal (VBool (Nat.eqb k' k)))
        | Res _ _ (CVal _) => RStuck
        | r => r
        end
    | EUnwrap a k =>
        match ev en out a with
        | Res en1 out1 (CVal (VSum k' v)) =>
            if Nat.eqb k' k then Res en1 out1 (CVal v) else RFault out1 FAULT_UNWRAP None
        | Res _ _ (CVal _) => RStuck
        | r => r
        end
    | ETry a =>
        match ev en out a with
        | Res en1 out1 (CVal (VSum k v)) =>
            match k with
            | O => Res en1 out1 (CRet (VSum 0 v))
            | S O => Res en1 out1 (CVal v)
            | _ => RStuck
            end
        | Res _ _ (CVal _) => RStuck
        | r => r
        end
    end.
End Step.

Fixpoint eval (fs : list fundef) (n : nat) : evaluator :=
  match n with
  | O => fun _ _ _ _ => RFuel
  | S n' => step fs (eval fs n')
  end.

(* ---------------------------------------------------------------- programs *)
Inductive outcome :=
| Done (out : list event) (status : Z)       (* events in program order, exit status *)
| Fault (out : list event) (kind : nat) (fn : nat)
| Trap (out : list event)
| Stuck
| OutOfFuel.

Definition eval_prog (fuel : nat) (p : prog) : outcome :=
  match nth_error (funs p) (main p) with
  | None => Stuck
  | Some fd =>
      match eval (funs p) fuel ([], []) [] [] (f_body fd) with
      | Res _ out (CVal v) | Res _ out (CRet v) =>
          match v with
          | VInt _ z => Done (rev out) (z mod 256)
          | VUnit => Done (rev out) 0
          | _ => Stuck
          end
      | Res _ _ _ => Stuck
      | RFault out k fn => Fault (rev out) k (match fn with Some f => f | None => main p end)
      | RTrap out => Trap (rev out)
      | RStuck => Stuck
      | RFuel => OutOfFuel
      end
  end.

(* ------------------------------------------------------------ type checker *)
Definition vctx := list (nat * ty * bool).              (* name, type, mutable *)
Definition lctx := list (nat * (bool * ty)).            (* label, (is loop, type of break values) *)

Fixpoint vlookup (G : vctx) (x : nat) : option (ty * bool) :=
  match G with
  | [] => None
  | (y, t, m) :: r => if Nat.eqb x y then Some (t, m) else vlookup r x
  end.

Fixpoint llookup (L : lctx) (l : nat) : option (bool * ty) :=
  match L with
  | [] => None
  | (y, k) :: r => if Nat.eqb l y then Some k else llookup r l
  end.

(* closed types: no comptime type parameter *)
Fixpoint closed (t : ty) : bool :=
  match t with
  | TArr _ u => closed u
  | TStruct _ fs => forallb closed fs
  | TVar _ => false
  | TEnum _ vs => forallb closed vs
  | TOpt u => closed u
  | TErr e u => closed e && closed u
  | _ => true
  end.

Definition oty_is (o : option ty) (t : ty) : bool :=
  match o with Some u => ty_eqb u t | None => false end.

Section CheckLists.
  Variable chk : vctx -> expr -> option ty.

  Fixpoint check_args (G : vctx) (es : list expr) (ts : list ty) : bool :=
    match es, ts with
    | [], [] => true
    | e :: es', t :: ts' => oty_is (chk G e) t && check_args G es' ts'
    | _, _ => false
    end.

  Fixpoint check_stmts (G : vctx) (ss : list expr) (k : vctx -> option ty) : option ty :=
    match ss with
    | [] => k G
    | s :: ss' =>
        match s with
        | ELet x t m e =>
            if closed t && oty_is (chk G e) t then check_stmts ((x, t, m) :: G) ss' k else None
        | EDefer d => match chk G d with Some _ => check_stmts G ss' k | None => None end
        | _ => match chk G s with Some _ => check_stmts G ss' k | None => None end
        end
    end.

  (* arms of a switch: arm i is checked with x bound to the payload of variant i *)
  Fixpoint check_arms (G : vctx) (x : nat) (arms : list expr) (ts : list ty) (t : ty) : bool :=
    match arms, ts with
    | [], _ => true
    | a :: arms', pt :: ts' => oty_is (chk ((x, pt, false) :: G) a) t && check_arms G x arms' ts' t
    | _ :: _, [] => false
    end.
End CheckLists.

Fixpoint place_root (e : expr) : option nat :=
  match e with
  | EVar x => Some x
  | EField a _ => place_root a
  | EIndex a _ => place_root a
  | _ => None
  end.

Definition is_shift (op : binop) : bool := match op with OShl | OShr => true | _ => false end.

Section Check.
  Variable fs : list fundef.

  Fixpoint check (L : lctx) (ret : ty) (G : vctx) (e : expr) {struct e} : option ty :=
    match e with
    | EInt t z => match t with
                  | TInt i => if norm i z =? z then Some t else None
                  | _ => None end
    | EBool _ => Some TBool
    | EUnit => Some TVoid
    | ECParam _ => None
    | EVar x => match vlookup G x with Some (t, _) => Some t | None => None end
    | EBin op a b =>
        match check L ret G a, check L ret G b with
        | Some (TInt i), Some (TInt j) => if ity_eqb i j then Some (TInt i) else None
        | _, _ => None
        end
    | ECmp op a b =>
        match check L ret G a, check L ret G b with
        | Some (TInt i), Some (TInt j) => if ity_eqb i j then Some TBool else None
        | _, _ => None
        end
    | EUn op a =>
        match op, check L ret G a with
        | UNeg, Some (TInt i) => if isg i then Some (TInt i) else None   (* -x of an unsigned x is not of x's type *)
        | UNot, Some (TInt i) => Some (TInt i)
        | UBNot, Some TBool => Some TBool
        | _, _ => None
        end
    | EAnd a b | EOr a b =>
        match check L ret G a, check L ret G b with
        | Some TBool, Some TBool => Some TBool
        | _, _ => None
        end
    | ECast t a =>
        match t, check L ret G a with
        | TInt i, Some (TInt _) => Some (TInt i)
        | _, _ => None
        end
    | EIf c a b =>
        match check L ret G c, check L ret G a, check L ret G b with
        | Some TBool, Some t, Some u => if ty_eqb t u then Some t else None
        | _, _, _ => None
        end
    | EWhile l c body =>
        match check L ret G c, check ((l, (true, TVoid)) :: L) ret G body with
        | Some TBool, Some _ => Some TVoid
        | _, _ => None
        end
    | ELoop l body =>
        match check ((l, (true, TVoid)) :: L) ret G body with
        | Some _ => Some TVoid
        | None => None
        end
    | EBlock lab t ss tail =>
        let L' := match lab with Some l => (l, (false, t)) :: L | None => L end in
        if closed t && oty_is (check_stmts (check L' ret) G ss (fun G' => check L' ret G' tail)) t then Some t else None
    | EBreak l v =>
        match llookup L l, check L ret G v with
        | Some (_, t), Some u => if ty_eqb u t then Some TVoid else None
        | _, _ => None
        end
    | EContinue l =>
        match llookup L l with
        | Some (true, _) => Some TVoid
        | _ => None
        end
    | EReturn v => if oty_is (check L ret G v) ret then Some TVoid else None
    | ECall f targs cargs args =>
        match nth_error fs f, targs, cargs with
        | Some fd, [], [] =>
            if Nat.eqb (f_tparams fd) 0 && Nat.eqb (length (f_cparams fd)) 0
               && check_args (check L ret) G args (map snd (f_params fd))
            then Some (f_ret fd) else None
        | _, _, _ => None
        end
    | EArr t es =>
        if closed t && check_args (check L ret) G es (repeat t (length es))
        then Some (TArr (length es) t) else None
    | EIndex a i =>
        match check L ret G a, check L ret G i with
        | Some (TArr _ t), Some (TInt j) => if ity_eqb j usize then Some t else None
        | _, _ => None
        end
    | EStruct t es =>
        match t with
        | TStruct id ts => if closed t && check_args (check L ret) G es ts then Some t else None
        | _ => None
        end
    | EField a k =>
        match check L ret G a with
        | Some (TStruct _ ts) => nth_error ts k
        | _ => None
        end
    | ELet _ _ _ _ => None
    | EAssign lhs rhs =>
        match place_root lhs with
        | Some x =>
            match vlookup G x, check L ret G lhs, check L ret G rhs with
            | Some (_, true), Some t, Some u => if ty_eqb u t then Some TVoid else None
            | _, _, _ => None
            end
        | None => None
        end
    | EPrint a =>
        match check L ret G a with
        | Some (TInt _) => Some TVoid
        | Some TBool => Some TVoid
        | _ => None
        end
    | EDefer _ => None
    | EInject t k a =>
        match variants t with
        | Some ts =>
            match nth_error ts k with
            | Some pt => if closed t && oty_is (check L ret G a) pt then Some t else None
            | None => None
            end
        | None => None
        end
    | ESwitch t a x arms dflt =>
        match check L ret G a with
        | Some ta =>
            match variants ta with
            | Some ts =>
                if closed t && check_arms (check L ret) G x arms ts t
                   && match dflt with
                      | Some d => oty_is (check L ret G d) t
                      | None => Nat.leb (length ts) (length arms)
                      end
                then Some t else None
            | None => None
            end
        | None => None
        end
    | EIsVariant a k =>
        match check L ret G a with
        | Some ta =>
            match variants ta with
            | Some ts => if Nat.ltb k (length ts) then Some TBool else None
            | None => None
            end
        | None => None
        end
    | EUnwrap a k =>
        match check L ret G a with
        | Some ta =>
            match variants ta with
            | Some ts => nth_error ts k
            | None => None
            end
        | None => None
        end
    | ETry a =>
        match check L ret G a, ret with
        | Some (TOpt t), TOpt _ => Some t
        | Some (TErr e t), TErr e' _ => if ty_eqb e e' then Some t else None
        | _, _ => None
        end
    end.

  Definition check_fun (fd : fundef) : bool :=
    Nat.eqb (f_tparams fd) 0 && Nat.eqb (length (f_cparams fd)) 0
    && closed (f_ret fd) && forallb (fun p => closed (snd p)) (f_params fd)
    && oty_is (check [] (f_ret fd) (map (fun p => (fst p, snd p, false)) (f_params fd)) (f_body fd))
              (f_ret fd).
End Check.

Definition main_ok (p : prog) : bool :=
  match nth_error (funs p) (main p) with
  | Some fd => Nat.eqb (length (f_params fd)) 0
               && match f_ret fd with TInt _ => true | TVoid => true | _ => false end
  | None => false
  end.

Definition well_typed (p : prog) : bool :=
  forallb (check_fun (funs p)) (funs p) && main_ok p.
