(* Two's-complement machine integers on Z and the Cranelift integer instructions
   the Capy code generator selects, as functions on (width, bit pattern).

   A value of a w-bit Cranelift integer type is represented by its canonical
   bit pattern, the unique z with 0 <= z < 2^w ([in_bits w z]).  [signed w z] is
   the two's-complement reading of that pattern.  Instructions that can trap
   (division) return [option]; [None] = hardware trap (SIGFPE).  The semantics
   written here is the documented Cranelift semantics (cranelift-codegen
   instruction reference); it is TRUSTED as a description of Cranelift and is
   validated on every run by the C08 correspondence stream.

   Pure ZArith/Lia; no axioms. *)
From Coq Require Import ZArith Lia Bool.
Open Scope Z_scope.

(* ---- basic notions -------------------------------------------------------- *)
Definition wrap (w z : Z) : Z := z mod 2 ^ w.
Definition signed (w z : Z) : Z :=
  let u := wrap w z in if u <? 2 ^ (w - 1) then u else u - 2 ^ w.
Definition in_bits (w z : Z) : Prop := 0 <= z < 2 ^ w.
Definition in_bitsb (w z : Z) : bool := (0 <=? z) && (z <? 2 ^ w).
Definition smin (w : Z) : Z := - 2 ^ (w - 1).
Definition smax (w : Z) : Z := 2 ^ (w - 1) - 1.
Definition umax (w : Z) : Z := 2 ^ w - 1.
Definition b2z (b : bool) : Z := if b then 1 else 0.

Lemma in_bitsb_spec w z : in_bitsb w z = true <-> in_bits w z.
Proof. unfold in_bitsb, in_bits. rewrite andb_true_iff, Z.leb_le, Z.ltb_lt. tauto. Qed.

Lemma pow2_pos w : 0 <= w -> 0 < 2 ^ w.
Proof. intros. apply Z.pow_pos_nonneg; lia. Qed.

Lemma pow2_half w : 0 < w -> 2 ^ w = 2 * 2 ^ (w - 1).
Proof. intros. replace w with (Z.succ (w - 1)) at 1 by lia. rewrite Z.pow_succ_r by lia. reflexivity. Qed.

Lemma pow2_le_mono a b : 0 <= a <= b -> 2 ^ a <= 2 ^ b.
Proof. intros. apply Z.pow_le_mono_r; lia. Qed.

Lemma pow2_split a b : 0 <= a <= b -> 2 ^ b = 2 ^ a * 2 ^ (b - a).
Proof. intros. rewrite <- Z.pow_add_r by lia. f_equal. lia. Qed.

Lemma wrap_range w z : 0 <= w -> in_bits w (wrap w z).
Proof. intros. unfold in_bits, wrap. apply Z.mod_pos_bound. apply pow2_pos; lia. Qed.

Lemma wrap_small w z : in_bits w z -> wrap w z = z.
Proof. unfold in_bits, wrap. intros. apply Z.mod_small. lia. Qed.

Lemma wrap_idem w z : 0 <= w -> wrap w (wrap w z) = wrap w z.
Proof. intros. apply wrap_small, wrap_range; lia. Qed.

Lemma wrap_eqm w a b k : 0 <= w -> a = b + k * 2 ^ w -> wrap w a = wrap w b.
Proof. intros Hw ->. unfold wrap. apply Z.mod_add. pose proof (pow2_pos w Hw). lia. Qed.

(* the defining property of wrap: the unique representative in [0, 2^w) *)
Lemma wrap_unique w z r : 0 <= w -> in_bits w r -> (exists k, z = r + k * 2 ^ w) -> wrap w z = r.
Proof.
  intros Hw Hr [k ->]. unfold wrap. rewrite Z.mod_add by (pose proof (pow2_pos w Hw); lia).
  apply Z.mod_small. exact Hr.
Qed.

Lemma wrap_decomp w z : 0 <= w -> exists k, z = wrap w z + k * 2 ^ w.
Proof.
  intros. exists (z / 2 ^ w). unfold wrap. pose proof (pow2_pos w H).
  rewrite (Z.div_mod z (2 ^ w)) at 1 by lia. lia.
Qed.

Lemma wrap_add w a b : 0 <= w -> wrap w (wrap w a + wrap w b) = wrap w (a + b).
Proof. intros. unfold wrap. symmetry. apply Zplus_mod. Qed.
Lemma wrap_add_l w a b : 0 <= w -> wrap w (wrap w a + b) = wrap w (a + b).
Proof. intros. unfold wrap. apply Zplus_mod_idemp_l. Qed.
Lemma wrap_add_r w a b : 0 <= w -> wrap w (a + wrap w b) = wrap w (a + b).
Proof. intros. unfold wrap. apply Zplus_mod_idemp_r. Qed.
Lemma wrap_sub w a b : 0 <= w -> wrap w (wrap w a - wrap w b) = wrap w (a - b).
Proof. intros. unfold wrap. symmetry. apply Zminus_mod. Qed.
Lemma wrap_mul w a b : 0 <= w -> wrap w (wrap w a * wrap w b) = wrap w (a * b).
Proof. intros. unfold wrap. symmetry. apply Zmult_mod. Qed.
Lemma wrap_mul_l w a b : 0 <= w -> wrap w (wrap w a * b) = wrap w (a * b).
Proof. intros. unfold wrap. apply Zmult_mod_idemp_l. Qed.
Lemma wrap_opp w a : 0 <= w -> wrap w (- wrap w a) = wrap w (- a).
Proof.
  intros. replace (- wrap w a) with (0 - wrap w a) by lia. replace (- a) with (0 - a) by lia.
  unfold wrap. rewrite Zminus_mod_idemp_r. reflexivity.
Qed.

(* reducing to a narrower width first does not matter *)
Lemma wrap_wrap_le w1 w2 z : 0 <= w1 <= w2 -> wrap w1 (wrap w2 z) = wrap w1 z.
Proof.
  intros. destruct (wrap_decomp w2 z ltac:(lia)) as [k Hk].
  symmetry. apply (wrap_eqm w1 _ _ (k * 2 ^ (w2 - w1))); [lia|].
  rewrite Hk at 1. rewrite (pow2_split w1 w2) by lia. ring.
Qed.

Lemma wrap_wrap_ge w1 w2 z : 0 <= w2 <= w1 -> wrap w1 (wrap w2 z) = wrap w2 z.
Proof.
  intros. apply wrap_small. pose proof (wrap_range w2 z ltac:(lia)).
  unfold in_bits in *. pose proof (pow2_le_mono w2 w1 ltac:(lia)). lia.
Qed.

(* ---- signed reading --------------------------------------------------------- *)
Lemma signed_range w z : 0 < w -> smin w <= signed w z <= smax w.
Proof.
  intros. unfold signed, smin, smax. pose proof (wrap_range w z ltac:(lia)) as R.
  unfold in_bits in R. rewrite (pow2_half w) in * by lia.
  destruct (Z.ltb_spec (wrap w z) (2 ^ (w - 1))); lia.
Qed.

Lemma signed_eqm w z : 0 < w -> exists k, signed w z = z + k * 2 ^ w.
Proof.
  intros. destruct (wrap_decomp w z ltac:(lia)) as [k Hk]. unfold signed.
  destruct (Z.ltb_spec (wrap w z) (2 ^ (w - 1))).
  - exists (- k). lia.
  - exists (- k - 1). lia.
Qed.

Lemma wrap_signed w z : 0 < w -> wrap w (signed w z) = wrap w z.
Proof. intros. destruct (signed_eqm w z H) as [k Hk]. eapply wrap_eqm; [lia | exact Hk]. Qed.

Lemma signed_wrap w z : 0 < w -> signed w (wrap w z) = signed w z.
Proof. intros. unfold signed. rewrite wrap_idem by lia. reflexivity. Qed.

(* a value in the signed range is its own signed reading *)
Lemma signed_small w z : 0 < w -> smin w <= z <= smax w -> signed w z = z.
Proof.
  intros Hw Hz. unfold smin, smax in Hz. unfold signed.
  pose proof (pow2_half w Hw) as P. pose proof (pow2_pos (w - 1) ltac:(lia)) as Q.
  destruct (Z_lt_le_dec z 0).
  - assert (wrap w z = z + 2 ^ w) as ->.
    { apply wrap_unique; [lia | unfold in_bits; lia | exists (-1); lia]. }
    destruct (Z.ltb_spec (z + 2 ^ w) (2 ^ (w - 1))); lia.
  - rewrite wrap_small by (unfold in_bits; lia).
    destruct (Z.ltb_spec z (2 ^ (w - 1))); lia.
Qed.

Lemma signed_unique w z r : 0 < w -> smin w <= r <= smax w -> (exists k, z = r + k * 2 ^ w) -> signed w z = r.
Proof.
  intros Hw Hr [k ->]. rewrite <- (signed_small w r Hw Hr) at 2.
  rewrite <- signed_wrap by lia. rewrite <- (signed_wrap w r) by lia.
  f_equal. eapply wrap_eqm; [lia | reflexivity].
Qed.

Lemma signed_nonneg w z : 0 < w -> in_bits w z -> z < 2 ^ (w - 1) -> signed w z = z.
Proof.
  intros. unfold signed. rewrite wrap_small by assumption.
  destruct (Z.ltb_spec z (2 ^ (w - 1))); lia.
Qed.

Lemma signed_neg w z : 0 < w -> in_bits w z -> 2 ^ (w - 1) <= z -> signed w z = z - 2 ^ w.
Proof.
  intros. unfold signed. rewrite wrap_small by assumption.
  destruct (Z.ltb_spec z (2 ^ (w - 1))); lia.
Qed.

Lemma signed_inj w a b : 0 < w -> in_bits w a -> in_bits w b -> signed w a = signed w b -> a = b.
Proof.
  intros Hw Ha Hb E. rewrite <- (wrap_small w a Ha), <- (wrap_small w b Hb).
  rewrite <- (wrap_signed w a Hw), <- (wrap_signed w b Hw). congruence.
Qed.

(* ---- Cranelift integer instructions on canonical bit patterns --------------- *)
Definition iconst (w n : Z) : Z := wrap w n.
Definition iadd (w a b : Z) : Z := wrap w (a + b).
Definition isub (w a b : Z) : Z := wrap w (a - b).
Definition imul (w a b : Z) : Z := wrap w (a * b).
Definition ineg (w a : Z) : Z := wrap w (- a).
Definition band (w a b : Z) : Z := Z.land a b.
Definition bor (w a b : Z) : Z := Z.lor a b.
Definition bxor (w a b : Z) : Z := Z.lxor a b.
Definition bnot (w a : Z) : Z := 2 ^ w - 1 - a.
(* udiv/urem trap on a zero divisor *)
Definition udiv (w a b : Z) : option Z := if b =? 0 then None else Some (a / b).
Definition urem (w a b : Z) : option Z := if b =? 0 then None else Some (a mod b).
(* sdiv traps on a zero divisor and on MIN / -1; rounds toward zero *)
Definition sdiv (w a b : Z) : option Z :=
  if b =? 0 then None
  else if (signed w a =? smin w) && (signed w b =? -1) then None
  else Some (wrap w (Z.quot (signed w a) (signed w b))).
(* srem traps on a zero divisor only; MIN % -1 = 0; sign follows the dividend *)
Definition srem (w a b : Z) : option Z :=
  if b =? 0 then None else Some (wrap w (Z.rem (signed w a) (signed w b))).
(* shift amounts are taken modulo the width of the shifted value *)
Definition ishl (w a s : Z) : Z := wrap w (a * 2 ^ (s mod w)).
Definition ushr (w a s : Z) : Z := a / 2 ^ (s mod w).
Definition sshr (w a s : Z) : Z := wrap w (signed w a / 2 ^ (s mod w)).

Inductive intcc := CEq | CNe | CSlt | CSge | CSgt | CSle | CUlt | CUge | CUgt | CUle.
Definition icmp (cc : intcc) (w a b : Z) : Z :=
  b2z (match cc with
       | CEq => a =? b
       | CNe => negb (a =? b)
       | CSlt => signed w a <? signed w b
       | CSge => signed w b <=? signed w a
       | CSgt => signed w b <? signed w a
       | CSle => signed w a <=? signed w b
       | CUlt => a <? b
       | CUge => b <=? a
       | CUgt => b <? a
       | CUle => a <=? b
       end).

Definition sextend (wfrom wto a : Z) : Z := wrap wto (signed wfrom a).
Definition uextend (wfrom wto a : Z) : Z := a.
Definition ireduce (wto a : Z) : Z := wrap wto a.

(* ---- bitwise characterisations ------------------------------------------------- *)
Lemma wrap_testbit w z i : 0 <= w -> 0 <= i ->
  Z.testbit (wrap w z) i = if i <? w then Z.testbit z i else false.
Proof.
  intros. unfold wrap. destruct (Z.ltb_spec i w).
  - apply Z.mod_pow2_bits_low. lia.
  - apply Z.mod_pow2_bits_high. lia.
Qed.

Lemma wrap_land w a b : 0 <= w -> wrap w (Z.land a b) = Z.land (wrap w a) (wrap w b).
Proof.
  intros. apply Z.bits_inj'. intros i Hi.
  rewrite Z.land_spec, !wrap_testbit, Z.land_spec by lia.
  destruct (i <? w); reflexivity.
Qed.
Lemma wrap_lor w a b : 0 <= w -> wrap w (Z.lor a b) = Z.lor (wrap w a) (wrap w b).
Proof.
  intros. apply Z.bits_inj'. intros i Hi.
  rewrite Z.lor_spec, !wrap_testbit, Z.lor_spec by lia.
  destruct (i <? w); reflexivity.
Qed.
Lemma wrap_lxor w a b : 0 <= w -> wrap w (Z.lxor a b) = Z.lxor (wrap w a) (wrap w b).
Proof.
  intros. apply Z.bits_inj'. intros i Hi.
  rewrite Z.lxor_spec, !wrap_testbit, Z.lxor_spec by lia.
  destruct (i <? w); reflexivity.
Qed.

(* ---- range lemmas ------------------------------------------------------------- *)
Lemma land_in_bits w a b : 0 <= w -> in_bits w a -> in_bits w b -> in_bits w (Z.land a b).
Proof.
  intros Hw Ha Hb. rewrite <- (wrap_small w a Ha), <- (wrap_small w b Hb), <- wrap_land by lia.
  apply wrap_range; lia.
Qed.
Lemma lor_in_bits w a b : 0 <= w -> in_bits w a -> in_bits w b -> in_bits w (Z.lor a b).
Proof.
  intros Hw Ha Hb. rewrite <- (wrap_small w a Ha), <- (wrap_small w b Hb), <- wrap_lor by lia.
  apply wrap_range; lia.
Qed.
Lemma lxor_in_bits w a b : 0 <= w -> in_bits w a -> in_bits w b -> in_bits w (Z.lxor a b).
Proof.
  intros Hw Ha Hb. rewrite <- (wrap_small w a Ha), <- (wrap_small w b Hb), <- wrap_lxor by lia.
  apply wrap_range; lia.
Qed.

Lemma bnot_in_bits w a : in_bits w a -> in_bits w (bnot w a).
Proof. unfold in_bits, bnot. lia. Qed.

(* bnot is the wrapped two's-complement complement, for any representative *)
Lemma bnot_wrap_lnot w a : 0 <= w -> bnot w (wrap w a) = wrap w (Z.lnot a).
Proof.
  intros. unfold bnot. symmetry. apply wrap_unique; try lia.
  - pose proof (wrap_range w a H). unfold in_bits in *. lia.
  - destruct (wrap_decomp w a H) as [k Hk]. exists (- k - 1).
    unfold Z.lnot. rewrite Z.pred_succ || idtac. unfold Z.pred. lia.
Qed.

Lemma bnot_testbit w a i : 0 <= w -> in_bits w a -> 0 <= i < w ->
  Z.testbit (bnot w a) i = negb (Z.testbit a i).
Proof.
  intros. rewrite <- (wrap_small w a) at 1 by assumption.
  rewrite bnot_wrap_lnot by lia. rewrite wrap_testbit by lia.
  destruct (Z.ltb_spec i w); try lia. apply Z.lnot_spec. lia.
Qed.

(* ---- division facts -------------------------------------------------------------- *)
Lemma quot_in_srange w a b : 0 < w -> smin w <= a <= smax w -> smin w <= b <= smax w ->
  b <> 0 -> ~ (a = smin w /\ b = -1) -> smin w <= Z.quot a b <= smax w.
Proof.
  intros Hw Ha Hb Nb Nov. unfold smin, smax in *.
  pose proof (pow2_pos (w - 1) ltac:(lia)) as P.
  destruct (Z.eq_dec b 1) as [->|N1]. { rewrite Z.quot_1_r. lia. }
  destruct (Z.eq_dec b (-1)) as [->|N2].
  { assert (a <> - 2 ^ (w - 1)) by tauto.
    replace (-1) with (- (1)) by lia. rewrite Z.quot_opp_r, Z.quot_1_r by lia. lia. }
  assert (2 <= Z.abs b) by lia.
  assert (Z.abs (Z.quot a b) * Z.abs b <= Z.abs a) as M.
  { rewrite <- Z.quot_abs by lia. rewrite Z.quot_div_nonneg by lia.
    rewrite Z.mul_comm. apply Z.mul_div_le. lia. }
  assert (0 <= Z.abs (Z.quot a b)) by lia.
  assert (Z.abs (Z.quot a b) * 2 <= Z.abs a) by nia.
  lia.
Qed.

Lemma rem_in_srange w a b : 0 < w -> smin w <= a <= smax w -> b <> 0 ->
  smin w <= Z.rem a b <= smax w.
Proof.
  intros Hw Ha Nb. unfold smin, smax in *.
  pose proof (pow2_pos (w - 1) ltac:(lia)) as P.
  assert (Z.abs (Z.rem a b) <= Z.abs a).
  { rewrite <- Z.rem_abs by lia. rewrite Z.rem_mod_nonneg by lia. apply Z.mod_le; lia. }
  destruct (Z_lt_le_dec a 0).
  - pose proof (Z.rem_nonpos a b Nb ltac:(lia)). lia.
  - pose proof (Z.rem_nonneg a b Nb ltac:(lia)). lia.
Qed.

(* ---- shifts -------------------------------------------------------------------------- *)
Lemma ushr_in_bits w a s : 0 < w -> in_bits w a -> in_bits w (ushr w a s).
Proof.
  unfold in_bits, ushr. intros Hw [H0 H1].
  pose proof (Z.mod_pos_bound s w Hw). pose proof (pow2_pos (s mod w) ltac:(lia)).
  split. { apply Z.div_pos; lia. }
  eapply Z.le_lt_trans; [| exact H1]. apply Z.div_le_upper_bound; nia.
Qed.

Lemma shr_floor_in_srange w x n : 0 < w -> 0 <= n -> smin w <= x <= smax w ->
  smin w <= x / 2 ^ n <= smax w.
Proof.
  intros Hw Hn Hx. unfold smin, smax in *. pose proof (pow2_pos n Hn) as P.
  pose proof (pow2_pos (w - 1) ltac:(lia)) as Q. split.
  - apply Z.div_le_lower_bound; nia.
  - destruct (Z_lt_le_dec x 0).
    + assert (x / 2 ^ n < 0) by (apply Z.div_lt_upper_bound; lia). lia.
    + assert (x / 2 ^ n <= x) by (apply Z.div_le_upper_bound; nia). lia.
Qed.
