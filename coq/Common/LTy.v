(* Layout-level type syntax: a self-contained mirror of `hir::common::Ty`
   (crates/hir/src/common/ty.rs) with exactly the constructors that
   crates/codegen/src/layout.rs and convert.rs (type ids) distinguish.
   Widths are bit widths as in the Rust code: 0 = weak ("any") int/float,
   255 (u8::MAX) = pointer sized.  Names, uids, file names and function
   locations are numbers.  Struct members are (name, type) pairs; `ParamTy`
   is reduced to its type (layout and type ids ignore the other fields). *)
From Capy Require Import Common.Util.

Inductive lty : Type :=
| LNotYetResolved
| LUnknown
| LIInt (w : N)
| LUInt (w : N)
| LFloat (w : N)
| LBool
| LString
| LChar
| LAnonArray (n : N) (sub : lty)
| LArray (n : N) (sub : lty)
| LSlice (sub : lty)
| LPointer (mutable : bool) (sub : lty)
| LDistinct (uid : N) (sub : lty)
| LType
| LAny
| LRawPtr (mutable : bool)
| LRawSlice
| LFile (f : N)
| LPolyFn (loc : N)
| LFn (params : list lty) (ret : lty) (loc : N)
| LFnPtr (params : list lty) (ret : lty)
| LAnonStruct (members : list (N * lty))
| LStruct (uid : N) (members : list (N * lty))
| LEnum (uid : N) (variants : list lty)
| LVariant (enum_uid name uid discr : N) (sub : lty)
| LNil
| LOptional (sub : lty)
| LErrorUnion (err payload : lty)
| LVoid
| LAlwaysJumps.

(* Strong induction principle over the nested lists. *)
Section LtyInd.
  Variable P : lty -> Prop.
  Hypothesis HNotYetResolved : P LNotYetResolved.
  Hypothesis HUnknown : P LUnknown.
  Hypothesis HIInt : forall w, P (LIInt w).
  Hypothesis HUInt : forall w, P (LUInt w).
  Hypothesis HFloat : forall w, P (LFloat w).
  Hypothesis HBool : P LBool.
  Hypothesis HString : P LString.
  Hypothesis HChar : P LChar.
  Hypothesis HAnonArray : forall n sub, P sub -> P (LAnonArray n sub).
  Hypothesis HArray : forall n sub, P sub -> P (LArray n sub).
  Hypothesis HSlice : forall sub, P sub -> P (LSlice sub).
  Hypothesis HPointer : forall m sub, P sub -> P (LPointer m sub).
  Hypothesis HDistinct : forall u sub, P sub -> P (LDistinct u sub).
  Hypothesis HType : P LType.
  Hypothesis HAny : P LAny.
  Hypothesis HRawPtr : forall m, P (LRawPtr m).
  Hypothesis HRawSlice : P LRawSlice.
  Hypothesis HFile : forall f, P (LFile f).
  Hypothesis HPolyFn : forall l, P (LPolyFn l).
  Hypothesis HFn : forall ps r l, Forall P ps -> P r -> P (LFn ps r l).
  Hypothesis HFnPtr : forall ps r, Forall P ps -> P r -> P (LFnPtr ps r).
  Hypothesis HAnonStruct : forall ms, Forall (fun m => P (snd m)) ms -> P (LAnonStruct ms).
  Hypothesis HStruct : forall u ms, Forall (fun m => P (snd m)) ms -> P (LStruct u ms).
  Hypothesis HEnum : forall u vs, Forall P vs -> P (LEnum u vs).
  Hypothesis HVariant : forall e n u d sub, P sub -> P (LVariant e n u d sub).
  Hypothesis HNil : P LNil.
  Hypothesis HOptional : forall sub, P sub -> P (LOptional sub).
  Hypothesis HErrorUnion : forall e p, P e -> P p -> P (LErrorUnion e p).
  Hypothesis HVoid : P LVoid.
  Hypothesis HAlwaysJumps : P LAlwaysJumps.

  Fixpoint lty_ind' (t : lty) : P t :=
    let fix go (l : list lty) : Forall P l :=
      match l with
      | [] => Forall_nil _
      | x :: r => Forall_cons _ (lty_ind' x) (go r)
      end in
    let fix gom (l : list (N * lty)) : Forall (fun m => P (snd m)) l :=
      match l with
      | [] => Forall_nil _
      | (n, x) :: r => Forall_cons (n, x) (lty_ind' x) (gom r)
      end in
    match t with
    | LNotYetResolved => HNotYetResolved
    | LUnknown => HUnknown
    | LIInt w => HIInt w
    | LUInt w => HUInt w
    | LFloat w => HFloat w
    | LBool => HBool
    | LString => HString
    | LChar => HChar
    | LAnonArray n sub => HAnonArray n sub (lty_ind' sub)
    | LArray n sub => HArray n sub (lty_ind' sub)
    | LSlice sub => HSlice sub (lty_ind' sub)
    | LPointer m sub => HPointer m sub (lty_ind' sub)
    | LDistinct u sub => HDistinct u sub (lty_ind' sub)
    | LType => HType
    | LAny => HAny
    | LRawPtr m => HRawPtr m
    | LRawSlice => HRawSlice
    | LFile f => HFile f
    | LPolyFn l => HPolyFn l
    | LFn ps r l => HFn ps r l (go ps) (lty_ind' r)
    | LFnPtr ps r => HFnPtr ps r (go ps) (lty_ind' r)
    | LAnonStruct ms => HAnonStruct ms (gom ms)
    | LStruct u ms => HStruct u ms (gom ms)
    | LEnum u vs => HEnum u vs (go vs)
    | LVariant e n u d sub => HVariant e n u d sub (lty_ind' sub)
    | LNil => HNil
    | LOptional sub => HOptional sub (lty_ind' sub)
    | LErrorUnion e p => HErrorUnion e p (lty_ind' e) (lty_ind' p)
    | LVoid => HVoid
    | LAlwaysJumps => HAlwaysJumps
    end.
End LtyInd.

(* `Ty::absolute_ty`: strips distincts and enum variants. *)
Fixpoint absolute_ty (t : lty) : lty :=
  match t with
  | LVariant _ _ _ _ sub => absolute_ty sub
  | LDistinct _ sub => absolute_ty sub
  | _ => t
  end.

(* `Ty::is_pointer` = `Ty::is_non_zero`. *)
Definition is_pointer (t : lty) : bool :=
  match absolute_ty t with
  | LPointer _ _ | LRawPtr _ => true
  | _ => false
  end.
Definition is_non_zero := is_pointer.

(* Boolean structural equality (= `Intern<Ty>` equality). *)
Fixpoint lty_eqb (a b : lty) {struct a} : bool :=
  let fix list_eqb (l1 l2 : list lty) {struct l1} : bool :=
    match l1, l2 with
    | [], [] => true
    | x :: r1, y :: r2 => lty_eqb x y && list_eqb r1 r2
    | _, _ => false
    end in
  let fix mem_eqb (l1 l2 : list (N * lty)) {struct l1} : bool :=
    match l1, l2 with
    | [], [] => true
    | (n1, x) :: r1, (n2, y) :: r2 => (n1 =? n2)%N && lty_eqb x y && mem_eqb r1 r2
    | _, _ => false
    end in
  match a, b with
  | LNotYetResolved, LNotYetResolved => true
  | LUnknown, LUnknown => true
  | LIInt w1, LIInt w2 => (w1 =? w2)%N
  | LUInt w1, LUInt w2 => (w1 =? w2)%N
  | LFloat w1, LFloat w2 => (w1 =? w2)%N
  | LBool, LBool => true
  | LString, LString => true
  | LChar, LChar => true
  | LAnonArray n1 s1, LAnonArray n2 s2 => (n1 =? n2)%N && lty_eqb s1 s2
  | LArray n1 s1, LArray n2 s2 => (n1 =? n2)%N && lty_eqb s1 s2
  | LSlice s1, LSlice s2 => lty_eqb s1 s2
  | LPointer m1 s1, LPointer m2 s2 => Bool.eqb m1 m2 && lty_eqb s1 s2
  | LDistinct u1 s1, LDistinct u2 s2 => (u1 =? u2)%N && lty_eqb s1 s2
  | LType, LType => true
  | LAny, LAny => true
  | LRawPtr m1, LRawPtr m2 => Bool.eqb m1 m2
  | LRawSlice, LRawSlice => true
  | LFile f1, LFile f2 => (f1 =? f2)%N
  | LPolyFn l1, LPolyFn l2 => (l1 =? l2)%N
  | LFn p1 r1 l1, LFn p2 r2 l2 => list_eqb p1 p2 && lty_eqb r1 r2 && (l1 =? l2)%N
  | LFnPtr p1 r1, LFnPtr p2 r2 => list_eqb p1 p2 && lty_eqb r1 r2
  | LAnonStruct m1, LAnonStruct m2 => mem_eqb m1 m2
  | LStruct u1 m1, LStruct u2 m2 => (u1 =? u2)%N && mem_eqb m1 m2
  | LEnum u1 v1, LEnum u2 v2 => (u1 =? u2)%N && list_eqb v1 v2
  | LVariant e1 n1 u1 d1 s1, LVariant e2 n2 u2 d2 s2 =>
      (e1 =? e2)%N && (n1 =? n2)%N && (u1 =? u2)%N && (d1 =? d2)%N && lty_eqb s1 s2
  | LNil, LNil => true
  | LOptional s1, LOptional s2 => lty_eqb s1 s2
  | LErrorUnion e1 p1, LErrorUnion e2 p2 => lty_eqb e1 e2 && lty_eqb p1 p2
  | LVoid, LVoid => true
  | LAlwaysJumps, LAlwaysJumps => true
  | _, _ => false
  end.
