(* Shared library: the type syntax of hir::common::Ty
   (/repo/crates/hir/src/common/ty.rs, `pub enum Ty`) as a nested inductive,
   with a strong induction principle over the nested lists, boolean equality
   and its correctness, a size measure, well-formedness and the small `is_*`
   / `absolute_ty` helpers of `impl Ty`.

   Encoding decisions (all checked against the Rust code):
   - bit widths are [N] exactly like the `u8` in the code: 0 = weak ("{int}",
     "{uint}", "{float}"), 255 = pointer sized (u8::MAX: isize / usize);
   - `Intern<Ty>` is structural sharing only: `Intern`'s pointer equality
     coincides with structural equality, so sub-types are plain sub-terms;
   - opaque keys (Name, FileName, NaiveLoc, ConcreteLambdaLoc, uids) are [N];
     only their equality is ever used by the relations;
   - `ParamTy { ty, comptime, varargs, impossible_to_differentiate }` is
     [(pflags, ty)]; `MemberTy { name, ty }` is [(name, ty)].
   Constructor order follows the Rust enum. *)
From Capy Require Import Common.Util.

Record pflags : Type := mkPF {
  pf_comptime : option N;        (* Option<usize> *)
  pf_varargs : bool;
  pf_impossible : bool           (* impossible_to_differentiate *)
}.

Inductive ty : Type :=
| NotYetResolved
| Unknown
| IInt (w : N)
| UInt (w : N)
| TFloat (w : N)
| TBool
| TStr
| TChar
| AnonArray (n : N) (t : ty)
| Array (n : N) (t : ty)                     (* Ty::ConcreteArray *)
| Slice (t : ty)
| Ptr (m : bool) (t : ty)                    (* Ty::Pointer *)
| Distinct (uid : N) (t : ty)
| TType
| TAny
| RawPtr (m : bool)
| RawSlice
| File (f : N)
| PolyFn (loc : N)                           (* Ty::NaivePolymorphicFunction *)
| Fn (ps : list (pflags * ty)) (ret : ty) (loc : N)   (* Ty::ConcreteFunction *)
| FnPtr (ps : list (pflags * ty)) (ret : ty) (* Ty::FunctionPointer *)
| AnonStruct (ms : list (N * ty))
| Struct (uid : N) (ms : list (N * ty))      (* Ty::ConcreteStruct *)
| Enum (uid : N) (vs : list ty)
| Variant (euid name uid : N) (t : ty) (discr : N)    (* Ty::EnumVariant *)
| Nil
| Optional (t : ty)
| ErrorUnion (e p : ty)
| Void
| AlwaysJumps.

(* ---------------------------------------------------------------------- *)
(* Strong induction principle (the generated one ignores the nested lists) *)

Section TyInd.
  Variable P : ty -> Prop.
  Hypothesis HNotYetResolved : P NotYetResolved.
  Hypothesis HUnknown : P Unknown.
  Hypothesis HIInt : forall w, P (IInt w).
  Hypothesis HUInt : forall w, P (UInt w).
  Hypothesis HTFloat : forall w, P (TFloat w).
  Hypothesis HTBool : P TBool.
  Hypothesis HTStr : P TStr.
  Hypothesis HTChar : P TChar.
  Hypothesis HAnonArray : forall n t, P t -> P (AnonArray n t).
  Hypothesis HArray : forall n t, P t -> P (Array n t).
  Hypothesis HSlice : forall t, P t -> P (Slice t).
  Hypothesis HPtr : forall m t, P t -> P (Ptr m t).
  Hypothesis HDistinct : forall u t, P t -> P (Distinct u t).
  Hypothesis HTType : P TType.
  Hypothesis HTAny : P TAny.
  Hypothesis HRawPtr : forall m, P (RawPtr m).
  Hypothesis HRawSlice : P RawSlice.
  Hypothesis HFile : forall f, P (File f).
  Hypothesis HPolyFn : forall l, P (PolyFn l).
  Hypothesis HFn : forall ps r l, Forall (fun p => P (snd p)) ps -> P r -> P (Fn ps r l).
  Hypothesis HFnPtr : forall ps r, Forall (fun p => P (snd p)) ps -> P r -> P (FnPtr ps r).
  Hypothesis HAnonStruct : forall ms, Forall (fun p => P (snd p)) ms -> P (AnonStruct ms).
  Hypothesis HStruct : forall u ms, Forall (fun p => P (snd p)) ms -> P (Struct u ms).
  Hypothesis HEnum : forall u vs, Forall P vs -> P (Enum u vs).
  Hypothesis HVariant : forall eu nm u t d, P t -> P (Variant eu nm u t d).
  Hypothesis HNil : P Nil.
  Hypothesis HOptional : forall t, P t -> P (Optional t).
  Hypothesis HErrorUnion : forall e p, P e -> P p -> P (ErrorUnion e p).
  Hypothesis HVoid : P Void.
  Hypothesis HAlwaysJumps : P AlwaysJumps.

  Fixpoint ty_ind' (t : ty) : P t :=
    match t with
    | NotYetResolved => HNotYetResolved
    | Unknown => HUnknown
    | IInt w => HIInt w
    | UInt w => HUInt w
    | TFloat w => HTFloat w
    | TBool => HTBool
    | TStr => HTStr
    | TChar => HTChar
    | AnonArray n t => HAnonArray n t (ty_ind' t)
    | Array n t => HArray n t (ty_ind' t)
    | Slice t => HSlice t (ty_ind' t)
    | Ptr m t => HPtr m t (ty_ind' t)
    | Distinct u t => HDistinct u t (ty_ind' t)
    | TType => HTType
    | TAny => HTAny
    | RawPtr m => HRawPtr m
    | RawSlice => HRawSlice
    | File f => HFile f
    | PolyFn l => HPolyFn l
    | Fn ps r l =>
        HFn ps r l
          ((fix go (q : list (pflags * ty)) : Forall (fun p => P (snd p)) q :=
              match q with
              | [] => Forall_nil _
              | x :: q' => Forall_cons x (ty_ind' (snd x)) (go q')
              end) ps) (ty_ind' r)
    | FnPtr ps r =>
        HFnPtr ps r
          ((fix go (q : list (pflags * ty)) : Forall (fun p => P (snd p)) q :=
              match q with
              | [] => Forall_nil _
              | x :: q' => Forall_cons x (ty_ind' (snd x)) (go q')
              end) ps) (ty_ind' r)
    | AnonStruct ms =>
        HAnonStruct ms
          ((fix go (q : list (N * ty)) : Forall (fun p => P (snd p)) q :=
              match q with
              | [] => Forall_nil _
              | x :: q' => Forall_cons x (ty_ind' (snd x)) (go q')
              end) ms)
    | Struct u ms =>
        HStruct u ms
          ((fix go (q : list (N * ty)) : Forall (fun p => P (snd p)) q :=
              match q with
              | [] => Forall_nil _
              | x :: q' => Forall_cons x (ty_ind' (snd x)) (go q')
              end) ms)
    | Enum u vs =>
        HEnum u vs
          ((fix go (q : list ty) : Forall P q :=
              match q with
              | [] => Forall_nil _
              | x :: q' => Forall_cons x (ty_ind' x) (go q')
              end) vs)
    | Variant eu nm u t d => HVariant eu nm u t d (ty_ind' t)
    | Nil => HNil
    | Optional t => HOptional t (ty_ind' t)
    | ErrorUnion e p => HErrorUnion e p (ty_ind' e) (ty_ind' p)
    | Void => HVoid
    | AlwaysJumps => HAlwaysJumps
    end.
End TyInd.

(* ---------------------------------------------------------------------- *)
(* List combinators.  The function argument is a section variable so that the
   combinators reduce to `fun f => fix ...` and the guard checker accepts
   recursive calls of an enclosing fixpoint passed through them. *)

Section ListComb.
  Context {A B : Type}.
  Variable f : A -> B -> bool.
  (* lists have equal length and are pointwise related (Vec == / zip_eq + all) *)
  Fixpoint all2 (l1 : list A) (l2 : list B) : bool :=
    match l1, l2 with
    | [], [] => true
    | x :: r1, y :: r2 => f x y && all2 r1 r2
    | _, _ => false
    end.
End ListComb.

Section Lookup.
  Context {V R : Type}.
  Variable k : V -> R.
  (* FxHashMap built by `.iter().map(|(name, ty)| ..).collect()` then `.get(name)`:
     a later entry with the same name overwrites an earlier one, so the lookup
     finds the LAST entry.  The continuation [k] is applied to the found value
     inside the recursion (needed by structural recursion through the lookup). *)
  Fixpoint lookup_last (n : N) (ms : list (N * V)) : option R :=
    match ms with
    | [] => None
    | (n', v) :: r =>
        match lookup_last n r with
        | Some x => Some x
        | None => if N.eqb n n' then Some (k v) else None
        end
    end.
End Lookup.

Definition has_key {V} (n : N) (ms : list (N * V)) : bool :=
  existsb (fun p => N.eqb n (fst p)) ms.

Lemma lookup_last_none {V R} (k : V -> R) n ms :
  lookup_last k n ms = None <-> has_key n ms = false.
Proof.
  unfold has_key.
  induction ms as [|[n' v] r IH]; cbn [lookup_last existsb fst]; [tauto|].
  destruct (lookup_last k n r).
  - split; [discriminate|]. intro H. apply orb_false_iff in H. destruct H as [_ H].
    apply IH in H. discriminate.
  - destruct IH as [IH _]. rewrite (IH eq_refl), orb_false_r.
    destruct (N.eqb n n'); split; congruence.
Qed.

(* ---------------------------------------------------------------------- *)
(* Boolean equality = derived PartialEq on Ty (structural; Intern compares
   by pointer, which is structural equality for interned values). *)

Definition opt_N_eqb (a b : option N) : bool :=
  match a, b with
  | None, None => true
  | Some x, Some y => N.eqb x y
  | _, _ => false
  end.

Definition pflags_eqb (a b : pflags) : bool :=
  opt_N_eqb (pf_comptime a) (pf_comptime b)
  && Bool.eqb (pf_varargs a) (pf_varargs b)
  && Bool.eqb (pf_impossible a) (pf_impossible b).

Fixpoint ty_eqb (a b : ty) {struct a} : bool :=
  match a, b with
  | NotYetResolved, NotYetResolved => true
  | Unknown, Unknown => true
  | IInt w1, IInt w2 => N.eqb w1 w2
  | UInt w1, UInt w2 => N.eqb w1 w2
  | TFloat w1, TFloat w2 => N.eqb w1 w2
  | TBool, TBool => true
  | TStr, TStr => true
  | TChar, TChar => true
  | AnonArray n1 t1, AnonArray n2 t2 => N.eqb n1 n2 && ty_eqb t1 t2
  | Array n1 t1, Array n2 t2 => N.eqb n1 n2 && ty_eqb t1 t2
  | Slice t1, Slice t2 => ty_eqb t1 t2
  | Ptr m1 t1, Ptr m2 t2 => Bool.eqb m1 m2 && ty_eqb t1 t2
  | Distinct u1 t1, Distinct u2 t2 => N.eqb u1 u2 && ty_eqb t1 t2
  | TType, TType => true
  | TAny, TAny => true
  | RawPtr m1, RawPtr m2 => Bool.eqb m1 m2
  | RawSlice, RawSlice => true
  | File f1, File f2 => N.eqb f1 f2
  | PolyFn l1, PolyFn l2 => N.eqb l1 l2
  | Fn ps1 r1 l1, Fn ps2 r2 l2 =>
      all2 (fun p q => pflags_eqb (fst p) (fst q) && ty_eqb (snd p) (snd q)) ps1 ps2
      && ty_eqb r1 r2 && N.eqb l1 l2
  | FnPtr ps1 r1, FnPtr ps2 r2 =>
      all2 (fun p q => pflags_eqb (fst p) (fst q) && ty_eqb (snd p) (snd q)) ps1 ps2
      && ty_eqb r1 r2
  | AnonStruct ms1, AnonStruct ms2 =>
      all2 (fun p q => N.eqb (fst p) (fst q) && ty_eqb (snd p) (snd q)) ms1 ms2
  | Struct u1 ms1, Struct u2 ms2 =>
      N.eqb u1 u2
      && all2 (fun p q => N.eqb (fst p) (fst q) && ty_eqb (snd p) (snd q)) ms1 ms2
  | Enum u1 vs1, Enum u2 vs2 => N.eqb u1 u2 && all2 ty_eqb vs1 vs2
  | Variant e1 n1 u1 t1 d1, Variant e2 n2 u2 t2 d2 =>
      N.eqb e1 e2 && N.eqb n1 n2 && N.eqb u1 u2 && ty_eqb t1 t2 && N.eqb d1 d2
  | Nil, Nil => true
  | Optional t1, Optional t2 => ty_eqb t1 t2
  | ErrorUnion e1 p1, ErrorUnion e2 p2 => ty_eqb e1 e2 && ty_eqb p1 p2
  | Void, Void => true
  | AlwaysJumps, AlwaysJumps => true
  | _, _ => false
  end.

Definition param_eqb (p q : pflags * ty) : bool :=
  pflags_eqb (fst p) (fst q) && ty_eqb (snd p) (snd q).
(* `Vec<ParamTy> == Vec<ParamTy>` *)
Definition params_eqb (ps1 ps2 : list (pflags * ty)) : bool := all2 param_eqb ps1 ps2.

(* ---------------------------------------------------------------------- *)
(* Size measure (number of constructors) *)

Fixpoint size (t : ty) : nat :=
  match t with
  | AnonArray _ t | Array _ t | Slice t | Ptr _ t | Distinct _ t
  | Variant _ _ _ t _ | Optional t => S (size t)
  | ErrorUnion e p => S (size e + size p)
  | Fn ps r _ | FnPtr ps r =>
      S (size r + (fix go (l : list (pflags * ty)) : nat :=
                     match l with [] => 0 | x :: r => size (snd x) + go r end) ps)
  | AnonStruct ms | Struct _ ms =>
      S ((fix go (l : list (N * ty)) : nat :=
            match l with [] => 0 | x :: r => size (snd x) + go r end) ms)
  | Enum _ vs =>
      S ((fix go (l : list ty) : nat :=
            match l with [] => 0 | x :: r => size x + go r end) vs)
  | _ => 1
  end.

Lemma size_pos t : (1 <= size t)%nat.
Proof. destruct t; cbn; lia. Qed.

(* ---------------------------------------------------------------------- *)
(* Helpers of `impl Ty` *)

(* Ty::absolute_ty: strips Distinct and EnumVariant wrappers *)
Fixpoint absolute_ty (t : ty) : ty :=
  match t with
  | Variant _ _ _ s _ => absolute_ty s
  | Distinct _ s => absolute_ty s
  | _ => t
  end.

(* Ty::absolute_ty_keep_variants *)
Fixpoint absolute_ty_keep_variants (t : ty) : ty :=
  match t with
  | Distinct _ s => absolute_ty_keep_variants s
  | _ => t
  end.

Definition is_any t := match absolute_ty t with TAny => true | _ => false end.
Definition is_raw t := match absolute_ty t with RawPtr _ | RawSlice => true | _ => false end.
Definition is_array t := match absolute_ty t with AnonArray _ _ | Array _ _ => true | _ => false end.
Definition is_slice t := match absolute_ty t with Slice _ | RawSlice => true | _ => false end.
Definition is_pointer t := match absolute_ty t with Ptr _ _ | RawPtr _ => true | _ => false end.
Definition is_function t := match absolute_ty t with Fn _ _ _ | FnPtr _ _ => true | _ => false end.
Definition is_struct t := match absolute_ty t with AnonStruct _ | Struct _ _ => true | _ => false end.
Definition is_nil t := match absolute_ty t with Nil => true | _ => false end.
Definition is_optional t := match absolute_ty t with Optional _ => true | _ => false end.
Definition is_error_union t := match absolute_ty t with ErrorUnion _ _ => true | _ => false end.
Definition is_enum t := match absolute_ty t with Enum _ _ => true | _ => false end.
Definition is_sum_ty t :=
  match absolute_ty t with Enum _ _ | ErrorUnion _ _ | Optional _ => true | _ => false end.
Definition is_non_zero t := is_pointer t.
Definition is_tagged_union t :=
  match absolute_ty t with
  | Enum _ _ | ErrorUnion _ _ => true
  | Optional s => negb (is_non_zero s)
  | _ => false
  end.
Definition is_aggregate t :=
  match absolute_ty t with
  | Struct _ _ | AnonStruct _ | Enum _ _ | ErrorUnion _ _ | Array _ _ | AnonArray _ _
  | Slice _ | RawSlice | TAny => true
  | Optional s => negb (is_non_zero s)
  | _ => false
  end.
Definition is_void t := match absolute_ty t with Void => true | _ => false end.
Definition is_int t := match absolute_ty t with IInt _ | UInt _ => true | _ => false end.
Definition is_float t := match absolute_ty t with TFloat _ => true | _ => false end.
(* no absolute_ty here, as in the code *)
Definition is_distinct t := match t with Distinct _ _ => true | _ => false end.
Definition can_have_a_name t :=
  match t with Distinct _ _ | Struct _ _ | Enum _ _ => true | _ => false end.

(* the three nominal constructors (C13) *)
Definition is_nominal t :=
  match t with Distinct _ _ | Struct _ _ | Variant _ _ _ _ _ => true | _ => false end.

(* Ty::is_unknown: descends only into the constructors the code lists *)
Fixpoint is_unknown (t : ty) : bool :=
  match t with
  | NotYetResolved | Unknown => true
  | Ptr _ s | Array _ s | Distinct _ s | Variant _ _ _ s _ => is_unknown s
  | Struct _ ms => existsb (fun p => is_unknown (snd p)) ms
  | Fn ps r _ => existsb (fun p => is_unknown (snd p)) ps || is_unknown r
  | _ => false
  end.

(* ---------------------------------------------------------------------- *)
(* Well-formedness: widths the front end can produce; enum variant lists hold
   `Variant`s of that enum.  [nodup_names]: member names of every struct are
   pairwise different (separate predicate; the relations' HashMap lookups are
   order sensitive only when it fails). *)

Definition int_width_ok (w : N) : bool :=
  N.eqb w 0 || N.eqb w 8 || N.eqb w 16 || N.eqb w 32 || N.eqb w 64 || N.eqb w 128 || N.eqb w 255.
Definition float_width_ok (w : N) : bool := N.eqb w 0 || N.eqb w 32 || N.eqb w 64.

Definition is_variant_of (u : N) (t : ty) : bool :=
  match t with Variant eu _ _ _ _ => N.eqb eu u | _ => false end.

Fixpoint wf_ty (t : ty) : bool :=
  match t with
  | IInt w | UInt w => int_width_ok w
  | TFloat w => float_width_ok w
  | AnonArray _ s | Array _ s | Slice s | Ptr _ s | Distinct _ s
  | Variant _ _ _ s _ | Optional s => wf_ty s
  | ErrorUnion e p => wf_ty e && wf_ty p
  | Fn ps r _ | FnPtr ps r => forallb (fun p => wf_ty (snd p)) ps && wf_ty r
  | AnonStruct ms | Struct _ ms => forallb (fun p => wf_ty (snd p)) ms
  | Enum u vs => forallb (fun v => is_variant_of u v && wf_ty v) vs
  | _ => true
  end.
Definition WfTy (t : ty) : Prop := wf_ty t = true.

Fixpoint nodupb (l : list N) : bool :=
  match l with
  | [] => true
  | x :: r => negb (existsb (N.eqb x) r) && nodupb r
  end.

Fixpoint nodup_names (t : ty) : bool :=
  match t with
  | AnonArray _ s | Array _ s | Slice s | Ptr _ s | Distinct _ s
  | Variant _ _ _ s _ | Optional s => nodup_names s
  | ErrorUnion e p => nodup_names e && nodup_names p
  | Fn ps r _ | FnPtr ps r => forallb (fun p => nodup_names (snd p)) ps && nodup_names r
  | AnonStruct ms | Struct _ ms =>
      nodupb (map fst ms) && forallb (fun p => nodup_names (snd p)) ms
  | Enum _ vs => forallb nodup_names vs
  | _ => true
  end.

(* ---------------------------------------------------------------------- *)
(* Correctness of the boolean equality *)

Lemma opt_N_eqb_eq a b : opt_N_eqb a b = true <-> a = b.
Proof.
  destruct a, b; cbn; try (split; congruence).
  rewrite N.eqb_eq. split; congruence.
Qed.

Lemma pflags_eqb_eq a b : pflags_eqb a b = true <-> a = b.
Proof.
  destruct a as [c1 v1 i1], b as [c2 v2 i2]. unfold pflags_eqb. cbn.
  rewrite !andb_true_iff, opt_N_eqb_eq, !Bool.eqb_true_iff.
  split; [intros [[-> ->] ->]; reflexivity | intros H; inversion H; auto].
Qed.

Lemma all2_eq {A} (f : A -> A -> bool) (l1 : list A) :
  Forall (fun x => forall y, f x y = true <-> x = y) l1 ->
  forall l2, all2 f l1 l2 = true <-> l1 = l2.
Proof.
  induction 1 as [|x r Hx _ IH]; intros [|y r2]; cbn; try (split; congruence).
  rewrite andb_true_iff, Hx, IH. split; [intros [-> ->]; reflexivity | intros H; inversion H; auto].
Qed.

Lemma ty_eqb_eq : forall a b, ty_eqb a b = true <-> a = b.
Proof.
  induction a using ty_ind'; intros b; destruct b; cbn [ty_eqb];
    try (split; congruence);
    rewrite ?andb_true_iff, ?N.eqb_eq, ?Bool.eqb_true_iff, ?IHa, ?IHa1, ?IHa2;
    try (split; [intuition congruence | intros E; inversion E; auto]).
  - (* Fn *)
    rewrite (all2_eq _ ps).
    + split; [intuition congruence | intros E; inversion E; auto].
    + eapply Forall_impl; [|exact H]. intros [f1 t1] Ht [f2 t2]. cbn in *.
      rewrite andb_true_iff, pflags_eqb_eq, Ht. split; [intros [-> ->]; auto | intros E; inversion E; auto].
  - rewrite (all2_eq _ ps).
    + split; [intuition congruence | intros E; inversion E; auto].
    + eapply Forall_impl; [|exact H]. intros [f1 t1] Ht [f2 t2]. cbn in *.
      rewrite andb_true_iff, pflags_eqb_eq, Ht. split; [intros [-> ->]; auto | intros E; inversion E; auto].
  - rewrite (all2_eq _ ms).
    + split; [intuition congruence | intros E; inversion E; auto].
    + eapply Forall_impl; [|exact H]. intros [f1 t1] Ht [f2 t2]. cbn in *.
      rewrite andb_true_iff, N.eqb_eq, Ht. split; [intros [-> ->]; auto | intros E; inversion E; auto].
  - rewrite (all2_eq _ ms).
    + split; [intuition congruence | intros E; inversion E; auto].
    + eapply Forall_impl; [|exact H]. intros [f1 t1] Ht [f2 t2]. cbn in *.
      rewrite andb_true_iff, N.eqb_eq, Ht. split; [intros [-> ->]; auto | intros E; inversion E; auto].
  - rewrite (all2_eq _ vs).
    + split; [intuition congruence | intros E; inversion E; auto].
    + exact H.
Qed.

Lemma ty_eqb_refl a : ty_eqb a a = true.
Proof. apply ty_eqb_eq. reflexivity. Qed.

Lemma ty_eqb_neq a b : ty_eqb a b = false <-> a <> b.
Proof.
  split.
  - intros H E. apply ty_eqb_eq in E. congruence.
  - intros H. destruct (ty_eqb a b) eqn:E; [apply ty_eqb_eq in E; contradiction | reflexivity].
Qed.

Lemma ty_eqb_sym a b : ty_eqb a b = ty_eqb b a.
Proof.
  destruct (ty_eqb a b) eqn:E.
  - apply ty_eqb_eq in E. subst. symmetry. apply ty_eqb_refl.
  - symmetry. apply ty_eqb_neq. apply ty_eqb_neq in E. congruence.
Qed.

Definition ty_eq_dec (a b : ty) : {a = b} + {a <> b}.
Proof.
  destruct (ty_eqb a b) eqn:E.
  - left. apply ty_eqb_eq. exact E.
  - right. apply ty_eqb_neq. exact E.
Defined.

Lemma param_eqb_eq p q : param_eqb p q = true <-> p = q.
Proof.
  destruct p, q. unfold param_eqb. cbn.
  rewrite andb_true_iff, pflags_eqb_eq, ty_eqb_eq. split; [intros [-> ->]; auto | intros E; inversion E; auto].
Qed.

Lemma params_eqb_eq ps qs : params_eqb ps qs = true <-> ps = qs.
Proof.
  unfold params_eqb. apply all2_eq. apply Forall_forall. intros x _ y. apply param_eqb_eq.
Qed.

(* absolute_ty never returns a wrapper *)
Lemma absolute_ty_not_wrapper t :
  match absolute_ty t with Distinct _ _ | Variant _ _ _ _ _ => False | _ => True end.
Proof. induction t using ty_ind'; cbn; auto. Qed.

Lemma absolute_ty_idem t : absolute_ty (absolute_ty t) = absolute_ty t.
Proof. induction t using ty_ind'; cbn; auto. Qed.

Lemma wf_absolute t : WfTy t -> WfTy (absolute_ty t).
Proof. unfold WfTy. induction t using ty_ind'; cbn; auto. Qed.
