(* Shared definitions: outcome type with explicit crash sites, list helpers. *)
From Coq Require Export List Arith NArith ZArith Lia Bool.
Export ListNotations.

(* Outcome of a modelled Rust function.  A Rust panic / unreachable! / assert!
   / arithmetic overflow that can fire is [Crash site]; fuel exhaustion of a
   fuelled transcription is [OutOfFuel] and is excluded by theorem statements. *)
Inductive result (A : Type) : Type :=
| Ok (a : A)
| Crash (site : N)
| OutOfFuel.
Arguments Ok {A} a.
Arguments Crash {A} site.
Arguments OutOfFuel {A}.

Definition bind {A B} (r : result A) (f : A -> result B) : result B :=
  match r with Ok a => f a | Crash s => Crash s | OutOfFuel => OutOfFuel end.
Notation "'do' x <- r ; k" := (bind r (fun x => k)) (at level 200, x ident, r at level 100, k at level 200).

Definition is_ok {A} (r : result A) : bool := match r with Ok _ => true | _ => false end.

Fixpoint takeWhile {A} (p : A -> bool) (l : list A) : list A :=
  match l with
  | [] => []
  | x :: r => if p x then x :: takeWhile p r else []
  end.

Lemma forallb_lift {A} (p : A -> bool) (l : list A) :
  forallb p l = true -> forall x, In x l -> p x = true.
Proof. intros H x Hx. rewrite forallb_forall in H. auto. Qed.
