(* Thin layer over Flocq (IEEE754.Binary / IEEE754.Bits): IEEE binary32/binary64
   operations on BIT PATTERNS (Z), i.e. the Cranelift float instructions the Capy
   code generator selects.  Everything here is computable (extractable).
   Flocq's real-number layer depends on the classical axioms listed in
   DESIGN.md section 3; files that import this one inherit them, so the integer
   development (Common/Bits.v, Model/NumOps.v, Proofs/NumOpsProofs.v) does not.

   NaN payloads/signs are not specified by Cranelift beyond "a NaN"; consumers
   canonicalise NaNs ([canon32]/[canon64]) before comparing. *)
From Coq Require Import ZArith Lia Bool Reals.
From Flocq Require Import Core.Core IEEE754.Binary IEEE754.Bits.
From Capy Require Import Common.Bits.
Open Scope Z_scope.

Definition Hp32 : FLX.Prec_gt_0 24 := eq_refl.
Definition Hpe32 : BinarySingleNaN.Prec_lt_emax 24 128 := eq_refl.
Definition Hp64 : FLX.Prec_gt_0 53 := eq_refl.
Definition Hpe64 : BinarySingleNaN.Prec_lt_emax 53 1024 := eq_refl.

(* integer -> nearest float (round to nearest, ties to even; overflow -> infinity) *)
Definition of_int32 (z : Z) : binary32 := binary_normalize 24 128 Hp32 Hpe32 BinarySingleNaN.mode_NE z 0 false.
Definition of_int64 (z : Z) : binary64 := binary_normalize 53 1024 Hp64 Hpe64 BinarySingleNaN.mode_NE z 0 false.

(* float -> integer, truncation toward zero; [None] for NaN; infinities are
   reported as +-2^2000 (beyond every integer type) *)
Definition trunc_of {prec emax} (f : binary_float prec emax) : option Z :=
  match f with
  | B754_nan _ _ _ _ _ => None
  | B754_infinity _ _ s => Some (if s then - 2 ^ 2000 else 2 ^ 2000)
  | _ => Some (Btrunc prec emax f)
  end.

Definition clamp (lo hi v : Z) : Z := if v <? lo then lo else if hi <? v then hi else v.

(* fcvt_to_sint_sat / fcvt_to_uint_sat: NaN -> 0, otherwise truncate and saturate *)
Definition to_sint_sat_of (t : option Z) (w : Z) : Z :=
  match t with None => 0 | Some v => wrap w (clamp (smin w) (smax w) v) end.
Definition to_uint_sat_of (t : option Z) (w : Z) : Z :=
  match t with None => 0 | Some v => wrap w (clamp 0 (umax w) v) end.

(* float -> float conversion by re-rounding (exact when widening) *)
Definition nan32 : binary32 := proj1_sig default_nan_pl32.
Definition nan64 : binary64 := proj1_sig default_nan_pl64.
Definition promote (f : binary32) : binary64 :=
  match f with
  | B754_zero _ _ s => B754_zero _ _ s
  | B754_infinity _ _ s => B754_infinity _ _ s
  | B754_nan _ _ _ _ _ => nan64
  | B754_finite _ _ s m e _ => binary_normalize 53 1024 Hp64 Hpe64 BinarySingleNaN.mode_NE (cond_Zopp s (Zpos m)) e s
  end.
Definition demote (f : binary64) : binary32 :=
  match f with
  | B754_zero _ _ s => B754_zero _ _ s
  | B754_infinity _ _ s => B754_infinity _ _ s
  | B754_nan _ _ _ _ _ => nan32
  | B754_finite _ _ s m e _ => binary_normalize 24 128 Hp32 Hpe32 BinarySingleNaN.mode_NE (cond_Zopp s (Zpos m)) e s
  end.

(* ---- on bit patterns ---------------------------------------------------------- *)
Definition is_nan32_bits (x : Z) : bool := is_nan _ _ (b32_of_bits x).
Definition is_nan64_bits (x : Z) : bool := is_nan _ _ (b64_of_bits x).
Definition canon32 (x : Z) : Z := if is_nan32_bits x then 0x7fc00000 else x.
Definition canon64 (x : Z) : Z := if is_nan64_bits x then 0x7ff8000000000000 else x.

Definition fb_of_int32 (z : Z) : Z := bits_of_b32 (of_int32 z).
Definition fb_of_int64 (z : Z) : Z := bits_of_b64 (of_int64 z).
Definition fb_from_sint32 (w bits : Z) : Z := fb_of_int32 (signed w bits).
Definition fb_from_uint32 (w bits : Z) : Z := fb_of_int32 bits.
Definition fb_from_sint64 (w bits : Z) : Z := fb_of_int64 (signed w bits).
Definition fb_from_uint64 (w bits : Z) : Z := fb_of_int64 bits.
Definition fb_trunc32 (x : Z) : option Z := trunc_of (b32_of_bits x).
Definition fb_trunc64 (x : Z) : option Z := trunc_of (b64_of_bits x).
Definition fb_promote (x : Z) : Z := bits_of_b64 (promote (b32_of_bits x)).
Definition fb_demote (x : Z) : Z := bits_of_b32 (demote (b64_of_bits x)).
Definition fb_neg (w x : Z) : Z := Z.lxor x (2 ^ (w - 1)).

Inductive farith := FAdd | FSub | FMul | FDiv.
Definition fb_arith32 (op : farith) (x y : Z) : Z :=
  let a := b32_of_bits x in let b := b32_of_bits y in
  bits_of_b32 (match op with
               | FAdd => b32_plus BinarySingleNaN.mode_NE a b | FSub => b32_minus BinarySingleNaN.mode_NE a b
               | FMul => b32_mult BinarySingleNaN.mode_NE a b | FDiv => b32_div BinarySingleNaN.mode_NE a b end).
Definition fb_arith64 (op : farith) (x y : Z) : Z :=
  let a := b64_of_bits x in let b := b64_of_bits y in
  bits_of_b64 (match op with
               | FAdd => b64_plus BinarySingleNaN.mode_NE a b | FSub => b64_minus BinarySingleNaN.mode_NE a b
               | FMul => b64_mult BinarySingleNaN.mode_NE a b | FDiv => b64_div BinarySingleNaN.mode_NE a b end).
Definition fb_compare32 (x y : Z) : option comparison := b32_compare (b32_of_bits x) (b32_of_bits y).
Definition fb_compare64 (x y : Z) : option comparison := b64_compare (b64_of_bits x) (b64_of_bits y).

(* ---- what "nearest representable float of the integer's full value" means ------- *)
Theorem of_int32_nearest z :
  (Rabs (round radix2 (FLT_exp (-149) 24) (BinarySingleNaN.round_mode BinarySingleNaN.mode_NE) (IZR z)) < bpow radix2 128)%R ->
  B2R 24 128 (of_int32 z) = round radix2 (FLT_exp (-149) 24) (BinarySingleNaN.round_mode BinarySingleNaN.mode_NE) (IZR z)
  /\ is_finite 24 128 (of_int32 z) = true.
Proof.
  intros H. unfold of_int32.
  pose proof (binary_normalize_correct 24 128 Hp32 Hpe32 BinarySingleNaN.mode_NE z 0 false) as C.
  replace (F2R (Float radix2 z 0)) with (IZR z) in C by (unfold F2R; simpl; ring).
  change (SpecFloat.fexp 24 128) with (FLT_exp (-149) 24) in C.
  rewrite Rlt_bool_true in C by exact H. tauto.
Qed.

Theorem of_int64_nearest z :
  (Rabs (round radix2 (FLT_exp (-1074) 53) (BinarySingleNaN.round_mode BinarySingleNaN.mode_NE) (IZR z)) < bpow radix2 1024)%R ->
  B2R 53 1024 (of_int64 z) = round radix2 (FLT_exp (-1074) 53) (BinarySingleNaN.round_mode BinarySingleNaN.mode_NE) (IZR z)
  /\ is_finite 53 1024 (of_int64 z) = true.
Proof.
  intros H. unfold of_int64.
  pose proof (binary_normalize_correct 53 1024 Hp64 Hpe64 BinarySingleNaN.mode_NE z 0 false) as C.
  replace (F2R (Float radix2 z 0)) with (IZR z) in C by (unfold F2R; simpl; ring).
  change (SpecFloat.fexp 53 1024) with (FLT_exp (-1074) 53) in C.
  rewrite Rlt_bool_true in C by exact H. tauto.
Qed.

(* truncation toward zero *)
Theorem trunc_of_correct prec emax (Hpe : BinarySingleNaN.Prec_lt_emax prec emax) (f : binary_float prec emax) v :
  is_finite prec emax f = true -> trunc_of f = Some v ->
  IZR v = round radix2 (FIX_exp 0) Ztrunc (B2R prec emax f).
Proof.
  intros Hf. destruct f; cbn in Hf; try discriminate Hf; cbn [trunc_of]; intros [= <-]; apply Btrunc_correct; exact Hpe.
Qed.
