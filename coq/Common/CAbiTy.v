(* Type syntax shared by the C19 model (Model/Abi.v) and the System V
   specification (Spec/SysV.v): the C-compatible fragment of Capy types that
   the C19 statement quantifies over.  Signedness is not represented: it
   influences neither layout nor register class nor the Cranelift type. *)
From Capy Require Import Common.Util.
Open Scope N_scope.

Inductive scalar : Type :=
| I8 | I16 | I32 | I64        (* i8/u8, i16/u16, i32/u32, i64/u64/isize/usize *)
| F32 | F64
| Ptr                         (* ^T, rawptr, str, function pointers *)
| OptPtr                      (* ?^T / ?rawptr : nullable pointer, not an aggregate *)
| BoolT | CharT.

(* a struct field: a scalar or a (nested) fixed array of scalars *)
Inductive fty : Type :=
| FS (s : scalar)
| FA (n : N) (e : fty).

(* an argument / return type *)
Inductive aty : Type :=
| AS (s : scalar)
| AStruct (fs : list fty).

(* return type: void or a value *)
Inductive rty : Type :=
| RVoid
| RT (t : aty).

Definition scalar_eqb (a b : scalar) : bool :=
  match a, b with
  | I8, I8 | I16, I16 | I32, I32 | I64, I64 | F32, F32 | F64, F64
  | Ptr, Ptr | OptPtr, OptPtr | BoolT, BoolT | CharT, CharT => true
  | _, _ => false
  end.

(* well-formedness used by the theorems: arrays have at least one element
   (C has no zero-length arrays), structs at least one field *)
Fixpoint wf_fty (t : fty) : Prop :=
  match t with
  | FS _ => True
  | FA n e => 1 <= n /\ wf_fty e
  end.

Fixpoint wf_fields (fs : list fty) : Prop :=
  match fs with
  | [] => True
  | f :: r => wf_fty f /\ wf_fields r
  end.

Definition wf_aty (t : aty) : Prop :=
  match t with
  | AS _ => True
  | AStruct fs => fs <> [] /\ wf_fields fs
  end.
