#!/bin/bash
# confirm a seeded change: tools/confirm_seed.sh <worktree with patch applied> <seed dir> <demo test file> <crate> 
# 1. full test suite passes with the patch; 2. demo fails with the patch; 3. demo passes without it.
set -u
wt="$1"; sd="$2"; demo="$3"; crate="$4"
cd "$wt" || exit 2
export CARGO_NET_OFFLINE=true
echo "== suite with patch"; cargo test --workspace --no-fail-fast --offline 2>&1 | grep -E "^test result|FAILED|failed" | grep -v "0 failed" | head
mkdir -p crates/$crate/tests && cp "$sd/$demo" crates/$crate/tests/
t=$(basename "$demo" .rs)
echo "== demo with patch (expect failure)"; cargo test -p $crate --test $t --offline 2>&1 | grep -E "^test result" 
git stash -q -- $(git diff --name-only)
echo "== demo without patch (expect ok)"; cargo test -p $crate --test $t --offline 2>&1 | grep -E "^test result"
git stash pop -q
rm -f crates/$crate/tests/$demo
git status --short
