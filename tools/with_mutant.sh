#!/bin/sh
# Run a command with /repo replaced by a scratch worktree (and, optionally, a
# private /verif/.cache), inside a private mount namespace, so that mutation
# experiments never touch /repo itself nor other checks' build outputs.
#   tools/with_mutant.sh <worktree-dir> <cache-dir|-> <command...>
wt="$1"; cache="$2"; shift 2
if [ "$cache" = "-" ]; then
  exec unshare -m sh -c 'mount --bind "$0" /repo && shift 0 && exec "$@"' "$wt" "$@"
else
  mkdir -p "$cache"
  exec unshare -m sh -c 'wt="$0"; cache="$1"; shift; mount --bind "$wt" /repo && mkdir -p /verif/.cache && mount --bind "$cache" /verif/.cache && exec "$@"' "$wt" "$cache" "$@"
fi
