"""Coq side of a check: build, forbidden-construct scan, Print Assumptions audit,
extraction and OCaml driver build, coqchk (thorough)."""
import glob
import os
import re
import subprocess

from . import common as C

ALLOWED_AXIOMS = {
    # standard-library axioms only; each use is reported in the evidence
    "functional_extensionality_dep",
    "FunctionalExtensionality.functional_extensionality_dep",
    "Coq.Logic.FunctionalExtensionality.functional_extensionality_dep",
    "classic", "Classical_Prop.classic",
    "sig_forall_dec", "ClassicalDedekindReals.sig_forall_dec",
    "sig_not_dec", "ClassicalDedekindReals.sig_not_dec",
}

FORBIDDEN = re.compile(
    r"\bAdmitted\b|\badmit\b|\bAxiom\b|\bAxioms\b|\bParameter\b|\bParameters\b|\bConjecture\b|"
    r"Admit\s+Obligations|Unset\s+Guard|Guard\s+Checking|bypass_check|type-in-type|"
    r"impredicative-set|Unset\s+Positivity|Unset\s+Universe\s+Checking|\bnative_compute\b")


def strip_comments(src):
    out = []
    depth = 0
    i = 0
    n = len(src)
    in_str = False
    while i < n:
        if depth == 0 and src[i] == '"':
            in_str = not in_str
            out.append(src[i])
            i += 1
            continue
        if not in_str and src.startswith("(*", i):
            depth += 1
            i += 2
            continue
        if not in_str and depth > 0 and src.startswith("*)", i):
            depth -= 1
            i += 2
            continue
        if depth == 0:
            out.append(src[i])
        i += 1
    return "".join(out)


def v_files():
    return sorted(glob.glob(os.path.join(C.COQ, "**", "*.v"), recursive=True))


def cone(prop):
    """.v files in the dependency cone of Properties/<prop>.v (from coq_makefile's .Makefile.d);
    None when the dependency file is unavailable."""
    dfile = os.path.join(C.COQ, ".Makefile.d")
    if not os.path.exists(dfile):
        return None
    deps = {}
    for line in open(dfile):
        if ":" not in line:
            continue
        lhs, rhs = line.split(":", 1)
        tgts = lhs.split()
        if not tgts or not tgts[0].endswith(".vo"):
            continue
        key = os.path.normpath(tgts[0])
        deps[key] = [os.path.normpath(x) for x in rhs.split() if x.endswith(".vo")]
    start = os.path.normpath("Properties/%s.vo" % prop)
    if start not in deps:
        return None
    seen = set()
    todo = [start]
    while todo:
        x = todo.pop()
        if x in seen:
            continue
        seen.add(x)
        todo.extend(deps.get(x, []))
    return sorted(os.path.join(C.COQ, x[:-1]) for x in seen)


def scan_forbidden(prop=None):
    """Returns list of (file, line, text) for forbidden constructs (incl. section-less
    Variable/Hypothesis) in the dependency cone of the property (all files if unknown)."""
    bad = []
    files = cone(prop) if prop else None
    if files is None:
        files = v_files()
    if prop:
        ex = os.path.join(C.OCAML, prop, "extract.v")
        files = files + ([ex] if os.path.exists(ex) else [])
    else:
        files = files + sorted(glob.glob(os.path.join(C.OCAML, "*", "extract.v")))
    for f in files:
        if not os.path.exists(f):
            continue
        src = strip_comments(open(f).read())
        depth = 0
        for ln, line in enumerate(src.split("\n"), 1):
            if re.match(r"\s*Section\b", line):
                depth += 1
            if re.match(r"\s*End\b", line) and depth > 0:
                depth -= 1
            if FORBIDDEN.search(line):
                bad.append((f, ln, line.strip()))
            if depth == 0 and re.match(r"\s*(Variable|Variables|Hypothesis|Hypotheses|Context)\b", line):
                bad.append((f, ln, line.strip()))
    proj = open(os.path.join(C.COQ, "_CoqProject")).read()
    if FORBIDDEN.search(proj):
        bad.append(("_CoqProject", 0, "forbidden flag"))
    return bad


def ensure_makefile():
    files = [os.path.relpath(f, C.COQ) for f in v_files()]
    stamp = os.path.join(C.COQ, "_CoqProject.gen")
    want = "\n".join(files)
    have = open(stamp).read() if os.path.exists(stamp) else None
    if have != want or not os.path.exists(os.path.join(C.COQ, "Makefile")):
        C.run(["coq_makefile", "-f", "_CoqProject"] + files + ["-o", "Makefile"], cwd=C.COQ, check=True)
        open(stamp, "w").write(want)


def make(targets, timeout=1800):
    """make the given .vo targets (relative to coq/). Returns (ok, output)."""
    # only the Makefile generation is serialized: a global build lock would let one
    # long-running (or hanging) proof block every other check
    with C.locked("coq-makefile"):
        ensure_makefile()
    rc, out = C.run(["make", "-j%d" % C.NCPU] + list(targets), cwd=C.COQ, timeout=timeout)
    return rc == 0, out


def audit_property(prop, extra_targets=()):
    """Build Properties/<prop>.vo freshly, audit assumptions.
    Returns dict(ok, theorems, closed, axioms, failures, output)."""
    res = {"ok": True, "theorems": [], "axioms": {}, "failures": [], "output": ""}
    pfile = os.path.join(C.COQ, "Properties", prop + ".v")
    src = strip_comments(open(pfile).read())
    thms = re.findall(r"^\s*(?:Theorem|Lemma|Corollary)\s+(\w+)", src, re.M)
    res["theorems"] = thms
    prints = re.findall(r"Print\s+Assumptions\s+(\w+)", src)
    missing = [t for t in thms if t not in prints]
    if missing:
        res["ok"] = False
        res["failures"].append({"kind": "missing-print-assumptions", "theorems": missing})
    # Theorems in Properties files may only be closed by `exact <lemma>.`
    for m in re.finditer(r"(?:Theorem|Lemma|Corollary)\s+(\w+)(.*?)Proof\.(.*?)(Qed|Defined)\.", src, re.S):
        body = m.group(3).strip()
        if not re.fullmatch(r"exact\s+[\w.@'() ]+\.", body):
            res["ok"] = False
            res["failures"].append({"kind": "non-exact-proof-in-properties", "theorem": m.group(1),
                                    "proof": body[:200]})
    with C.locked("coq-makefile"):
        ensure_makefile()
    vo = os.path.join(C.COQ, "Properties", prop + ".vo")
    for ext in (".vo", ".vok", ".vos", ".glob"):
        try:
            os.remove(vo[:-3] + ext)
        except OSError:
            pass
    rc, out = C.run(["make", "-j%d" % C.NCPU, "Properties/%s.vo" % prop] + list(extra_targets),
                    cwd=C.COQ, timeout=3000)
    res["output"] = out[-6000:]
    bad = scan_forbidden(prop)
    res["cone"] = [os.path.relpath(f, C.VERIF) for f in (cone(prop) or [])]
    if bad:
        res["ok"] = False
        res["failures"].append({"kind": "forbidden-construct", "where": ["%s:%d: %s" % b for b in bad[:20]]})
    if rc != 0:
        res["ok"] = False
        m = re.search(r'File "([^"]+)", line (\d+)[^\n]*\n(Error:.*?)(?:\nmake|\Z)', out, re.S)
        res["failures"].append({
            "kind": "coq-build-failed",
            "file": m.group(1) if m else None,
            "line": int(m.group(2)) if m else None,
            "error": (m.group(3)[:1500] if m else out[-1500:]),
        })
        return res
    # parse Print Assumptions blocks in order
    blocks = re.split(r"(?=Closed under the global context|Axioms:)", out)
    blocks = [b for b in blocks if b.startswith("Closed under") or b.startswith("Axioms:")]
    if len(blocks) != len(prints):
        res["ok"] = False
        res["failures"].append({"kind": "print-assumptions-count", "expected": len(prints), "got": len(blocks)})
    for name, b in zip(prints, blocks):
        if b.startswith("Closed"):
            res["axioms"][name] = []
        else:
            axs = [a for a in re.findall(r"^([A-Za-z_][\w.']*)\s*:", b, re.M) if a != "Axioms"]
            res["axioms"][name] = axs
            for a in axs:
                if a not in ALLOWED_AXIOMS and a.split(".")[-1] not in ALLOWED_AXIOMS:
                    res["ok"] = False
                    res["failures"].append({"kind": "unexpected-axiom", "theorem": name, "axiom": a})
    return res


def coqchk(prop, timeout=3000):
    rc, out = C.run(["coqchk", "-silent", "-o", "-Q", ".", "Capy", "Capy.Properties.%s" % prop],
                    cwd=C.COQ, timeout=timeout)
    return rc == 0, out[-3000:]


def build_driver(prop, use_z=False):
    """Extract ocaml/<prop>/extract.v and build ocaml/<prop>/driver. Returns (ok, out, path)."""
    d = os.path.join(C.OCAML, prop)
    gen = os.path.join(d, "gen")
    bld = os.path.join(d, "_build")
    with C.locked("ocaml-" + prop):
        os.makedirs(gen, exist_ok=True)
        os.makedirs(bld, exist_ok=True)
        # staleness: rebuild when any .vo or source is newer than driver
        drv = os.path.join(d, "driver")
        srcs = [os.path.join(d, "extract.v"), os.path.join(d, "driver.ml"),
                os.path.join(C.OCAML, "common", "conv.ml"), os.path.join(C.OCAML, "common", "convz.ml")]
        srcs += glob.glob(os.path.join(C.COQ, "Common", "*.vo")) + glob.glob(os.path.join(C.COQ, "Model", "*.vo")) \
            + glob.glob(os.path.join(C.COQ, "Spec", "*.vo"))
        if os.path.exists(drv) and all(os.path.getmtime(s) <= os.path.getmtime(drv) for s in srcs if os.path.exists(s)):
            return True, "", drv
        for f in glob.glob(os.path.join(gen, "*")):
            os.remove(f)
        rc, out = C.run(["coqc", "-Q", C.COQ, "Capy", "-w", "-all", "-o", os.path.join(gen, "extract.vo"),
                         os.path.join(d, "extract.v")], cwd=gen, timeout=1200)
        if rc != 0:
            return False, out, None
        import shutil
        shutil.copy(os.path.join(C.OCAML, "common", "conv.ml"), bld)
        extra = [os.path.join(bld, "conv.ml")]
        if use_z:
            shutil.copy(os.path.join(C.OCAML, "common", "convz.ml"), bld)
            extra.append(os.path.join(bld, "convz.ml"))
        mls = glob.glob(os.path.join(gen, "*.ml")) + glob.glob(os.path.join(gen, "*.mli"))
        rc, order = C.run(["ocamlfind", "ocamldep", "-sort", "-I", gen] + mls, cwd=d, stderr=subprocess.DEVNULL)
        if rc != 0:
            return False, order, None
        rc, out = C.run(["ocamlfind", "ocamlopt", "-O3", "-w", "-a", "-I", gen, "-I", bld] + order.split()
                        + extra + [os.path.join(d, "driver.ml"), "-o", drv], cwd=d, timeout=1200)
        if rc != 0:
            # -O3 is only accepted by flambda compilers; retry without
            rc, out = C.run(["ocamlfind", "ocamlopt", "-w", "-a", "-I", gen, "-I", bld] + order.split()
                            + extra + [os.path.join(d, "driver.ml"), "-o", drv], cwd=d, timeout=1200)
        return rc == 0, out, drv if rc == 0 else None
