"""Typed program generator, pretty printer (Capy source) and serialiser (extracted
CapyCore interpreter, ocaml/C01/driver) for the CapyCore fragment (coq/Common/CapyCore.v).
Shared by C01 (oracle = Coq interpreter), C04 and C16.

AST = nested python tuples mirroring CapyCore:
  types  ("i", name) | ("bool",) | ("void",) | ("arr", n, t) | ("struct", id, (t, ...)) | ("tvar", n)
         | ("enum", id, (payload t, ...)) | ("opt", t) | ("err", e, t)
  exprs  ("int", ty, z) ("bool", b) ("unit",) ("cp", n) ("var", x) ("bin", op, a, b) ("cmp", op, a, b)
         ("un", op, a) ("land", a, b) ("lor", a, b) ("cast", ty, a) ("if", c, a, b) ("while", l, c, body)
         ("loop", l, body) ("block", l|None, ty, (stmts...), tail) ("break", l, v) ("continue", l)
         ("return", v) ("call", f, (targs...), (cargs...), (args...)) ("arr", ty, (es...)) ("index", a, i)
         ("struct", ty, (es...)) ("field", a, k) ("let", x, ty, mut, e) ("assign", lhs, rhs) ("print", a)
         ("defer", e) ("inject", ty, k, e) ("switch", ty, e, x, (arms...), dflt|None) ("isvar", e, k)
         ("unwrap", e, k) ("try", e)
         ("cplen", n) / ("cplenlit", ty, z): the LENGTH of a local array `[c<n>]u8` (a compile-time use of the comptime
         integer parameter n; in the model it is `usize.(c<n>)`; after substitution `[z]u8`)
  cvals  ("clit", ty, z) | ("cref", n)
  program {"funs": [{"tparams": n, "cparams": [ty], "params": [(x, ty)], "ret": ty, "body": expr}], "main": k}

Generator switches (default False = stay away from defects of the unchanged compiler that other
properties already cover, so that C01 is quiet unless something new breaks):
  cast_signed_to_wider_unsigned   u16.(i8 -1) = 255 (C08) -- fixed in /repo db0172d, so this one is ON by default now
  div128                          128-bit division / remainder is rejected by the backend (C01-1)
  int128_in_signatures            a function with an i128 / u128 parameter or result panics the backend (C01-2)
  dependent_comptime_param_types  `(comptime T: type, comptime k: T)`: k of a later instantiation is checked against the T of
                                  an earlier one (C16-2)
  recursive_generics              a generic function calling itself (same comptime arguments) hangs the compiler (C16-1)
  aggregate_assign_reads_target   `s = S.{a = s.b, b = s.a}` builds the literal in place and reads fields it has
                                  already overwritten (C01-3)
Not in the generated fragment at all: unannotated literals above i32::MAX (C09; every literal is
typed by a cast or an annotation), defer (C03), enums / variant casts (C02).  switch is simply not part
of CapyCore yet (the switch-argument scope defect was fixed in /repo 2904875; nothing is avoided for it)."""

INTS = {"i8": (True, 8), "i16": (True, 16), "i32": (True, 32), "i64": (True, 64), "i128": (True, 128),
        "isize": (True, 64), "u8": (False, 8), "u16": (False, 16), "u32": (False, 32), "u64": (False, 64),
        "u128": (False, 128), "usize": (False, 64)}
INT_NAMES = list(INTS)
BINOPS = {"add": "+", "sub": "-", "mul": "*", "div": "/", "rem": "%", "shl": "<<", "shr": ">>",
          "and": "&", "or": "|", "xor": "~"}
CMPOPS = {"eq": "==", "ne": "!=", "lt": "<", "le": "<=", "gt": ">", "ge": ">="}
USIZE = ("i", "usize")
BOOL = ("bool",)
VOID = ("void",)

DEFAULT_OPTS = {"cast_signed_to_wider_unsigned": True, "div128": False, "int128_in_signatures": False,
                "aggregate_assign_reads_target": False, "recursive_generics": False,
                "dependent_comptime_param_types": False,
                "sum_types": True, "defers": True}


def T(name):
    return ("i", name)


def is_int(t):
    return t[0] == "i" or t[0] == "tvar"


def int_range(t):
    if t[0] == "tvar":
        return (0, 100)
    if t[0] == "dist":
        t = ("i", t[2])
    sg, w = INTS[t[1]]
    return (-(1 << (w - 1)), (1 << (w - 1)) - 1) if sg else (0, (1 << w) - 1)


def variants(t):
    """payload types of a sum type (enum / optional / error union), else None."""
    if t[0] == "enum":
        return list(t[2])
    if t[0] == "opt":
        return [VOID, t[1]]
    if t[0] == "err":
        return [t[1], t[2]]
    return None


def norm(t, z):
    sg, w = INTS[t[1]]
    z &= (1 << w) - 1
    if sg and z >= 1 << (w - 1):
        z -= 1 << w
    return z


# ------------------------------------------------------------------ serialisation
def hexz(z):
    return ("-%x" % -z) if z < 0 else "%x" % z


def ser_ty(t, out):
    k = t[0]
    if k == "i":
        out.append(t[1])
    elif k == "dist":
        out.append(t[2])      # a distinct integer type has the semantics of its base type
    elif k in ("bool", "void"):
        out.append(k)
    elif k == "arr":
        out += ["A", str(t[1])]
        ser_ty(t[2], out)
    elif k == "struct":
        out += ["S", str(t[1]), str(len(t[2]))]
        for f in t[2]:
            ser_ty(f, out)
    elif k == "tvar":
        out += ["V", str(t[1])]
    elif k == "enum":
        out += ["E", str(t[1]), str(len(t[2]))]
        for f in t[2]:
            ser_ty(f, out)
    elif k == "opt":
        out.append("O")
        ser_ty(t[1], out)
    elif k == "err":
        out.append("R")
        ser_ty(t[1], out)
        ser_ty(t[2], out)
    else:
        raise ValueError(t)


def ser_expr(e, out):
    k = e[0]
    if k == "int":
        out.append("int")
        ser_ty(e[1], out)
        out.append(hexz(e[2]))
    elif k == "bool":
        out.append("true" if e[1] else "false")
    elif k == "unit":
        out.append("unit")
    elif k in ("cp", "var", "continue"):
        out += [k, str(e[1])]
    elif k == "cplen":
        out += ["cast", "usize", "cp", str(e[1])]
    elif k == "cplenlit":
        out += ["cast", "usize", "int"]
        ser_ty(e[1], out)
        out.append(hexz(e[2]))
    elif k in ("bin", "cmp"):
        out += [k, e[1]]
        ser_expr(e[2], out)
        ser_expr(e[3], out)
    elif k == "un":
        out += ["un", e[1]]
        ser_expr(e[2], out)
    elif k in ("land", "lor", "index", "assign"):
        out.append(k)
        ser_expr(e[1], out)
        ser_expr(e[2], out)
    elif k == "cast":
        out.append("cast")
        ser_ty(e[1], out)
        ser_expr(e[2], out)
    elif k == "if":
        out.append("if")
        for x in e[1:4]:
            ser_expr(x, out)
    elif k == "while":
        out += ["while", str(e[1])]
        ser_expr(e[2], out)
        ser_expr(e[3], out)
    elif k == "loop":
        out += ["loop", str(e[1])]
        ser_expr(e[2], out)
    elif k == "block":
        out += ["block", "-" if e[1] is None else str(e[1])]
        ser_ty(e[2], out)
        out.append(str(len(e[3])))
        for s in e[3]:
            ser_expr(s, out)
        ser_expr(e[4], out)
    elif k == "break":
        out += ["break", str(e[1])]
        ser_expr(e[2], out)
    elif k in ("return", "print", "defer", "try"):
        out.append(k)
        ser_expr(e[1], out)
    elif k == "inject":
        out.append("inject")
        ser_ty(e[1], out)
        out.append(str(e[2]))
        ser_expr(e[3], out)
    elif k == "switch":
        out.append("switch")
        ser_ty(e[1], out)
        ser_expr(e[2], out)
        out += [str(e[3]), str(len(e[4]))]
        for a in e[4]:
            ser_expr(a, out)
        if e[5] is None:
            out.append("0")
        else:
            out.append("1")
            ser_expr(e[5], out)
    elif k in ("isvar", "unwrap"):
        out.append(k)
        ser_expr(e[1], out)
        out.append(str(e[2]))
    elif k == "call":
        out += ["call", str(e[1]), str(len(e[2]))]
        for t in e[2]:
            ser_ty(t, out)
        out.append(str(len(e[3])))
        for c in e[3]:
            if c[0] == "clit":
                out.append("clit")
                ser_ty(c[1], out)
                out.append(hexz(c[2]))
            else:
                out += ["cref", str(c[1])]
        out.append(str(len(e[4])))
        for a in e[4]:
            ser_expr(a, out)
    elif k in ("arr", "struct"):
        out.append(k)
        ser_ty(e[1], out)
        out.append(str(len(e[2])))
        for a in e[2]:
            ser_expr(a, out)
    elif k == "field":
        out.append("field")
        ser_expr(e[1], out)
        out.append(str(e[2]))
    elif k == "let":
        out += ["let", str(e[1])]
        ser_ty(e[2], out)
        out.append("1" if e[3] else "0")
        ser_expr(e[4], out)
    else:
        raise ValueError(e)


def serialise(prog, fuel=4000):
    out = [str(fuel), str(prog["main"]), str(len(prog["funs"]))]
    for f in prog["funs"]:
        out += ["fun", str(f["tparams"]), str(len(f["cparams"]))]
        for t in f["cparams"]:
            ser_ty(t, out)
        out.append(str(len(f["params"])))
        for x, t in f["params"]:
            out.append(str(x))
            ser_ty(t, out)
        ser_ty(f["ret"], out)
        ser_expr(f["body"], out)
    return " ".join(out)


def parse_outcome(line):
    """Driver output line -> dict(wt, kind, status, fault_kind, fault_fn, events [(tyname|'bool', z)])."""
    parts = line.split()
    if not parts or not parts[0].startswith("WT="):
        return {"wt": None, "kind": "ERROR", "raw": line, "events": []}
    r = {"wt": parts[0] == "WT=1", "kind": parts[1], "events": []}
    rest = parts[2:]
    if r["kind"] == "DONE":
        r["status"] = int(rest[0])
        rest = rest[1:]
    elif r["kind"] == "FAULT":
        r["fault_kind"] = int(rest[0])
        r["fault_fn"] = int(rest[1])
        rest = rest[2:]
    for ev in rest:
        if ev.startswith("B="):
            r["events"].append(("bool", int(ev[2:])))
        else:
            name, hx = ev[1:].split("=")
            r["events"].append((name, -int(hx[1:], 16) if hx.startswith("-") else int(hx, 16)))
    return r


def render_events(events, core_print=False):
    """Text the program prints for the events (printers of PRELUDE; core_print: through core.println)."""
    out = []
    for name, z in events:
        if name == "bool":
            out.append(("true\n" if z else "false\n") if core_print else "%d\n" % z)
        elif INTS[name][1] == 128:
            out.append("%032x\n" % (z & ((1 << 128) - 1)))
        else:
            out.append("%d\n" % z)
    return "".join(out)


FAULT_TEXT = {0: "array index out of bounds", 1: "unwrap"}

# ------------------------------------------------------------------ pretty printer
PRELUDE = """putchar :: (c: u8) -> i32 extern;
pd :: (x: u64) {
    if x >= 10 { pd(x / 10); }
    putchar(u8.(48 + x % 10));
}
ph :: (x: u64) {
    i : u64 = 0;
    while i < 16 {
        d := (x >> (60 - i * 4)) & 15;
        if d < 10 { putchar(u8.(48 + d)); } else { putchar(u8.(87 + d)); }
        i = i + 1;
    }
}
p_u64 :: (x: u64) { pd(x); putchar(10); }
p_i64 :: (x: i64) {
    if x < 0 { putchar(45); pd(u64.(0 - x)); } else { pd(u64.(x)); }
    putchar(10);
}
p_u8 :: (x: u8) { p_u64(u64.(x)); }
p_u16 :: (x: u16) { p_u64(u64.(x)); }
p_u32 :: (x: u32) { p_u64(u64.(x)); }
p_usize :: (x: usize) { p_u64(u64.(x)); }
p_i8 :: (x: i8) { p_i64(i64.(x)); }
p_i16 :: (x: i16) { p_i64(i64.(x)); }
p_i32 :: (x: i32) { p_i64(i64.(x)); }
p_isize :: (x: isize) { p_i64(i64.(x)); }
p_128 :: (hi: u64, lo: u64) { ph(hi); ph(lo); putchar(10); }
p_bool :: (x: bool) { if x { putchar(49); } else { putchar(48); } putchar(10); }
"""


def parts(e):
    """(types mentioned by the node, child expressions)."""
    k = e[0]
    if k == "int":
        return [e[1]], []
    if k in ("bool", "unit", "cp", "var", "continue", "cplen"):
        return [], []
    if k == "cplenlit":
        return [e[1]], []
    if k in ("bin", "cmp"):
        return [], [e[2], e[3]]
    if k == "un":
        return [], [e[2]]
    if k in ("land", "lor", "index", "assign"):
        return [], [e[1], e[2]]
    if k == "cast":
        return [e[1]], [e[2]]
    if k == "if":
        return [], [e[1], e[2], e[3]]
    if k == "while":
        return [], [e[2], e[3]]
    if k == "loop":
        return [], [e[2]]
    if k == "block":
        return [e[2]], list(e[3]) + [e[4]]
    if k == "break":
        return [], [e[2]]
    if k in ("return", "print", "defer", "try", "isvar", "unwrap"):
        return [], [e[1]]
    if k == "inject":
        return [e[1]], [e[3]]
    if k == "switch":
        return [e[1]], [e[2]] + list(e[4]) + ([e[5]] if e[5] is not None else [])
    if k == "call":
        return list(e[2]) + [c[1] for c in e[3] if c[0] == "clit"], list(e[4])
    if k in ("arr", "struct"):
        return [e[1]], list(e[2])
    if k == "field":
        return [], [e[1]]
    if k == "let":
        return [e[2]], [e[4]]
    raise ValueError(e)


def collect_structs(prog):
    found = {}

    def ty(t):
        if t[0] == "arr":
            ty(t[2])
        elif t[0] == "struct":
            for f in t[2]:
                ty(f)
            found.setdefault(t[1], t)
        elif t[0] == "enum":
            for f in t[2]:
                ty(f)
            found.setdefault(("enum", t[1]), t)
        elif t[0] == "opt":
            ty(t[1])
        elif t[0] == "err":
            ty(t[1])
            ty(t[2])
        elif t[0] == "dist":
            found.setdefault(("dist", t[1]), t)

    def ex(e):
        ts, es = parts(e)
        for t in ts:
            ty(t)
        for x in es:
            ex(x)
    for f in prog["funs"]:
        for t in f["cparams"]:
            ty(t)
        for _, t in f["params"]:
            ty(t)
        ty(f["ret"])
        ex(f["body"])
    return found


class Printer:
    def __init__(self, prog, names=None, bare_literals=True, style=0, core_print=False):
        self.core_print = core_print
        self.aliases = {}        # (file, type text) -> alias name, for switch arm patterns
        self.direct_variants = False   # True: enum variant values are written directly into ?T / E!T (C01-5, C01-6)
        self.inline_patterns = False   # True: write array types inline in switch arms (known finding C01-7)
        self.local = None        # set of function indices printed into the main file (two-file mode)
        self.cur_local = False
        self.prog = prog
        self.names = names or {}
        self.bare = bare_literals
        self.style = style
        self.tnames = {}       # per function: tvar index -> name

    def q(self):
        """prefix of names defined in the library file, seen from the function being printed"""
        return "lib." if (self.local is not None and self.cur_local) else ""

    def fname(self, k):
        if k in self.names:
            n = self.names[k]
        else:
            n = "main" if k == self.prog["main"] else "f%d" % k
        if self.local is not None and self.cur_local and k not in self.local:
            return "lib." + n
        return n

    def ty(self, t):
        k = t[0]
        if k == "i":
            return t[1]
        if k in ("bool", "void"):
            return k
        if k == "arr":
            return "[%d]%s" % (t[1], self.ty(t[2]))
        if k == "struct":
            return "%sS%d" % (self.q(), t[1])
        if k == "tvar":
            return "T%d" % t[1]
        if k == "enum":
            return "%sE%d" % (self.q(), t[1])
        if k == "dist":
            return "%sD%d" % (self.q(), t[1])
        if k == "opt":
            return "?%s" % self.ty(t[1])
        if k == "err":
            return "%s!%s" % (self.ty(t[1]), self.ty(t[2]))
        raise ValueError(t)

    def variant_name(self, st, k):
        """How variant k of sum type st is named in #is_variant / #unwrap / switch arms."""
        if st[0] == "enum":
            return "%s.V%d" % (self.ty(st), k)
        vs = variants(st)
        return "nil" if vs[k] == VOID else self.ty(vs[k])

    def lit(self, t, z, bare):
        """Integer literal of type t: literals are non-negative tokens that must fit the type."""
        if t[0] == "tvar":
            body = str(z)
        else:
            lo, hi = int_range(t)
            if z >= 0:
                body = str(z)
            elif z == lo:
                body = "-%d - 1" % (-(z + 1))
            else:
                body = "-%d" % -z
        if bare and self.bare and t[0] != "dist":
            return "(%s)" % body if z < 0 else body
        return "%s.(%s)" % (self.ty(t), body)

    def tail_has_inject(self, e):
        k = e[0]
        if k == "inject":
            return True
        if k == "block":
            return self.tail_has_inject(e[4])
        if k == "if":
            return self.tail_has_inject(e[2]) or self.tail_has_inject(e[3])
        if k == "switch":
            return any(self.tail_has_inject(a) for a in e[4]) or (e[5] is not None and self.tail_has_inject(e[5]))
        return False

    def expr(self, e, ind, scopes, bare=False):
        k = e[0]
        if bare and k in ("if", "block", "switch") and self.tail_has_inject(e):
            # implicit conversions into sum types are only relied upon directly at the typed position
            bare = False
        P = lambda x, b=False: self.expr(x, ind, scopes, b)
        if k == "int":
            return self.lit(e[1], e[2], bare)
        if k == "bool":
            return "true" if e[1] else "false"
        if k == "unit":
            return "{}"
        if k == "cp":
            return "c%d" % e[1]
        if k == "cplen":
            return "{ a_ : [c%d]u8; a_.len }" % e[1]
        if k == "cplenlit":
            return "{ a_ : [%d]u8; a_.len }" % e[2]
        if k == "var":
            return "v%d" % e[1]
        if k in ("bin", "cmp"):
            strong = ("var", "field", "index", "cast", "call")
            ba = e[2][0] == "int" and e[3][0] in strong
            bb = e[3][0] == "int" and e[2][0] in strong
            return "(%s %s %s)" % (P(e[2], ba), (BINOPS if k == "bin" else CMPOPS)[e[1]], P(e[3], bb))
        if k == "un":
            return "(%s%s)" % ({"neg": "-", "not": "~", "bnot": "!"}[e[1]], P(e[2]))
        if k == "land":
            return "(%s && %s)" % (P(e[1]), P(e[2]))
        if k == "lor":
            return "(%s || %s)" % (P(e[1]), P(e[2]))
        if k == "cast":
            return "%s.(%s)" % (self.ty(e[1]), P(e[2]))
        if k == "if":
            s = "if %s %s" % (P(e[1]), self.braced(e[2], ind, scopes, bare))
            if e[3] != ("unit",) and e[3] != ("block", None, VOID, (), ("unit",)):
                s += " else %s" % self.braced(e[3], ind, scopes, bare)
            return s
        if k == "while":
            return "`l%d: while %s %s" % (e[1], P(e[2]), self.braced(e[3], ind, scopes + [e[1]]))
        if k == "loop":
            return "`l%d: loop %s" % (e[1], self.braced(e[2], ind, scopes + [e[1]]))
        if k == "block":
            lab = "" if e[1] is None else "`l%d: " % e[1]
            return lab + self.block_body(e, ind, scopes + ([e[1]] if e[1] is not None else []), bare)
        if k == "break":
            bare_ok = scopes and scopes[-1] == e[1] and e[2] == ("unit",) and (e[1] + self.style) % 2 == 0
            if bare_ok:
                return "break"
            if e[2] == ("unit",):
                return "break `l%d" % e[1]
            return "break `l%d %s" % (e[1], P(e[2]))
        if k == "continue":
            if scopes and scopes[-1] == e[1] and (e[1] + self.style) % 2 == 0:
                return "continue"
            return "continue `l%d" % e[1]
        if k == "return":
            return "return" if e[1] == ("unit",) else "return %s" % P(e[1], True)
        if k == "call":
            args = [self.ty(t) for t in e[2]]
            for c in e[3]:
                args.append(self.lit(c[1], c[2], True) if c[0] == "clit" else "c%d" % c[1])
            args += [P(a, True) for a in e[4]]
            return "%s(%s)" % (self.fname(e[1]), ", ".join(args))
        if k == "arr":
            return "%s.[%s]" % (self.ty(e[1]), ", ".join(P(a, True) for a in e[2]))
        if k == "index":
            return "%s[%s]" % (self.postfix_base(e[1], ind, scopes), P(e[2], True))
        if k == "struct":
            return "%s.{%s}" % (self.ty(e[1]), ", ".join("m%d = %s" % (i, P(a, True)) for i, a in enumerate(e[2])))
        if k == "field":
            return "%s.m%d" % (self.postfix_base(e[1], ind, scopes), e[2])
        if k == "assign":
            return "%s = %s" % (P(e[1]), P(e[2], True))
        if k == "print":
            t = self.print_ty.get(id(e))
            if t in ("p_i128", "p_u128"):
                # 128-bit values cannot be passed to functions (known finding C01-2): print the two halves
                return "{ pt_ := %s; %sp_128(u64.(pt_ >> 64), u64.(pt_)); }" % (P(e[1]), self.q())
            if self.core_print and t:
                return "core.println(%s)" % P(e[1])
            if t and self.q():
                t = self.q() + t
            return "%s(%s)" % (t, P(e[1])) if t else "p_ERR(%s)" % P(e[1])
        if k == "raw":
            return e[1]
        if k == "defer":
            d = e[1]
            if d[0] == "block" and d[1] is None:
                return "defer %s" % self.block_body(d, ind, scopes)
            if d[0] in ("print", "call"):
                return "defer %s" % P(d)
            return "defer { %s; }" % P(d)
        if k == "inject":
            t, kk, a = e[1], e[2], e[3]
            if t[0] == "enum":
                inner = "%s.V%d" % (self.ty(t), kk)
                if t[2][kk] != VOID:
                    inner += ".(%s)" % P(a, a[0] != "inject")
                if bare and (self.direct_variants or (kk + self.style) % 2 == 0):
                    return inner
                return "%s.(%s)" % (self.ty(t), inner)
            # optionals / error unions: the payload is printed self-typed (implicit conversions of
            # variant values into ?T / E!T are defect-prone: C01-5, C01-6)
            inner = "nil" if variants(t)[kk] == VOID else P(a, self.direct_variants)
            if bare:
                return inner
            return "%s.(%s)" % (self.ty(t), inner)
        if k == "switch":
            t, a, x, arms, dflt, st = e[1], e[2], e[3], e[4], e[5], e[6]
            vs = variants(st)
            pad = "    " * (ind + 1)
            lines = []
            for i, arm in enumerate(arms):
                if st[0] == "enum":
                    pat = ".V%d" % i
                    if vs[i] != VOID:
                        conv = ("let", x, vs[i], False, ("raw", "%s.(v%d)" % (self.ty(vs[i]), x)))
                        if arm[0] == "block" and arm[1] is None:
                            arm = ("block", None, arm[2], (conv,) + tuple(arm[3]), arm[4])
                        else:
                            arm = ("block", None, t, (conv,), arm)
                else:
                    pat = self.variant_name(st, i)
                    if vs[i][0] == "arr" and not self.inline_patterns:
                        # `[2]usize => ..` with the argument used panics the checker (C01-7): name the type
                        key = (self.cur_local, pat)
                        if key not in self.aliases:
                            self.aliases[key] = "A%d" % (len(self.aliases) + 1)
                        pat = self.aliases[key]
                lines.append("%s%s => %s," % (pad, pat, self.braced(arm, ind + 1, scopes, bare)))
            if dflt is not None:
                lines.append("%s_ => %s," % (pad, self.braced(dflt, ind + 1, scopes, bare)))
            order = list(range(len(arms)))
            if self.style % 2 == 1:
                order.reverse()
            body = [lines[i] for i in order] + lines[len(arms):]
            return "switch v%d in %s {\n%s\n%s}" % (x, P(a), "\n".join(body), "    " * ind)
        if k == "isvar":
            return "#is_variant(%s, %s)" % (P(e[1]), self.variant_name(e[3], e[2]))
        if k == "unwrap":
            st = e[3]
            u = "#unwrap(%s, %s)" % (P(e[1]), self.variant_name(st, e[2]))
            if st[0] == "enum":
                return "%s.(%s)" % (self.ty(variants(st)[e[2]]), u)
            return u
        if k == "try":
            return "%s.try" % self.postfix_base(e[1], ind, scopes)
        if k == "let":
            x, t, m, v = e[1:5]
            form = (x + self.style) % 3
            if form == 0 and v[0] not in ("int", "inject", "switch", "raw") and t[0] not in ("tvar", "opt", "err", "enum"):
                return "v%d :%s %s" % (x, "=" if m else ":", P(v))
            return "v%d : %s %s %s" % (x, self.ty(t), "=" if m else ":", P(v, True))
        raise ValueError(e)

    def postfix_base(self, e, ind, scopes):
        s = self.expr(e, ind, scopes)
        if e[0] in ("var", "index", "field", "call", "unwrap"):
            return s
        return "(%s)" % s

    def braced(self, e, ind, scopes, bare=False):
        if e[0] == "block" and e[1] is None:
            return self.block_body(e, ind, scopes, bare)
        return "{ %s }" % self.expr(e, ind, scopes, bare)

    def block_body(self, e, ind, scopes, bare=False):
        pad = "    " * (ind + 1)
        lines = []
        blocky = []
        for s in e[3]:
            txt = self.expr(s, ind + 1, scopes)
            lines.append(pad + txt)
            blocky.append(s[0] in ("if", "while", "loop", "block", "switch"))
        if e[4] != ("unit",):
            lines.append(pad + self.expr(e[4], ind + 1, scopes, bare))
        for i, b in enumerate(blocky):
            # a block-like statement needs no `;` unless the next item would be parsed as its continuation
            nxt = lines[i + 1].lstrip() if i + 1 < len(lines) else ""
            if not b or nxt[:1] in ("(", "-", "~", "!", "[", ".") or (i + self.style) % 4 == 0:
                lines[i] += ";"
        if not lines:
            return "{}"
        return "{\n" + "\n".join(lines) + "\n" + "    " * ind + "}"

    def decls(self):
        out = []
        decls = collect_structs(self.prog)
        for sid, st in sorted((k, v) for k, v in decls.items() if not isinstance(k, tuple)):
            out.append("S%d :: struct { %s };" % (sid, ", ".join("m%d: %s" % (i, self.ty(f)) for i, f in enumerate(st[2]))))
        for (_, eid), et in sorted((k, v) for k, v in decls.items() if isinstance(k, tuple) and k[0] == "enum"):
            out.append("E%d :: enum { %s };" % (eid, ", ".join(("V%d" % i) if f == VOID else "V%d: %s" % (i, self.ty(f))
                                                                for i, f in enumerate(et[2]))))
        for (_, did), dt in sorted((k, v) for k, v in decls.items() if isinstance(k, tuple) and k[0] == "dist"):
            out.append("D%d :: distinct %s;" % (did, dt[2]))
        return out

    def fun_text(self, k):
        f = self.prog["funs"][k]
        ps = ["comptime T%d: type" % i for i in range(f["tparams"])]
        ps += ["comptime c%d: %s" % (i, self.ty(t)) for i, t in enumerate(f["cparams"])]
        ps += ["v%d: %s" % (x, self.ty(t)) for x, t in f["params"]]
        ret = "" if f["ret"] == VOID else " -> %s" % self.ty(f["ret"])
        body = f["body"]
        if not (body[0] == "block" and body[1] is None):
            body = ("block", None, f["ret"], (), body)
        n = self.names.get(k) or ("main" if k == self.prog["main"] else "f%d" % k)
        return "%s :: (%s)%s %s" % (n, ", ".join(ps), ret, self.block_body(body, 0, [], True))

    def source(self, print_ty):
        """print_ty: id(print expr) -> printer function name (filled by annotate_prints)."""
        self.print_ty = print_ty
        out = [('core :: #mod("core");\n' if self.core_print else "") + PRELUDE]
        out += self.decls()
        for k in range(len(self.prog["funs"])):
            out.append(self.fun_text(k))
        out += ["%s :: %s;" % (n, t) for (_, t), n in self.aliases.items()]
        return "\n".join(out) + "\n"

    def sources(self, print_ty, local):
        """Two files: {"p.capy": functions in `local` (they see everything else as lib.X),
        "lib.capy": prelude, type declarations and all other functions}."""
        self.print_ty = print_ty
        self.local = set(local)
        self.cur_local = False
        lib = [PRELUDE] + self.decls()
        for k in range(len(self.prog["funs"])):
            if k not in self.local:
                lib.append(self.fun_text(k))
        self.cur_local = True
        main = ['lib :: #import("lib.capy");']
        for k in range(len(self.prog["funs"])):
            if k in self.local:
                main.append(self.fun_text(k))
        self.cur_local = False
        lib += ["%s :: %s;" % (n, t) for (loc, t), n in self.aliases.items() if not loc]
        main += ["%s :: %s;" % (n, t) for (loc, t), n in self.aliases.items() if loc]
        return {"p.capy": "\n".join(main) + "\n", "lib.capy": "\n".join(lib) + "\n"}


# ------------------------------------------------------------------ static types (for printers)
def type_of(prog, f, e, G, tenv=None):
    """Static type of expression e in function f (G: list of (x, ty) innermost first)."""
    k = e[0]
    if k == "int":
        return e[1]
    if k in ("bool", "cmp", "land", "lor"):
        return BOOL
    if k in ("cplen", "cplenlit"):
        return USIZE
    if k == "cp":
        return f["cparams"][e[1]]
    if k == "var":
        for x, t in G:
            if x == e[1]:
                return t
        raise KeyError(e)
    if k == "bin":
        return type_of(prog, f, e[2], G)
    if k == "un":
        return BOOL if e[1] == "bnot" else type_of(prog, f, e[2], G)
    if k == "cast":
        return e[1]
    if k == "if":
        return type_of(prog, f, e[2], G)
    if k == "block":
        return e[2]
    if k == "call":
        g = prog["funs"][e[1]]
        return subst_ty(list(e[2]), g["ret"]) if e[2] else g["ret"]
    if k == "arr":
        return ("arr", len(e[2]), e[1])
    if k == "index":
        return type_of(prog, f, e[1], G)[2]
    if k == "struct":
        return e[1]
    if k == "field":
        return type_of(prog, f, e[1], G)[2][e[2]]
    if k in ("inject", "switch"):
        return e[1]
    if k == "isvar":
        return BOOL
    if k == "unwrap":
        return variants(e[3])[e[2]]
    if k == "try":
        return variants(type_of(prog, f, e[1], G))[1]
    return VOID


def annotate_prints(prog):
    """id(print node) -> printer name, by walking every function with its typing context."""
    res = {}

    def walk(f, e, G):
        k = e[0]
        if k == "print":
            t = type_of(prog, f, e[1], G)
            res[id(e)] = "p_bool" if t == BOOL else ("p_T" if t[0] in ("tvar", "dist") else "p_" + t[1])
            walk(f, e[1], G)
        elif k == "block":
            G2 = list(G)
            for s in e[3]:
                if s[0] == "let":
                    walk(f, s[4], G2)
                    G2 = [(s[1], s[2])] + G2
                else:
                    walk(f, s, G2)
            walk(f, e[4], G2)
        elif k == "switch":
            walk(f, e[2], G)
            vs = variants(e[6])
            for i, a in enumerate(e[4]):
                walk(f, a, [(e[3], vs[i])] + list(G))
            if e[5] is not None:
                walk(f, e[5], G)
        else:
            for x in parts(e)[1]:
                walk(f, x, G)
    for f in prog["funs"]:
        walk(f, f["body"], [(x, t) for x, t in reversed(f["params"])])
    return res


def pretty_files(prog, local, names=None, style=0):
    return Printer(prog, names, True, style).sources(annotate_prints(prog), local)


def pretty(prog, names=None, bare_literals=True, style=0, core_print=False, inline_patterns=False, direct_variants=False):
    pr = Printer(prog, names, bare_literals, style, core_print)
    pr.inline_patterns = inline_patterns
    pr.direct_variants = direct_variants
    return pr.source(annotate_prints(prog))


# ------------------------------------------------------------------ substitution (mirror of Model/Generics.v)
def subst_ty(ts, t):
    k = t[0]
    if k == "arr":
        return ("arr", t[1], subst_ty(ts, t[2]))
    if k == "struct":
        return ("struct", t[1], tuple(subst_ty(ts, f) for f in t[2]))
    if k == "tvar":
        return ts[t[1]] if t[1] < len(ts) else t
    if k == "enum":
        return ("enum", t[1], tuple(subst_ty(ts, f) for f in t[2]))
    if k == "opt":
        return ("opt", subst_ty(ts, t[1]))
    if k == "err":
        return ("err", subst_ty(ts, t[1]), subst_ty(ts, t[2]))
    return t


def subst_expr(ts, cs, e):
    """cs: list of (ty, z) comptime integer arguments."""
    k = e[0]
    S = lambda x: subst_expr(ts, cs, x)
    if k == "int":
        return ("int", subst_ty(ts, e[1]), e[2])
    if k == "cp":
        return ("int", cs[e[1]][0], cs[e[1]][1]) if e[1] < len(cs) else e
    if k == "cplen":
        return ("cplenlit", cs[e[1]][0], cs[e[1]][1]) if e[1] < len(cs) else e
    if k == "cplenlit":
        return ("cplenlit", subst_ty(ts, e[1]), e[2])
    if k in ("bool", "unit", "var", "continue"):
        return e
    if k in ("bin", "cmp"):
        return (k, e[1], S(e[2]), S(e[3]))
    if k == "un":
        return (k, e[1], S(e[2]))
    if k in ("land", "lor", "index", "assign"):
        return (k, S(e[1]), S(e[2]))
    if k == "cast":
        return (k, subst_ty(ts, e[1]), S(e[2]))
    if k == "if":
        return (k, S(e[1]), S(e[2]), S(e[3]))
    if k == "while":
        return (k, e[1], S(e[2]), S(e[3]))
    if k == "loop":
        return (k, e[1], S(e[2]))
    if k == "block":
        return (k, e[1], subst_ty(ts, e[2]), tuple(S(s) for s in e[3]), S(e[4]))
    if k == "break":
        return (k, e[1], S(e[2]))
    if k in ("return", "print", "defer", "try"):
        return (k, S(e[1]))
    if k == "inject":
        return (k, subst_ty(ts, e[1]), e[2], S(e[3]))
    if k == "switch":
        return (k, subst_ty(ts, e[1]), S(e[2]), e[3], tuple(S(a) for a in e[4]), None if e[5] is None else S(e[5]),
                subst_ty(ts, e[6]))
    if k in ("isvar", "unwrap"):
        return (k, S(e[1]), e[2], subst_ty(ts, e[3]))
    if k == "call":
        cargs = tuple(("clit", subst_ty(ts, c[1]), c[2]) if c[0] == "clit"
                      else (("clit", cs[c[1]][0], cs[c[1]][1]) if c[1] < len(cs) else c) for c in e[3])
        return (k, e[1], tuple(subst_ty(ts, t) for t in e[2]), cargs, tuple(S(a) for a in e[4]))
    if k in ("arr", "struct"):
        return (k, subst_ty(ts, e[1]), tuple(S(a) for a in e[2]))
    if k == "field":
        return (k, S(e[1]), e[2])
    if k == "let":
        return (k, e[1], subst_ty(ts, e[2]), e[3], S(e[4]))
    raise ValueError(e)


def subst_fun(ts, cs, f):
    return {"tparams": 0, "cparams": [], "params": [(x, subst_ty(ts, t)) for x, t in f["params"]],
            "ret": subst_ty(ts, f["ret"]), "body": subst_expr(ts, cs, f["body"])}


# ------------------------------------------------------------------ generator
class Ctx:
    def __init__(self, fidx, ret):
        self.fidx = fidx
        self.ret = ret
        self.vars = []          # (x, ty, mutable, protected) innermost last
        self.labels = []        # (l, is_loop, ty)
        self.iters = 1          # product of enclosing loop bounds
        self.hidden = set()     # variables that may not be mentioned right now
        self.in_defer = False

    def push(self):
        return len(self.vars)

    def pop(self, mark):
        del self.vars[mark:]


class Gen:
    """Random well-typed CapyCore programs within C01's bounds (depth <= 6, <= 12 globals,
    <= 40 statements per function, loops <= 64 iterations)."""

    def __init__(self, rng, opts=None, int_names=None, max_funs=4, max_stmts=9):
        self.r = rng
        self.o = dict(DEFAULT_OPTS)
        self.o.update(opts or {})
        self.int_names = int_names or INT_NAMES
        self.max_funs = max_funs
        self.max_stmts = max_stmts
        self.nvar = 0
        self.nlab = 0
        self.structs = []
        self.enums = []
        self.funs = []
        self.sigs = []          # (params tys, ret, recursive?)
        self.hist = {}
        self.tvars = []         # integer-like comptime type parameters of the function being generated
        self.opaque = []        # comptime type parameters used opaquely (instantiated with structs / enums)
        self.dists = []         # distinct integer types available as comptime type arguments
        self.cparams = []       # types of its comptime integer parameters
        self.gsigs = {}         # generic function index -> (tparams, cparams)

    # -- helpers
    def count(self, k):
        self.hist[k] = self.hist.get(k, 0) + 1

    def fresh(self):
        self.nvar += 1
        return self.nvar

    def label(self):
        self.nlab += 1
        return self.nlab

    def int_ty(self, small_bias=True, concrete=False):
        if self.tvars and not concrete and self.r.chance(2, 5):
            return self.r.choice(self.tvars)
        return T(self.r.choice(self.int_names))

    def gen_struct_types(self):
        n = self.r.below(4)
        for i in range(n):
            k = self.r.range(1, 3)
            fs = tuple(self.field_ty(1) for _ in range(k))
            self.structs.append(("struct", i + 1, fs))

    def gen_enum_types(self):
        if not self.o["sum_types"]:
            return
        for i in range(self.r.below(3)):
            vs = []
            for _ in range(self.r.range(2, 4)):
                x = self.r.below(10)
                if x < 3:
                    vs.append(VOID)
                elif x < 6:
                    vs.append(self.int_ty(concrete=True))
                elif x < 7:
                    vs.append(BOOL)
                elif x < 8 and self.structs:
                    vs.append(self.r.choice(self.structs))
                elif x < 9:
                    vs.append(("arr", self.r.range(1, 3), self.int_ty(concrete=True)))
                elif self.enums:
                    vs.append(self.r.choice(self.enums))
                else:
                    vs.append(VOID)
            self.enums.append(("enum", i + 1, tuple(vs)))

    def sum_ty(self):
        """A random enum / optional / error-union type (None when sum types are switched off)."""
        if not self.o["sum_types"]:
            return None
        x = self.r.below(10)
        if x < 4 and self.enums:
            return self.r.choice(self.enums)
        if x < 7:
            t = self.field_ty(1) if self.r.chance(2, 3) else (self.r.choice(self.enums) if self.enums else self.int_ty(concrete=True))
            return ("opt", t)
        errs = self.enums + self.structs
        if errs:
            # the error type must not be "too similar" to the payload type: enums / structs vs scalars, arrays
            pay = self.int_ty(concrete=True) if self.r.chance(2, 3) else self.r.choice([BOOL, ("arr", 2, self.int_ty(concrete=True))])
            return ("err", self.r.choice(errs), pay)
        return ("opt", self.int_ty(concrete=True))

    def field_ty(self, depth):
        x = self.r.below(10)
        if x < 6 or depth > 2:
            return self.int_ty() if self.r.chance(5, 6) else BOOL
        if x < 8:
            return ("arr", self.r.range(1, 4), self.field_ty(depth + 1))
        if self.structs:
            return self.r.choice(self.structs)
        return self.int_ty()

    def any_ty(self, depth=0):
        if self.o["sum_types"] and not self.tvars and self.r.chance(1, 7):
            st = self.sum_ty()
            if st:
                return st
        x = self.r.below(12)
        if x < 7 or depth > 1:
            return self.int_ty()
        if x < 8:
            return BOOL
        if x < 10:
            return ("arr", self.r.range(1, 5), self.any_ty(depth + 1) if self.r.chance(1, 3) else self.int_ty())
        if self.structs:
            return self.r.choice(self.structs)
        return self.int_ty()

    def sig_ty(self):
        for _ in range(20):
            t = self.any_ty()
            if self.o["int128_in_signatures"] or not (t[0] == "i" and INTS[t[1]][1] == 128):
                return t
        return T("i32")

    def lit(self, t):
        lo, hi = int_range(t)
        if t[0] == "i" and INTS[t[1]][1] == 128:
            lo, hi = max(lo, -(1 << 63) + 1), (1 << 64) - 1       # literal tokens are at most u64::MAX (/repo deaaaeb)
        if t[0] == "i" and INTS[t[1]][1] == 64 and not INTS[t[1]][0]:
            hi = (1 << 64) - 1
        x = self.r.below(10)
        if x < 4:
            z = self.r.range(0, 9)
        elif x < 6:
            z = self.r.choice([lo, hi, lo + 1, hi - 1, 0, 1])
        elif x < 8:
            z = self.r.range(0, 200) - 100
        else:
            span = hi - lo + 1
            z = lo + (self.r.next() * (1 << 64) + self.r.next()) % span
        z = min(max(z, lo), hi)
        return ("int", t, z)

    # -- expressions
    def visible(self, ctx):
        seen = set()
        res = []
        for x, t, m, p in reversed(ctx.vars):
            if x not in seen:
                seen.add(x)
                if x not in ctx.hidden:
                    res.append((x, t))
        return res

    def paths(self, ctx, want, mutable_only=False):
        """Place expressions of type `want` rooted at variables in scope: list of (expr, root)."""
        res = []
        seen = set()
        for x, t, m, prot in reversed(ctx.vars):
            if x in seen:
                continue
            seen.add(x)
            if x in ctx.hidden or (mutable_only and (not m or prot)):
                continue
            self._paths(("var", x), t, want, res, 0)
        return res

    def _paths(self, e, t, want, res, depth):
        if t == want:
            res.append(e)
        if depth > 3:
            return
        if t[0] == "arr":
            idx = ("int", USIZE, self.r.below(t[1]))
            self._paths(("index", e, idx), t[2], want, res, depth + 1)
        elif t[0] == "struct":
            for k, ft in enumerate(t[2]):
                self._paths(("field", e, k), ft, want, res, depth + 1)

    def index_expr(self, ctx, n, depth):
        """usize expression used to index an array of length n (mostly in range)."""
        x = self.r.below(40)
        if x < 22:
            return ("int", USIZE, self.r.below(n))
        if x < 37:
            ut = T(self.r.choice([u for u in ("u8", "u16", "u32", "u64", "usize") if u in self.int_names] or ["usize"]))
            e = self.expr(ctx, ut, depth + 1, pure=True)
            if ut != USIZE:
                e = ("cast", USIZE, e)
            return ("bin", "rem", e, ("int", USIZE, n))
        if x < 39:
            return ("int", USIZE, self.r.below(n))
        ivs = [(v, vt) for v, vt in self.visible(ctx) if vt[0] == "i" and not INTS[vt[1]][0] and INTS[vt[1]][1] <= 64]
        if not ivs:
            return ("int", USIZE, self.r.below(n))
        self.count("maybe_oob_index")
        v, vt = self.r.choice(ivs)
        e = ("var", v) if vt == USIZE else ("cast", USIZE, ("var", v))
        return ("bin", "add", ("bin", "rem", e, ("int", USIZE, n)), ("int", USIZE, n + self.r.below(2)))

    def divisor(self, ctx, t, depth):
        if self.r.chance(1, 2):
            lo, hi = int_range(t)
            z = self.r.choice([1, 2, 3, 5, 7, 10, 16, 100, -2, -3, -7])
            if z < lo or z > hi:
                z = 3
            return ("int", t, z)
        e = self.expr(ctx, t, depth + 1, pure=True)
        return ("bin", "add", ("bin", "and", e, ("int", t, 7)), ("int", t, 1))

    def cast_sources(self, t):
        res = []
        if t[0] == "tvar":
            # the instantiation may be wider and unsigned: only unsigned sources are free of the C08 defect
            return [T(n) for n in self.int_names if not INTS[n][0] or self.o["cast_signed_to_wider_unsigned"]]
        if INTS[t[1]][0] or self.o["cast_signed_to_wider_unsigned"]:
            res += list(self.tvars)          # any source may be cast to a signed type
        for n in self.int_names:
            s = T(n)
            if s == t:
                continue
            sg, w = INTS[n]
            tg, tw = INTS[t[1]]
            if sg and not tg and tw > w and not self.o["cast_signed_to_wider_unsigned"]:
                continue
            res.append(s)
        return res

    def expr(self, ctx, t, depth, pure=False, top=False):
        """Expression of type t.  pure: no calls / blocks (no side effects on variables or output)."""
        r = self.r
        k = t[0]
        if t in self.opaque:
            cs = self.paths(ctx, t)
            if len(cs) >= 2 and depth < 3 and r.chance(1, 3):
                return ("if", self.expr(ctx, BOOL, depth + 1, True), self.wrap(r.choice(cs), t), self.wrap(r.choice(cs), t))
            return r.choice(cs)
        leaf = depth >= 4 or r.chance(1, 4)
        cands = self.paths(ctx, t) + [("cp", i) for i, ct in enumerate(self.cparams) if ct == t]
        if k == "tvar" or k == "i":
            if leaf:
                if cands and r.chance(4, 5):
                    return r.choice(cands)
                return self.lit(t)
            x = r.below(100)
            if x < 38:
                op = r.choice(["add", "sub", "mul", "add", "sub", "mul", "and", "or", "xor", "shl", "shr", "div", "rem"])
                self.count("bin:" + op)
                a = self.expr(ctx, t, depth + 1, pure)
                if op in ("div", "rem"):
                    if k == "i" and INTS[t[1]][1] == 128 and not self.o["div128"]:
                        op = "mul"
                        b = self.expr(ctx, t, depth + 1, pure)
                    else:
                        b = self.divisor(ctx, t, depth)
                elif op in ("shl", "shr") and r.chance(2, 3):
                    b = ("int", t, r.range(0, min(int_range(t)[1], 2 * (INTS[t[1]][1] if k == "i" else 8))))
                else:
                    b = self.expr(ctx, t, depth + 1, pure)
                return ("bin", op, a, b)
            if x < 50:
                srcs = self.cast_sources(t)
                if srcs:
                    s = r.choice(srcs)
                    self.count("cast")
                    return ("cast", t, self.expr(ctx, s, depth + 1, pure))
            if x < 57:
                self.count("un")
                signed = k == "i" and INTS[t[1]][0]
                return ("un", r.choice(["neg", "not"]) if signed else "not", self.expr(ctx, t, depth + 1, pure))
            if x < 67:
                self.count("if-expr")
                return ("if", self.expr(ctx, BOOL, depth + 1, pure), self.wrap(self.expr(ctx, t, depth + 1, pure), t),
                        self.wrap(self.expr(ctx, t, depth + 1, pure), t))
            if x < 77 and not pure:
                c = self.call(ctx, t, depth)
                if c:
                    return c
            if x < 84 and not pure and depth < 3:
                return self.block_expr(ctx, t, depth, top)
            if x < 91 and depth < 3 and self.o["sum_types"] and not self.tvars:
                if r.chance(2, 3):
                    sw = self.switch_expr(ctx, t, depth, pure, lambda: self.wrap(self.expr(ctx, t, depth + 2, pure), t))
                    if sw:
                        return sw
                else:
                    sc = self.sum_scrutinee(ctx, depth, True)
                    if sc and sc[0][0] in ("var", "field", "index"):
                        ks = [i for i, pt in enumerate(variants(sc[1])) if pt == t]
                        if ks:
                            kk = r.choice(ks)
                            self.count("unwrap")
                            u = ("unwrap", sc[0], kk, sc[1])
                            if r.chance(1, 8):
                                self.count("unguarded-unwrap")
                                return u
                            return ("if", ("isvar", sc[0], kk, sc[1]), self.wrap(u, t), self.wrap(self.expr(ctx, t, depth + 2, pure), t))
            if cands and r.chance(3, 4):
                return r.choice(cands)
            return self.lit(t)
        if k == "bool":
            if leaf:
                if cands and r.chance(1, 2):
                    return r.choice(cands)
                if depth >= 4:
                    ivs = [(x, vt) for x, vt in self.visible(ctx) if vt[0] in ("i", "tvar") and vt not in self.opaque]
                    if ivs:
                        x, vt = r.choice(ivs)
                        return ("cmp", r.choice(list(CMPOPS)), ("var", x), self.lit(vt))
                    return ("bool", r.chance(1, 2))
            x = r.below(100)
            if x < 60:
                it = self.int_ty()
                self.count("cmp")
                return ("cmp", r.choice(list(CMPOPS)), self.expr(ctx, it, depth + 1, pure), self.expr(ctx, it, depth + 1, pure))
            if x < 75:
                self.count("short-circuit")
                return (r.choice(["land", "lor"]), self.expr(ctx, BOOL, depth + 1, pure), self.expr(ctx, BOOL, depth + 1, pure))
            if x < 82:
                return ("un", "bnot", self.expr(ctx, BOOL, depth + 1, pure))
            if x < 90 and self.o["sum_types"] and not self.tvars and depth < 3:
                sc = self.sum_scrutinee(ctx, depth, pure)
                if sc:
                    self.count("is_variant")
                    return ("isvar", sc[0], r.below(len(variants(sc[1]))), sc[1])
            if x < 88 and not pure:
                c = self.call(ctx, t, depth)
                if c:
                    return c
            if cands:
                return r.choice(cands)
            return ("bool", r.chance(1, 2))
        if k == "arr":
            x = r.below(100)
            if cands and x < 35:
                return r.choice(cands)
            if x < 45 and not pure:
                c = self.call(ctx, t, depth)
                if c:
                    return c
            if x < 52 and depth < 3:
                return ("if", self.expr(ctx, BOOL, depth + 1, pure), self.wrap(self.expr(ctx, t, depth + 2, pure), t),
                        self.wrap(self.expr(ctx, t, depth + 2, pure), t))
            self.count("array-literal")
            return ("arr", t[2], tuple(self.expr(ctx, t[2], depth + 1, pure) for _ in range(t[1])))
        if k == "struct":
            x = r.below(100)
            if cands and x < 35:
                return r.choice(cands)
            if x < 45 and not pure:
                c = self.call(ctx, t, depth)
                if c:
                    return c
            self.count("struct-literal")
            return ("struct", t, tuple(self.expr(ctx, ft, depth + 1, pure) for ft in t[2]))
        if k == "void":
            return ("unit",)
        if k in ("enum", "opt", "err"):
            x = r.below(100)
            if cands and x < 35:
                return r.choice(cands)
            if x < 45 and not pure:
                c = self.call(ctx, t, depth)
                if c:
                    return c
            if x < 52 and depth < 3:
                return ("if", self.expr(ctx, BOOL, depth + 1, pure), self.wrap(self.expr(ctx, t, depth + 2, pure), t),
                        self.wrap(self.expr(ctx, t, depth + 2, pure), t))
            vs = variants(t)
            kk = r.below(len(vs))
            self.count("inject:" + k)
            return ("inject", t, kk, self.expr(ctx, vs[kk], depth + 1, pure))
        raise ValueError(t)

    def sum_scrutinee(self, ctx, depth, pure):
        """(expression, its sum type) to switch on / test: a visible variable or path, else a fresh value."""
        r = self.r
        found = []
        for x, t in self.visible(ctx):
            self._sum_paths(("var", x), t, found, 0)
        if found and r.chance(4, 5):
            return r.choice(found)
        st = self.sum_ty()
        if st is None or depth >= 3:
            return r.choice(found) if found else None
        return (self.expr(ctx, st, depth + 1, pure), st)

    def _sum_paths(self, e, t, out, depth):
        if t[0] in ("enum", "opt", "err"):
            out.append((e, t))
        elif depth < 2 and t[0] == "arr":
            self._sum_paths(("index", e, ("int", USIZE, self.r.below(t[1]))), t[2], out, depth + 1)
        elif depth < 2 and t[0] == "struct":
            for k, ft in enumerate(t[2]):
                self._sum_paths(("field", e, k), ft, out, depth + 1)

    def switch_expr(self, ctx, t, depth, pure, mk_arm):
        sc = self.sum_scrutinee(ctx, depth, pure)
        if sc is None:
            return None
        e, st = sc
        vs = variants(st)
        n = len(vs)
        m = n if self.r.chance(1, 2) else self.r.range(0, n - 1)
        x = self.fresh()
        arms = []
        for i in range(m):
            ctx.vars.append((x, vs[i], False, True))
            arms.append(mk_arm())
            ctx.vars.pop()
        dflt = mk_arm() if (m < n or self.r.chance(1, 6)) else None
        self.count("switch:" + st[0])
        return ("switch", t, e, x, tuple(arms), dflt, st)

    def dist_arg(self, ctx, pt):
        """Argument of type pt, where distinct integer types may occur (generated at the base type and cast)."""
        def has_dist(t):
            return t[0] == "dist" or (t[0] == "arr" and has_dist(t[2])) or (t[0] == "struct" and any(has_dist(f) for f in t[2]))
        if not has_dist(pt):
            return self.expr(ctx, pt, 2, pure=True)
        if pt[0] == "dist":
            return ("cast", pt, self.expr(ctx, ("i", pt[2]), 3, pure=True))
        if pt[0] == "arr":
            return ("arr", pt[2], tuple(self.dist_arg(ctx, pt[2]) for _ in range(pt[1])))
        raise ValueError(pt)

    def wrap(self, e, t):
        return e if e[0] == "block" and e[1] is None else ("block", None, t, (), e)

    def comptime_args(self, f, allow_dist=False):
        """Random comptime arguments for generic function f: (targs, cargs)."""
        ntp, cps, nop = self.gsigs[f]
        pool = [T(n) for n in self.int_names if INTS[n][1] < 128] + list(self.tvars)
        if self.dists and allow_dist:
            pool += self.dists + self.dists
        opool = (self.structs + self.enums) or [T("i32")]
        if self.opaque:
            opool = list(self.opaque)
        targs = tuple(self.r.choice(pool) for _ in range(ntp - nop)) + tuple(self.r.choice(opool) for _ in range(nop))
        cargs = []
        for ct in cps:
            ct2 = subst_ty(list(targs), ct)
            own = [i for i, mt in enumerate(self.cparams) if mt == ct2]
            if own and self.r.chance(1, 3):
                cargs.append(("cref", self.r.choice(own)))
            else:
                z = self.lit(ct2)[2] if ct2[0] == "i" else self.r.range(0, 100)
                if ct2 == USIZE:
                    z = self.r.range(1, 40)       # usize comptime parameters are also used as array lengths
                # `f(-5)` is "not a constant value" for a comptime parameter: comptime arguments are plain literals
                cargs.append(("clit", ct2, z if z >= 0 else -(z + 1)))
        return targs, tuple(cargs)

    def call(self, ctx, t, depth):
        if ctx.iters > 64:
            return None
        cs = []
        for i, (ps, ret, rec) in enumerate(self.sigs):
            if i >= ctx.fidx:
                continue
            if i in self.gsigs:
                for _ in range(3):
                    ta, ca = self.comptime_args(i)
                    if subst_ty(list(ta), ret) == t:
                        cs.append((i, ta, ca))
                        break
            elif ret == t:
                cs.append((i, (), ()))
        if not cs:
            return None
        f, ta, ca = self.r.choice(cs)
        ps, ret, rec = self.sigs[f]
        self.count("call-generic" if ta or ca else "call")
        args = []
        for j, pt in enumerate(ps):
            pt = subst_ty(list(ta), pt)
            if rec and j == 0:
                args.append(("int", T("u8"), self.r.range(0, 5)))
            else:
                args.append(self.expr(ctx, pt, depth + 1, pure=True) if depth >= 2 else self.expr(ctx, pt, depth + 1))
        return ("call", f, ta, ca, tuple(args))

    def block_expr(self, ctx, t, depth, top=False):
        self.count("block-expr")
        mark = ctx.push()
        # a label right after `(` is parsed as a lambda parameter list: labels only on initialisers
        lab = self.label() if top and self.r.chance(1, 2) else None
        if lab is not None:
            ctx.labels.append((lab, False, t))
        ss = self.stmts(ctx, depth + 1, self.r.range(1, 3))
        tail = self.expr(ctx, t, depth + 1)
        if lab is not None:
            ctx.labels.pop()
        ctx.pop(mark)
        return ("block", lab, t, tuple(ss), tail)

    # -- statements
    def stmts(self, ctx, depth, n):
        out = []
        for _ in range(n):
            out += self.stmt(ctx, depth)
        return out

    def cond_jump(self, ctx, depth):
        """if c { break / continue / return }"""
        r = self.r
        choices = []
        for l, is_loop, t in ctx.labels:
            choices.append(("break", l, t))
            if is_loop:
                choices.append(("continue", l, None))
        choices.append(("return", None, None))
        kind, l, t = r.choice(choices)
        self.count("jump:" + kind)
        if kind == "break":
            v = ("unit",) if t == VOID else self.expr(ctx, t, depth + 1, pure=True)
            j = ("break", l, v)
        elif kind == "continue":
            j = ("continue", l)
        else:
            j = ("return", ("unit",) if ctx.ret == VOID else self.expr(ctx, ctx.ret, depth + 1, pure=True))
        return ("if", self.expr(ctx, BOOL, depth + 1, pure=True), ("block", None, VOID, (j,), ("unit",)), ("unit",))

    def stmt(self, ctx, depth):
        r = self.r
        x = r.below(100)
        sd = depth
        depth = min(depth, 2)
        y = r.below(100)
        if y < 7 and self.o["defers"]:
            return [self.defer_stmt(ctx, depth)]
        if y < 13 and self.o["sum_types"] and not self.tvars and sd < 4:
            mark = ctx.push()

            def arm():
                m2 = ctx.push()
                ss = self.stmts(ctx, sd + 1, r.range(1, 2))
                ctx.pop(m2)
                return ("block", None, VOID, tuple(ss), ("unit",))
            sw = self.switch_expr(ctx, VOID, depth, False, arm)
            ctx.pop(mark)
            if sw:
                return [sw]
        if y < 19 and self.o["sum_types"] and ctx.ret[0] in ("opt", "err") and not ctx.in_defer:
            # y := e.try  (returns nil / the error from the function when e is not a success)
            want = [t for _, t in self.visible(ctx)
                    if t[0] == ctx.ret[0] and (t[0] == "opt" or t[1] == ctx.ret[1]) and variants(t)[1] != VOID]
            if want and r.chance(2, 3):
                st = r.choice(want)
            elif ctx.ret[0] == "opt":
                st = ("opt", self.int_ty(concrete=True))
            else:
                st = ("err", ctx.ret[1], self.int_ty(concrete=True))
            e = self.expr(ctx, st, depth + 1)
            if e[0] not in ("var", "field", "index", "call"):
                tmp = self.fresh()
                pre = [("let", tmp, st, False, e)]
                ctx.vars.append((tmp, st, False, False))
                e = ("var", tmp)
            else:
                pre = []
            v = self.fresh()
            pt = variants(st)[1]
            ctx.vars.append((v, pt, True, False))
            self.count("try")
            return pre + [("let", v, pt, True, ("try", e))]
        if x < 22:
            t = self.any_ty()
            e = self.expr(ctx, t, depth + 1, top=True)
            v = self.fresh()
            if r.chance(1, 12) and ctx.vars:
                cand = [y for y, _, _, prot in ctx.vars if not prot]
                prot = {y for y, _, _, p in ctx.vars if p}
                cand = [y for y in cand if y not in prot]
                if cand:
                    v = r.choice(cand)
                    self.count("shadowing")
            m = r.chance(2, 3)
            ctx.vars.append((v, t, m, False))
            self.count("let")
            return [("let", v, t, m, e)]
        if x < 42:
            ts = [t for _, t, m, p in ctx.vars if m and not p]
            if ts:
                root_t = r.choice(ts)
                want = self.subty(root_t)
                ps = self.paths(ctx, want, mutable_only=True)
                if ps:
                    lhs = self.randomise_indices(ctx, r.choice(ps), depth)
                    self.count("assign:" + lhs[0])
                    root = lhs
                    while root[0] != "var":
                        root = root[1]
                    hide = want[0] in ("arr", "struct") and not self.o["aggregate_assign_reads_target"]
                    if hide:
                        ctx.hidden.add(root[1])
                    rhs = self.expr(ctx, want, depth + 1, top=True)
                    ctx.hidden.discard(root[1])
                    return [("assign", lhs, rhs)]
        if x < 62:
            self.count("print")
            t = self.int_ty() if r.chance(4, 5) else BOOL
            e = self.expr(ctx, t, depth + 1)
            return [("print", ("cast", T("i64"), e) if t[0] == "tvar" else e)]
        if x < 72 and sd < 4:
            self.count("if-stmt")
            c = self.expr(ctx, BOOL, depth + 1)
            mark = ctx.push()
            a = self.stmts(ctx, sd + 1, r.range(1, 3))
            ctx.pop(mark)
            b = ()
            if r.chance(1, 2):
                b = self.stmts(ctx, sd + 1, r.range(1, 2))
                ctx.pop(mark)
            eb = ("block", None, VOID, tuple(b), ("unit",)) if b else ("unit",)
            return [("if", c, ("block", None, VOID, tuple(a), ("unit",)), eb)]
        if x < 84 and sd < 4 and ctx.iters <= 64:
            return self.loop(ctx, sd)
        if x < 90 and sd < 4:
            self.count("labelled-block-stmt")
            lab = self.label()
            ctx.labels.append((lab, False, VOID))
            mark = ctx.push()
            ss = self.stmts(ctx, sd + 1, r.range(1, 3))
            ctx.pop(mark)
            ctx.labels.pop()
            return [("block", lab, VOID, tuple(ss), ("unit",))]
        if x < 97:
            return [self.cond_jump(ctx, depth)]
        c = self.call(ctx, self.int_ty(concrete=True), depth)
        if c:
            self.count("call-stmt")
            return [c]
        return [("print", self.expr(ctx, self.int_ty(concrete=True), depth + 1))]

    def defer_stmt(self, ctx, depth):
        """defer of a print and / or an assignment (no jumps inside a defer)."""
        r = self.r
        self.count("defer")
        ctx.in_defer = True
        body = []
        if r.chance(1, 2):
            ts = [t for _, t, m, p in ctx.vars if m and not p and t[0] in ("i", "bool")]
            if ts:
                want = r.choice(ts)
                ps = self.paths(ctx, want, mutable_only=True)
                ps = [q for q in ps if q[0] == "var"]
                if ps:
                    body.append(("assign", r.choice(ps), self.expr(ctx, want, depth + 1, pure=True)))
        t = self.int_ty(concrete=True) if r.chance(4, 5) else BOOL
        body.append(("print", self.expr(ctx, t, depth + 1, pure=True)))
        ctx.in_defer = False
        if len(body) == 1 and r.chance(2, 3):
            return ("defer", body[0])
        return ("defer", ("block", None, VOID, tuple(body), ("unit",)))

    def subty(self, t):
        while t[0] in ("arr", "struct") and self.r.chance(2, 3):
            t = t[2] if t[0] == "arr" else self.r.choice(t[2])
        return t

    def randomise_indices(self, ctx, e, depth):
        if e[0] == "index":
            base = self.randomise_indices(ctx, e[1], depth)
            n = self.static_len(ctx, e[1])
            return ("index", base, self.index_expr(ctx, n, depth) if n else e[2])
        if e[0] == "field":
            return ("field", self.randomise_indices(ctx, e[1], depth), e[2])
        return e

    def static_len(self, ctx, e):
        t = self.place_ty(ctx, e)
        return t[1] if t and t[0] == "arr" else None

    def place_ty(self, ctx, e):
        if e[0] == "var":
            for x, t, m, p in reversed(ctx.vars):
                if x == e[1]:
                    return t
            return None
        t = self.place_ty(ctx, e[1])
        if t is None:
            return None
        if e[0] == "index":
            return t[2]
        if e[0] == "field":
            return t[2][e[2]]
        return None

    def loop(self, ctx, depth):
        r = self.r
        n = r.choice([1, 2, 3, 3, 4, 5, 8, 17, 64]) if ctx.iters == 1 else r.choice([1, 2, 3, 4])
        ct = T(r.choice([x for x in ("u8", "i16", "u32", "i64", "usize", "i8", "u64", "i32") if x in self.int_names] or [self.int_names[0]]))
        i = self.fresh()
        lab = self.label()
        kind = r.choice(["while", "while", "loop"])
        self.count(kind)
        ctx.vars.append((i, ct, True, True))
        ctx.labels.append((lab, True, VOID))
        old = ctx.iters
        ctx.iters *= n
        mark = ctx.push()
        inc = ("assign", ("var", i), ("bin", "add", ("var", i), ("int", ct, 1)))
        body = self.stmts(ctx, depth + 1, r.range(1, 4))
        ctx.pop(mark)
        ctx.iters = old
        ctx.labels.pop()
        init = ("let", i, ct, True, ("int", ct, 0))
        if kind == "while":
            c = ("cmp", "lt", ("var", i), ("int", ct, n))
            lp = ("while", lab, c, ("block", None, VOID, tuple([inc] + body), ("unit",)))
        else:
            brk = ("if", ("cmp", "gt", ("var", i), ("int", ct, n)), ("block", None, VOID, (("break", lab, ("unit",)),), ("unit",)), ("unit",))
            lp = ("loop", lab, ("block", None, VOID, tuple([inc, brk] + body), ("unit",)))
        return [init, lp]

    # -- functions / programs
    def function(self, fidx, is_main, generic=None):
        """generic = (number of type parameters, [types of comptime integer parameters]) or None."""
        r = self.r
        nop = generic[2] if generic and len(generic) > 2 else 0
        self.tvars = [("tvar", i) for i in range(generic[0] - nop)] if generic else []
        self.opaque = [("tvar", i) for i in range(generic[0] - nop, generic[0])] if generic else []
        self.cparams = list(generic[1]) if generic else []
        if generic:
            self.gsigs[fidx] = (generic[0], list(generic[1]), nop)
        if is_main:
            ret = r.choice([VOID, T("i32"), T("u8"), T("i64"), T("u32"), T("i16"), T("usize"), T("i8")])
            if ret != VOID and ret[1] not in self.int_names:
                ret = VOID
            params = []
            rec = False
        else:
            ret = self.sig_ty()
            rec = r.chance(1, 4) and (generic is None or self.o["recursive_generics"])
            params = []
            if rec:
                params.append((self.fresh(), T("u8")))
            for _ in range(r.range(0 if rec else 1, 3)):
                params.append((self.fresh(), self.sig_ty()))
            for ot in self.opaque:
                params.append((self.fresh(), ot))
                if r.chance(1, 2):
                    params.append((self.fresh(), ("arr", 2, ot)))
                if r.chance(1, 2):
                    ret = ot
        ctx = Ctx(fidx, ret)
        for x, t in params:
            ctx.vars.append((x, t, False, rec and x == params[0][0]))
        self.sigs.append(([t for _, t in params], ret, rec))
        n = r.range(2, self.max_stmts) if is_main else r.range(1, max(2, self.max_stmts - 3))
        ss = []
        for _ in range(r.range(1, 3)):
            t = self.any_ty()
            v = self.fresh()
            ss.append(("let", v, t, True, self.expr(ctx, t, 2)))
            ctx.vars.append((v, t, True, False))
        ss += self.stmts(ctx, 1, n)
        if is_main:
            # make sure the helper functions are executed: call each of them from main (most of the time)
            for f in range(fidx):
                if f in self.gsigs or not r.chance(3, 4):
                    continue
                ps, fret, frec = self.sigs[f]
                args = []
                for j, pt in enumerate(ps):
                    args.append(("int", T("u8"), r.range(0, 5)) if frec and j == 0 else self.expr(ctx, pt, 2, pure=True))
                cexp = ("call", f, (), (), tuple(args))
                self.count("call-from-main")
                if fret == VOID:
                    ss.append(cexp)
                else:
                    v = self.fresh()
                    ss.append(("let", v, fret, False, cexp))
                    ctx.vars.append((v, fret, False, False))
                    ss += self.use(ctx, v, fret)
        live = []
        seen = set()
        for x, t, m, p in reversed(ctx.vars):
            if x not in seen:
                seen.add(x)
                live.append((x, t))
        for x, t in live[:r.range(1, 4)]:
            ss += self.use(ctx, x, t)
        if rec:
            # bounded recursion: if d > 0 { use f(d - 1, ...) }
            d = params[0][0]
            args = [("bin", "sub", ("var", d), ("int", T("u8"), 1))]
            for _, pt in params[1:]:
                args.append(self.expr(ctx, pt, 2, pure=True))
            callr = ("call", fidx, tuple(self.tvars), tuple(("cref", i) for i in range(len(self.cparams))), tuple(args))
            self.count("recursion")
            v = self.fresh()
            inner = ("block", None, VOID, (("let", v, ret, False, callr),) + tuple(self.use(ctx, v, ret)), ("unit",))
            ss.append(("if", ("cmp", "gt", ("var", d), ("int", T("u8"), 0)), inner, ("unit",)))
        tail = ("unit",) if ret == VOID else self.expr(ctx, ret, 1)
        f = {"tparams": len(self.tvars) + len(self.opaque), "cparams": list(self.cparams), "params": params, "ret": ret,
             "body": ("block", None, ret, tuple(ss), tail)}
        self.tvars = []
        self.opaque = []
        self.cparams = []
        return f

    def use(self, ctx, v, t):
        """Statements that print something of variable v : t."""
        leaves = []
        self._leaves(("var", v), t, leaves)
        return [("print", ("cast", T("i64"), e) if lt[0] == "tvar" else e) for e, lt in leaves[:3]]

    def _leaves(self, e, t, out):
        if t in self.opaque:
            return
        if t[0] == "i" or t[0] == "bool" or t[0] == "tvar":
            out.append((e, t))
        elif t[0] == "dist":
            out.append((e, ("tvar", 0)))          # printed through a cast to i64, like type parameters
        elif t[0] in ("enum", "opt", "err"):
            # print which variant it is
            n = len(variants(t))
            x = self.fresh()
            out.append((("switch", T("u8"), e, x, tuple(("int", T("u8"), 10 + i) for i in range(n)), None, t), T("u8")))
        elif t[0] == "arr":
            self._leaves(("index", e, ("int", USIZE, self.r.below(t[1]))), t[2], out)
        elif t[0] == "struct":
            for k, ft in enumerate(t[2]):
                self._leaves(("field", e, k), ft, out)

    def program(self):
        self.gen_struct_types()
        self.gen_enum_types()
        nf = self.r.range(0, self.max_funs)
        funs = []
        for k in range(nf):
            funs.append(self.function(k, False))
        funs.append(self.function(nf, True))
        return {"funs": funs, "main": nf}


def finish_generic_program(g, funs, gi):
    r = g.r
    # instantiations
    insts = []
    for _ in range(r.range(1, 3)):
        insts.append(g.comptime_args(gi, allow_dist=True))
    order = [r.below(len(insts)) for _ in range(r.range(len(insts), 4))]
    for j in range(len(insts)):
        if j not in order:
            order.append(j)
    # main
    ps, ret, rec = g.sigs[gi]
    ctx = Ctx(len(funs), VOID)
    ss = []
    calls = []
    for j in order:
        ta, ca = insts[j]
        args = []
        for q, pt in enumerate(ps):
            pt = subst_ty(list(ta), pt)
            args.append(("int", T("u8"), r.range(0, 4)) if rec and q == 0 else g.dist_arg(ctx, pt))
        v = g.fresh()
        rt = subst_ty(list(ta), ret)
        calls.append((len(ss), j))
        ss.append(("let", v, rt, False, ("call", gi, ta, ca, tuple(args))))
        ctx.vars.append((v, rt, False, False))
        ss += g.use(ctx, v, rt)
    main = {"tparams": 0, "cparams": [], "params": [], "ret": VOID, "body": ("block", None, VOID, tuple(ss), ("unit",))}
    A = {"funs": funs + [main], "main": len(funs)}
    # B: copies appended after main (call targets only need to exist in the table)
    copies = []
    info = []
    bs = list(ss)
    nA = len(funs) + 1
    for pos, j in calls:
        ta, ca = insts[j]
        key = (ta, ca)
        if key not in [c[0] for c in copies]:
            copies.append((key, subst_fun(list(ta), [(c[1], c[2]) for c in ca], funs[gi])))
        ci = nA + [c[0] for c in copies].index(key)
        st = bs[pos]
        bs[pos] = ("let", st[1], st[2], st[3], ("call", ci, (), (), st[4][4]))
        info.append((gi, ci, ta, ca))
    mainB = dict(main)
    mainB["body"] = ("block", None, VOID, tuple(bs), ("unit",))
    B = {"funs": funs + [mainB] + [c[1] for c in copies], "main": len(funs)}
    return A, B, info, g.hist


def fingerprint_stmts(g, ntp_int, cps):
    """Statements that USE every comptime parameter at compile time and print what they see:
    for an integer-like type parameter T the wrap-around behaviour of locals of type T (width and signedness),
    for a usize parameter n the length of a local `[n]u8`, plus the run-time copy of every value parameter."""
    ss = []
    for i in range(ntp_int):
        tv = ("tvar", i)
        v = g.fresh()
        ss.append(("let", v, tv, True, ("int", tv, 100)))
        ss.append(("assign", ("var", v), ("bin", "add", ("var", v), ("int", tv, 100))))
        ss.append(("print", ("cast", T("i64"), ("var", v))))
        for sh in (7, 15, 31, 40, 63):
            ss.append(("print", ("cast", T("i64"), ("bin", "shl", ("int", tv, 1), ("int", tv, sh)))))
    for j, ct in enumerate(cps):
        if ct == USIZE:
            ss.append(("print", ("cplen", j)))
        ss.append(("print", ("cast", T("i64"), ("cp", j)) if ct[0] == "tvar" else ("cp", j)))
    return ss


def with_prefix(f, ss):
    b = f["body"]
    f = dict(f)
    f["body"] = ("block", b[1], b[2], tuple(ss) + tuple(b[3]), b[4])
    return f


def forwarding_call(g, callee, n_own_tvars, own_cps):
    """A call of generic function `callee` from inside another generic function that forwards the caller's own comptime
    parameters in a random permutation / duplication, mixed with concrete types and literals."""
    r = g.r
    ntp, cps, nop = g.gsigs[callee]
    own_t = [("tvar", i) for i in range(n_own_tvars)]
    conc = [T(n) for n in ("u8", "i8", "u16", "i16", "u32", "i32", "u64", "i64")]
    ta = []
    order = list(own_t)
    r.shuffle(order)
    for i in range(ntp - nop):
        if order and r.chance(3, 4):
            ta.append(order[i % len(order)] if r.chance(3, 4) else r.choice(own_t))
        else:
            ta.append(r.choice(conc))
    ta = tuple(ta) + tuple(r.choice(g.structs) for _ in range(nop))
    own_us = [j for j, ct in enumerate(own_cps) if ct == USIZE]
    r.shuffle(own_us)
    ca = []
    for i, ct in enumerate(cps):
        ct2 = subst_ty(list(ta), ct)
        same = [j for j, mt in enumerate(own_cps) if mt == ct2]
        if ct2 == USIZE and own_us and r.chance(3, 4):
            ca.append(("cref", own_us[i % len(own_us)] if r.chance(3, 4) else r.choice(own_us)))
        elif same and r.chance(1, 2):
            ca.append(("cref", r.choice(same)))
        else:
            z = r.range(1, 40) if ct2 == USIZE else (r.range(0, 100))
            ca.append(("clit", ct2, z))
    ps, ret, rec = g.sigs[callee]
    old_t, old_c = g.tvars, g.cparams
    g.tvars, g.cparams = own_t, list(own_cps)
    ctx = Ctx(callee + 1, VOID)
    args = []
    for q, pt in enumerate(ps):
        pt = subst_ty(list(ta), pt)
        args.append(("int", T("u8"), r.range(0, 2)) if rec and q == 0 else g.expr(ctx, pt, 3, pure=True))
    rt = subst_ty(list(ta), ret)
    v = g.fresh()
    ss = [("let", v, rt, False, ("call", callee, ta, tuple(ca), tuple(args)))] if rt != VOID else [("call", callee, ta, tuple(ca), tuple(args))]
    if rt != VOID:
        ctx.vars.append((v, rt, False, False))
        ss += g.use(ctx, v, rt)
    g.tvars, g.cparams = old_t, old_c
    g.count("forwarding-call")
    return ss


def forwarding_programs(rng, opts=None):
    """C16: chains of 2-3 generic functions in which each level forwards its own comptime parameters to the next in
    permuted / duplicated order (inner(B, A), inner(A, A), mixed with literals), and every level uses each of its
    parameters at compile time (fingerprint_stmts).  Same result shape as generic_programs."""
    g = Gen(rng, opts, int_names=[n for n in INT_NAMES if INTS[n][1] < 128], max_funs=2, max_stmts=3)
    r = g.r
    g.structs.append(("struct", 1, (T("u8"), T("i64"))))
    g.dists = [("dist", 1, r.choice(["i32", "u8", "i64", "u16", "i8"]))]
    funs = []
    depth = r.range(2, 3)
    prev = None
    for lvl in range(depth):
        ntp = r.range(1, 3) if r.chance(3, 4) else 0
        ncp = r.range(1, 3) if (ntp == 0 or r.chance(2, 3)) else 0
        cps = [USIZE if r.chance(3, 4) else T(r.choice(["u8", "i32", "i16"])) for _ in range(ncp)]
        fidx = len(funs)
        f = g.function(fidx, False, generic=(ntp, cps, 0))
        ss = fingerprint_stmts(g, ntp, cps)
        if prev is not None:
            for _ in range(r.range(1, 2)):
                ss += forwarding_call(g, prev, ntp, cps)
        funs.append(with_prefix(f, ss))
        prev = fidx
    gi = len(funs) - 1
    return finish_generic_program(g, funs, gi)


def generic_programs(rng, opts=None):
    """C16: (A, B, info).  A: helpers, 1-2 generic functions (1-3 comptime parameters: types, integers),
    main instantiating the last generic function 1-4 times (equal and different comptime arguments,
    interleaved).  B: the same program with every call of main redirected to a hand-substituted copy
    (subst_fun) appended to the table.  info: list of (generic index, copy index, targs, cargs)."""
    g = Gen(rng, opts, int_names=[n for n in INT_NAMES if INTS[n][1] < 128], max_funs=2, max_stmts=4)
    r = g.r
    g.gen_struct_types()
    if not g.structs:
        g.structs.append(("struct", 1, (T("u8"), T("i64"))))
    g.gen_enum_types()
    g.dists = [("dist", i + 1, r.choice(["i32", "u8", "i64", "u16", "usize", "i8"])) for i in range(r.range(1, 2))]
    funs = []
    for k in range(r.range(0, 1)):
        funs.append(g.function(len(funs), False))
    ngen = r.range(1, 2)
    for k in range(ngen):
        ntp = r.range(0, 2)
        nop = 1 if (ntp >= 1 and r.chance(1, 2)) else 0      # the last type parameter is used opaquely
        ncp = r.range(0 if ntp else 1, 3 - ntp)
        cps = [(("tvar", r.below(ntp)) if ntp and r.chance(1, 3) and g.o["dependent_comptime_param_types"]
                else T(r.choice(["u8", "i32", "usize", "i16", "u64"]))) for _ in range(ncp)]
        f = g.function(len(funs), False, generic=(ntp, cps, nop))
        funs.append(with_prefix(f, fingerprint_stmts(g, ntp - nop, cps)))
    return finish_generic_program(g, funs, len(funs) - 1)


# ------------------------------------------------------------------ shrinking candidates
def shrink_candidates(prog):
    """Smaller programs obtained by one local simplification (may be ill-typed: filter with WT)."""
    out = []

    def rebuild(fk, newbody):
        p = {"funs": [dict(f) for f in prog["funs"]], "main": prog["main"]}
        p["funs"][fk]["body"] = newbody
        return p

    def alts(e):
        """yield alternative expressions for e (one change somewhere inside)."""
        k = e[0]
        if k == "block":
            for i in range(len(e[3])):
                yield (k, e[1], e[2], e[3][:i] + e[3][i + 1:], e[4])
            for i, s in enumerate(e[3]):
                for v in alts(s):
                    yield (k, e[1], e[2], e[3][:i] + (v,) + e[3][i + 1:], e[4])
            for v in alts(e[4]):
                yield (k, e[1], e[2], e[3], v)
            if not e[3] and e[1] is None:
                yield e[4]
        elif k == "if":
            yield e[2]
            yield e[3]
            for j in (1, 2, 3):
                for v in alts(e[j]):
                    yield e[:j] + (v,) + e[j + 1:]
        elif k in ("bin", "cmp"):
            yield e[2]
            yield e[3]
            for j in (2, 3):
                for v in alts(e[j]):
                    yield e[:j] + (v,) + e[j + 1:]
        elif k in ("un", "cast"):
            yield e[2]
            for v in alts(e[2]):
                yield (k, e[1], v)
        elif k in ("land", "lor"):
            yield e[1]
            yield e[2]
        elif k in ("while",):
            for v in alts(e[3]):
                yield (k, e[1], e[2], v)
        elif k == "loop":
            for v in alts(e[2]):
                yield (k, e[1], v)
        elif k == "let":
            for v in alts(e[4]):
                yield (k, e[1], e[2], e[3], v)
        elif k == "assign":
            for v in alts(e[2]):
                yield (k, e[1], v)
        elif k in ("print", "return", "defer", "try"):
            for v in alts(e[1]):
                yield (k, v)
        elif k == "inject":
            for v in alts(e[3]):
                yield (k, e[1], e[2], v)
        elif k == "switch":
            for v in alts(e[2]):
                yield e[:2] + (v,) + e[3:]
            for i, a in enumerate(e[4]):
                for v in alts(a):
                    yield e[:4] + (e[4][:i] + (v,) + e[4][i + 1:],) + e[5:]
            if e[5] is not None:
                yield e[5]
                for v in alts(e[5]):
                    yield e[:5] + (v,) + e[6:]
        elif k in ("isvar", "unwrap"):
            for v in alts(e[1]):
                yield (k, v, e[2], e[3])
        elif k == "call":
            for i, a in enumerate(e[4]):
                for v in alts(a):
                    yield (k, e[1], e[2], e[3], e[4][:i] + (v,) + e[4][i + 1:])
        elif k in ("arr", "struct"):
            for i, a in enumerate(e[2]):
                for v in alts(a):
                    yield (k, e[1], e[2][:i] + (v,) + e[2][i + 1:])
        elif k == "index":
            for v in alts(e[1]):
                yield (k, v, e[2])
            for v in alts(e[2]):
                yield (k, e[1], v)
        elif k == "field":
            for v in alts(e[1]):
                yield (k, v, e[2])

    for fk, f in enumerate(prog["funs"]):
        for v in alts(f["body"]):
            if v[0] != "block" or v[1] is not None:
                v = ("block", None, f["ret"], (), v)
            out.append(rebuild(fk, v))
    return out


def size(prog):
    def sz(e):
        return 1 + sum(sz(x) for x in e if isinstance(x, tuple)) if isinstance(e, tuple) else 0
    return sum(sz(f["body"]) for f in prog["funs"])


# ------------------------------------------------------------------ running against the real compiler
import os
import re
import subprocess

FAULT_RE = re.compile(r"\n\nin (\S+) : entered unreachable code: (.*)\n\Z", re.S)


def strip_fault_location(stdout):
    """stdout with the function named in a trailing fault message removed (generic vs copy differ there)."""
    m = FAULT_RE.search(stdout)
    return stdout if not m else stdout[:m.start()] + "\n\nin <fn> : entered unreachable code: " + m.group(2) + "\n"


def build_and_run(capy, src, name="p", build_timeout=180, run_timeout=10):
    """src: source text of <name>.capy, or a dict {file name: text} containing "<name>.capy"."""
    """Compile `src` with the real capy in a scratch directory and run the executable.
    -> dict(build_rc, build_out, rc, stdout) (rc None when not built; 124 = timeout)."""
    from . import common as C
    with C.scratch("verif-capy-") as d:
        if isinstance(src, dict):
            for fn, txt in src.items():
                open(os.path.join(d, fn), "w").write(txt)
        else:
            open(os.path.join(d, name + ".capy"), "w").write(src)
        rc, out = C.run([capy, "build", name + ".capy", "--mod-dir", C.REPO], cwd=d, timeout=build_timeout)
        if rc == 124:
            # same reasoning as for the run timeout below: believe a compiler hang only after a longer second attempt
            rc, out = C.run([capy, "build", name + ".capy", "--mod-dir", C.REPO], cwd=d, timeout=build_timeout * 3)
        if rc == 124:
            return {"build_rc": 124, "build_out": "TIMEOUT: the compiler did not finish within %d s" % build_timeout,
                    "rc": None, "stdout": ""}
        exe = os.path.join(d, "out", name)
        out = "\n".join(l for l in out.split("\n") if not l.startswith("split_aggregate"))
        if rc != 0 or not os.path.exists(exe):
            m = re.search(r"panicked at ([^\n]*)\n([^\n]*)", out)
            head = ("PANIC: %s | %s\n" % (m.group(1), m.group(2))) if m else ""
            errs = re.findall(r"^(?:error|Error)[^\n]*", out, re.M)
            head += "\n".join(errs[:5]) + ("\n" if errs else "")
            return {"build_rc": rc, "build_out": head + out[-1500:], "rc": None, "stdout": ""}
        # generated programs finish in milliseconds; on a loaded machine even that can exceed the timeout,
        # so a timeout is only believed after a second, much longer attempt
        for attempt, tmo in enumerate((run_timeout, run_timeout * 12)):
            try:
                p = subprocess.run([exe], stdout=subprocess.PIPE, stderr=subprocess.DEVNULL, timeout=tmo,
                                   stdin=subprocess.DEVNULL)
                return {"build_rc": 0, "build_out": "", "rc": p.returncode, "stdout": p.stdout.decode("latin-1")}
            except subprocess.TimeoutExpired as e:
                last = e
        return {"build_rc": 0, "build_out": "", "rc": 124, "timeout": True, "stdout": (last.stdout or b"").decode("latin-1")}


def compare(prog, outcome, impl, names=None, core_print=False):
    """None when the executable behaves as eval_prog prescribes, else (kind, detail)."""
    if impl["rc"] is None:
        if impl["build_out"].startswith("TIMEOUT"):
            return ("compiler-hang", impl["build_out"])
        if "panicked" in impl["build_out"] or impl["build_out"].startswith("PANIC"):
            return ("compiler-panic", impl["build_out"][:600])
        return ("rejected", impl["build_out"][:600])
    if impl.get("timeout"):
        return ("hang", "executable did not finish")
    want = render_events(outcome["events"], core_print)
    if outcome["kind"] == "DONE":
        if impl["stdout"] != want:
            return ("wrong-output", "stdout differs")
        if impl["rc"] != outcome["status"]:
            return ("wrong-exit-status", "exit %s, expected %s" % (impl["rc"], outcome["status"]))
        return None
    if outcome["kind"] == "FAULT":
        m = FAULT_RE.search(impl["stdout"])
        msg_ok = bool(m) and (m.group(2) == FAULT_TEXT[0] if outcome["fault_kind"] == 0 else
                              re.fullmatch(r"called #unwrap\(.*\) but the variant was different", m.group(2), re.S) is not None)
        if not m or impl["stdout"][:m.start()] != want or not msg_ok:
            return ("wrong-output", "fault message or the output before it differs")
        fname = (names or {}).get(outcome["fault_fn"]) or ("main" if outcome["fault_fn"] == prog["main"] else "f%d" % outcome["fault_fn"])
        if not re.sub(r"<\d+>\Z", "", m.group(1)).endswith("#" + fname):
            return ("wrong-output", "fault reported in %s, expected function %s" % (m.group(1), fname))
        if impl["rc"] != 1:
            return ("wrong-exit-status", "exit %s after a run-time fault, expected 1" % impl["rc"])
        return None
    return None


def features(prog):
    """Constructor histogram and defect-related syntactic features of a program."""
    h = {}
    flags = set()

    def ex(f, e):
        h[e[0]] = h.get(e[0], 0) + 1
        if e[0] == "cast" and e[1][0] == "i":
            flags.add("cast")
        if e[0] == "bin" and e[1] in ("div", "rem"):
            flags.add("div")
        for x in parts(e)[1]:
            ex(f, x)
    for f in prog["funs"]:
        ex(f, f["body"])
    return h, flags


def casts_signed_to_wider_unsigned(prog):
    """True when some cast has a signed source narrower than its unsigned target."""
    found = []

    def walk(f, e, G):
        k = e[0]
        if k == "cast" and e[1][0] == "i":
            try:
                s = type_of(prog, f, e[2], G)
            except Exception:
                s = None
            if s and s[0] == "i":
                sg, w = INTS[s[1]]
                tg, tw = INTS[e[1][1]]
                if sg and not tg and tw > w:
                    found.append((s[1], e[1][1]))
        if k == "block":
            G2 = list(G)
            for s in e[3]:
                if s[0] == "let":
                    walk(f, s[4], G2)
                    G2 = [(s[1], s[2])] + G2
                else:
                    walk(f, s, G2)
            walk(f, e[4], G2)
        else:
            for x in parts(e)[1]:
                walk(f, x, G)
    for f in prog["funs"]:
        walk(f, f["body"], [(x, t) for x, t in reversed(f["params"])])
    return found


def has_div128(prog):
    found = []

    def walk(f, e, G):
        k = e[0]
        if k == "bin" and e[1] in ("div", "rem"):
            try:
                t = type_of(prog, f, e[2], G)
            except Exception:
                t = None
            if t and t[0] == "i" and INTS[t[1]][1] == 128:
                found.append(t[1])
        if k == "block":
            G2 = list(G)
            for s in e[3]:
                if s[0] == "let":
                    walk(f, s[4], G2)
                    G2 = [(s[1], s[2])] + G2
                else:
                    walk(f, s, G2)
            walk(f, e[4], G2)
        else:
            for x in parts(e)[1]:
                walk(f, x, G)
    for f in prog["funs"]:
        walk(f, f["body"], [(x, t) for x, t in reversed(f["params"])])
    return found
