"""Rust side: build harness binaries and the capy executable from /repo's
current working tree with the verification cfg enabled."""
import os
import shutil

from . import common as C


def _repo_sources_digest():
    """sha256 over path+content of every file cargo compiles from /repo (crates/, tokenizer.txt, core/)."""
    import hashlib
    h = hashlib.sha256()
    roots = [os.path.join(C.REPO, "crates"), os.path.join(C.REPO, "tokenizer.txt"), os.path.join(C.REPO, "Cargo.toml"),
             os.path.join(C.REPO, "Cargo.lock")]
    files = []
    for r in roots:
        if os.path.isfile(r):
            files.append(r)
        else:
            for d, dirs, fs in os.walk(r):
                dirs[:] = [x for x in dirs if x != "target"]
                files += [os.path.join(d, f) for f in fs]
    for f in sorted(files):
        h.update(f.encode())
        try:
            h.update(open(f, "rb").read())
        except OSError:
            pass
    return h.hexdigest()


def _invalidate_if_sources_changed():
    """cargo decides freshness by mtime; a source tree whose files are OLDER than the cached
    artifacts (another worktree mounted over /repo, a restored file) would be taken as fresh.
    When the content digest of /repo's sources differs from the one of the last build, the
    fingerprints of /repo's crates are removed so that cargo rebuilds them. (caller holds the lock)"""
    import glob
    import tomllib
    stamp = os.path.join(C.CACHE, "repo_sources.sha256")
    dig = _repo_sources_digest()
    old = open(stamp).read().strip() if os.path.exists(stamp) else None
    if old == dig:
        return dig
    names = set()
    for m in glob.glob(os.path.join(C.REPO, "crates", "*", "Cargo.toml")):
        try:
            names.add(tomllib.load(open(m, "rb"))["package"]["name"].replace("-", "_"))
            names.add(tomllib.load(open(m, "rb"))["package"]["name"])
        except Exception:
            pass
    for fp in glob.glob(os.path.join(C.TARGET, "*", ".fingerprint", "*")):
        base = os.path.basename(fp).rsplit("-", 1)[0]
        if base in names or base.startswith("h_") or base == "hcommon":
            shutil.rmtree(fp, ignore_errors=True)
    # the stamp is only advanced after everything that uses the tree was rebuilt: we simply
    # record the digest now; every later build in this cache sees fresh fingerprints or rebuilds
    os.makedirs(C.CACHE, exist_ok=True)
    with open(stamp, "w") as f:
        f.write(dig)
    return dig


def build_harness(pkg, timeout=3000):
    """cargo build -p <pkg> in the harness workspace. Returns (ok, output, bin path)."""
    lock_src = os.path.join(C.REPO, "Cargo.lock")
    lock_dst = os.path.join(C.HARNESS, "Cargo.lock")
    with C.locked("cargo"):
        if not os.path.exists(lock_dst):
            shutil.copy(lock_src, lock_dst)
        _invalidate_if_sources_changed()
        rc, out = C.run(["cargo", "build", "--offline", "-q", "-p", pkg], cwd=C.HARNESS,
                        env=C.env_offline(), timeout=timeout)
    errs = "\n".join(l for l in out.split("\n") if not l.startswith("warning"))
    return rc == 0, (out[-6000:] if rc != 0 else ""), os.path.join(C.TARGET, "debug", pkg)


def build_capy(timeout=3000):
    """Build the capy executable (debug profile, hooks on). Returns (ok, out, path)."""
    with C.locked("cargo"):
        _invalidate_if_sources_changed()
        rc, out = C.run(["cargo", "build", "--offline", "-q", "-p", "capy"], cwd=C.REPO,
                        env=C.env_offline(),
                        timeout=timeout)
    return rc == 0, (out[-6000:] if rc != 0 else ""), os.path.join(C.TARGET, "debug", "capy")
