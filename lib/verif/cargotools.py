"""Rust side: build harness binaries and the capy executable from /repo's
current working tree with the verification cfg enabled."""
import os
import shutil

from . import common as C


def build_harness(pkg, timeout=3000):
    """cargo build -p <pkg> in the harness workspace. Returns (ok, output, bin path)."""
    lock_src = os.path.join(C.REPO, "Cargo.lock")
    lock_dst = os.path.join(C.HARNESS, "Cargo.lock")
    with C.locked("cargo"):
        if not os.path.exists(lock_dst):
            shutil.copy(lock_src, lock_dst)
        rc, out = C.run(["cargo", "build", "--offline", "-q", "-p", pkg], cwd=C.HARNESS,
                        env=C.env_offline(), timeout=timeout)
    errs = "\n".join(l for l in out.split("\n") if not l.startswith("warning"))
    return rc == 0, (out[-6000:] if rc != 0 else ""), os.path.join(C.TARGET, "debug", pkg)


def build_capy(timeout=3000):
    """Build the capy executable (debug profile, hooks on). Returns (ok, out, path)."""
    with C.locked("cargo"):
        rc, out = C.run(["cargo", "build", "--offline", "-q", "-p", "capy"], cwd=C.REPO,
                        env=C.env_offline(),
                        timeout=timeout)
    return rc == 0, (out[-6000:] if rc != 0 else ""), os.path.join(C.TARGET, "debug", "capy")
