"""setup_cmd: build everything from files on disk (offline)."""
import glob
import os
import sys

from . import common as C
from . import coqtools, cargotools


def main():
    ok = True
    coqtools.ensure_makefile()
    good, out = coqtools.make([], timeout=7200)
    print("coq make:", "ok" if good else "FAILED")
    if not good:
        print(out[-3000:])
        ok = False
    z = {"C08", "C09", "C17", "C02", "C18", "C19"}
    for ex in sorted(glob.glob(os.path.join(C.OCAML, "*", "extract.v"))):
        prop = os.path.basename(os.path.dirname(ex))
        use_z = os.path.exists(os.path.join(os.path.dirname(ex), "USE_Z"))
        g, o, _ = coqtools.build_driver(prop, use_z)
        print("driver", prop, "ok" if g else "FAILED")
        if not g:
            print(o[-2000:])
            ok = False
    import tomllib
    members = tomllib.load(open(os.path.join(C.HARNESS, "Cargo.toml"), "rb"))["workspace"]["members"]
    dirs = []
    for m in members:
        dirs += sorted(d for d in glob.glob(os.path.join(C.HARNESS, m)) if os.path.exists(os.path.join(d, "Cargo.toml")))
    for d in dirs:
        pkg = tomllib.load(open(os.path.join(d, "Cargo.toml"), "rb"))["package"]["name"]
        g, o, _ = cargotools.build_harness(pkg)
        print("harness", pkg, "ok" if g else "FAILED")
        if not g:
            print(o[-3000:])
            ok = False
    g, o, _ = cargotools.build_capy()
    print("capy", "ok" if g else "FAILED")
    if not g:
        print(o[-3000:])
        ok = False
    return 0 if ok else 1


if __name__ == "__main__":
    sys.exit(main())
